(* Shared objects of an execution: the state of the synchronisation primitives that live outside
   the ExecutionState (inside RefCells / std mutexes of the primitives).  No proofs in this file. *)
From Coq Require Import List NArith Bool.
From SV Require Import Clock.VClock.
Import ListNotations.

(* BatchSemaphore (shuttle-engine/src/future/batch_semaphore.rs) *)
Record waiter := mkWaiter {
  wt_task : nat;               (* task_id, refreshed on every pending poll *)
  wt_n : N;                    (* num_permits *)
  wt_queued : bool;
  wt_has : bool;               (* has_permits *)
  wt_clock : vclock;           (* creator's clock at creation, never refreshed *)
  wt_waker : option nat;       (* the task the stored Waker wakes *)
}.

Record sem := mkSem {
  sm_avail : N;
  sm_batches : option (list (N * vclock));   (* permit_clocks; None until first use after const_new *)
  sm_last_acquire : vclock;
  sm_queue : list nat;                        (* indices into sm_wtab, front first *)
  sm_wtab : list waiter;                      (* every Waiter ever created (the Arc identities) *)
  sm_closed : bool;
  sm_fair : bool;                             (* Fairness::StrictlyFair *)
}.

Inductive obj :=
| OAtomic (v : N) (c : vclock)                (* shuttle-std Atomic<T>: value + clock *)
| OSem (s : sem)
| OMutex (holder : option nat) (s : sem) (poisoned : bool)
| ORwLock (writer : option nat) (readers : list nat) (s : sem) (poisoned : bool).

Definition store := list obj.

Definition get_obj (s : store) (i : nat) : option obj := nth_error s i.

Fixpoint set_obj (s : store) (i : nat) (o : obj) : store :=
  match s, i with
  | [], _ => []
  | _ :: r, O => o :: r
  | x :: r, S j => x :: set_obj r j o
  end.
