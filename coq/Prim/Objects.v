(* Shared objects of an execution: the state of the synchronisation primitives that live outside
   the ExecutionState (inside RefCells / std mutexes of the primitives).  No proofs in this file. *)
From Coq Require Import List NArith Bool.
From SV Require Import Clock.VClock.
Import ListNotations.

(* BatchSemaphore (shuttle-engine/src/future/batch_semaphore.rs) *)
Record waiter := mkWaiter {
  wt_task : nat;               (* task_id, refreshed on every pending poll *)
  wt_n : N;                    (* num_permits *)
  wt_queued : bool;
  wt_has : bool;               (* has_permits *)
  wt_clock : vclock;           (* creator's clock at creation, never refreshed *)
  wt_waker : option nat;       (* the task the stored Waker wakes *)
}.

Record sem := mkSem {
  sm_avail : N;
  sm_batches : option (list (N * vclock));   (* permit_clocks; None until first use after const_new *)
  sm_last_acquire : vclock;
  sm_queue : list nat;                        (* indices into sm_wtab, front first *)
  sm_wtab : list waiter;                      (* every Waiter ever created (the Arc identities) *)
  sm_closed : bool;
  sm_fair : bool;                             (* Fairness::StrictlyFair *)
}.

(* Condvar (shuttle-std/src/sync/condvar.rs) *)
Inductive cv_status :=
| CvWaiting
| CvSignal (epochs : list (nat * vclock))      (* invariant of the source: non-empty *)
| CvBroadcast (c : vclock).

(* std mpsc channel (shuttle-std/src/sync/mpsc.rs): ChannelState *)
Record chan := mkChan {
  ch_bound : option nat;                       (* None = unbounded, Some k = sync_channel(k) *)
  ch_msgs : list (N * vclock);                 (* messages with the sender's clock *)
  ch_rclock : option (list vclock);            (* receiver_clock: only for bounded channels *)
  ch_senders : nat;                            (* known_senders *)
  ch_receivers : nat;                          (* known_receivers *)
  ch_wsend : list nat;                         (* waiting_senders, front first *)
  ch_wrecv : list nat;                         (* waiting_receivers, front first *)
}.

(* Once (shuttle-std/src/sync/once.rs): per-execution state, the flag inside the Mutex<bool> *)
Inductive once_state := OnNone | OnRunning | OnComplete (c : vclock).

(* JoinHandleInner + the abort flag of a spawned future (shuttle-std/src/future.rs) *)
Record join_inner := mkJoin {
  ji_result : option (option N);               (* None = not finished; Some (Some v) = Ok(v); Some None = Err(Cancelled) *)
  ji_waker : option nat;                       (* the task whose Waker is stored *)
  ji_aborted : bool;
}.

(* Thread-local storage of one task (shuttle-engine/src/runtime/storage.rs, StorageMap): the slots in
   insertion order of their keys (None = destructed, a tombstone) and the keys still to destruct, front first *)
Record tls_task := mkTls { tl_locals : list (nat * option N); tl_order : list nat }.

Inductive obj :=
| OAtomic (v : N) (c : vclock)                (* shuttle-std Atomic<T>: value + clock *)
| OSem (s : sem)
| OMutex (holder : option nat) (s : sem) (poisoned : bool)
| ORwLock (writer : option nat) (readers : list nat) (s : sem) (poisoned : bool)
| OCondvar (waiters : list (nat * cv_status)) (next_epoch : nat)
| OChan (c : chan)
| OBarrier (bound : nat) (epoch : nat) (waiters : list nat) (leader_tokens : list nat) (clk : vclock)
| OOnce (st : once_state) (flag : bool) (mutex : nat)      (* `mutex` = index of the object holding the inner Mutex<bool> *)
| OCell (vals : list N) (clk : vclock)
| OJoins (l : list (nat * join_inner))
| OTls (l : list (nat * tls_task))                           (* per task id: its StorageMap *)
| OKey (init : N) (dtor : option nat)                        (* a thread_local! key of the harness: initial value, body run by the value's destructor *)
| OScope (running : nat) (main : nat) (waiting : bool).     (* thread::Scope: num_running_threads, main_task, main blocked at the end of scope() *)                     (* per async task id: its JoinHandle state *)                     (* plain shared cell used by the harness (join results etc.) *)

Definition store := list obj.

Definition get_obj (s : store) (i : nat) : option obj := nth_error s i.

Fixpoint set_obj (s : store) (i : nat) (o : obj) : store :=
  match s, i with
  | [], _ => []
  | _ :: r, O => o :: r
  | x :: r, S j => x :: set_obj r j o
  end.
