(* Pure semantics of shuttle-std's atomic integer operations (sync/atomic/{mod,int,bool}.rs).
   A value of an integer type of width w is held as its bit pattern, an N below 2^w.
   No proofs in this file. *)
From Coq Require Import NArith ZArith Bool.
Open Scope N_scope.

Record aty := mkAty { a_w : N; a_signed : bool }.

Definition wrapw (w v : N) : N := v mod 2 ^ w.

(* two's-complement reading, for max/min on signed types *)
Definition to_Z (ty : aty) (v : N) : Z :=
  if a_signed ty && N.leb (2 ^ (a_w ty - 1)) v then (Z.of_N v - Z.of_N (2 ^ a_w ty))%Z else Z.of_N v.

Inductive aop :=
| ALoad | AStore (v : N) | ASwap (v : N) | ACas (cur new : N)
| AAdd (v : N) | ASub (v : N) | AAnd (v : N) | ANand (v : N) | AOr (v : N) | AXor (v : N)
| AMax (v : N) | AMin (v : N).

(* the closure handed to fetch_update by each derived operation: None = no store *)
Definition rmw_fun (ty : aty) (op : aop) (old : N) : option N :=
  let w := a_w ty in
  match op with
  | ACas cur new => if N.eqb old cur then Some new else None
  | AAdd v => Some (wrapw w (old + v))
  | ASub v => Some (wrapw w (old + 2 ^ w - wrapw w v))
  | AAnd v => Some (N.land old v)
  | ANand v => Some (N.lxor (N.land old v) (N.ones w))
  | AOr v => Some (N.lor old v)
  | AXor v => Some (N.lxor old v)
  | AMax v => Some (if Z.leb (to_Z ty old) (to_Z ty v) then v else old)
  | AMin v => Some (if Z.leb (to_Z ty old) (to_Z ty v) then old else v)
  | _ => None
  end.

(* (new value if a store happens, success flag, value returned) *)
Definition a_apply (ty : aty) (op : aop) (old : N) : option N * bool * N :=
  match op with
  | ALoad => (None, true, old)
  | AStore v => (Some v, true, 0)
  | ASwap v => (Some v, true, old)
  | _ => match rmw_fun ty op old with
         | Some new => (Some new, true, old)
         | None => (None, false, old)
         end
  end.

(* which clock transfers the operation performs: (exhale = acquire the variable's clock,
   inhale = publish the task's clock into the variable) *)
Definition a_exhales (op : aop) : bool := match op with AStore _ => false | _ => true end.
Definition a_inhales (ty : aty) (op : aop) (old : N) : bool :=
  match op with
  | ALoad => false
  | AStore _ | ASwap _ => true
  | _ => match rmw_fun ty op old with Some _ => true | None => false end
  end.

Definition u64 : aty := mkAty 64 false.
