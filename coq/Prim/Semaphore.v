(* Model of BatchSemaphore (shuttle-engine/src/future/batch_semaphore.rs): every function is one
   block of sequential code between two scheduling points, acting on the execution state and on the
   semaphore's own state.  `None` results are Rust panics (assert!/unwrap/expect/unreachable!).
   No proofs in this file. *)
From Coq Require Import List NArith Bool Arith.
From SV Require Import Clock.VClock Prim.Objects Engine.Exec.
Import ListNotations.
Open Scope N_scope.

Definition set_avail (s : sem) (a : N) : sem :=
  mkSem a (sm_batches s) (sm_last_acquire s) (sm_queue s) (sm_wtab s) (sm_closed s) (sm_fair s).
Definition set_batches (s : sem) (b : option (list (N * vclock))) : sem :=
  mkSem (sm_avail s) b (sm_last_acquire s) (sm_queue s) (sm_wtab s) (sm_closed s) (sm_fair s).
Definition set_last (s : sem) (c : vclock) : sem :=
  mkSem (sm_avail s) (sm_batches s) c (sm_queue s) (sm_wtab s) (sm_closed s) (sm_fair s).
Definition set_queue (s : sem) (q : list nat) : sem :=
  mkSem (sm_avail s) (sm_batches s) (sm_last_acquire s) q (sm_wtab s) (sm_closed s) (sm_fair s).
Definition set_wtab (s : sem) (t : list waiter) : sem :=
  mkSem (sm_avail s) (sm_batches s) (sm_last_acquire s) (sm_queue s) t (sm_closed s) (sm_fair s).
Definition set_closed (s : sem) (b : bool) : sem :=
  mkSem (sm_avail s) (sm_batches s) (sm_last_acquire s) (sm_queue s) (sm_wtab s) b (sm_fair s).

(* BatchSemaphore::const_new / new (the latter records the creator's clock on the first batch) *)
Definition sem_const_new (n : N) (fair : bool) : sem := mkSem n None [] [] [] false fair.
Definition sem_new (n : N) (fair : bool) (c : vclock) : sem :=
  mkSem n (Some (if N.eqb n 0 then [] else [(n, c)])) [] [] [] false fair.

Definition get_waiter (s : sem) (wid : nat) : option waiter := nth_error (sm_wtab s) wid.
Definition upd_waiter (s : sem) (wid : nat) (f : waiter -> waiter) : sem :=
  set_wtab s (list_upd (sm_wtab s) wid f).

Definition w_set_queued (w : waiter) (b : bool) := mkWaiter (wt_task w) (wt_n w) b (wt_has w) (wt_clock w) (wt_waker w).
Definition w_set_has (w : waiter) (b : bool) := mkWaiter (wt_task w) (wt_n w) (wt_queued w) b (wt_clock w) (wt_waker w).
Definition w_set_waker (w : waiter) (k : option nat) := mkWaiter (wt_task w) (wt_n w) (wt_queued w) (wt_has w) (wt_clock w) k.
Definition w_set_task (w : waiter) (t : nat) := mkWaiter t (wt_n w) (wt_queued w) (wt_has w) (wt_clock w) (wt_waker w).

(* ---------------- PermitsAvailable ---------------- *)
Definition init_batches (s : sem) : list (N * vclock) :=
  match sm_batches s with
  | Some b => b
  | None => if N.eqb (sm_avail s) 0 then [] else [(sm_avail s, [])]
  end.

(* the while-let loop of PermitsAvailable::acquire: returns remaining batches, joined clock, permits still missing *)
Fixpoint take_batches (bs : list (N * vclock)) (k : N) (clk : vclock) : list (N * vclock) * vclock * N :=
  match bs with
  | [] => ([], clk, k)
  | (size, bc) :: r =>
    let clk' := update clk bc in
    if N.ltb k size then ((size - k, bc) :: r, clk', 0)
    else let k' := k - size in
         if N.eqb k' 0 then (r, clk', 0) else take_batches r k' clk'
  end.

Inductive pa_res := PaOk (s : sem) (c : vclock) | PaNoPermits | PaCrash.

Definition permits_acquire (s : sem) (k : N) (acq_clock : vclock) : pa_res :=
  if N.eqb k 0 then PaOk s []
  else if N.leb k (sm_avail s) then
    let bs := init_batches s in
    let '(bs', clk, missing) := take_batches bs k [] in
    if N.eqb missing 0 then
      PaOk (set_batches (set_avail (set_last s (update (sm_last_acquire s) acq_clock)) (sm_avail s - k)) (Some bs')) clk
    else PaCrash                                   (* assert_eq!(num_permits, 0) *)
  else PaNoPermits.

Definition permits_release (s : sem) (k : N) (c : vclock) : sem :=
  set_batches (set_avail s (sm_avail s + k)) (Some (init_batches s ++ [(k, c)])).

(* ---------------- BatchSemaphoreState ---------------- *)
Inductive acq_res := AOk | ANoPermits | AClosed.

(* acquire_permits: None = assert!(num_permits > 0) or an engine panic *)
Definition acquire_permits (e : exec) (s : sem) (k : N) : option (exec * sem * acq_res) :=
  if N.eqb k 0 then None
  else if sm_closed s then Some (e, s, AClosed)
  else if (match sm_queue s with [] => true | _ => false end) || negb (sm_fair s) then
    match me e with
    | None => None
    | Some m =>
      match e_clock e m with
      | None => None
      | Some mc =>
        match permits_acquire s k mc with
        | PaOk s' clk => match e_update_clock e m clk with Some e' => Some (e', s', AOk) | None => None end
        | PaNoPermits => Some (e, s, ANoPermits)
        | PaCrash => None
        end
      end
    end
  else Some (e, s, ANoPermits).

Definition task_finished (e : exec) (t : nat) : option bool :=
  match get_task e t with Some tk => Some (is_finished tk) | None => None end.

(* waker.wake() on an Option<Waker> that has been take()n *)
Definition wake_opt (e : exec) (w : option nat) : option exec :=
  match w with Some t => e_waker_wake e t | None => Some e end.

(* unblock_waiters_from_front; fuel = queue length (each round pops one entry or stops) *)
Fixpoint unblock_front (fuel : nat) (e : exec) (s : sem) : option (exec * sem) :=
  match fuel with
  | O => Some (e, s)
  | S f =>
    match sm_queue s with
    | [] => Some (e, s)
    | wid :: rest =>
      match get_waiter s wid with
      | None => None
      | Some w =>
        let stale := negb (in_cleanup e) && (match task_finished e (wt_task w) with Some true => true | _ => false end) in
        if stale then
          unblock_front f e (upd_waiter (set_queue s rest) wid (fun w => w_set_waker (w_set_queued w false) None))
        else if N.leb (wt_n w) (sm_avail s) then
          match permits_acquire (set_queue s rest) (wt_n w) (wt_clock w) with
          | PaOk s1 clk =>
            if negb (wt_queued w) then None                      (* assert!(is_queued.swap(false)) *)
            else if wt_has w then None                            (* assert!(!has_permits.swap(true)) *)
            else
              let s2 := upd_waiter s1 wid (fun w => w_set_waker (w_set_has (w_set_queued w false) true) None) in
              match task_finished e (wt_task w) with
              | Some false =>
                match e_join_clock e (wt_task w) clk with
                | None => None
                | Some e1 =>
                  match e_unblock e1 (wt_task w) with
                  | None => None
                  | Some e2 => match wake_opt e2 (wt_waker w) with
                               | Some e3 => unblock_front f e3 s2
                               | None => None end
                  end
                end
              | _ => None                                          (* get_mut unwrap / assert!(!task.finished()) *)
              end
          | _ => None                                              (* .unwrap() *)
          end
        else Some (e, s)
      end
    end
  end.

(* reblock_if_unfair *)
Definition reblock_step (s : sem) (acc : option exec) (wid : nat) : option exec :=
  match acc with
  | None => None
  | Some e =>
    match get_waiter s wid with
    | None => None
    | Some w =>
      (* waiters of the running task are skipped: it is not suspended on them (it has just acquired permits
         through another request) *)
      if N.ltb (sm_avail s) (wt_n w) && negb (match me e with Some m => Nat.eqb m (wt_task w) | None => false end)
         && (match task_finished e (wt_task w) with Some false => true | _ => false end)
      then e_block e (wt_task w) false else Some e
    end
  end.
Definition reblock_if_unfair (e : exec) (s : sem) : option exec :=
  if sm_fair s then Some e else fold_left (reblock_step s) (sm_queue s) (Some e).

(* enqueue_waiter *)
Definition enqueue_waiter (s : sem) (wid : nat) : option sem :=
  match get_waiter s wid with
  | None => None
  | Some w => if wt_has w then None else if wt_queued w then None
              else Some (upd_waiter (set_queue s (sm_queue s ++ [wid])) wid (fun w => w_set_queued w true))
  end.

Fixpoint position_nat (x : nat) (l : list nat) : option nat :=
  match l with [] => None | y :: r => if Nat.eqb y x then Some O else option_map S (position_nat x r) end.
Fixpoint remove_nth {A} (l : list A) (i : nat) : list A :=
  match l, i with [], _ => [] | _ :: r, O => r | x :: r, S j => x :: remove_nth r j end.

(* remove_waiter *)
Definition remove_waiter (e : exec) (s : sem) (wid : nat) : option (exec * sem) :=
  if sm_closed s then None else
  match get_waiter s wid with
  | None => None
  | Some w =>
    if wt_has w then None else
    match position_nat wid (sm_queue s) with
    | None => None                                                 (* expect("did not find waiter") *)
    | Some idx =>
      if negb (wt_queued w) then None else
      let s1 := upd_waiter (set_queue s (remove_nth (sm_queue s) idx)) wid (fun w => w_set_queued w false) in
      if sm_fair s && Nat.eqb idx 0 then unblock_front (length (sm_queue s1)) e s1 else Some (e, s1)
    end
  end.

(* ExecutionState::should_stop; None = assert_ne!(current_task, Finished) *)
Definition should_stop (e : exec) : option bool :=
  if panicking e then Some true else
  match current e with SFinished => None | SStopped => Some true | _ => Some false end.

(* the body of release() after its leading switch *)
Definition sem_release (e : exec) (s : sem) (k : N) : option (exec * sem) :=
  if N.eqb k 0 then Some (e, s) else
  match should_stop e with
  | None => None
  | Some true =>
    let s1 := permits_release s k [] in
    let s2 := fold_left (fun s wid => upd_waiter s wid (fun w => w_set_queued w false)) (sm_queue s1) s1 in
    Some (e, set_closed (set_queue s2 []) true)
  | Some false =>
    match me e with
    | None => None
    | Some m =>
      match e_increment_clock e m with
      | None => None
      | Some e1 =>
        match e_clock e1 m with
        | None => None
        | Some mc =>
          let s1 := permits_release s k mc in
          if sm_fair s1 then unblock_front (length (sm_queue s1)) e1 s1
          else
            let avail := sm_avail s1 in
            match fold_left (fun acc wid =>
                    match acc with
                    | None => None
                    | Some e =>
                      match get_waiter s1 wid with
                      | None => None
                      | Some w =>
                        if N.leb (wt_n w) avail then
                          match task_finished e (wt_task w) with
                          | None => None                            (* get_mut unwrap *)
                          | Some true => Some e                     (* stale: skipped *)
                          | Some false =>
                            match e_unblock e (wt_task w) with
                            | Some e' => wake_opt e' (wt_waker w)   (* wake_by_ref: the waker stays stored *)
                            | None => None end
                          end
                        else Some e
                      end
                    end) (sm_queue s1) (Some e1) with
            | Some e2 => Some (e2, s1)
            | None => None
            end
        end
      end
    end
  end.

(* close_no_scheduling_point *)
Definition sem_close (e : exec) (s : sem) : option (exec * sem) :=
  if sm_closed s then Some (e, s) else
  let s0 := set_closed s true in
  match fold_left (fun acc wid =>
          match acc with
          | None => None
          | Some (e, s) =>
            match get_waiter s wid with
            | None => None
            | Some w =>
              if negb (wt_queued w) then None else if wt_has w then None else
              let s' := upd_waiter s wid (fun w => w_set_waker (w_set_queued w false) None) in
              match task_finished e (wt_task w) with
              | None => None                                        (* exec_state.get(..) unwrap *)
              | Some fin =>
                let e1 := if negb (in_cleanup e) && negb fin then e_unblock e (wt_task w) else Some e in
                match e1 with
                | None => None
                | Some e1 => match wake_opt e1 (wt_waker w) with Some e2 => Some (e2, s') | None => None end
                end
              end
            end
          end) (sm_queue s0) (Some (e, s0)) with
  | Some (e', s') => Some (e', set_queue s' [])
  | None => None
  end.

(* the body of try_acquire() after its leading switch *)
Definition sem_try_acquire (e : exec) (s : sem) (k : N) : option (exec * sem * acq_res) :=
  match acquire_permits e s k with
  | None => None
  | Some (e1, s1, AOk) => match reblock_if_unfair e1 s1 with Some e2 => Some (e2, s1, AOk) | None => None end
  | Some (e1, s1, r) =>
    match me e1 with
    | Some m => match e_update_clock e1 m (sm_last_acquire s1) with Some e2 => Some (e2, s1, r) | None => None end
    | None => None
    end
  end.

(* ---------------- the Acquire future ---------------- *)
(* Acquire::new: a fresh Waiter owned by the current task *)
Definition sem_new_waiter (e : exec) (s : sem) (k : N) : option (sem * nat) :=
  match me e with
  | None => None
  | Some m => match e_clock e m with
              | Some c => Some (set_wtab s (sm_wtab s ++ [mkWaiter m k false false c None]), length (sm_wtab s))
              | None => None end
  end.

(* does the first poll start with a scheduling point? *)
Definition poll_needs_switch (s : sem) (wid : nat) (never_polled : bool) : option bool :=
  match get_waiter s wid with
  | None => None
  | Some w =>
    let will_succeed := wt_has w || sm_closed s || N.leb (wt_n w) (sm_avail s) in
    Some (never_polled && (will_succeed || sm_fair s))
  end.

Inductive poll_res := PReadyOk | PReadyErr | PPending.

(* Acquire::poll after the conditional switch; `wk` is the task the context's waker wakes *)
Definition sem_poll (e : exec) (s : sem) (wid : nat) (wk : nat) : option (exec * sem * poll_res) :=
  match get_waiter s wid, me e with
  | Some w, Some m =>
    if wt_has w then (if wt_queued w then None else Some (e, s, PReadyOk))
    else if sm_closed s then (if wt_queued w then None else Some (e, s, PReadyErr))
    else
      let queued := wt_queued w in
      if negb (Bool.eqb queued (match wt_waker w with Some _ => true | None => false end)) then None   (* assert_eq! *)
      else if sm_fair s && queued then
        Some (e, upd_waiter s wid (fun w => w_set_task (w_set_waker w (Some wk)) m), PPending)
      else
        match acquire_permits e s (wt_n w) with
        | None => None
        | Some (e1, s1, AOk) =>
          let r := if queued then remove_waiter e1 s1 wid else Some (e1, s1) in
          match r with
          | None => None
          | Some (e2, s2) =>
            let s3 := upd_waiter s2 wid (fun w => w_set_has w true) in
            match reblock_if_unfair e2 s3 with Some e3 => Some (e3, s3, PReadyOk) | None => None end
          end
        | Some (e1, s1, ANoPermits) =>
          let s2 := upd_waiter s1 wid (fun w => w_set_task (w_set_waker w (Some wk)) m) in
          if queued then Some (e1, s2, PPending)
          else match enqueue_waiter s2 wid with Some s3 => Some (e1, s3, PPending) | None => None end
        | Some (_, _, AClosed) => None                               (* unreachable!() *)
        end
  | _, _ => None
  end.

(* Drop for Acquire: what it does and whether a release (with its own switch) must follow *)
Inductive drop_res := DNothing | DRemoved | DMustRelease (k : N).
Definition sem_drop_acquire (e : exec) (s : sem) (wid : nat) (completed : bool) : option (exec * sem * drop_res) :=
  match get_waiter s wid with
  | None => None
  | Some w =>
    if wt_queued w then match remove_waiter e s wid with Some (e', s') => Some (e', s', DRemoved) | None => None end
    else if wt_has w && negb completed then Some (e, s, DMustRelease (wt_n w))
    else Some (e, s, DNothing)
  end.
