(* Thread-local storage: LocalKey::try_with, Task::init_local / local / pop_local
   (shuttle-engine/src/thread_support.rs, runtime/storage.rs).  The values of the harness are u64 counters.
   No proofs in this file. *)
From Coq Require Import List NArith Bool Arith.
From SV Require Import Clock.VClock Prim.Objects.
Import ListNotations.

Definition empty_tls : tls_task := mkTls [] [].

Fixpoint assoc_get {A} (l : list (nat * A)) (k : nat) : option A :=
  match l with
  | [] => None
  | (k', v) :: r => if Nat.eqb k k' then Some v else assoc_get r k
  end.

Fixpoint assoc_set {A} (l : list (nat * A)) (k : nat) (v : A) : list (nat * A) :=
  match l with
  | [] => [(k, v)]
  | (k', v') :: r => if Nat.eqb k k' then (k, v) :: r else (k', v') :: assoc_set r k v
  end.

Definition tls_table (st : store) (tls : nat) : option (list (nat * tls_task)) :=
  match get_obj st tls with Some (OTls l) => Some l | _ => None end.

Definition tls_of (l : list (nat * tls_task)) (tid : nat) : tls_task :=
  match assoc_get l tid with Some t => t | None => empty_tls end.

(* StorageMap::get: None = never initialised, Some None = already destructed *)
Definition tls_lookup (t : tls_task) (key : nat) : option (option N) := assoc_get (tl_locals t) key.

Definition W64 : N := 18446744073709551616%N.

Inductive tls_status := TlsOk | TlsInit | TlsDestroyed.
Definition n_of_tls (s : tls_status) : N := match s with TlsOk => 0 | TlsInit => 1 | TlsDestroyed => 2 end%N.

(* LocalKey::try_with(|c| { let old = c.get(); c.set(old + add); old }) by task `tid`; no scheduling point.
   `None` = the model's error value (the key object is not a key, or the table is missing). *)
Definition tls_with (st : store) (tls tid key : nat) (add : N) : option (store * tls_status * N) :=
  match tls_table st tls, get_obj st key with
  | Some l, Some (OKey init _) =>
    let t := tls_of l tid in
    match tls_lookup t key with
    | Some (Some v) =>
      Some (set_obj st tls (OTls (assoc_set l tid (mkTls (assoc_set (tl_locals t) key (Some ((v + add) mod W64)%N)) (tl_order t)))), TlsOk, v)
    | Some None => Some (st, TlsDestroyed, 0%N)
    | None =>
      Some (set_obj st tls (OTls (assoc_set l tid (mkTls (tl_locals t ++ [(key, Some ((init + add) mod W64)%N)]) (tl_order t ++ [key])))), TlsInit, init)
    end
  | _, _ => None
  end.

(* Task::pop_local: the oldest slot still initialised is taken out (it stays as a tombstone); the answer carries the
   key, the value and the body its destructor runs.  Some (st, None) = nothing left. *)
Definition tls_pop (st : store) (tls tid : nat) : option (store * option (nat * N * option nat)) :=
  match tls_table st tls with
  | Some l =>
    let t := tls_of l tid in
    match tl_order t with
    | [] => Some (st, None)
    | key :: r =>
      match tls_lookup t key, get_obj st key with
      | Some (Some v), Some (OKey _ d) =>
        Some (set_obj st tls (OTls (assoc_set l tid (mkTls (assoc_set (tl_locals t) key None) r))), Some (key, v, d))
      | _, _ => None        (* "keys in `order` must not yet be destructed" *)
      end
    end
  | None => None
  end.

(* ---- thread::Scope ---- *)
Definition scope_get (st : store) (z : nat) : option (nat * nat * bool) :=
  match get_obj st z with Some (OScope r m w) => Some (r, m, w) | _ => None end.
