(* Definitions used to state C18 (BatchSemaphore): the structural invariant of a semaphore, the
   permit accounting, the vocabulary of the fairness / cancellation / close clauses, and runs of
   semaphore blocks.  Definitions only; proofs are in Proofs/SemBase.v, SemProofs.v, SemRun.v. *)
From Coq Require Import List NArith Bool Arith.
From SV Require Import Clock.VClock Prim.Objects Engine.Exec Prim.Semaphore.
Import ListNotations.
Open Scope N_scope.

Definition held (w : waiter) : N := if wt_has w then wt_n w else 0.

Fixpoint sum_held (t : list waiter) : N :=
  match t with [] => 0 | w :: r => held w + sum_held r end.

(* permits handed to acquisitions through the waiter path (wt_has is never reset) *)
Definition granted (s : sem) : N := sum_held (sm_wtab s).

Fixpoint sum_sizes (bs : list (N * vclock)) : N :=
  match bs with [] => 0 | (n, _) :: r => n + sum_sizes r end.

(* the invariant documented on PermitsAvailable *)
Definition batches_ok (s : sem) : Prop :=
  forall bs, sm_batches s = Some bs -> sum_sizes bs = sm_avail s.

Definition runnable (e : exec) (t : nat) : Prop :=
  exists tk, get_task e t = Some tk /\ t_state tk = Runnable.

(* The "key invariants" (2) (3) (4) documented on BatchSemaphoreState, the invariant documented on
   PermitsAvailable, and the assert_eq!(is_queued, waker.is_some()) direction that holds of the
   semaphore state alone. *)
Record sem_wf (s : sem) : Prop := mk_sem_wf {
  wf_batches : batches_ok s;
  wf_nodup : NoDup (sm_queue s);
  wf_queue : forall wid, In wid (sm_queue s) ->
     exists w, get_waiter s wid = Some w /\ wt_queued w = true /\ wt_has w = false /\ wt_waker w <> None;
  wf_queued : forall wid w, get_waiter s wid = Some w -> wt_queued w = true -> In wid (sm_queue s);
  wf_closed : sm_closed s = true -> sm_queue s = [];
}.

(* key invariant (1), strictly fair mode: the head of the queue never fits *)
Definition head_blocked (s : sem) : Prop :=
  match sm_queue s with
  | [] => True
  | wid :: _ => exists w, get_waiter s wid = Some w /\ sm_avail s < wt_n w
  end.
Definition fair_head (s : sem) : Prop := sm_fair s = true -> head_blocked s.

(* engine side: the task a queued waiter points to exists *)
Definition sem_tasks_ok (e : exec) (s : sem) : Prop :=
  forall wid w, In wid (sm_queue s) -> get_waiter s wid = Some w -> (wt_task w < length (tasks e))%nat.

Definition me_in_range (e : exec) : Prop := forall m, me e = Some m -> (m < length (tasks e))%nat.

Definition sem_inv (e : exec) (s : sem) : Prop := sem_wf s /\ sem_tasks_ok e s.

(* the condition under which a request for k permits is served on the spot *)
Definition can_acquire (s : sem) (k : N) : Prop :=
  0 < k /\ sm_closed s = false /\ (sm_queue s = [] \/ sm_fair s = false) /\ k <= sm_avail s.

(* the engine side of a successful acquire: the current task exists and its own clock entry can be
   incremented (it exists and is below u32::MAX) *)
Definition clock_ok (e : exec) : Prop :=
  exists m tk c, me e = Some m /\ get_task e m = Some tk /\ increment (t_clock tk) m = Some c.

Definition ub_stale (e : exec) (w : waiter) : bool :=
  negb (in_cleanup e) && (match task_finished e (wt_task w) with Some true => true | _ => false end).
Definition stale_upd (w : waiter) : waiter := w_set_waker (w_set_queued w false) None.
Definition grant_upd (w : waiter) : waiter := w_set_waker (w_set_has (w_set_queued w false) true) None.

Definition repoint (wk m : nat) (w : waiter) : waiter := w_set_task (w_set_waker w (Some wk)) m.

Inductive sem_op :=
(* the public blocks *)
| OpTryAcquire (k : N)
| OpRelease (k : N)
| OpNewWaiter (k : N)                       (* Acquire::new *)
| OpPoll (wid wk : nat)                     (* Acquire::poll, wk = the task the context's waker wakes *)
| OpDrop (wid : nat) (completed : bool)     (* Drop for Acquire *)
| OpClose
(* internal blocks run on their own *)
| OpAcquirePermits (k : N)
| OpUnblockFront
| OpReblock
| OpRemove (wid : nat)
(* whatever the scheduler and the other tasks do to the engine between two blocks *)
| OpEnv (e' : exec).

Record run_state := mkRun {
  rs_e : exec;
  rs_s : sem;
  rs_taken : N;        (* permits taken directly: successful try_acquire / bare acquire_permits *)
  rs_released : N;     (* permits passed to release *)
}.

Definition step (st : run_state) (op : sem_op) : option run_state :=
  let e := rs_e st in let s := rs_s st in
  match op with
  | OpTryAcquire k =>
    match sem_try_acquire e s k with
    | Some (e', s', r) => Some (mkRun e' s' (rs_taken st + match r with AOk => k | _ => 0 end) (rs_released st))
    | None => None end
  | OpRelease k =>
    match sem_release e s k with
    | Some (e', s') => Some (mkRun e' s' (rs_taken st) (rs_released st + k))
    | None => None end
  | OpNewWaiter k =>
    match sem_new_waiter e s k with
    | Some (s', _) => Some (mkRun e s' (rs_taken st) (rs_released st))
    | None => None end
  | OpPoll wid wk =>
    match sem_poll e s wid wk with
    | Some (e', s', _) => Some (mkRun e' s' (rs_taken st) (rs_released st))
    | None => None end
  | OpDrop wid completed =>
    match sem_drop_acquire e s wid completed with
    | Some (e', s', _) => Some (mkRun e' s' (rs_taken st) (rs_released st))
    | None => None end
  | OpClose =>
    match sem_close e s with
    | Some (e', s') => Some (mkRun e' s' (rs_taken st) (rs_released st))
    | None => None end
  | OpAcquirePermits k =>
    match acquire_permits e s k with
    | Some (e', s', r) => Some (mkRun e' s' (rs_taken st + match r with AOk => k | _ => 0 end) (rs_released st))
    | None => None end
  | OpUnblockFront =>
    match unblock_front (length (sm_queue s)) e s with
    | Some (e', s') => Some (mkRun e' s' (rs_taken st) (rs_released st))
    | None => None end
  | OpReblock =>
    match reblock_if_unfair e s with
    | Some e' => Some (mkRun e' s (rs_taken st) (rs_released st))
    | None => None end
  | OpRemove wid =>
    match remove_waiter e s wid with
    | Some (e', s') => Some (mkRun e' s' (rs_taken st) (rs_released st))
    | None => None end
  | OpEnv e' => Some (mkRun e' s (rs_taken st) (rs_released st))
  end.

Fixpoint run (st : run_state) (ops : list sem_op) : option run_state :=
  match ops with
  | [] => Some st
  | op :: r => match step st op with Some st' => run st' r | None => None end
  end.

Definition init_state (e : exec) (s : sem) : run_state := mkRun e s 0 0.
