(* Extraction of the executable model.  Only ExtrOcamlBasic is used: bool, option, unit, list,
   prod, sumbool, sumor map to OCaml's types; N, positive, nat, Z stay extracted datatypes.
   No Extract Constant directives. *)
Require Extraction.
Require ExtrOcamlBasic.
From Coq Require Import List NArith.
From SV Require Import Params Codec.Varint Codec.Schedule Clock.VClock Prim.Objects Prim.Atomic Engine.Exec Lang.Prog Sched.Dfs.
Extraction Language OCaml.
Separate Extraction
  N.add N.mul N.sub N.div N.modulo N.eqb N.ltb N.leb N.of_nat N.to_nat N.succ N.pred N.compare
  Codec.Schedule.ser Codec.Schedule.deser Codec.Schedule.ser_bytes Codec.Schedule.deser_bytes
  Lang.Prog.run_prog Clock.VClock.partial_cmp Clock.VClock.vle
  Sched.Dfs.dfs_run Sched.Dfs.dfs_outcome Sched.Dfs.leaves Sched.Dfs.truncate Sched.Dfs.wf_treeb Sched.Dfs.next_task Sched.Dfs.new_execution Sched.Dfs.dfs_new.
