(* Extraction of the executable model.  Only ExtrOcamlBasic is used: bool, option, unit, list,
   prod, sumbool, sumor map to OCaml's types; N, positive, nat, Z stay extracted datatypes.
   No Extract Constant directives. *)
Require Extraction.
Require ExtrOcamlBasic.
From Coq Require Import List NArith.
From SV Require Import Params Codec.Varint Codec.Schedule Clock.VClock Prim.Objects Prim.Atomic Engine.Exec Engine.Failure Engine.Runner Prim.Semaphore Lang.SyncOps Lang.SyncOps2 Lang.AsyncOps Lang.Prog Lang.ProgRun Sched.Dfs Sched.Random Sched.Pct Sched.Replay Sched.ReplayTarget Sched.Urw Lang.PlMap Lang.PlOps Lang.TokOps Lang.TokNotify Lang.TokWatch Lang.Tok.
Extraction Language OCaml.
Separate Extraction
  N.add N.mul N.sub N.div N.modulo N.eqb N.ltb N.leb N.of_nat N.to_nat N.succ N.pred N.compare
  Codec.Schedule.ser Codec.Schedule.deser Codec.Schedule.ser_bytes Codec.Schedule.deser_bytes
  Lang.Prog.run_prog Lang.Prog.run_prog_dfs Lang.ProgRun.run_prog_replay Lang.SyncOps.mutex_new Lang.SyncOps.rwlock_new Lang.SyncOps.semaphore_new Lang.SyncOps2.chan_new Lang.SyncOps2.set_senders Engine.Runner.is_failure Lang.Prog.prog_count_t Clock.VClock.partial_cmp Clock.VClock.vle Clock.VClock.extend Clock.VClock.increment Clock.VClock.update
  Sched.Dfs.dfs_run Sched.Dfs.dfs_outcome Sched.Dfs.leaves Sched.Dfs.truncate Sched.Dfs.wf_treeb Sched.Dfs.next_task Sched.Dfs.new_execution Sched.Dfs.dfs_new
  Sched.Random.rs_new_from_seed Sched.Random.rs_new_execution Sched.Random.rs_next_task Sched.Random.rs_next_u64
  Sched.Pct.pct_new_from_seed Sched.Pct.pct_new_execution Sched.Pct.pct_next_task Sched.Pct.pct_next_u64
  Sched.Random.fd_initialize Sched.Random.fd_reinitialize Sched.Random.fd_next_u64 Sched.Random.pcg_from_seed_u64 Sched.Random.pcg_next_u64 Sched.Replay.replay Sched.Urw.urw_new_from_seed Sched.Urw.urw_new_execution Sched.Urw.urw_next_task Sched.Urw.urw_next_u64 Sched.ReplayTarget.rt_next_task Sched.ReplayTarget.rt_next_u64 Sched.Random.ds_initialize Sched.Random.ds_reinitialize Sched.Random.ds_next_u64 Engine.Failure.do_history Engine.Failure.init_pstate Engine.Failure.portfolio_run Engine.Failure.ug_run Engine.Failure.ug_history Engine.Failure.panic_result
  Lang.PlOps.run_pl Lang.PlMap.hist_results
  Lang.Tok.run_tok Lang.TokOps.mpsc_new Lang.TokOps.tok_sem_new Lang.TokNotify.notify_new Lang.TokNotify.oneshot_new Lang.TokWatch.watch_new Lang.Tok.oc_new.
