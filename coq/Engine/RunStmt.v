(* Statements about Runner::run (the iteration loop, Engine/Runner.v).  No proofs in this file. *)
From Coq Require Import List NArith Bool Arith.
From SV Require Import Params Clock.VClock Prim.Objects Engine.Exec Engine.Runner.
Import ListNotations.

Definition execs_of {SS} (r : list (world * Exec.outcome) * SS * bool) := fst (fst r).

(* `max_time = None` is the loop without clock readings *)
Definition stmt_time_never : Prop :=
  forall SS (fs : full_scheduler SS) ms efuel main objs expired iters i0 st,
    (forall i, i0 <= i -> expired i = false) ->
    runner_loop_t expired i0 fs ms iters efuel main objs st = runner_loop fs ms iters efuel main objs st.

(* the clock is read between iterations only: the run never starts an iteration after a reading that found the
   limit expired, so it performs at most k executions when the k-th reading is the first expired one *)
Definition stmt_time_bound : Prop :=
  forall SS (fs : full_scheduler SS) ms efuel main objs expired iters i0 st k,
    i0 <= k -> expired k = true ->
    length (execs_of (runner_loop_t expired i0 fs ms iters efuel main objs st)) <= k - i0.

Definition stmt_time_started : Prop :=
  forall SS (fs : full_scheduler SS) ms efuel main objs expired iters i0 st j,
    j < length (execs_of (runner_loop_t expired i0 fs ms iters efuel main objs st)) -> expired (i0 + j) = false.

(* the limit only shortens the run *)
Definition stmt_time_prefix : Prop :=
  forall SS (fs : full_scheduler SS) ms efuel main objs expired iters i0 st,
    exists rest, execs_of (runner_loop fs ms iters efuel main objs st) =
                 execs_of (runner_loop_t expired i0 fs ms iters efuel main objs st) ++ rest.

(* a run that ends normally ends because the scheduler's budget is used up (new_execution answers None in the
   final scheduler state) or because a clock reading found the limit expired; the returned count is the number of
   body invocations (the length of the list, by construction) *)
Definition stmt_run_ends : Prop :=
  forall SS (fs : full_scheduler SS) ms efuel main objs expired iters i0 st execs st',
    runner_loop_t expired i0 fs ms iters efuel main objs st = (execs, st', true) ->
    fs_new_execution fs st' = None \/ expired (i0 + length execs) = true.

(* only the last execution of a run can be a failing one, and then the run stops there *)
Definition stmt_run_first_failure : Prop :=
  forall SS (fs : full_scheduler SS) ms efuel main objs expired iters i0 st execs st' okf,
    runner_loop_t expired i0 fs ms iters efuel main objs st = (execs, st', okf) ->
    (forall j x, j + 1 < length execs -> nth_error execs j = Some x -> is_failure (snd x) = false)
    /\ (forall x, okf = true -> In x execs -> is_failure (snd x) = false).
