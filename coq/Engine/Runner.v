(* Model of Runner::run (shuttle-engine/src/runtime/runner.rs): the iteration loop around
   Execution::run, for a scheduler with its `new_execution` method.  No proofs in this file. *)
From Coq Require Import List NArith Bool Arith.
From SV Require Import Params Clock.VClock Prim.Objects Sched.Dfs Sched.Random Engine.Exec.
Import ListNotations.

Record full_scheduler (SS : Type) := mkFull {
  fs_sched : scheduler SS;
  fs_new_execution : SS -> option SS;      (* None = "no more executions" *)
}.
Arguments fs_sched {SS}. Arguments fs_new_execution {SS}. Arguments mkFull {SS}.

Definition is_failure (o : Exec.outcome) : bool :=
  match o with OPass | OStopped => false | _ => true end.

(* Returns the executions performed (oldest first), the final scheduler state and whether the run
   ended normally (true) or by a failing execution / fuel exhaustion (false).  The number of body
   invocations is the length of the list.  `max_time` is not modelled (it is read only between
   iterations and can only shorten the list). *)
Fixpoint runner_loop {SS} (fs : full_scheduler SS) (ms : max_steps) (iters efuel : nat) (main : code) (objs : store) (st : SS)
  : list (world * Exec.outcome) * SS * bool :=
  match iters with
  | O => ([], st, false)
  | S iters' =>
    match fs_new_execution fs st with
    | None => ([], st, true)
    | Some st1 =>
      let '(w, st2, out) := run_exec (fs_sched fs) ms efuel main objs st1 in
      if is_failure out then ([(w, out)], st2, false)
      else let '(rest, st3, okflag) := runner_loop fs ms iters' efuel main objs st2 in ((w, out) :: rest, st3, okflag)
    end
  end.

(* The same loop with `max_time`: the real loop reads the clock exactly once per iteration, before asking the
   scheduler for a new execution.  `expired i` is the outcome of that reading when i executions have been performed
   (an oracle: time itself is not modelled).  `i0` is the number of executions already performed. *)
Fixpoint runner_loop_t {SS} (expired : nat -> bool) (i0 : nat) (fs : full_scheduler SS) (ms : max_steps) (iters efuel : nat) (main : code) (objs : store) (st : SS)
  : list (world * Exec.outcome) * SS * bool :=
  match iters with
  | O => ([], st, false)
  | S iters' =>
    if expired i0 then ([], st, true) else
    match fs_new_execution fs st with
    | None => ([], st, true)
    | Some st1 =>
      let '(w, st2, out) := run_exec (fs_sched fs) ms efuel main objs st1 in
      if is_failure out then ([(w, out)], st2, false)
      else let '(rest, st3, okflag) := runner_loop_t expired (S i0) fs ms iters' efuel main objs st2 in ((w, out) :: rest, st3, okflag)
    end
  end.

(* ---- DfsScheduler as a scheduler of the engine model ---- *)
(* ds_data = Some f: allow_random_data = true with the FixedDataSource f (seeded with DFS_RANDOM_SEED);
   None: next_u64 panics *)
Record dfs_state := mkDfsSt { ds_dfs : dfs; ds_crashed : bool; ds_data : option fd }.

Definition dfs_sched : full_scheduler dfs_state :=
  mkFull
    (mkSched
       (fun st offered cur yielding =>
          match Dfs.next_task (ds_dfs st) (map N.of_nat offered) with
          | Chose id d => (Some (N.to_nat id), mkDfsSt d (ds_crashed st) (ds_data st))
          | Crash => (None, mkDfsSt (ds_dfs st) true (ds_data st))
          end)
       (fun st => match ds_data st with
                  | None => (None, st)          (* "requested random data from DFS scheduler with allow_random_data = false" *)
                  | Some f => let '(x, f') := fd_next_u64 f in (Some x, mkDfsSt (ds_dfs st) (ds_crashed st) (Some f'))
                  end))
    (fun st => match Dfs.new_execution (ds_dfs st) with
               | Some d => Some (mkDfsSt d (ds_crashed st)
                                         (match ds_data st with Some f => Some (snd (fd_reinitialize f)) | None => None end))
               | None => None end).

Definition dfs_initial (max_iter : option nat) (allow_random_data : bool) : dfs_state :=
  mkDfsSt (dfs_new max_iter) false (if allow_random_data then Some (fd_initialize DFS_RANDOM_SEED) else None).

(* iteration counts under a time limit whose clock readings are given as a list (missing = not expired), for a
   scheduler with an iteration budget that always runs the first offered task: the count returned by Runner::run *)
Definition budget_sched : full_scheduler nat :=
  mkFull (mkSched (fun st offered _ _ => (hd_error offered, st)) (fun st => (Some 0%N, st)))
         (fun st => match st with O => None | S n => Some n end).
Definition run_count_t (expired : list bool) (budget efuel : nat) (main : code) (objs : store) : nat :=
  length (fst (fst (runner_loop_t (fun i => nth i expired false) 0 budget_sched MSNone (S budget) efuel main objs budget))).
