(* Model of failure reporting (shuttle-engine/src/runtime/failure.rs, the error mapping at the end of
   Execution::run in execution.rs): what survives from one run to the next inside a process is the panic
   hook (installed once) and the thread-local markers.  Emissions are abstract events.  No proofs here. *)
From Coq Require Import List Arith Bool.
Import ListNotations.

Inductive persistence := PNone | PPrint | PFile.
Inductive fail_kind := FkTaskPanic | FkDeadlock | FkStepBound.
Inductive emission := EmStderr | EmFile.

(* per OS thread: SCHEDULE_PERSISTED_AT (None = usize::MAX, "nothing persisted") and ACTIVE_CONFIG *)
Record tls := mkTls { persisted_at : option nat; active : option persistence }.
Record pstate := mkP { hook_installed : bool; threads : list (nat * tls) }.

Definition init_pstate : pstate := mkP false [].

Fixpoint get_tls (l : list (nat * tls)) (t : nat) : tls :=
  match l with
  | [] => mkTls None None
  | (t', x) :: r => if Nat.eqb t t' then x else get_tls r t
  end.
Fixpoint set_tls (l : list (nat * tls)) (t : nat) (x : tls) : list (nat * tls) :=
  match l with
  | [] => [(t, x)]
  | (t', y) :: r => if Nat.eqb t t' then (t, x) :: r else (t', y) :: set_tls r t x
  end.

Definition emit (cfg : persistence) : list emission :=
  match cfg with PNone => [] | PPrint => [EmStderr] | PFile => [EmFile] end.

(* persist_failure(config) on thread t with the current schedule length len *)
Definition persist_failure (p : pstate) (t : nat) (cfg : persistence) (len : nat) : list emission * pstate :=
  let x := get_tls (threads p) t in
  match persisted_at x with
  | Some n => if Nat.eqb n len then ([], p)
              else (emit cfg, mkP (hook_installed p) (set_tls (threads p) t (mkTls (Some len) (active x))))
  | None => (emit cfg, mkP (hook_installed p) (set_tls (threads p) t (mkTls (Some len) (active x))))
  end.

(* init_panic_hook(config) at the start of every execution *)
Definition init_panic_hook (p : pstate) (t : nat) (cfg : persistence) : pstate :=
  mkP true (set_tls (threads p) t (mkTls None (Some cfg))).

(* the process-wide hook, run on the panicking thread: uses that thread's active configuration *)
Definition hook (p : pstate) (t : nat) (len : nat) : list emission * pstate :=
  if hook_installed p then
    match active (get_tls (threads p) t) with
    | Some cfg => persist_failure p t cfg len
    | None => ([], p)
    end
  else ([], p).

(* One run = one execution here (the failing execution is the last one of a run; passing executions emit
   nothing and only re-run init_panic_hook).  `len` is the length of the recorded schedule at the failure. *)
Record run := mkRun { r_thread : nat; r_cfg : persistence; r_fail : option (fail_kind * nat); r_passing_before : nat }.

Fixpoint passing_execs (p : pstate) (t : nat) (cfg : persistence) (n : nat) : pstate :=
  match n with O => p | S k => passing_execs (init_panic_hook p t cfg) t cfg k end.

Definition do_run (p : pstate) (r : run) : list emission * pstate :=
  let p0 := passing_execs p (r_thread r) (r_cfg r) (r_passing_before r) in
  match r_fail r with
  | None => ([], p0)
  | Some (k, len) =>
    let p1 := init_panic_hook p0 (r_thread r) (r_cfg r) in
    match k with
    | FkTaskPanic =>
      (* the panic fires the hook first; Execution::run then calls persist_failure with its own config *)
      let '(e1, p2) := hook p1 (r_thread r) len in
      let '(e2, p3) := persist_failure p2 (r_thread r) (r_cfg r) len in
      (e1 ++ e2, p3)
    | _ =>
      (* deadlock / exceeded FailAfter bound: persist_failure first, then panic!() fires the hook *)
      let '(e1, p2) := persist_failure p1 (r_thread r) (r_cfg r) len in
      let '(e2, p3) := hook p2 (r_thread r) len in
      (e1 ++ e2, p3)
    end
  end.

Fixpoint do_history (p : pstate) (h : list run) : list (list emission) * pstate :=
  match h with
  | [] => ([], p)
  | r :: rest => let '(e, p') := do_run p r in
                 let '(es, p'') := do_history p' rest in (e :: es, p'')
  end.

(* ---- the code before the repair (kept as the witness of finding F2): the hook captured the configuration
   of the first run of the process, and the marker was never reset and was set even under PNone ---- *)
Record pstate_old := mkPO { hook_cfg_old : option persistence; marks_old : list (nat * nat) }.
Fixpoint get_mark (l : list (nat * nat)) (t : nat) : nat :=
  match l with [] => 0 | (t', n) :: r => if Nat.eqb t t' then n else get_mark r t end.
Fixpoint set_mark (l : list (nat * nat)) (t n : nat) : list (nat * nat) :=
  match l with [] => [(t, n)] | (t', m) :: r => if Nat.eqb t t' then (t, n) :: r else (t', m) :: set_mark r t n end.
Definition persist_failure_old (p : pstate_old) (t : nat) (cfg : persistence) (len : nat) : list emission * pstate_old :=
  if Nat.eqb (get_mark (marks_old p) t) len then ([], p)
  else (emit cfg, mkPO (hook_cfg_old p) (set_mark (marks_old p) t len)).
Definition do_run_old (p : pstate_old) (r : run) : list emission * pstate_old :=
  let p1 := match hook_cfg_old p with None => mkPO (Some (r_cfg r)) (marks_old p) | Some _ => p end in
  match r_fail r with
  | None => ([], p1)
  | Some (k, len) =>
    let hk := fun q => match hook_cfg_old q with Some c => persist_failure_old q (r_thread r) c len | None => ([], q) end in
    match k with
    | FkTaskPanic => let '(e1, p2) := hk p1 in let '(e2, p3) := persist_failure_old p2 (r_thread r) (r_cfg r) len in (e1 ++ e2, p3)
    | _ => let '(e1, p2) := persist_failure_old p1 (r_thread r) (r_cfg r) len in let '(e2, p3) := hk p2 in (e1 ++ e2, p3)
    end
  end.
Fixpoint do_history_old (p : pstate_old) (h : list run) : list (list emission) * pstate_old :=
  match h with
  | [] => ([], p)
  | r :: rest => let '(e, p') := do_run_old p r in
                 let '(es, p'') := do_history_old p' rest in (e :: es, p'')
  end.

(* ================= PortfolioRunner::run (runtime/runner.rs) =================
   Every member runs under its own Runner on its own OS thread; `rs` lists, in the order the members were
   added (= the order they are joined), how each member's run ended: None = returned, Some e = panicked with
   payload e.  The stop signal is raised when a member reports a failure and stop_on_first_failure is set. *)
Inductive pf_out := PfOk | PfMember (payload : nat) | PfAssert.

Definition is_some {A} (o : option A) : bool := match o with Some _ => true | None => false end.

(* `for thread in threads { if let Err(e) = thread.join() { panic = Some(e); } }` *)
Definition pf_join (rs : list (option nat)) : option nat :=
  fold_left (fun acc r => match r with Some e => Some e | None => acc end) rs None.

Definition pf_stop_signal (stop : bool) (rs : list (option nat)) : bool :=
  stop && existsb is_some rs.

(* assert!(!stop_on_first_failure || stop_signal == panic.is_some()); if let Some(e) = panic { resume_unwind(e) } *)
Definition portfolio_run (stop : bool) (rs : list (option nat)) : pf_out :=
  let panic := pf_join rs in
  if negb stop || Bool.eqb (pf_stop_signal stop rs) (is_some panic)
  then match panic with Some e => PfMember e | None => PfOk end
  else PfAssert.

(* the code before repair F34: assert!(stop_signal == panic.is_some()) *)
Definition portfolio_run_old (stop : bool) (rs : list (option nat)) : pf_out :=
  let panic := pf_join rs in
  if Bool.eqb (pf_stop_signal stop rs) (is_some panic)
  then match panic with Some e => PfMember e | None => PfOk end
  else PfAssert.

(* ================= UNGRACEFUL_SHUTDOWN_CONFIG (config.rs; written by Execution::run) =================
   A thread-local copy of the run's UngracefulShutdownConfig, read by run_to_completion (early return) and by
   PooledContinuation::drop.  Every execution writes its own run's value before anything reads it. *)
Record ug := mkUg { ug_early : bool; ug_drop : bool }.
Definition ug_default : ug := mkUg false false.
Definition ug_state := list (nat * ug).
Fixpoint ug_get (l : ug_state) (t : nat) : ug :=
  match l with [] => ug_default | (t', x) :: r => if Nat.eqb t t' then x else ug_get r t end.
Fixpoint ug_set (l : ug_state) (t : nat) (x : ug) : ug_state :=
  match l with
  | [] => [(t, x)]
  | (t', y) :: r => if Nat.eqb t t' then (t, x) :: r else (t', y) :: ug_set r t x
  end.
(* one run on thread t with configuration cfg: the value the runtime reads during the run, and the state left behind *)
Definition ug_run (s : ug_state) (t : nat) (cfg : ug) : ug * ug_state :=
  let s' := ug_set s t cfg in (ug_get s' t, s').
Definition ug_history (s : ug_state) (h : list (nat * ug)) : ug_state :=
  fold_left (fun s r => snd (ug_run s (fst r) (snd r))) h s.

(* payload of a run whose task panicked with `own`: replaced only when early return is in force and the
   unwinding task reaches a scheduling point (StepError::TaskPanicEarlyReturn) *)
Inductive panic_payload := PayOwn (p : nat) | PayEarlyReturn.
Definition panic_result (eff : ug) (unwinding_switches : bool) (own : nat) : panic_payload :=
  if ug_early eff && unwinding_switches then PayEarlyReturn else PayOwn own.
