(* Statements of the engine-level theorems, as Props (no proofs here).  Props/C0x.v prove them by
   `exact` of lemmas in Proofs/EngineProofs.v and Proofs/ReplayProofs.v. *)
From Coq Require Import List NArith Bool Arith.
From SV Require Import Clock.VClock Prim.Objects Engine.Exec Engine.Inv Sched.Replay.
Import ListNotations.

(* a finished run of the model: any scheduler, any step bound, any program tree whose library
   blocks respect the frame condition, any initial objects *)
Definition Run {SS} (sch : scheduler SS) (ms : max_steps) (fuel : nat) (main : code) (objs : store) (st : SS)
               (w : world) (st' : SS) (out : outcome) : Prop :=
  code_ok main /\ run_exec sch ms fuel main objs st = (w, st', out).

(* the trace, oldest event first *)
Definition chrono (w : world) : list event := rev (w_trace w).

(* ---------------- C08 ---------------- *)
Definition stmt_offered : Prop :=
  forall SS (sch : scheduler SS) ms fuel main objs st w st' out, Run sch ms fuel main objs st w st' out ->
  forall pre off cur y ch, In (EvDecision pre off cur y ch) (w_trace w) ->
    WF pre /\ offered_ok pre off /\ off = offered_of pre.

(* `cur` is None exactly at the first decision and otherwise the task chosen at the previous one *)
Fixpoint cur_chain (evs : list event) (prev : option nat) : Prop :=
  match evs with
  | [] => True
  | EvDecision _ _ cur _ ch :: r => cur = prev /\ cur_chain r ch
  | _ :: r => cur_chain r prev
  end.
Definition stmt_current_arg : Prop :=
  forall SS (sch : scheduler SS) ms fuel main objs st w st' out, Run sch ms fuel main objs st w st' out ->
  cur_chain (chrono w) None.

(* the flag handed to the scheduler is the pending yield request, and the request is consumed by that decision *)
Definition stmt_yield_flag : Prop :=
  forall SS (sch : scheduler SS) ms fuel main objs st w st' out, Run sch ms fuel main objs st w st' out ->
  forall pre off cur y ch, In (EvDecision pre off cur y ch) (w_trace w) -> y = has_yielded pre.
Definition stmt_yield_consumed : Prop :=
  forall SS (sch : scheduler SS) ms e st err e' st' evs pre off cur y ch,
    schedule sch ms e st = (err, e', st', evs) -> In (EvDecision pre off cur y ch) evs -> has_yielded e' = false.

(* between two decisions only the chosen task's operations are recorded *)
Fixpoint ops_by_chosen (evs : list event) (running : option nat) : Prop :=
  match evs with
  | [] => True
  | EvDecision _ _ _ _ ch :: r => ops_by_chosen r ch
  | EvOp t _ _ _ :: r => running = Some t /\ ops_by_chosen r running
  | _ :: r => ops_by_chosen r running
  end.
Definition stmt_chosen_runs : Prop :=
  forall SS (sch : scheduler SS) ms fuel main objs st w st' out, Run sch ms fuel main objs st w st' out ->
  ops_by_chosen (chrono w) None.

(* returning no task ends the execution without failure, and nothing happens afterwards *)
Definition stmt_none_stops : Prop :=
  forall SS (sch : scheduler SS) ms fuel main objs st w st' out, Run sch ms fuel main objs st w st' out ->
  forall pre off cur y, In (EvDecision pre off cur y None) (w_trace w) ->
    (out <> OFuel -> out = OStopped) /\ hd_error (w_trace w) = Some (EvDecision pre off cur y None).

(* ---------------- C03 ---------------- *)
Definition stmt_deadlock_sound : Prop :=
  forall SS (sch : scheduler SS) ms fuel main objs st w st' out ids, Run sch ms fuel main objs st w st' out ->
  out = ODeadlock ids -> Dead (w_e w) /\ ids = unfinished_ids (w_e w) /\ WF (w_e w).

Definition stmt_pass_sound : Prop :=
  forall SS (sch : scheduler SS) ms fuel main objs st w st' out, Run sch ms fuel main objs st w st' out ->
  out = OPass -> Complete (w_e w) /\ WF (w_e w).

(* the scheduler is consulted only in states that are neither dead nor complete-with-only-detached-runnables:
   the execution never ends while it is asked to continue, and is never continued once it should have ended *)
Definition stmt_decision_live : Prop :=
  forall SS (sch : scheduler SS) ms fuel main objs st w st' out, Run sch ms fuel main objs st w st' out ->
  forall pre off cur y ch, In (EvDecision pre off cur y ch) (w_trace w) ->
    ~ Dead pre /\ (exists t tk, get_task pre t = Some tk /\ is_runnable tk = true)
    /\ ~ (Complete pre /\ forall t tk, get_task pre t = Some tk -> is_runnable tk = true -> t_detached tk = true).

(* conversely: whenever `schedule` is entered with next = None, no bound reached, in a WF state that is dead or
   complete-with-only-detached-runnables, it does not consult the scheduler and marks the execution finished *)
Definition stmt_schedule_ends : Prop :=
  forall SS (sch : scheduler SS) e st, WF e -> next e = SNone ->
    (Dead e \/ ~ (exists t tk, get_task e t = Some tk /\ is_runnable tk = true)
     \/ (Complete e /\ forall t tk, get_task e t = Some tk -> is_runnable tk = true -> t_detached tk = true)) ->
    exists e', schedule sch MSNone e st = (None, e', st, []) /\ next e' = SFinished.

(* a scheduler that only returns offered tasks never drives the runtime into an internal error *)
Definition sane {SS} (sch : scheduler SS) : Prop :=
  forall st off cur y t st', s_next_task sch st off cur y = (Some t, st') -> In t off.
Definition stmt_no_internal_error : Prop :=
  forall SS (sch : scheduler SS) ms fuel main objs st w st' out, Run sch ms fuel main objs st w st' out ->
  sane sch -> out <> OSchedulerBug.

(* ---------------- C13 ---------------- *)
Definition measure (e : exec) : nat := length (recorded e) - steps_reset_at e.

Definition stmt_bound_decisions : Prop :=
  forall SS (sch : scheduler SS) ms fuel main objs st w st' out n, Run sch ms fuel main objs st w st' out ->
  bound_of ms = Some n ->
  forall pre off cur y ch, In (EvDecision pre off cur y ch) (w_trace w) -> measure pre < n.

Definition stmt_bound_fail : Prop :=
  forall SS (sch : scheduler SS) ms fuel main objs st w st' out, Run sch ms fuel main objs st w st' out ->
  out = OStepBound -> exists n, ms = FailAfter n /\ n <= measure (w_e w).

Definition stmt_bound_continue : Prop :=
  forall SS (sch : scheduler SS) n fuel main objs st w st' out, Run sch (ContinueAfter n) fuel main objs st w st' out ->
  out <> OStepBound.

(* executions that need fewer than n steps in total are unaffected by the bound n: same world, same outcome *)
Definition erase (ev : event) : event :=
  match ev with EvDecision _ off cur y ch => EvDecision init_exec off cur y ch | _ => ev end.
Definition stmt_bound_unaffected : Prop :=
  forall SS (sch : scheduler SS) ms n fuel main objs st w st' out, Run sch MSNone fuel main objs st w st' out ->
  out <> OFuel -> bound_of ms = Some n ->
  length (recorded (w_e w)) < n ->
  run_exec sch ms fuel main objs st = (w, st', out).

(* no execution ever performs more than n steps (decisions plus random draws since the last reset_step_count) *)
Definition stmt_bound_total : Prop :=
  forall SS (sch : scheduler SS) ms fuel main objs st w st' out n, Run sch ms fuel main objs st w st' out ->
  bound_of ms = Some n -> measure (w_e w) <= n.

(* ---------------- C01 ---------------- *)
(* every task the scheduler answered was among the offered ones (true of every run under a `sane` scheduler) *)
Definition decisions_offered (w : world) : Prop :=
  forall pre off cur y t, In (EvDecision pre off cur y (Some t)) (w_trace w) -> In t off.
Fixpoint nrand (l : list sstep) : nat := match l with [] => 0 | StRandom :: r => S (nrand r) | _ :: r => nrand r end.
(* every recorded random step produced a value (false only if the scheduler's data source itself failed) *)
Definition draws_complete (w : world) : Prop := nrand (recorded (w_e w)) = length (draws (w_trace w)).

(* Re-running under the replay scheduler loaded with the recorded schedule and the drawn values
   reproduces the identical world (states, objects, continuations, whole trace) and outcome; the
   replay scheduler reaches none of its panics (given the draws are complete); `rp_ended` can only be
   set if the recorded execution itself was stopped by its scheduler. *)
Definition stmt_replay : Prop :=
  forall SS (sch : scheduler SS) ms fuel main objs st w st' out, Run sch ms fuel main objs st w st' out ->
  out <> OFuel -> out <> OSchedulerBug -> decisions_offered w ->
  exists rst, run_exec replay ms fuel main objs (mkReplay (rev (recorded (w_e w))) (draws (w_trace w)) false false)
              = (w, rst, out)
           /\ (rp_failed rst = false <-> draws_complete w)
           /\ (rp_failed rst = false -> rp_ended rst = true ->
               exists pre off cur y, hd_error (w_trace w) = Some (EvDecision pre off cur y None)).

(* the recorded schedule and the drawn values determine the execution: two runs under any two
   schedulers that record the same schedule and draw the same values are identical *)
Definition stmt_schedule_complete : Prop :=
  forall SS1 SS2 (s1 : scheduler SS1) (s2 : scheduler SS2) ms fuel main objs st1 st2 w1 w2 st1' st2' o1 o2,
    Run s1 ms fuel main objs st1 w1 st1' o1 -> Run s2 ms fuel main objs st2 w2 st2' o2 ->
    o1 <> OFuel -> o2 <> OFuel -> o1 <> OSchedulerBug -> o2 <> OSchedulerBug ->
    decisions_offered w1 -> decisions_offered w2 ->
    recorded (w_e w1) = recorded (w_e w2) -> draws (w_trace w1) = draws (w_trace w2) ->
    w1 = w2 /\ o1 = o2.

(* for schedulers that only answer offered tasks and whose data source never fails, the replay is exact and clean *)
Definition total_rand {SS} (sch : scheduler SS) : Prop := forall st, fst (s_next_u64 sch st) <> None.
Definition stmt_replay_sane : Prop :=
  forall SS (sch : scheduler SS) ms fuel main objs st w st' out, Run sch ms fuel main objs st w st' out ->
  sane sch -> total_rand sch -> out <> OFuel -> out <> OSchedulerBug ->
  exists rst, run_exec replay ms fuel main objs (mkReplay (rev (recorded (w_e w))) (draws (w_trace w)) false false)
              = (w, rst, out)
           /\ rp_failed rst = false
           /\ (rp_ended rst = true -> exists pre off cur y, hd_error (w_trace w) = Some (EvDecision pre off cur y None)).
