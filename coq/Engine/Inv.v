(* Definitions used to state the engine-level theorems (C01, C03, C08, C13): the frame condition
   that library code must respect, well-formedness of an execution state, and the declarative
   notions the properties speak about.  Definitions only; proofs are in Proofs/. *)
From Coq Require Import List NArith Bool Arith.
From SV Require Import Clock.VClock Prim.Objects Engine.Exec.
Import ListNotations.

(* ---- what a block of library code (an `Atomic` node) may change ----
   It may block/unblock/wake tasks, set waiters, detach, park, touch clocks, request a yield and
   reset the step counter.  It may not touch the scheduling registers, the recorded schedule,
   the task table's length, the live set, nor finish or resurrect a task. *)
Definition same_frame (e e' : exec) : Prop :=
  current e' = current e /\ next e' = next e /\ recorded e' = recorded e
  /\ ctx_switches e' = ctx_switches e /\ live e' = live e
  /\ (panicking e = true -> panicking e' = true) /\ in_cleanup e' = in_cleanup e
  /\ length (tasks e') = length (tasks e)
  /\ (forall t tk tk', get_task e t = Some tk -> get_task e' t = Some tk' -> is_finished tk' = is_finished tk)
  /\ steps_reset_at e' <= length (recorded e')
  /\ steps_reset_at e <= steps_reset_at e'.

Definition atomic_ok (f : exec -> store -> option (exec * store * list N)) : Prop :=
  forall e s e' s' a, steps_reset_at e <= length (recorded e) -> f e s = Some (e', s', a) -> same_frame e e'.

Inductive code_ok : code -> Prop :=
| ok_ret : code_ok Ret
| ok_panic : code_ok Panic
| ok_atomic f k : atomic_ok f -> (forall a, code_ok (k a)) -> code_ok (Atomic f k)
| ok_switch k : code_ok k -> code_ok (Switch k)
| ok_rand k : (forall v, code_ok (k v)) -> code_ok (Rand k)
| ok_spawn c k : code_ok c -> (forall t, code_ok (k t)) -> code_ok (SpawnNow c k)
| ok_log tag vals k : code_ok k -> code_ok (Log tag vals k).

(* ---- well-formed execution states ---- *)
Definition unfinished (e : exec) (t : nat) : bool :=
  match get_task e t with Some tk => negb (is_finished tk) | None => false end.

Definition sched_in_range (e : exec) (s : sched_task) : Prop :=
  match s with SSome t => t < length (tasks e) | _ => True end.

Record WF (e : exec) : Prop := mkWF {
  wf_live : live e = filter (unfinished e) (seq 0 (length (tasks e)));
  wf_current : sched_in_range e (current e);
  wf_next : sched_in_range e (next e);
  wf_reset : steps_reset_at e <= length (recorded e);
}.

Definition conts_ok (w : world) : Prop :=
  length (w_conts w) = length (tasks (w_e w))
  /\ forall t c, nth_error (w_conts w) t = Some (Some c) -> code_ok c.

(* ---- declarative notions of the properties ---- *)
Fixpoint strictly_ascending (l : list nat) : Prop :=
  match l with
  | [] => True
  | x :: r => match r with [] => True | y :: _ => x < y end /\ strictly_ascending r
  end.

(* C08: what the scheduler must be offered *)
Definition offered_ok (e : exec) (off : list nat) : Prop :=
  off <> [] /\ strictly_ascending off
  /\ (forall t, In t off -> exists tk, get_task e t = Some tk /\ is_finished tk = false /\ (is_runnable tk = true \/ can_spur tk = true))
  /\ (forall t tk, get_task e t = Some tk -> is_runnable tk = true -> In t off).

(* C03: no task can make progress while an attached task is unfinished *)
Definition Dead (e : exec) : Prop :=
  (exists t tk, get_task e t = Some tk /\ is_finished tk = false /\ t_detached tk = false)
  /\ (forall t tk, get_task e t = Some tk -> is_runnable tk = false).

(* C03: the execution is complete: no attached task is unfinished, and nothing attached can run *)
Definition Complete (e : exec) : Prop :=
  (forall t tk, get_task e t = Some tk -> t_detached tk = false -> is_finished tk = true).

Definition bound_of (ms : max_steps) : option nat :=
  match ms with MSNone => None | FailAfter n | ContinueAfter n => Some n end.

(* events *)
Definition is_decision (ev : event) : bool := match ev with EvDecision _ _ _ _ _ => true | _ => false end.
Definition decisions (tr : list event) : list event := filter is_decision tr.
