(* Implementation model of the Shuttle runtime:
     shuttle-engine/src/runtime/execution.rs   (ExecutionState, Execution::run_to_completion)
     shuttle-engine/src/runtime/task/mod.rs    (Task, TaskState, ParkState)
     shuttle-engine/src/runtime/task/waker.rs
     shuttle-engine/src/runtime/thread/continuation.rs (switch)
   Task ids are positions in `tasks` (nat).  No proofs in this file. *)
From Coq Require Import List NArith Bool Arith.
From SV Require Import Clock.VClock Prim.Objects.
Import ListNotations.

(* ---------------- tasks ---------------- *)
Inductive tstate := Runnable | Blocked (spur : bool) | Sleeping | Finished.

Record task := mkTask {
  t_state : tstate;
  t_detached : bool;
  t_token : bool;          (* park_state.token_available *)
  t_inpark : bool;         (* park_state.blocked_in_park *)
  t_woken : bool;
  t_waiter : option nat;
  t_clock : vclock;
}.

Definition set_state (t : task) (s : tstate) : task :=
  mkTask s (t_detached t) (t_token t) (t_inpark t) (t_woken t) (t_waiter t) (t_clock t).
Definition set_detached (t : task) (b : bool) : task :=
  mkTask (t_state t) b (t_token t) (t_inpark t) (t_woken t) (t_waiter t) (t_clock t).
Definition set_park (t : task) (tok inpark : bool) : task :=
  mkTask (t_state t) (t_detached t) tok inpark (t_woken t) (t_waiter t) (t_clock t).
Definition set_woken (t : task) (b : bool) : task :=
  mkTask (t_state t) (t_detached t) (t_token t) (t_inpark t) b (t_waiter t) (t_clock t).
Definition set_waiter_f (t : task) (w : option nat) : task :=
  mkTask (t_state t) (t_detached t) (t_token t) (t_inpark t) (t_woken t) w (t_clock t).
Definition set_clock (t : task) (c : vclock) : task :=
  mkTask (t_state t) (t_detached t) (t_token t) (t_inpark t) (t_woken t) (t_waiter t) c.

Definition is_runnable (t : task) : bool := match t_state t with Runnable => true | _ => false end.
Definition is_blocked (t : task) : bool := match t_state t with Blocked _ => true | _ => false end.
Definition can_spur (t : task) : bool := match t_state t with Blocked true => true | _ => false end.
Definition is_sleeping (t : task) : bool := match t_state t with Sleeping => true | _ => false end.
Definition is_finished (t : task) : bool := match t_state t with Finished => true | _ => false end.

(* ---------------- execution state ---------------- *)
Inductive sched_task := SNone | SSome (t : nat) | SStopped | SFinished.
Inductive max_steps := MSNone | FailAfter (n : nat) | ContinueAfter (n : nat).
Inductive sstep := StTask (t : nat) | StRandom.          (* a recorded ScheduleStep *)

Record exec := mkExec {
  tasks : list task;
  current : sched_task;
  next : sched_task;
  has_yielded : bool;
  ctx_switches : nat;
  steps_reset_at : nat;
  live : list nat;                 (* live_tasks *)
  recorded : list sstep;           (* CURRENT_SCHEDULE.steps, newest first *)
  panicking : bool;                (* std::thread::panicking() *)
  in_cleanup : bool;
}.

Definition with_tasks (e : exec) (ts : list task) : exec :=
  mkExec ts (current e) (next e) (has_yielded e) (ctx_switches e) (steps_reset_at e) (live e) (recorded e)
         (panicking e) (in_cleanup e).
Definition with_current_next (e : exec) (c n : sched_task) : exec :=
  mkExec (tasks e) c n (has_yielded e) (ctx_switches e) (steps_reset_at e) (live e) (recorded e)
         (panicking e) (in_cleanup e).
Definition with_yielded (e : exec) (b : bool) : exec :=
  mkExec (tasks e) (current e) (next e) b (ctx_switches e) (steps_reset_at e) (live e) (recorded e)
         (panicking e) (in_cleanup e).
Definition with_ctx (e : exec) (n : nat) : exec :=
  mkExec (tasks e) (current e) (next e) (has_yielded e) n (steps_reset_at e) (live e) (recorded e)
         (panicking e) (in_cleanup e).
Definition with_reset (e : exec) (n : nat) : exec :=
  mkExec (tasks e) (current e) (next e) (has_yielded e) (ctx_switches e) n (live e) (recorded e)
         (panicking e) (in_cleanup e).
Definition with_live (e : exec) (l : list nat) : exec :=
  mkExec (tasks e) (current e) (next e) (has_yielded e) (ctx_switches e) (steps_reset_at e) l (recorded e)
         (panicking e) (in_cleanup e).
Definition with_recorded (e : exec) (r : list sstep) : exec :=
  mkExec (tasks e) (current e) (next e) (has_yielded e) (ctx_switches e) (steps_reset_at e) (live e) r
         (panicking e) (in_cleanup e).
Definition with_panicking (e : exec) (b : bool) : exec :=
  mkExec (tasks e) (current e) (next e) (has_yielded e) (ctx_switches e) (steps_reset_at e) (live e) (recorded e)
         b (in_cleanup e).

Definition init_exec : exec :=
  mkExec [] SNone SNone false 0 0 [] [] false false.

Definition sched_id (s : sched_task) : option nat := match s with SSome t => Some t | _ => None end.
Definition sched_eqb (a b : sched_task) : bool :=
  match a, b with
  | SNone, SNone | SStopped, SStopped | SFinished, SFinished => true
  | SSome x, SSome y => Nat.eqb x y
  | _, _ => false
  end.

Definition get_task (e : exec) (t : nat) : option task := nth_error (tasks e) t.

Fixpoint list_upd {A} (l : list A) (i : nat) (f : A -> A) : list A :=
  match l, i with
  | [], _ => []
  | x :: r, O => f x :: r
  | x :: r, S j => x :: list_upd r j f
  end.

(* get_mut(t) followed by a mutation; None = `unwrap` on a missing task *)
Definition upd_task (e : exec) (t : nat) (f : task -> task) : option exec :=
  match get_task e t with
  | None => None
  | Some _ => Some (with_tasks e (list_upd (tasks e) t f))
  end.

(* ExecutionState::me(): current_task.id().unwrap() *)
Definition me (e : exec) : option nat := sched_id (current e).

Definition exec_is_finished (e : exec) : bool :=
  match current e with SStopped | SFinished => true | _ => false end.

(* ---------------- Task methods (None = a Rust assert/unwrap fails) ---------------- *)
Definition e_block (e : exec) (t : nat) (spur : bool) : option exec :=
  match get_task e t with
  | Some tk => if is_finished tk then None else upd_task e t (fun tk => set_state tk (Blocked spur))
  | None => None
  end.

Definition e_sleep (e : exec) (t : nat) : option exec :=
  match get_task e t with
  | Some tk => if is_finished tk then None else upd_task e t (fun tk => set_state tk Sleeping)
  | None => None
  end.

Definition unblock_task (tk : task) : task := set_park (set_state tk Runnable) (t_token tk) false.

Definition e_unblock (e : exec) (t : nat) : option exec :=
  match get_task e t with
  | Some tk => if is_finished tk then None else upd_task e t unblock_task
  | None => None
  end.

(* Task::wake *)
Definition wake_task (tk : task) : task :=
  let tk' := set_woken tk true in
  if is_sleeping tk then unblock_task tk' else tk'.

(* raw_waker_wake: no-op when the execution or the task has finished *)
Definition e_waker_wake (e : exec) (t : nat) : option exec :=
  if exec_is_finished e then Some e else
  match get_task e t with
  | Some tk => if is_finished tk then Some e else upd_task e t wake_task
  | None => None
  end.

(* Task::abort *)
Definition e_abort (e : exec) (t : nat) : option exec :=
  match get_task e t with
  | Some tk => if is_finished tk then Some e else upd_task e t wake_task
  | None => None
  end.

Definition e_sleep_unless_woken (e : exec) (t : nat) : option exec :=
  match get_task e t with
  | Some tk =>
    if t_woken tk then upd_task e t (fun tk => set_woken tk false)
    else if is_finished tk then None
    else upd_task e t (fun tk => set_state (set_woken tk false) Sleeping)
  | None => None
  end.

(* Task::set_waiter: returns whether the waiter should block *)
Definition e_set_waiter (e : exec) (target w : nat) : option (exec * bool) :=
  match get_task e target with
  | Some tk =>
    match t_waiter tk with
    | Some w' => if Nat.eqb w' w then
                   (if is_finished tk then Some (e, false)
                    else match upd_task e target (fun tk => set_waiter_f tk (Some w)) with
                         | Some e' => Some (e', true) | None => None end)
                 else None                                   (* "Task cannot have more than one waiter" *)
    | None => if is_finished tk then Some (e, false)
              else match upd_task e target (fun tk => set_waiter_f tk (Some w)) with
                   | Some e' => Some (e', true) | None => None end
    end
  | None => None
  end.

Definition e_take_waiter (e : exec) (t : nat) : option (exec * option nat) :=
  match get_task e t with
  | Some tk => match upd_task e t (fun tk => set_waiter_f tk None) with
               | Some e' => Some (e', t_waiter tk) | None => None end
  | None => None
  end.

Definition e_detach (e : exec) (t : nat) : option exec := upd_task e t (fun tk => set_detached tk true).

(* Task::park: returns whether the caller must switch *)
Definition e_park (e : exec) (t : nat) : option (exec * bool) :=
  match get_task e t with
  | Some tk =>
    if t_inpark tk then None                                   (* "cannot park while already parked" *)
    else if is_blocked tk then None                             (* "cannot park while blocked by something else" *)
    else if t_token tk then
      match upd_task e t (fun tk => set_park tk false (t_inpark tk)) with Some e' => Some (e', false) | None => None end
    else if is_finished tk then None
    else match upd_task e t (fun tk => set_state (set_park tk (t_token tk) true) (Blocked true)) with
         | Some e' => Some (e', true) | None => None end
  | None => None
  end.

(* Task::unpark *)
Definition e_unpark (e : exec) (t : nat) : option exec :=
  match get_task e t with
  | Some tk =>
    if t_inpark tk then
      if negb (can_spur tk) then None                          (* "parked tasks should be blocked" *)
      else if t_token tk then None                              (* "token shouldn't be available" *)
      else e_unblock e t
    else upd_task e t (fun tk => set_park tk true (t_inpark tk))
  | None => None
  end.

Definition e_request_yield (e : exec) : exec := with_yielded e true.
Definition e_reset_step_count (e : exec) : exec := with_reset e (length (recorded e)).

(* clocks *)
Definition e_clock (e : exec) (t : nat) : option vclock :=
  match get_task e t with Some tk => Some (t_clock tk) | None => None end.

Definition e_increment_clock (e : exec) (t : nat) : option exec :=
  match get_task e t with
  | Some tk => match increment (t_clock tk) t with
               | Some c => upd_task e t (fun tk => set_clock tk c)
               | None => None end
  | None => None
  end.

Definition e_join_clock (e : exec) (t : nat) (c : vclock) : option exec :=
  upd_task e t (fun tk => set_clock tk (update (t_clock tk) c)).

(* ExecutionState::update_clock: increment own entry, then join *)
Definition e_update_clock (e : exec) (t : nat) (c : vclock) : option exec :=
  match e_increment_clock e t with Some e' => e_join_clock e' t c | None => None end.

(* exit_current_truncates_execution *)
Definition exit_truncates (e : exec) : option bool :=
  match me e with
  | None => None
  | Some t =>
    if Nat.eqb t 0 then Some true else
    match get_task e t with
    | None => None
    | Some tk =>
      if t_detached tk then Some false else
      let ua := filter (fun x => negb (is_finished x) && negb (t_detached x)) (tasks e) in
      let ud := existsb (fun x => negb (is_finished x) && t_detached x) (tasks e) in
      (* the loop returns false as soon as it meets a second unfinished attached task *)
      Some (match ua with [_] => ud | _ => false end)
    end
  end.

(* ---------------- the scheduler interface ---------------- *)
Record scheduler (S : Type) := mkSched {
  s_next_task : S -> list nat -> option nat -> bool -> option nat * S;
  s_next_u64 : S -> option N * S;          (* None = the scheduler panics (e.g. replay mismatch) *)
}.
Arguments s_next_task {S}. Arguments s_next_u64 {S}. Arguments mkSched {S}.

Inductive event :=
| EvDecision (pre : exec) (offered : list nat) (cur : option nat) (yielding : bool) (chosen : option nat)
    (* `pre` is ghost: the execution state in which the scheduler was consulted; never printed *)
| EvRandom (v : N)
| EvOp (t : nat) (tag : N) (vals : list N) (clk : vclock).

Inductive step_error := ErrStepBound | ErrSchedulerBug.

Definition is_step_bound_exceeded (e : exec) (n : nat) : bool :=
  Nat.leb n (length (recorded e) - steps_reset_at e).

(* the scan over live_tasks in `schedule` *)
Definition offered_of (e : exec) : list nat :=
  filter (fun t => match get_task e t with Some tk => is_runnable tk || can_spur tk | None => false end) (live e).
Definition any_runnable (e : exec) : bool :=
  existsb (fun t => match get_task e t with Some tk => is_runnable tk | None => false end) (live e).
Definition unfinished_attached (e : exec) : bool :=
  existsb (fun t => match get_task e t with Some tk => negb (t_detached tk) | None => false end) (live e).
Definition all_runnable_detached (e : exec) : bool :=
  forallb (fun t => match get_task e t with Some tk => negb (is_runnable tk) || t_detached tk | None => true end) (live e).

Section WithScheduler.
Context {SS : Type} (sch : scheduler SS) (ms : max_steps).     (* ms = config.max_steps *)

(* ExecutionState::schedule *)
Definition schedule (e : exec) (st : SS) : (option step_error * exec * SS * list event) :=
  match next e with
  | SNone =>
    let e := with_ctx e (Datatypes.S (ctx_switches e)) in
    let bound :=
      match ms with
      | FailAfter n => if is_step_bound_exceeded e n then Some true else None
      | ContinueAfter n => if is_step_bound_exceeded e n then Some false else None
      | MSNone => None
      end in
    match bound with
    | Some true => (Some ErrStepBound, e, st, [])
    | Some false => (None, with_current_next e (current e) SStopped, st, [])
    | None =>
      if negb (any_runnable e) || (negb (unfinished_attached e) && all_runnable_detached e) then
        (None, with_current_next e (current e) SFinished, st, [])
      else
        let yielding := has_yielded e in
        let pre := e in                                    (* ghost: the state in which the scheduler is consulted *)
        let e := with_yielded e false in
        let offered := offered_of e in
        let (choice, st') := s_next_task sch st offered (sched_id (current e)) yielding in
        let ev := [EvDecision pre offered (sched_id (current e)) yielding choice] in
        match choice with
        | None => (None, with_current_next e (current e) SStopped, st', ev)
        | Some t =>
          match get_task e t with
          | None => (Some ErrSchedulerBug, e, st', ev)
          | Some tk =>
            if is_runnable tk then (None, with_current_next e (current e) (SSome t), st', ev)
            else if can_spur tk then
              match e_unblock e t with
              | Some e' => (None, with_current_next e' (current e') (SSome t), st', ev)
              | None => (Some ErrSchedulerBug, e, st', ev)
              end
            else (Some ErrSchedulerBug, e, st', ev)          (* assert!(runnable || blocked), assert!(can_spuriously_wakeup) *)
          end
        end
    end
  | _ => (None, e, st, [])
  end.

(* advance_to_next_task *)
Definition advance (e : exec) : exec :=
  let e' := with_current_next e (next e) SNone in
  match current e' with
  | SSome t => with_recorded e' (StTask t :: recorded e')
  | _ => e'
  end.

(* ---------------- task code ---------------- *)
(* What a task executes, as a tree of runtime calls.  `Atomic f` is any block of library code that
   runs between two scheduling points; it sees and updates the execution state and the shared
   objects, and yields a value (None = a panic inside it). *)
Inductive code :=
| Ret
| Panic
| Atomic (f : exec -> store -> option (exec * store * list N)) (k : list N -> code)
| Switch (k : code)                            (* thread::switch() *)
| Rand (k : N -> code)                         (* ExecutionState::next_u64() *)
| SpawnNow (child : code) (k : nat -> code)    (* the body of spawn_thread after its leading switch *)
| Log (tag : N) (vals : list N) (k : code).    (* harness instrumentation: record a result *)

Record world := mkWorld {
  w_e : exec;
  w_s : store;
  w_conts : list (option code);       (* suspended continuation of each task *)
  w_trace : list event;               (* newest first *)
}.

Inductive seg_end := SegYield (k : code) | SegDone | SegPanic.

(* add_task with the clock handling of spawn_thread *)
Definition spawn_thread_now (e : exec) : option (exec * nat) :=
  match me e with
  | None => None
  | Some p =>
    let tid := length (tasks e) in
    match e_increment_clock e p with
    | None => None
    | Some e1 =>
      match e_clock e1 p with
      | None => None
      | Some pc =>
        match extend pc tid with
        | None => None
        | Some c =>
          match upd_task e1 p (fun tk => set_clock tk c) with
          | None => None
          | Some e2 =>
            let tk := mkTask Runnable false false false false None c in
            Some (with_live (with_tasks e2 (tasks e2 ++ [tk])) (live e2 ++ [tid]), tid)
          end
        end
      end
    end
  end.

(* thread::switch() / ExecutionState::maybe_yield: either the task goes on at once (the scheduler chose it
   again), or it suspends, or - when the scheduler's answer is rejected by the runtime's assertions - the
   panic is raised inside the task. *)
Inductive switch_res := SwContinue (w : world) (st : SS) | SwYield (w : world) (st : SS) | SwPanic (w : world) (st : SS).

Definition do_switch (w : world) (st : SS) : switch_res :=
  let e := w_e w in
  if panicking e && negb (in_cleanup e) then SwYield w st else
  match schedule e st with
  | (Some ErrSchedulerBug, e', st', evs) => SwPanic (mkWorld e' (w_s w) (w_conts w) (evs ++ w_trace w)) st'
  | (Some ErrStepBound, e', st', evs) => SwYield (mkWorld e' (w_s w) (w_conts w) (evs ++ w_trace w)) st'
  | (None, e', st', evs) =>
    if sched_eqb (current e') (next e') then SwContinue (mkWorld (advance e') (w_s w) (w_conts w) (evs ++ w_trace w)) st'
    else SwYield (mkWorld e' (w_s w) (w_conts w) (evs ++ w_trace w)) st'
  end.

(* is_step_bound_exceeded under the configured bound (ExecutionState::next_u64 consults it before a draw) *)
Definition bound_exhausted (e : exec) : bool :=
  match ms with
  | FailAfter n | ContinueAfter n => is_step_bound_exceeded e n
  | MSNone => false
  end.

(* Runs the current task until it suspends in `switch`, returns, or panics. *)
Fixpoint run_seg (c : code) (w : world) (st : SS) : world * SS * seg_end :=
  match c with
  | Ret => (w, st, SegDone)
  | Panic => (w, st, SegPanic)
  | Atomic f k =>
    match f (w_e w) (w_s w) with
    | None => (w, st, SegPanic)
    | Some (e', s', a) => run_seg (k a) (mkWorld e' s' (w_conts w) (w_trace w)) st
    end
  | Log tag vals k =>
    match me (w_e w) with
    | None => (w, st, SegPanic)
    | Some t =>
      let clk := match e_clock (w_e w) t with Some c => c | None => [] end in
      run_seg k (mkWorld (w_e w) (w_s w) (w_conts w) (EvOp t tag vals clk :: w_trace w)) st
    end
  | Rand k =>
    (* a draw is a step: once the step bound is exhausted the draw is a scheduling point first (and the
       scheduler then stops or fails the execution, so the task does not get to draw) *)
    let draw := fun (w : world) (st : SS) =>
      let e := with_recorded (w_e w) (StRandom :: recorded (w_e w)) in
      let (v, st') := s_next_u64 sch st in
      match v with
      | None => (mkWorld e (w_s w) (w_conts w) (w_trace w), st', SegPanic)
      | Some v => run_seg (k v) (mkWorld e (w_s w) (w_conts w) (EvRandom v :: w_trace w)) st'
      end in
    if bound_exhausted (w_e w) then
      match do_switch w st with
      | SwContinue w' st' => draw w' st'
      | SwYield w' st' => (w', st', SegYield (Rand k))
      | SwPanic w' st' => (w', st', SegPanic)
      end
    else draw w st
  | Switch k =>
    match do_switch w st with
    | SwContinue w' st' => run_seg k w' st'
    | SwYield w' st' => (w', st', SegYield k)
    | SwPanic w' st' => (w', st', SegPanic)
    end
  | SpawnNow child k =>
    match spawn_thread_now (w_e w) with
    | None => (w, st, SegPanic)
    | Some (e', tid) =>
      run_seg (k tid) (mkWorld e' (w_s w) (w_conts w ++ [Some child]) (w_trace w)) st
    end
  end.

(* ---------------- Execution::run ---------------- *)
Inductive outcome :=
| OPass                                  (* every attached task finished *)
| OStopped                               (* scheduler returned None, or ContinueAfter bound reached *)
| ODeadlock (unfinished : list nat)
| OStepBound                             (* FailAfter bound exceeded *)
| OPanic (t : nat)                       (* a task panicked *)
| OSchedulerBug
| OFuel.                                 (* model fuel exhausted: excluded by every theorem *)

Definition finish_current (e : exec) : option exec :=
  match me e with
  | None => None
  | Some t =>
    match get_task e t with
    | Some tk => if is_finished tk then None else
                 match upd_task e t (fun tk => set_state tk Finished) with
                 | Some e' => Some (with_live e' (filter (fun x => negb (Nat.eqb x t)) (live e')))
                 | None => None
                 end
    | None => None
    end
  end.

Definition unfinished_ids (e : exec) : list nat :=
  filter (fun t => match get_task e t with Some tk => negb (is_finished tk) | None => false end) (seq 0 (length (tasks e))).

Definition set_cont (cs : list (option code)) (t : nat) (c : option code) : list (option code) :=
  list_upd cs t (fun _ => c).

Fixpoint run_loop (fuel : nat) (w : world) (st : SS) : world * SS * outcome :=
  match fuel with
  | O => (w, st, OFuel)
  | Datatypes.S fuel' =>
    match schedule (w_e w) st with
    | (Some ErrStepBound, e', st', evs) => (mkWorld e' (w_s w) (w_conts w) (evs ++ w_trace w), st', OStepBound)
    | (Some ErrSchedulerBug, e', st', evs) => (mkWorld e' (w_s w) (w_conts w) (evs ++ w_trace w), st', OSchedulerBug)
    | (None, e', st', evs) =>
      let e' := advance e' in
      let w' := mkWorld e' (w_s w) (w_conts w) (evs ++ w_trace w) in
      match current e' with
      | SSome t =>
        match nth_error (w_conts w') t with
        | Some (Some c) =>
          match run_seg c w' st' with
          | (w2, st2, SegDone) =>
            match finish_current (w_e w2) with
            | Some e3 => run_loop fuel' (mkWorld e3 (w_s w2) (set_cont (w_conts w2) t None) (w_trace w2)) st2
            | None => (w2, st2, OSchedulerBug)
            end
          | (w2, st2, SegYield k) =>
            run_loop fuel' (mkWorld (w_e w2) (w_s w2) (set_cont (w_conts w2) t (Some k)) (w_trace w2)) st2
          | (w2, st2, SegPanic) => (w2, st2, OPanic t)
          end
        | _ => (w', st', OSchedulerBug)
        end
      | SFinished =>
        if existsb (fun tk => negb (is_finished tk) && negb (t_detached tk)) (tasks e')
        then (w', st', ODeadlock (unfinished_ids e'))
        else (w', st', OPass)
      | SStopped => (w', st', OStopped)
      | SNone => (w', st', OSchedulerBug)
      end
    end
  end.

(* spawn_main_thread + run_to_completion *)
Definition init_world (main : code) (objs : store) : world :=
  let tk := mkTask Runnable false false false false None [0%N] in
  let e := init_exec in
  mkWorld (with_live (with_tasks e [tk]) [0%nat]) objs [Some main] [].

Definition run_exec (fuel : nat) (main : code) (objs : store) (st : SS) : world * SS * outcome :=
  run_loop fuel (init_world main objs) st.

End WithScheduler.
