(* ===================================================================== *)
(*  SV.Sched.Pct -- executable MODEL of Shuttle's PCT scheduler and of    *)
(*  the parts of rand 0.8.8 it goes through.                              *)
(*  MODEL ONLY: no lemmas here (see SV.Proofs.PctProofs, SV.Props.C11).   *)
(*                                                                        *)
(*  Sources mirrored (checked against the source text):                   *)
(*   - shuttle-schedulers/src/pct.rs              (PctScheduler)          *)
(*   - shuttle-engine/src/runtime/task/mod.rs     DEFAULT_INLINE_TASKS=16 *)
(*   - shuttle-engine/src/scheduler/data/random.rs (via SV.Sched.Random)  *)
(*   - rand-0.8.8/src/seq/mod.rs     SliceRandom::shuffle, gen_index      *)
(*   - rand-0.8.8/src/seq/index.rs   sample, sample_floyd, sample_inplace,*)
(*                                   sample_rejection                     *)
(*   - rand-0.8.8/src/rng.rs         Rng::gen_range                       *)
(*   - rand-0.8.8/src/distributions/uniform.rs                            *)
(*       uniform_int_impl!{u32,u32,u32} and {usize,usize,usize}:          *)
(*       sample_single, sample_single_inclusive, new, new_inclusive,      *)
(*       sample                                                           *)
(*   - rand-0.8.8/src/distributions/integer.rs  Standard for u32 / usize  *)
(*       (usize on a 64-bit target = rng.next_u64() as usize)             *)
(*   - rand-0.8.8/src/distributions/utils.rs    wmul for u32, u64, usize  *)
(*                                                                        *)
(*  Target: 64-bit (usize = u64).  Machine integers are N; wrap-arounds   *)
(*  are explicit `mod`s where they can occur.                             *)
(* ===================================================================== *)

From Coq Require Import NArith List Bool.
From SV Require Import Params Sched.Random.
Import ListNotations.
Local Open Scope N_scope.

(* --------------------------------------------------------------------- *)
(*  Sequencing of calls that can panic / run out of fuel                  *)
(* --------------------------------------------------------------------- *)

Definition obind {A B : Type} (o : outcome A) (f : A -> outcome B) : outcome B :=
  match o with
  | Done a => f a
  | Panic => Panic
  | OutOfFuel => OutOfFuel
  | NotModelled => NotModelled
  end.

Notation "'do' x <- a ;; b" := (obind a (fun x => b))
  (at level 200, x pattern, a at level 100, b at level 200, right associativity).

(* --------------------------------------------------------------------- *)
(*  Random draws                                                          *)
(* --------------------------------------------------------------------- *)

(* The four integer samplers of rand 0.8.8 that occur below.              *)
Inductive draw_kind : Type :=
| DSingle32     (* UniformInt<u32>::sample_single_inclusive  (gen_range on u32)   *)
| DSingle64     (* UniformInt<usize>::sample_single_inclusive (gen_range on usize) *)
| DUniform32    (* Uniform<u32>::new(..).sample(rng)   *)
| DUniform64.   (* Uniform<usize>::new(..).sample(rng) *)

Definition draw_width (k : draw_kind) : N :=
  match k with
  | DSingle32 => 32
  | DUniform32 => 32
  | DSingle64 => 64
  | DUniform64 => 64
  end.

(* UniformInt::new_inclusive + UniformInt::sample, at width w ($u_large = uW):
     ints_to_reject = (unsigned_max - range + 1) % range;
     zone = unsigned_max - ints_to_reject;
     loop { v = rng.gen(); (hi, lo) = v.wmul(range); if lo <= zone { return low + hi } }
   (sample_single_inclusive uses Random.zone_w instead.)                   *)
Definition uzone_w (w n : N) : N :=
  (2 ^ w - 1) - ((2 ^ w - 1 - n + 1) mod n).

Definition uaccept_w (w n v : N) : option N :=
  let tmp := (v * n) mod 2 ^ (2 * w) in
  let hi := (N.shiftr tmp w) mod 2 ^ w in
  let lo := tmp mod 2 ^ w in
  if lo <=? uzone_w w n then Some hi else None.

(* A rejection loop drawing words with `next` until `acc` accepts one.
   Same shape as Random.sample_single (which it equals for next =
   pcg_next_u32, acc = accept n).                                          *)
Fixpoint reject_loop (next : N -> N * N) (acc : N -> option N)
         (fuel : nat) (st : N) : option (N * N) :=
  match fuel with
  | O => None
  | S fuel =>
      let '(v, st) := next st in
      match acc v with
      | Some hi => Some (hi, st)
      | None => reject_loop next acc fuel st
      end
  end.

(* rng.gen_range(0..n) for usize (64-bit): sample_single(0, n) ->
   sample_single_inclusive(0, n-1): range = n, zone = (range <<
   range.leading_zeros()).wrapping_sub(1) in u64, v = rng.gen::<usize>() =
   rng.next_u64() as usize, (hi, lo) = v.wmul(range) through u128.        *)
Definition sample_single64 (n : N) (fuel : nat) (st : N) : option (N * N) :=
  reject_loop pcg_next_u64 (accept_w 64 n) fuel st.

(* Uniform::new(0, n).sample(rng) for u32 and for usize.                  *)
Definition uniform_sample32 (n : N) (fuel : nat) (st : N) : option (N * N) :=
  reject_loop pcg_next_u32 (uaccept_w 32 n) fuel st.
Definition uniform_sample64 (n : N) (fuel : nat) (st : N) : option (N * N) :=
  reject_loop pcg_next_u64 (uaccept_w 64 n) fuel st.

(* The concrete draw oracle: a value in [low, low + range) from the PCG
   state st with sampler k.  `range` is the *number of values*, i.e.
   high - low + 1 for the inclusive bounds low <= high of type uW.  Hence
   in Rust always 1 <= range and low + range <= 2^w, except that
   range = 2^w wraps to 0 there (= the whole integer range, `rng.gen()`);
   that case cannot arise from the callers below.  Everything outside
   1 <= range < 2^w, low + range <= 2^w is NotModelled.  The result is
   low.wrapping_add(hi), which does not wrap since hi < range.            *)
Definition pcg_draw (fuel : nat) (k : draw_kind) (low range : N) (st : N)
  : outcome (N * N) :=
  if (range =? 0) || (2 ^ draw_width k <=? range) || (2 ^ draw_width k <? low + range)
  then NotModelled
  else
    match
      match k with
      | DSingle32 => sample_single range fuel st
      | DSingle64 => sample_single64 range fuel st
      | DUniform32 => uniform_sample32 range fuel st
      | DUniform64 => uniform_sample64 range fuel st
      end
    with
    | Some (hi, st) => Done (low + hi, st)
    | None => OutOfFuel
    end.

(* A second oracle, used only to *state* which results are possible: the
   "random" values are read off a prepared list.  A value outside
   [low, low+range) is not something the real sampler can return.          *)
Definition list_draw (k : draw_kind) (low range : N) (ds : list N)
  : outcome (N * list N) :=
  match ds with
  | [] => OutOfFuel
  | d :: ds => if (low <=? d) && (d <? low + range) then Done (d, ds) else NotModelled
  end.

(* --------------------------------------------------------------------- *)
(*  List helpers (Vec operations)                                         *)
(* --------------------------------------------------------------------- *)

(* v[i] = x  (no-op when i is out of bounds; Rust would panic, but every
   index below is in bounds -- proved in PctProofs).                      *)
Fixpoint upd {A : Type} (l : list A) (i : nat) (x : A) : list A :=
  match l, i with
  | [], _ => []
  | _ :: t, O => x :: t
  | h :: t, S i => h :: upd t i x
  end.

(* slice.swap(i, j) *)
Definition swap (l : list N) (i j : nat) : list N :=
  upd (upd l i (nth j l 0)) j (nth i l 0).

(* (0..n).collect::<Vec<_>>() *)
Definition nseq (n : N) : list N := map N.of_nat (seq 0 (N.to_nat n)).

(* iter().position(|&x| x == t) *)
Fixpoint position (t : N) (l : list N) : option nat :=
  match l with
  | [] => None
  | x :: l => if x =? t then Some O
              else match position t l with Some p => Some (S p) | None => None end
  end.

(* Vec::insert(pos, x) *)
Definition insert_at (pos : nat) (x : N) (l : list N) : list N :=
  firstn pos l ++ x :: skipn pos l.

Definition memN (x : N) (l : list N) : bool := existsb (N.eqb x) l.

(* --------------------------------------------------------------------- *)
(*  f32 arithmetic as far as `index::sample` needs it                     *)
(* --------------------------------------------------------------------- *)

(* Round a natural number to 24 significant bits, ties to even: this is
   `x as f32` for an integer x, and -- because rounding commutes with
   scaling by powers of two -- also the rounding step of an f32 product or
   sum whose exact value is x * 2^-s for a fixed s.                        *)
Definition f32_round (x : N) : N :=
  let s := N.size x in
  if 25 <=? s then
    let sh := s - 24 in
    let q := N.shiftr x sh in
    let r := x mod 2 ^ sh in
    let half := 2 ^ (sh - 1) in
    let q := if (half <? r) || ((r =? half) && N.odd q) then q + 1 else q in
    N.shiftl q sh
  else x.

Inductive sample_alg : Type :=
| AInplace | AFloyd | ARejection32 | ARejection64.

(* The algorithm selection of rand::seq::index::sample (after its
   `amount > length` panic).  f32 constants as exact dyadic rationals:
     1.6f32      = 13421773 * 2^-23      10.0f32      = 10
     8.0/45.0    = 11930465 * 2^-26      70.0/9.0     = 16311182 * 2^-21
     270.0f32    = 270                   330.0/9.0    = 9611947  * 2^-18
   (bit patterns 0x3fcccccd 0x3e360b61 0x40f8e38e 0x4212aaab printed by
   rustc; the divisions are const-evaluated in f32).  Every f32 operation
   is one f32_round on integers scaled by `sc`.  (Comparisons are written
   with the literal on the left -- `163 <=? amount` for `amount < 163`
   etc. -- only because N comparison recurses on its right argument, which
   keeps symbolic reasoning about these tests cheap.)                      *)
Definition sample_select (length amount : N) : sample_alg :=
  if 2 ^ 32 - 1 <? length then ARejection64
  else if 163 <=? amount then
    (* (amount >= 163)
       const C: [f32; 2] = [270.0, 330.0 / 9.0];
       let j = if length < 500_000 { 0 } else { 1 };
       if (length as f32) < C[j] * (amount as f32)
         { sample_inplace } else { sample_rejection }                      *)
    let '(c, sc) :=
      if 500000 <=? length then (9611947, 2 ^ 18) else (270, 1) in
    if f32_round length * sc <? f32_round (c * f32_round amount)
    then AInplace else ARejection32
  else
    (* (amount < 163)
       const C: [[f32; 2]; 2] = [[1.6, 8.0 / 45.0], [10.0, 70.0 / 9.0]];
       let j = if length < 500_000 { 0 } else { 1 };
       let amount_fp = amount as f32;
       let m4 = C[0][j] * amount_fp;
       if amount > 11 && (length as f32) < (C[1][j] + m4) * amount_fp
         { sample_inplace } else { sample_floyd }                          *)
    let '(c0, c1, sc) :=
      if 500000 <=? length then (11930465, 16311182 * 2 ^ 5, 2 ^ 26)
      else (13421773, 10 * 2 ^ 23, 2 ^ 23) in
    let amount_fp := f32_round amount in
    let m4 := f32_round (c0 * amount_fp) in
    let thr := f32_round (f32_round (c1 + m4) * amount_fp) in
    if (11 <? amount) && (f32_round length * sc <? thr) then AInplace else AFloyd.

(* --------------------------------------------------------------------- *)
(*  rand 0.8.8 algorithms, generic in the draw oracle                     *)
(* --------------------------------------------------------------------- *)

Section Sampling.
  Context {St : Type}.
  Variable draw : draw_kind -> N -> N -> St -> outcome (N * St).

  (* rng.gen_range(low..high): assert!(!range.is_empty()) then
     sample_single(low, high) -> sample_single_inclusive(low, high - 1),
     range = high - 1 - low + 1.                                          *)
  Definition gen_range (k : draw_kind) (low high : N) (s : St) : outcome (N * St) :=
    if low <? high then draw k low (high - low) s else Panic.

  (* rng.gen_range(low..=high): range = high - low + 1 (wrapping; a wrap to
     0 would be a range >= 2^w here, which the oracles do not model).      *)
  Definition gen_range_incl (k : draw_kind) (low high : N) (s : St) : outcome (N * St) :=
    if low <=? high then draw k low (high - low + 1) s else Panic.

  (* fn gen_index(rng, ubound: usize) -> usize:
       if ubound <= u32::MAX { rng.gen_range(0..ubound as u32) as usize }
       else { rng.gen_range(0..ubound) }                                   *)
  Definition gen_index (ubound : N) (s : St) : outcome (N * St) :=
    if 2 ^ 32 - 1 <? ubound then gen_range DSingle64 0 ubound s
    else gen_range DSingle32 0 ubound s.

  (* for i in (1..=i0).rev() { v.swap(i, gen(i)) }                         *)
  Fixpoint fisher_yates (gen : N -> St -> outcome (N * St))
           (i : nat) (l : list N) (s : St) : outcome (list N * St) :=
    match i with
    | O => Done (l, s)
    | S i' =>
        do (j, s) <- gen (N.of_nat i) s ;;
        fisher_yates gen i' (swap l i (N.to_nat j)) s
    end.

  (* SliceRandom::shuffle:
       for i in (1..self.len()).rev() { self.swap(i, gen_index(rng, i + 1)); } *)
  Definition shuffle (l : list N) (s : St) : outcome (list N * St) :=
    fisher_yates (fun i => gen_index (i + 1)) (length l - 1) l s.

  (* sample_floyd(rng, length: u32, amount: u32):
       let floyd_shuffle = amount < 50;
       for j in length - amount..length {
           let t = rng.gen_range(0..=j);
           if floyd_shuffle {
               if let Some(pos) = indices.iter().position(|&x| x == t) {
                   indices.insert(pos, j); continue; }
           } else if indices.contains(&t) { indices.push(j); continue; }
           indices.push(t);
       }
       if !floyd_shuffle {
           for i in (1..amount).rev() {
               indices.swap(i as usize, rng.gen_range(0..=i) as usize); } }
     floyd_loop fs cnt j: cnt iterations starting at j.                    *)
  Fixpoint floyd_loop (fs : bool) (cnt : nat) (j : N) (indices : list N) (s : St)
    : outcome (list N * St) :=
    match cnt with
    | O => Done (indices, s)
    | S cnt =>
        do (t, s) <- gen_range_incl DSingle32 0 j s ;;
        let indices :=
          if fs then
            match position t indices with
            | Some pos => insert_at pos j indices
            | None => indices ++ [t]
            end
          else if memN t indices then indices ++ [j] else indices ++ [t] in
        floyd_loop fs cnt (j + 1) indices s
    end.

  Definition sample_floyd (length amount : N) (s : St) : outcome (list N * St) :=
    let fs := negb (50 <=? amount) in    (* amount < 50 *)
    do (indices, s) <- floyd_loop fs (N.to_nat amount) (length - amount) [] s ;;
    if fs then Done (indices, s)
    else fisher_yates (fun i => gen_range_incl DSingle32 0 i)
                      (N.to_nat amount - 1) indices s.

  (* sample_inplace(rng, length: u32, amount: u32):
       indices.extend(0..length);
       for i in 0..amount { let j: u32 = rng.gen_range(i..length);
                            indices.swap(i as usize, j as usize); }
       indices.truncate(amount as usize);                                   *)
  Fixpoint inplace_loop (cnt : nat) (i length : N) (indices : list N) (s : St)
    : outcome (list N * St) :=
    match cnt with
    | O => Done (indices, s)
    | S cnt =>
        do (j, s) <- gen_range DSingle32 i length s ;;
        inplace_loop cnt (i + 1) length (swap indices (N.to_nat i) (N.to_nat j)) s
    end.

  Definition sample_inplace (length amount : N) (s : St) : outcome (list N * St) :=
    do (indices, s) <- inplace_loop (N.to_nat amount) 0 length (nseq length) s ;;
    Done (firstn (N.to_nat amount) indices, s).

  (* sample_rejection::<X>(rng, length: X, amount: X), X = u32 (k =
     DUniform32) or usize (k = DUniform64):
       debug_assert!(amount < length);
       let distr = Uniform::new(X::zero(), length);   // assert!(low < high)
       for _ in 0..amount { let mut pos = distr.sample(rng);
           while !cache.insert(pos) { pos = distr.sample(rng); }
           indices.push(pos); }
     The HashSet `cache` always holds exactly the elements of `indices`, so
     `cache.insert(pos)` fails iff pos is in `indices`.  `fuel` bounds the
     number of re-draws of one position.                                   *)
  Fixpoint rejection_pos (fuel : nat) (k : draw_kind) (length : N)
           (indices : list N) (s : St) : outcome (N * St) :=
    match fuel with
    | O => OutOfFuel
    | S fuel =>
        do (pos, s) <- draw k 0 length s ;;
        if memN pos indices then rejection_pos fuel k length indices s
        else Done (pos, s)
    end.

  Fixpoint rejection_loop (fuel : nat) (cnt : nat) (k : draw_kind) (length : N)
           (indices : list N) (s : St) : outcome (list N * St) :=
    match cnt with
    | O => Done (indices, s)
    | S cnt =>
        do (pos, s) <- rejection_pos fuel k length indices s ;;
        rejection_loop fuel cnt k length (indices ++ [pos]) s
    end.

  Definition sample_rejection (dbg : bool) (fuel : nat) (k : draw_kind)
             (length amount : N) (s : St) : outcome (list N * St) :=
    if dbg && (length <=? amount) then Panic
    else if length =? 0 then Panic
    else rejection_loop fuel (N.to_nat amount) k length [] s.

  (* rand::seq::index::sample(rng, length, amount).into_vec().
     dbg = debug assertions compiled in (they are in a `cargo test` / dev
     build of the dependency).  The other debug assertions of index.rs
     (`amount <= length` in sample_floyd / sample_inplace, `indices.len() ==
     amount` at the end) cannot fail after the `amount > length` panic
     below (PctProofs.index_sample_spec) and are not represented.          *)
  Definition index_sample (dbg : bool) (fuel : nat) (length amount : N) (s : St)
    : outcome (list N * St) :=
    if length <? amount then Panic
    else
      match sample_select length amount with
      | AInplace => sample_inplace length amount s
      | AFloyd => sample_floyd length amount s
      | ARejection32 => sample_rejection dbg fuel DUniform32 length amount s
      | ARejection64 => sample_rejection dbg fuel DUniform64 length amount s
      end.

End Sampling.

(* --------------------------------------------------------------------- *)
(*  HashMap<TaskId, usize>                                                *)
(*  Every use in pct.rs is get / insert / len, plus one `iter()` inside a *)
(*  debug assertion that collects the (key, value) *pairs* into a HashSet *)
(*  and compares its size with len() -- pairs with distinct keys are      *)
(*  distinct, so that assertion can never fail and does not depend on the *)
(*  iteration order.  An association list with unique keys is therefore a *)
(*  faithful model: insert replaces in place or appends.                  *)
(* --------------------------------------------------------------------- *)

Fixpoint pm_get (k : N) (m : list (N * N)) : option N :=
  match m with
  | [] => None
  | (k', v) :: m => if k' =? k then Some v else pm_get k m
  end.

(* the map after insert(k, v); the value insert returns is pm_get k m     *)
Fixpoint pm_set (k v : N) (m : list (N * N)) : list (N * N) :=
  match m with
  | [] => [(k, v)]
  | (k', v') :: m => if k' =? k then (k', v) :: m else (k', v') :: pm_set k v m
  end.

Definition pm_len (m : list (N * N)) : N := N.of_nat (length m).

(* --------------------------------------------------------------------- *)
(*  shuttle-schedulers: PctScheduler                                      *)
(*  Not modelled: the SHUTTLE_RANDOM_SEED override (`seed` is the value   *)
(*  after seed_from_env); usize counters are unbounded N.                 *)
(* --------------------------------------------------------------------- *)

(* DEFAULT_INLINE_TASKS: Params.v (regenerated from shuttle-engine/src/runtime/task/mod.rs on every run) *)
Definition DEFAULT_INLINE_TASKS : N := Params.DEFAULT_INLINE_TASKS.

Record pct : Type := mkPct {
  pct_max_iterations : N;
  pct_max_depth : N;
  pct_iterations : N;
  pct_priorities : list (N * N);   (* TaskId -> priority *)
  pct_next_priority : N;
  pct_change_points : list N;
  pct_max_steps : N;
  pct_steps : N;
  pct_rng : N;                     (* Pcg64Mcg state (u128) *)
  pct_data_source : ds
}.

(* new_from_seed: assert!(max_depth > 0)                                   *)
Definition pct_new_from_seed (seed max_depth max_iterations : N) : outcome pct :=
  if max_depth =? 0 then Panic
  else Done
    {| pct_max_iterations := max_iterations;
       pct_max_depth := max_depth;
       pct_iterations := 0;
       pct_priorities := map (fun i => (i, i)) (nseq DEFAULT_INLINE_TASKS);
       pct_next_priority := DEFAULT_INLINE_TASKS;
       pct_change_points := [];
       pct_max_steps := 0;
       pct_steps := 0;
       pct_rng := pcg_from_seed_u64 seed;
       pct_data_source := ds_initialize seed |}.

(* for (i, priority) in priorities.into_iter().enumerate() {
       let old = self.priorities.insert(TaskId::from(i), priority);
       debug_assert!(old.is_some(), "priority queue invariant"); }        *)
Fixpoint pct_reassign (dbg : bool) (i : N) (perm : list N) (m : list (N * N))
  : outcome (list (N * N)) :=
  match perm with
  | [] => Done m
  | priority :: perm =>
      if dbg && (match pm_get i m with None => true | Some _ => false end)
      then Panic
      else pct_reassign dbg (i + 1) perm (pm_set i priority m)
  end.

(* new_execution.  Done None = `None` (no more iterations);
   Done (Some (seed, p)) = Some(Schedule::new(seed)).                      *)
Definition pct_new_execution (dbg : bool) (fuel : nat) (p : pct)
  : outcome (option (N * pct)) :=
  if pct_max_iterations p <=? pct_iterations p then Done None
  else
    do p1 <-
      (if 0 <? pct_iterations p then
         (* assert!(self.max_steps > 0, "test closure did not exercise any concurrency") *)
         if pct_max_steps p =? 0 then Panic
         else
           (* (the debug_assert_eq! on HashSet<(&TaskId,&usize)> cannot fail) *)
           do (perm, rng) <- shuffle (pcg_draw fuel)
                                (nseq (pm_len (pct_priorities p))) (pct_rng p) ;;
           do prios <- pct_reassign dbg 0 perm (pct_priorities p) ;;
           let num_points := N.min (pct_max_depth p - 1) (pct_max_steps p - 1) in
           do (cps, rng) <- index_sample (pcg_draw fuel) dbg fuel
                               (pct_max_steps p - 1) num_points rng ;;
           Done {| pct_max_iterations := pct_max_iterations p;
                   pct_max_depth := pct_max_depth p;
                   pct_iterations := pct_iterations p;
                   pct_priorities := prios;
                   pct_next_priority := pm_len prios;
                   pct_change_points := map (fun v => v + 1) cps;
                   pct_max_steps := pct_max_steps p;
                   pct_steps := 0;
                   pct_rng := rng;
                   pct_data_source := pct_data_source p |}
       else
         Done {| pct_max_iterations := pct_max_iterations p;
                 pct_max_depth := pct_max_depth p;
                 pct_iterations := pct_iterations p;
                 pct_priorities := pct_priorities p;
                 pct_next_priority := pct_next_priority p;
                 pct_change_points := pct_change_points p;
                 pct_max_steps := pct_max_steps p;
                 pct_steps := 0;
                 pct_rng := pct_rng p;
                 pct_data_source := pct_data_source p |}) ;;
    let '(seed, d) := ds_reinitialize (pct_data_source p1) in
    Done (Some (seed,
      {| pct_max_iterations := pct_max_iterations p1;
         pct_max_depth := pct_max_depth p1;
         pct_iterations := pct_iterations p1 + 1;
         pct_priorities := pct_priorities p1;
         pct_next_priority := pct_next_priority p1;
         pct_change_points := pct_change_points p1;
         pct_max_steps := pct_max_steps p1;
         pct_steps := pct_steps p1;
         pct_rng := pct_rng p1;
         pct_data_source := d |})).

(* One iteration of `for new_task_id in max_known_task..1 + max_new_task`:
     let target_task_id = TaskId::from(self.rng.gen_range(0..self.priorities.len()) + 1);
     let new_task_priority = if target_task_id == new_task_id { self.next_priority }
       else { self.priorities.insert(target_task_id, self.next_priority)
                  .expect("priority queue invariant") };
     let old = self.priorities.insert(new_task_id, new_task_priority);
     debug_assert!(old.is_none(), "priority queue invariant");
     self.next_priority += 1;
   Returns the new (priorities, next_priority, rng).                       *)
Definition pct_insert_new (dbg : bool) (fuel : nat) (new_task_id : N)
           (st : list (N * N) * N * N) : outcome (list (N * N) * N * N) :=
  let '(prios, next_priority, rng) := st in
  do (r, rng) <- gen_range (pcg_draw fuel) DSingle64 0 (pm_len prios) rng ;;
  let target := r + 1 in
  do (new_prio, prios) <-
     (if target =? new_task_id then Done (next_priority, prios)
      else match pm_get target prios with
           | None => Panic
           | Some old => Done (old, pm_set target next_priority prios)
           end) ;;
  if dbg && (match pm_get new_task_id prios with Some _ => true | None => false end)
  then Panic
  else Done (pm_set new_task_id new_prio prios, next_priority + 1, rng).

Fixpoint pct_insert_loop (dbg : bool) (fuel : nat) (cnt : nat) (new_task_id : N)
         (st : list (N * N) * N * N) : outcome (list (N * N) * N * N) :=
  match cnt with
  | O => Done st
  | S cnt =>
      do st <- pct_insert_new dbg fuel new_task_id st ;;
      pct_insert_loop dbg fuel cnt (new_task_id + 1) st
  end.

(* Ord on Option<&usize>: None < Some(_), Some by value.                   *)
Definition key_le (a b : option N) : bool :=
  match a, b with
  | None, _ => true
  | Some _, None => false
  | Some x, Some y => x <=? y
  end.

(* runnable.iter().min_by_key(|t| self.priorities.get(&t.id())):
   the FIRST element with the least key (std keeps the accumulated element
   unless it compares Greater than the new one).                           *)
Definition min_by_key (m : list (N * N)) (l : list N) : option N :=
  match l with
  | [] => None
  | t :: l =>
      Some (fold_left (fun best u =>
                         if key_le (pm_get best m) (pm_get u m) then best else u)
                      l t)
  end.

(* runnable.iter().map(|t| t.id()).max().unwrap()                          *)
Definition max_id (l : list N) : option N :=
  match l with
  | [] => None
  | t :: l => Some (fold_left N.max l t)
  end.

(* next_task(runnable, current, is_yielding); `offered` = the ids of
   `runnable` in slice order.                                              *)
Definition pct_next_task (dbg : bool) (fuel : nat) (p : pct) (offered : list N)
           (current : option N) (is_yielding : bool) : outcome (N * pct) :=
  match max_id offered with
  | None => Panic
  | Some max_new_task =>
      let max_known_task := pm_len (pct_priorities p) in
      do (prios, next_priority, rng) <-
         pct_insert_loop dbg fuel (N.to_nat (1 + max_new_task - max_known_task))
           max_known_task (pct_priorities p, pct_next_priority p, pct_rng p) ;;
      do (prios, next_priority, steps, max_steps) <-
         (if 1 <? N.of_nat (length offered) then
            do (prios, next_priority) <-
               (if memN (pct_steps p) (pct_change_points p) || is_yielding then
                  match current with
                  | None => Panic   (* expect("self.steps > 0 should mean a task has run") *)
                  | Some c =>
                      if dbg && (match pm_get c prios with None => true | Some _ => false end)
                      then Panic
                      else Done (pm_set c next_priority prios, next_priority + 1)
                  end
                else Done (prios, next_priority)) ;;
            let steps := pct_steps p + 1 in
            Done (prios, next_priority, steps,
                  if pct_max_steps p <? steps then steps else pct_max_steps p)
          else Done (prios, next_priority, pct_steps p, pct_max_steps p)) ;;
      match min_by_key prios offered with
      | None => Panic
      | Some t =>
          Done (t,
            {| pct_max_iterations := pct_max_iterations p;
               pct_max_depth := pct_max_depth p;
               pct_iterations := pct_iterations p;
               pct_priorities := prios;
               pct_next_priority := next_priority;
               pct_change_points := pct_change_points p;
               pct_max_steps := max_steps;
               pct_steps := steps;
               pct_rng := rng;
               pct_data_source := pct_data_source p |})
      end
  end.

Definition pct_next_u64 (p : pct) : N * pct :=
  let '(x, d) := ds_next_u64 (pct_data_source p) in
  (x, {| pct_max_iterations := pct_max_iterations p;
         pct_max_depth := pct_max_depth p;
         pct_iterations := pct_iterations p;
         pct_priorities := pct_priorities p;
         pct_next_priority := pct_next_priority p;
         pct_change_points := pct_change_points p;
         pct_max_steps := pct_max_steps p;
         pct_steps := pct_steps p;
         pct_rng := pct_rng p;
         pct_data_source := d |}).

(* --------------------------------------------------------------------- *)
(*  Sequences of calls (statement / test helpers)                         *)
(* --------------------------------------------------------------------- *)

Inductive pcall : Type :=
| PTask (offered : list N) (current : option N) (is_yielding : bool)
| PU64.

Inductive pobs : Type :=
| OT (tid : N)     (* next_task returned Some(tid) *)
| OU (x : N).      (* next_u64 returned x *)

(* The calls of one execution, in order.  Stops at the first non-Done.    *)
Fixpoint pct_run (dbg : bool) (fuel : nat) (p : pct) (cs : list pcall)
  : outcome (list pobs * pct) :=
  match cs with
  | [] => Done ([], p)
  | PU64 :: cs =>
      let '(x, p) := pct_next_u64 p in
      do (os, p) <- pct_run dbg fuel p cs ;;
      Done (OU x :: os, p)
  | PTask offered current y :: cs =>
      do (t, p) <- pct_next_task dbg fuel p offered current y ;;
      do (os, p) <- pct_run dbg fuel p cs ;;
      Done (OT t :: os, p)
  end.

(* What the derived Debug output of the Rust struct shows (the rng states
   are hidden there): priorities sorted by task id, next_priority,
   change_points, max_steps, steps, iterations.                            *)
Record pview : Type := mkObs {
  v_priorities : list (N * N);
  v_next_priority : N;
  v_change_points : list N;
  v_max_steps : N;
  v_steps : N;
  v_iterations : N
}.

Definition pct_view (p : pct) : pview :=
  {| v_priorities := pct_priorities p;
     v_next_priority := pct_next_priority p;
     v_change_points := pct_change_points p;
     v_max_steps := pct_max_steps p;
     v_steps := pct_steps p;
     v_iterations := pct_iterations p |}.

(* A whole test session: per round, new_execution (schedule seed, or None
   when the scheduler is exhausted -- the session then stops), the view
   right after it, the answers to that round's calls, the view after them. *)
Fixpoint pct_rounds (dbg : bool) (fuel : nat) (p : pct) (rounds : list (list pcall))
  : outcome (list (option N * pview * list pobs * pview)) :=
  match rounds with
  | [] => Done []
  | cs :: rounds =>
      do r <- pct_new_execution dbg fuel p ;;
      match r with
      | None => Done [(None, pct_view p, [], pct_view p)]
      | Some (seed, p1) =>
          do (os, p2) <- pct_run dbg fuel p1 cs ;;
          do rest <- pct_rounds dbg fuel p2 rounds ;;
          Done ((Some seed, pct_view p1, os, pct_view p2) :: rest)
      end
  end.

Definition pct_session (dbg : bool) (fuel : nat) (seed max_depth max_iterations : N)
           (rounds : list (list pcall))
  : outcome (list (option N * pview * list pobs * pview)) :=
  do p <- pct_new_from_seed seed max_depth max_iterations ;;
  pct_rounds dbg fuel p rounds.

(* States reachable from pct_new_from_seed by any calls, together with the
   number of new_execution calls answered Some(..) so far.                 *)
Inductive pct_trace (seed max_depth max_iterations : N) : nat -> pct -> Prop :=
| pct_tr_init : forall p,
    pct_new_from_seed seed max_depth max_iterations = Done p ->
    pct_trace seed max_depth max_iterations O p
| pct_tr_exec : forall dbg fuel n p s p',
    pct_trace seed max_depth max_iterations n p ->
    pct_new_execution dbg fuel p = Done (Some (s, p')) ->
    pct_trace seed max_depth max_iterations (S n) p'
| pct_tr_task : forall dbg fuel n p offered current y t p',
    pct_trace seed max_depth max_iterations n p ->
    pct_next_task dbg fuel p offered current y = Done (t, p') ->
    pct_trace seed max_depth max_iterations n p'
| pct_tr_u64 : forall n p x p',
    pct_trace seed max_depth max_iterations n p ->
    pct_next_u64 p = (x, p') ->
    pct_trace seed max_depth max_iterations n p'.

(* --------------------------------------------------------------------- *)
(*  Test helpers: run one rand operation from Pcg64Mcg::seed_from_u64,    *)
(*  then one next_u64 whose value pins down the final RNG state.          *)
(* --------------------------------------------------------------------- *)

Definition TEST_FUEL : nat := 64.

Definition shuffle_then_u64 (seed n : N) : option (list N * N) :=
  match shuffle (pcg_draw TEST_FUEL) (nseq n) (pcg_from_seed_u64 seed) with
  | Done (l, st) => Some (l, fst (pcg_next_u64 st))
  | _ => None
  end.

Fixpoint draw_stream (k : draw_kind) (low range : N) (cnt : nat) (st : N)
  : option (list N * N) :=
  match cnt with
  | O => Some ([], fst (pcg_next_u64 st))
  | S cnt =>
      match pcg_draw TEST_FUEL k low range st with
      | Done (v, st) =>
          match draw_stream k low range cnt st with
          | Some (l, x) => Some (v :: l, x)
          | None => None
          end
      | _ => None
      end
  end.

(* cnt draws from [0, n) *)
Definition draws_then_u64 (k : draw_kind) (seed n : N) (cnt : nat) : option (list N * N) :=
  draw_stream k 0 n cnt (pcg_from_seed_u64 seed).

(* cnt draws of rng.gen_range(low..high) *)
Definition range_draws_then_u64 (k : draw_kind) (seed low high : N) (cnt : nat)
  : option (list N * N) :=
  draw_stream k low (high - low) cnt (pcg_from_seed_u64 seed).

Definition index_sample_then_u64 (seed length amount : N) : option (list N * N) :=
  match index_sample (pcg_draw TEST_FUEL) true TEST_FUEL length amount
                     (pcg_from_seed_u64 seed) with
  | Done (l, st) => Some (l, fst (pcg_next_u64 st))
  | _ => None
  end.

(* 0 = inplace, 1 = floyd, 2 = rejection over u32, 3 = rejection over usize *)
Definition alg_code (a : sample_alg) : N :=
  match a with AInplace => 0 | AFloyd => 1 | ARejection32 => 2 | ARejection64 => 3 end.

(* all (length, amount, code) triples agree with sample_select *)
Definition select_agrees (l : list (N * N * N)) : bool :=
  forallb (fun '(len, am, a) => alg_code (sample_select len am) =? a) l.

(* least length >= amount (searching at most `budget` values) at which
   sample_select stops answering AInplace                                  *)
Fixpoint first_non_inplace_from (budget : nat) (len am : N) : N :=
  match budget with
  | O => len
  | S budget =>
      match sample_select len am with
      | AInplace => first_non_inplace_from budget (len + 1) am
      | _ => len
      end
  end.

(* --------------------------------------------------------------------- *)
(*  Statement helpers (used by SV.Props.C11)                              *)
(* --------------------------------------------------------------------- *)

(* The invariant written in the Rust struct: "every TaskId in [0, len)
   appears as a key exactly once; all values are distinct" -- plus the fact
   it silently relies on: next_priority is above every priority in use.
   (Keys are kept in the order 0, 1, ..., len-1 by pm_set.)                *)
Definition pm_wf (m : list (N * N)) (next_priority : N) : Prop :=
  map fst m = nseq (pm_len m) /\
  NoDup (map snd m) /\
  (forall v, In v (map snd m) -> v < next_priority).

Definition pct_wf (p : pct) : Prop := pm_wf (pct_priorities p) (pct_next_priority p).

(* The effect of one new-task insertion whose random draw picked `target`:
   either target = the new task itself, which then gets next_priority, or
   the new task takes over target's old priority and target gets
   next_priority.                                                          *)
Definition insert_effect (new_task_id target next_priority : N) (m : list (N * N))
  : list (N * N) :=
  if target =? new_task_id then pm_set new_task_id next_priority m
  else match pm_get target m with
       | Some old => pm_set new_task_id old (pm_set target next_priority m)
       | None => m
       end.

Fixpoint insert_effects (new_task_id next_priority : N) (targets : list N)
         (m : list (N * N)) : list (N * N) :=
  match targets with
  | [] => m
  | t :: ts =>
      insert_effects (new_task_id + 1) (next_priority + 1) ts
                     (insert_effect new_task_id t next_priority m)
  end.

(* the i-th target is drawn from [1, len + i] -- never task 0              *)
Fixpoint targets_ok (len : N) (targets : list N) : Prop :=
  match targets with
  | [] => True
  | t :: ts => 1 <= t /\ t <= len /\ targets_ok (len + 1) ts
  end.

(* Everything next_task does, for the list `targets` of drawn targets.     *)
Definition pct_next_task_effect (dbg : bool) (p : pct) (offered : list N)
           (current : option N) (is_yielding : bool) (t : N) (p' : pct)
           (targets : list N) : Prop :=
  exists mx, max_id offered = Some mx /\
  let len := pm_len (pct_priorities p) in
  let m1 := insert_effects len (pct_next_priority p) targets (pct_priorities p) in
  let np1 := pct_next_priority p + N.of_nat (length targets) in
  let multi := 1 <? N.of_nat (length offered) in
  let demote := multi && (memN (pct_steps p) (pct_change_points p) || is_yielding) in
  length targets = N.to_nat (1 + mx - len) /\
  targets_ok len targets /\
  (demote = true ->
   exists c, current = Some c /\ (dbg = true -> pm_get c m1 <> None)) /\
  pct_priorities p' =
    (if demote then match current with Some c => pm_set c np1 m1 | None => m1 end
     else m1) /\
  pct_next_priority p' = (if demote then np1 + 1 else np1) /\
  pct_steps p' = (if multi then pct_steps p + 1 else pct_steps p) /\
  pct_max_steps p' =
    (if multi then N.max (pct_max_steps p) (pct_steps p + 1) else pct_max_steps p) /\
  pct_max_iterations p' = pct_max_iterations p /\
  pct_max_depth p' = pct_max_depth p /\
  pct_iterations p' = pct_iterations p /\
  pct_change_points p' = pct_change_points p /\
  pct_data_source p' = pct_data_source p /\
  min_by_key (pct_priorities p') offered = Some t.

(* number of calls of an execution at which a change point fires           *)
Fixpoint cp_demotions (dbg : bool) (fuel : nat) (p : pct) (cs : list pcall) : nat :=
  match cs with
  | [] => O
  | PU64 :: cs => cp_demotions dbg fuel (snd (pct_next_u64 p)) cs
  | PTask offered current y :: cs =>
      match pct_next_task dbg fuel p offered current y with
      | Done (_, p') =>
          ((if (1 <? N.of_nat (length offered)) && memN (pct_steps p) (pct_change_points p)
            then 1 else 0) + cp_demotions dbg fuel p' cs)%nat
      | _ => O
      end
  end.

(* n choose k, by Pascal's rule                                            *)
Fixpoint binom (n k : nat) : nat :=
  match n, k with
  | _, O => 1
  | O, S _ => 0
  | S n', S k' => binom n' k' + binom n' k
  end.
