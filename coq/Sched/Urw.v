(* Model of shuttle-schedulers/src/urw.rs (UrwRandomScheduler, "uniform random walk") at the level of the Scheduler
   interface, driven by call sequences like Sched/Random.v and Sched/Pct.v.
   A task is given by (id, parent id, signature, parent signature); signatures are abstract keys (the real ones are
   64-bit hashes of the task-creation stack; the model assumes what the code assumes: distinct tasks of one execution
   have distinct signatures, the same task has the same signature in every execution).
   rand 0.8: SliceRandom::choose (the trial run; as RandomScheduler), SliceRandom::choose_weighted =
   WeightedIndex<usize>::new + Uniform<usize>::sample (widening multiply with the precomputed rejection zone) + the
   binary search over the cumulative weights.  No proofs in this file. *)
From Coq Require Import List NArith Bool Arith.
From SV Require Import Sched.Random.
Import ListNotations.
Local Open Scope N_scope.

Record utask := mkUT { ut_id : nat; ut_parent : option nat; ut_sig : N; ut_psig : N }.

Inductive ustate := UPre | UEstimating | UInitialized.

Record urw := mkUrw {
  u_max_iterations : N;
  u_rng : N;                         (* Pcg64Mcg state *)
  u_iterations : N;
  u_ds : ds;
  u_counts : option (list N);        (* task_event_counts *)
  u_sigs : list (N * N);             (* signature_event_counts, as an association list in insertion order *)
  u_min : N;                         (* min_event_count (usize::MAX until estimated) *)
  u_parents : list (N * N);          (* signature_parents: (parent, child), in insertion order *)
  u_state : ustate;
}.

Definition USIZE_MAX : N := 18446744073709551615.
Definition TWO64 : N := 18446744073709551616.

Definition urw_new_from_seed (seed max_iterations : N) : urw :=
  mkUrw max_iterations (pcg_from_seed_u64 seed) 0 (ds_initialize seed) None [] USIZE_MAX [] UPre.

Fixpoint sig_get (l : list (N * N)) (k : N) : option N :=
  match l with [] => None | (k', v) :: r => if N.eqb k k' then Some v else sig_get r k end.
Fixpoint sig_add (l : list (N * N)) (k : N) (d : N) : list (N * N) :=
  match l with [] => [] | (k', v) :: r => if N.eqb k k' then (k', v + d) :: r else (k', v) :: sig_add r k d end.

(* initialize_estimates_from_observed_counts: children's counts are added to their parents', newest relation first;
   None = the unwrap of a missing child count / of an empty map *)
Fixpoint subsume (rels : list (N * N)) (sigs : list (N * N)) : option (list (N * N)) :=
  match rels with
  | [] => Some sigs
  | (p, c) :: r => match sig_get sigs c with
                   | Some cc => subsume r (sig_add sigs p cc)
                   | None => None end
  end.
Fixpoint min_list (l : list N) : option N :=
  match l with
  | [] => None
  | x :: r => match min_list r with Some m => Some (N.min x m) | None => Some x end
  end.

Definition urw_initialize_estimates (u : urw) : option urw :=
  match subsume (rev (u_parents u)) (u_sigs u) with
  | Some sigs => match min_list (map snd sigs) with
                 | Some m => Some (mkUrw (u_max_iterations u) (u_rng u) (u_iterations u) (u_ds u) (Some []) sigs m (u_parents u) UInitialized)
                 | None => None end
  | None => None
  end.

(* new_execution: None = Option::None; the inner option is a panic of the estimation step *)
Definition urw_new_execution (u : urw) : option (option (N * urw)) :=
  if u_max_iterations u <=? u_iterations u then None
  else
    let u1 := match u_state u with
              | UPre => Some (mkUrw (u_max_iterations u) (u_rng u) (u_iterations u) (u_ds u) (u_counts u) (u_sigs u) (u_min u) (u_parents u) UEstimating)
              | UEstimating => urw_initialize_estimates u
              | UInitialized => Some (mkUrw (u_max_iterations u) (u_rng u) (u_iterations u) (u_ds u) (Some []) (u_sigs u) (u_min u) (u_parents u) UInitialized)
              end in
    match u1 with
    | None => Some None
    | Some u1 =>
      let '(seed, d) := ds_reinitialize (u_ds u1) in
      Some (Some (seed, mkUrw (u_max_iterations u1) (pcg_from_seed_u64 seed) (u_iterations u1 + 1) d (u_counts u1) (u_sigs u1) (u_min u1) (u_parents u1) (u_state u1)))
    end.

(* Uniform<usize>::new(0, total).sample: z = (2^64 - range) mod range, zone = 2^64 - 1 - z; draw v until lo(v * range) <= zone *)
Fixpoint uniform_below (fuel : nat) (range : N) (st : N) : option (N * N) :=
  match fuel with
  | O => None
  | S f =>
    let z := (TWO64 - range) mod range in
    let zone := USIZE_MAX - z in
    let '(v, st') := pcg_next_u64 st in
    let p := v * range in
    if (p mod TWO64) <=? zone then Some (p / TWO64, st') else uniform_below f range st'
  end.

(* WeightedIndex::sample: the index of the first cumulative weight that is higher than the chosen weight, i.e. the
   number of cumulative weights (sums of the weights before each item but the first) that are <= it *)
Fixpoint pick_weighted (ws : list N) (chosen : N) (acc : N) (i : nat) : nat :=
  match ws with
  | [] => i
  | w :: r => match r with
              | [] => i
              | _ => if (acc + w) <=? chosen then pick_weighted r chosen (acc + w) (S i) else i
              end
  end.

Definition set_count (l : list N) (i : nat) (v : N) : list N :=
  (fix go (l : list N) (i : nat) : list N := match l, i with [] , _ => [] | _ :: r, O => v :: r | x :: r, S j => x :: go r j end) l i.

(* the registration loop of next_task_urw over the offered tasks; None = a panic (ids not ascending by one, a count of 0) *)
Fixpoint urw_register (u_sigs0 : list (N * N)) (umin : N) (counts : list N) (ts : list utask) : option (list N) :=
  match ts with
  | [] => Some counts
  | t :: r =>
    let tid := ut_id t in
    if Nat.eqb tid (length counts) then
      let ce := match sig_get u_sigs0 (ut_sig t) with Some c => c | None => umin end in
      let counts1 := counts ++ [ce] in
      let counts2 := match ut_parent t with
                     | Some p => match nth_error counts1 p with
                                 | Some pc => Some (set_count counts1 p (N.max (pc - ce) 1))
                                 | None => None end           (* index out of bounds *)
                     | None => Some counts1 end in
      match counts2 with
      | Some c2 => match nth_error c2 tid with
                   | Some x => if 1 <=? x then urw_register u_sigs0 umin c2 r else None
                   | None => None end
      | None => None end
    else if Nat.ltb (length counts) tid then None
    else match nth_error counts tid with
         | Some x => if 1 <=? x then urw_register u_sigs0 umin counts r else None
         | None => None end
  end.

Definition weights_of (counts : list N) (ts : list utask) : list N := map (fun t => nth (ut_id t) counts 0) ts.
Definition sum_N (l : list N) : N := fold_left N.add l 0.

Definition urw_next_task (fuel : nat) (u : urw) (ts : list utask) : outcome (nat * urw) :=
  match u_state u with
  | UPre => Panic                                              (* unreachable!() *)
  | UEstimating =>
    match choose_index (N.of_nat (length ts)) fuel (u_rng u) with
    | Done (Some i, st) =>
      match nth_error ts (N.to_nat i) with
      | Some t =>
        let '(sigs, parents) :=
          match sig_get (u_sigs u) (ut_sig t) with
          | Some _ => (sig_add (u_sigs u) (ut_sig t) 1, u_parents u)
          | None => (u_sigs u ++ [(ut_sig t, 1)], u_parents u ++ [(ut_psig t, ut_sig t)])
          end in
        Done (ut_id t, mkUrw (u_max_iterations u) st (u_iterations u) (u_ds u) (u_counts u) sigs (u_min u) parents (u_state u))
      | None => Panic end
    | Done (None, _) => Panic
    | Panic => Panic
    | OutOfFuel => OutOfFuel
    | NotModelled => NotModelled
    end
  | UInitialized =>
    match u_counts u with
    | None => Panic
    | Some counts =>
      match urw_register (u_sigs u) (u_min u) counts ts with
      | None => Panic
      | Some counts1 =>
        let ws := weights_of counts1 ts in
        let total := sum_N ws in
        match ts with
        | [] => Panic                                          (* choose_weighted: NoItem, unwrapped *)
        | _ =>
          if TWO64 <=? total then NotModelled                  (* usize overflow of the total weight *)
          else match uniform_below fuel total (u_rng u) with
               | None => OutOfFuel
               | Some (chosen, st) =>
                 match nth_error ts (pick_weighted ws chosen 0 0) with
                 | Some t =>
                   let c := nth (ut_id t) counts1 0 in
                   Done (ut_id t, mkUrw (u_max_iterations u) st (u_iterations u) (u_ds u)
                                        (Some (set_count counts1 (ut_id t) (N.max (c - 1) 1))) (u_sigs u) (u_min u) (u_parents u) (u_state u))
                 | None => Panic end
               end
        end
      end
    end
  end.

Definition urw_next_u64 (u : urw) : N * urw :=
  let '(x, d) := ds_next_u64 (u_ds u) in
  (x, mkUrw (u_max_iterations u) (u_rng u) (u_iterations u) d (u_counts u) (u_sigs u) (u_min u) (u_parents u) (u_state u)).
