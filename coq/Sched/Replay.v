(* Model of shuttle-schedulers/src/replay.rs (ReplayScheduler without a target clock) as an
   instance of the scheduler interface of Engine/Exec.v.  The data source is abstracted to the
   stream of values it will return (for the built-in schedulers this is the Pcg64Mcg stream of the
   schedule's seed, see Sched/Random.v).  No proofs in this file. *)
From Coq Require Import List NArith Bool Arith.
From SV Require Import Engine.Exec.
Import ListNotations.

Record replay_state := mkReplay {
  rp_steps : list sstep;        (* schedule.steps[self.steps..] *)
  rp_vals : list N;             (* what data_source.next_u64() will return, in order *)
  rp_failed : bool;             (* one of the scheduler's panics was reached *)
  rp_ended : bool;              (* next_task was asked for a step beyond the end of the schedule *)
}.

Definition replay : scheduler replay_state :=
  mkSched
    (fun st offered cur yielding =>
       match rp_steps st with
       | [] => (None, mkReplay [] (rp_vals st) (rp_failed st) true)      (* "schedule ended early" unless allow_incomplete *)
       | StRandom :: _ => (None, mkReplay (rp_steps st) (rp_vals st) true (rp_ended st))
             (* "expected context switch but next schedule step is random choice" *)
       | StTask t :: r =>
         if existsb (Nat.eqb t) offered then (Some t, mkReplay r (rp_vals st) (rp_failed st) (rp_ended st))
         else (None, mkReplay (rp_steps st) (rp_vals st) true (rp_ended st))   (* "scheduled task is not runnable" *)
       end)
    (fun st =>
       match rp_steps st, rp_vals st with
       | StRandom :: r, v :: vs => (Some v, mkReplay r vs (rp_failed st) (rp_ended st))
       | _, _ => (None, mkReplay (rp_steps st) (rp_vals st) true (rp_ended st))
             (* "expected random choice but next schedule step is context switch" (or index out of range) *)
       end).

(* the values drawn in an execution, oldest first *)
Definition draws (tr : list event) : list N :=
  rev (flat_map (fun ev => match ev with EvRandom v => [v] | _ => [] end) tr).
