(* ------------------------------------------------------------------------- *)
(* SV.Sched.Dfs -- executable model of shuttle-schedulers/src/dfs.rs          *)
(*                                                                           *)
(* MODEL ONLY: computable definitions (plus the Prop [wf_tree]); no lemmas,  *)
(* no proofs.  Everything here is meant to be extractable to OCaml.          *)
(* ------------------------------------------------------------------------- *)
From Coq Require Import List Arith NArith Bool.
Import ListNotations.

(* ========================================================================= *)
(* 1. The scheduler state (struct DfsScheduler)                              *)
(* ========================================================================= *)

(* Fields of [DfsScheduler] that influence scheduling decisions.
   [allow_random_data] and [data_source] are only used by [next_u64] and
   never read by [new_execution]/[next_task]; they are not modelled.
   [usize] is modelled by the unbounded [nat] (no overflow of
   [iterations += 1] / [steps += 1]). *)
Record dfs := mkDfs {
  max_iterations : option nat;
  iterations     : nat;
  (* Vec<(previous choice, was that the last choice at that level)> *)
  levels         : list (N * bool);
  steps          : nat
}.

(* DfsScheduler::new(max_iterations, _) *)
Definition dfs_new (mi : option nat) : dfs :=
  {| max_iterations := mi; iterations := 0; levels := []; steps := 0 |}.

(* fn has_more_choices(&self, index) -> bool {
       self.levels[index..].iter().any(|(_, last)| !*last) }
   The slice [levels[index..]] panics in Rust when [index > len]; that is
   unreachable: the only call sites use index 0 and index steps+1 with
   steps < len.  [skipn] returns [] in that case. *)
Definition has_more_choices (d : dfs) (index : nat) : bool :=
  existsb (fun p => negb (snd p)) (skipn index (levels d)).

(* fn new_execution(&mut self) -> Option<Schedule>
   The returned [Schedule] carries no information (fresh data source); the
   model returns the updated scheduler state instead.  [None] exactly when
   the Rust function returns [None]; the two tests are in the Rust order. *)
Definition new_execution (d : dfs) : option dfs :=
  if match max_iterations d with
     | Some mi => mi <=? iterations d          (* self.iterations >= mi *)
     | None => false                           (* .unwrap_or(false)     *)
     end
  then None
  else if (0 <? iterations d) && negb (has_more_choices d 0)
  then None
  else Some {| max_iterations := max_iterations d;
               iterations := S (iterations d);             (* += 1 *)
               levels := levels d;
               steps := 0 |}.

(* Result of next_task: the Rust function returns Some(id) on every
   non-panicking path, so the outcomes are "chose id (and new state)" or a
   panic. *)
Inductive ntres :=
| Chose (id : N) (d : dfs)
| Crash.

(* runnable.iter().position(|t| t.id() == x) *)
Fixpoint position (x : N) (l : list N) : option nat :=
  match l with
  | [] => None
  | y :: r => if N.eqb y x then Some 0 else option_map S (position x r)
  end.

(* fn next_task(&mut self, runnable, _current, _is_yielding) -> Option<TaskId>
   [runnable] is the list of the ids of the offered tasks, in the order
   given.  [_current] and [_is_yielding] are ignored by the Rust code. *)
Definition next_task (d : dfs) (runnable : list N) : ntres :=
  if length (levels d) <=? steps d then            (* self.steps >= self.levels.len() *)
    (* First time we've reached this level *)
    if steps d =? length (levels d) then           (* assert_eq!(steps, levels.len()) *)
      match runnable with
      | [] => Crash                                (* runnable.first().unwrap() *)
      | to_run :: _ =>
          Chose to_run
            {| max_iterations := max_iterations d;
               iterations := iterations d;
               levels := levels d ++ [(to_run, length runnable =? 1)];
               steps := S (steps d) |}
      end
    else Crash
  else
    match nth_error (levels d) (steps d) with      (* self.levels[self.steps] *)
    | None => Crash                                (* index panic; unreachable as steps < len *)
    | Some (last_choice, was_last) =>
        if has_more_choices d (S (steps d)) then
          (* Keep the same choice, because there's more work to do below us *)
          Chose last_choice
            {| max_iterations := max_iterations d;
               iterations := iterations d;
               levels := levels d;
               steps := S (steps d) |}
        else if was_last then Crash                (* assert!(!was_last) *)
        else
          match position last_choice runnable with
          | None => Crash                          (* position(..).unwrap() *)
          | Some i =>
              let next_idx := S i in               (* ... + 1 *)
              match nth_error runnable next_idx with
              | None => Crash                      (* runnable[next_idx] out of range *)
              | Some next =>
                  Chose next
                    {| max_iterations := max_iterations d;
                       iterations := iterations d;
                       (* levels.drain(steps..); levels.push(..) *)
                       levels := firstn (steps d) (levels d)
                                 ++ [(next, next_idx =? length runnable - 1)];
                       steps := S (steps d) |}
              end
          end
    end.

(* ========================================================================= *)
(* 2. Choice trees: the program under test as seen by the scheduler          *)
(* ========================================================================= *)

(* A node is a scheduling point; its children are labelled with the ids of
   the runnable tasks at that point (in the order offered); a node without
   children is the end of the execution.  The tree is a deterministic
   program: the set of runnable tasks depends only on the choices made so
   far. *)
Inductive tree := Node : list (N * tree) -> tree.

Definition kids (t : tree) : list (N * tree) := match t with Node l => l end.

(* all root-to-leaf label paths, left to right *)
Fixpoint leaves (t : tree) : list (list N) :=
  match t with
  | Node l =>
      match l with
      | [] => [[]]
      | _ :: _ => flat_map (fun p => match p with (c, t') => map (cons c) (leaves t') end) l
      end
  end.

(* cut the tree below depth n *)
Fixpoint truncate (n : nat) (t : tree) : tree :=
  match n with
  | 0 => Node []
  | S k => match t with
           | Node l => Node (map (fun p => (fst p, truncate k (snd p))) l)
           end
  end.

(* strictly ascending list of ids *)
Fixpoint ascending (l : list N) : bool :=
  match l with
  | [] => true
  | x :: r => match r with
              | [] => true
              | y :: _ => N.ltb x y && ascending r
              end
  end.

(* The runtime offers the runnable tasks in ascending task-id order (it
   iterates the sorted [live_tasks]); in particular no id is offered twice. *)
Inductive wf_tree : tree -> Prop :=
| wf_node : forall l,
    ascending (map fst l) = true ->
    Forall (fun p => wf_tree (snd p)) l ->
    wf_tree (Node l).

(* boolean version of wf_tree (reflection lemma in SV.Proofs.DfsProofs) *)
Fixpoint wf_treeb (t : tree) : bool :=
  match t with
  | Node l => ascending (map fst l)
              && forallb (fun p => match p with (_, t') => wf_treeb t' end) l
  end.

(* spec-side helpers for optional bounds *)
Definition take_opt {A} (o : option nat) (l : list A) : list A :=
  match o with None => l | Some m => firstn m l end.
Definition truncate_opt (o : option nat) (t : tree) : tree :=
  match o with None => t | Some n => truncate n t end.

(* ========================================================================= *)
(* 3. The driver: plays the role of the runtime (execution.rs, schedule())   *)
(* ========================================================================= *)

(* MaxSteps::ContinueAfter(n): is_step_bound_exceeded, i.e. the number of
   scheduling choices already made in this execution is >= n.  [acc] is the
   reversed list of the choices made so far. *)
Definition bound_hit (bound : option nat) (acc : list N) : bool :=
  match bound with
  | Some n => n <=? length acc
  | None => false
  end.

Inductive dres :=
| Done (path : list N) (d : dfs)   (* execution over: choices made, final scheduler state *)
| DCrash                           (* next_task panicked *)
| DBadChoice.                      (* next_task returned an id that was not offered *)

(* One execution.  As in ExecutionState::schedule(): first the step bound is
   tested (-> Stopped, scheduler not consulted), then "no runnable task"
   (-> Finished, scheduler not consulted), otherwise next_task is called
   with the runnable ids and the chosen task runs, i.e. we descend into the
   child carrying that label.  Structural in the tree: no fuel needed. *)
Fixpoint drive (bound : option nat) (t : tree) (d : dfs) (acc : list N) {struct t} : dres :=
  match t with
  | Node l =>
      if bound_hit bound acc then Done (rev acc) d
      else
        match l with
        | [] => Done (rev acc) d
        | _ :: _ =>
            match next_task d (map fst l) with
            | Crash => DCrash
            | Chose c d' =>
                (fix pick (l' : list (N * tree)) : dres :=
                   match l' with
                   | [] => DBadChoice
                   | (x, tx) :: r =>
                       if N.eqb c x then drive bound tx d' (c :: acc) else pick r
                   end) l
            end
        end
  end.

Inductive outcome :=
| Finished (paths : list (list N))   (* new_execution returned None *)
| OutOfFuel
| Crashed
| BadChoice.

(* The Runner loop: while let Some(schedule) = new_execution() { run one
   execution }.  Collects the choice paths in order. *)
Fixpoint dfs_loop (fuel : nat) (bound : option nat) (t : tree) (d : dfs) : outcome :=
  match fuel with
  | 0 => OutOfFuel
  | S f =>
      match new_execution d with
      | None => Finished []
      | Some d1 =>
          match drive bound t d1 [] with
          | Done p d2 =>
              match dfs_loop f bound t d2 with
              | Finished ps => Finished (p :: ps)
              | o => o
              end
          | DCrash => Crashed
          | DBadChoice => BadChoice
          end
      end
  end.

Definition dfs_outcome (fuel : nat) (max_iter bound : option nat) (t : tree) : outcome :=
  dfs_loop fuel bound t (dfs_new max_iter).

(* None on fuel exhaustion, on a panic of next_task, or on a bad choice *)
Definition dfs_run (fuel : nat) (max_iter bound : option nat) (t : tree)
  : option (list (list N)) :=
  match dfs_outcome fuel max_iter bound t with
  | Finished ps => Some ps
  | _ => None
  end.
