(* ===================================================================== *)
(*  SV.Sched.Random -- executable, bit-exact MODEL of Shuttle's random    *)
(*  scheduler and of the parts of the rand crates it goes through.        *)
(*  MODEL ONLY: no lemmas here (see SV.Proofs.RandomProofs, SV.Props.C10) *)
(*                                                                        *)
(*  Sources mirrored (checked against the source text):                   *)
(*   - shuttle-schedulers/src/random.rs          (RandomScheduler)        *)
(*   - shuttle-engine/src/scheduler/data/random.rs (RandomDataSource)     *)
(*   - shuttle-engine/src/scheduler/data/fixed.rs  (FixedDataSource)      *)
(*   - rand_core-0.6.4/src/lib.rs   SeedableRng::seed_from_u64 (default)  *)
(*   - rand_pcg-0.3.1/src/pcg128.rs Mcg128Xsl64 (= Pcg64Mcg)              *)
(*   - rand-0.8.8/src/seq/mod.rs    SliceRandom::choose, gen_index        *)
(*   - rand-0.8.8/src/rng.rs        Rng::gen_range, Rng::gen              *)
(*   - rand-0.8.8/src/distributions/uniform.rs  uniform_int_impl!{u32,    *)
(*       u32,u32}: sample_single -> sample_single_inclusive               *)
(*   - rand-0.8.8/src/distributions/integer.rs  Standard for u32          *)
(*       = rng.next_u32()                                                 *)
(*   - rand-0.8.8/src/distributions/utils.rs    wmul_impl!{u32,u64,32}    *)
(*                                                                        *)
(*  All machine integers are N; every wrap-around is an explicit `mod`.   *)
(* ===================================================================== *)

From Coq Require Import NArith List.
Import ListNotations.
Local Open Scope N_scope.

(* --------------------------------------------------------------------- *)
(*  Generic outcome of a call that can panic / loop / leave the model.    *)
(* --------------------------------------------------------------------- *)
Inductive outcome (A : Type) : Type :=
| Done (a : A)        (* the Rust call returns a *)
| Panic               (* the Rust call panics (unwrap on None, assert) *)
| OutOfFuel           (* the model's fuel ran out (Rust: still looping) *)
| NotModelled.        (* input outside the modelled fragment *)
Arguments Done {A} a.
Arguments Panic {A}.
Arguments OutOfFuel {A}.
Arguments NotModelled {A}.

(* --------------------------------------------------------------------- *)
(*  Bit helpers                                                           *)
(* --------------------------------------------------------------------- *)

(* uN::rotate_right for an N-bit word x (< 2^w); the amount is taken
   modulo the width, as in Rust.                                          *)
Definition rotr (w x r : N) : N :=
  let r := r mod w in
  (N.lor (N.shiftr x r) (N.shiftl x (w - r))) mod 2 ^ w.

(* --------------------------------------------------------------------- *)
(*  rand_core 0.6.4: SeedableRng::seed_from_u64 (default implementation)  *)
(* --------------------------------------------------------------------- *)

Definition PCG32_MUL : N := 6364136223846793005.
Definition PCG32_INC : N := 11634580027462260723.

(* fn pcg32(state: &mut u64) -> [u8;4]; we return the u32 `x` whose
   little-endian bytes are produced, and the new state.                   *)
Definition pcg32 (state : N) : N * N :=
  let state := (state * PCG32_MUL + PCG32_INC) mod 2 ^ 64 in
  let xorshifted := (N.shiftr (N.lxor (N.shiftr state 18) state) 27) mod 2 ^ 32 in
  let rot := (N.shiftr state 59) mod 2 ^ 32 in
  (rotr 32 xorshifted rot, state).

(* rand_pcg 0.3.1, Mcg128Xsl64: Seed = [u8;16]; seed_from_u64 fills the 16
   bytes with four 4-byte little-endian chunks x0..x3 (no remainder);
   from_seed reads the bytes as a little-endian u128, i.e.
   x0 | x1<<32 | x2<<64 | x3<<96, and Mcg128Xsl64::new sets `state | 1`.  *)
Definition pcg_from_seed_u64 (seed : N) : N :=
  let '(x0, s1) := pcg32 seed in
  let '(x1, s2) := pcg32 s1 in
  let '(x2, s3) := pcg32 s2 in
  let '(x3, _)  := pcg32 s3 in
  let state :=
    N.lor (N.lor x0 (N.shiftl x1 32))
          (N.lor (N.shiftl x2 64) (N.shiftl x3 96)) in
  N.lor state 1.

(* --------------------------------------------------------------------- *)
(*  rand_pcg 0.3.1: Mcg128Xsl64 (Pcg64Mcg)                                *)
(* --------------------------------------------------------------------- *)

Definition PCG_MULTIPLIER : N := 0x2360ED051FC65DA44385DF649FCCF645.

(* fn output_xsl_rr(state: u128) -> u64 : XSHIFT = 64, ROTATE = 122 *)
Definition output_xsl_rr (state : N) : N :=
  let rot := (N.shiftr state 122) mod 2 ^ 32 in
  let xsl := N.lxor ((N.shiftr state 64) mod 2 ^ 64) (state mod 2 ^ 64) in
  rotr 64 xsl rot.

(* next_u64: state = state.wrapping_mul(MULTIPLIER); output_xsl_rr(state).
   Returns (output, new state).                                           *)
Definition pcg_next_u64 (state : N) : N * N :=
  let state := (state * PCG_MULTIPLIER) mod 2 ^ 128 in
  (output_xsl_rr state, state).

(* next_u32: self.next_u64() as u32 *)
Definition pcg_next_u32 (state : N) : N * N :=
  let '(x, state) := pcg_next_u64 state in
  (x mod 2 ^ 32, state).

(* k consecutive next_u64 outputs (test helper). *)
Fixpoint pcg_stream (k : nat) (state : N) : list N :=
  match k with
  | O => []
  | S k => let '(x, state) := pcg_next_u64 state in x :: pcg_stream k state
  end.

(* --------------------------------------------------------------------- *)
(*  rand 0.8.8: UniformInt<u32>::sample_single(0, n, rng)                 *)
(*   -> sample_single_inclusive(0, n-1, rng), $u_large = u32              *)
(* --------------------------------------------------------------------- *)

(* The definitions are parametric in the word width w so that the very same
   text can be tested exhaustively at w = 8; the model uses w = 32 only.  *)

(* uW::leading_zeros *)
Definition lz_w (w n : N) : N := w - N.size n.

(* zone = (range << range.leading_zeros()).wrapping_sub(1)   (in uW)     *)
Definition zone_w (w n : N) : N :=
  ((N.shiftl n (lz_w w n)) mod 2 ^ w + 2 ^ w - 1) mod 2 ^ w.

(* One loop iteration for a W-bit draw v:
     let (hi, lo) = v.wmul(range);   // tmp = (v as u2W)*(range as u2W);
                                     // hi = (tmp >> W) as uW; lo = tmp as uW
     if lo <= zone { return low.wrapping_add(hi) }   // low = 0
   Some hi when accepted, None when rejected (the loop draws again).      *)
Definition accept_w (w n v : N) : option N :=
  let tmp := (v * n) mod 2 ^ (2 * w) in
  let hi := (N.shiftr tmp w) mod 2 ^ w in
  let lo := tmp mod 2 ^ w in
  if lo <=? zone_w w n then Some hi else None.

Definition lz (n : N) : N := lz_w 32 n.
Definition zone (n : N) : N := zone_w 32 n.
Definition accept (n v : N) : option N := accept_w 32 n v.

(* The rejection loop.  n = range = length of the offered list,
   1 <= n < 2^32 (n = 0 is excluded by gen_range's assert / choose's
   is_empty test; range == 0 in the Rust text means the full u32 range and
   cannot arise from `0..n`).  `fuel` bounds the number of draws only so
   that Coq accepts the definition; None = fuel exhausted.
   v = rng.gen::<u32>() = Standard.sample(rng) = rng.next_u32().          *)
Fixpoint sample_single (n : N) (fuel : nat) (st : N) : option (N * N) :=
  match fuel with
  | O => None
  | S fuel =>
      let '(v, st) := pcg_next_u32 st in
      match accept n v with
      | Some hi => Some (hi, st)
      | None => sample_single n fuel st
      end
  end.

(* SliceRandom::choose on a slice of length len:
     if self.is_empty() { None } else { Some(&self[gen_index(rng, len)]) }
   gen_index: if ubound <= u32::MAX { rng.gen_range(0..ubound as u32) }
              else { rng.gen_range(0..ubound) }      // usize path
   Only the `len <= u32::MAX` path is modelled; a slice of 2^32 or more
   elements yields NotModelled.  Done None = Rust's `None` (empty slice,
   RNG untouched).                                                        *)
Definition choose_index (len : N) (fuel : nat) (st : N)
  : outcome (option N * N) :=
  if len =? 0 then Done (None, st)
  else if len <=? 2 ^ 32 - 1 then
    match sample_single len fuel st with
    | Some (i, st) => Done (Some i, st)
    | None => OutOfFuel
    end
  else NotModelled.

(* k consecutive choose() calls on a slice of length n (test helper);
   returns the indices and the final RNG state.                           *)
Fixpoint choose_stream (fuel k : nat) (n st : N) : option (list N * N) :=
  match k with
  | O => Some ([], st)
  | S k =>
      match sample_single n fuel st with
      | None => None
      | Some (i, st) =>
          match choose_stream fuel k n st with
          | None => None
          | Some (is, st) => Some (i :: is, st)
          end
      end
  end.

(* choose_stream with 64 draws of fuel per call, followed by one next_u64
   whose value pins down the final RNG state (test helper).               *)
Definition choose_then_u64 (k : nat) (n st : N) : option (list N * N) :=
  match choose_stream 64 k n st with
  | Some (is, st) => Some (is, fst (pcg_next_u64 st))
  | None => None
  end.

(* --------------------------------------------------------------------- *)
(*  shuttle-engine: RandomDataSource                                      *)
(* --------------------------------------------------------------------- *)

Record ds : Type := mkDs {
  ds_rng : N;                 (* Pcg64Mcg state (u128) *)
  ds_next_seed : option N     (* Option<u64> *)
}.

(* initialize(seed) = new_from_seed(seed) *)
Definition ds_initialize (seed : N) : ds :=
  {| ds_rng := pcg_from_seed_u64 seed; ds_next_seed := Some seed |}.

(* reinitialize:
     let next_seed = self.next_seed.take().unwrap_or_else(|| self.rng.next_u64());
     self.rng = Pcg64Mcg::seed_from_u64(next_seed);
     next_seed                                                            *)
Definition ds_reinitialize (d : ds) : N * ds :=
  let next_seed :=
    match ds_next_seed d with
    | Some s => s
    | None => fst (pcg_next_u64 (ds_rng d))
    end in
  (next_seed, {| ds_rng := pcg_from_seed_u64 next_seed; ds_next_seed := None |}).

Definition ds_next_u64 (d : ds) : N * ds :=
  let '(x, st) := pcg_next_u64 (ds_rng d) in
  (x, {| ds_rng := st; ds_next_seed := ds_next_seed d |}).

(* --------------------------------------------------------------------- *)
(*  shuttle-engine: FixedDataSource                                       *)
(* --------------------------------------------------------------------- *)

Record fd : Type := mkFd {
  fd_seed : N;
  fd_data_source : ds
}.

Definition fd_initialize (seed : N) : fd :=
  {| fd_seed := seed; fd_data_source := ds_initialize seed |}.

(* reinitialize:
     self.data_source = RandomDataSource::initialize(self.seed);
     self.data_source.reinitialize()                                      *)
Definition fd_reinitialize (f : fd) : N * fd :=
  let '(s, d) := ds_reinitialize (ds_initialize (fd_seed f)) in
  (s, {| fd_seed := fd_seed f; fd_data_source := d |}).

Definition fd_next_u64 (f : fd) : N * fd :=
  let '(x, d) := ds_next_u64 (fd_data_source f) in
  (x, {| fd_seed := fd_seed f; fd_data_source := d |}).

(* The one state a FixedDataSource with seed s is in right after any
   reinitialize (statement helper).                                       *)
Definition fd_fresh (s : N) : fd :=
  {| fd_seed := s;
     fd_data_source := {| ds_rng := pcg_from_seed_u64 s; ds_next_seed := None |} |}.

(* k consecutive next_u64 draws of a FixedDataSource (statement helper). *)
Fixpoint fd_stream (k : nat) (f : fd) : list N :=
  match k with
  | O => []
  | S k => let '(x, f) := fd_next_u64 f in x :: fd_stream k f
  end.

(* --------------------------------------------------------------------- *)
(*  shuttle-schedulers: RandomScheduler                                   *)
(*  Not modelled: the SHUTTLE_RANDOM_SEED override inside new_from_seed   *)
(*  (`seed` below is the value after seed_from_env), the optional         *)
(*  SHUTTLE_ALWAYS_PERSIST_SEED file write, and the CurrentSeedDropGuard  *)
(*  (only prints the seed on drop).  usize counters are unbounded N       *)
(*  (iterations < max_iterations <= usize::MAX, so `+= 1` cannot wrap).   *)
(* --------------------------------------------------------------------- *)

Record rs : Type := mkRs {
  rs_max_iterations : N;
  rs_rng : N;                 (* Pcg64Mcg state (u128) *)
  rs_iterations : N;
  rs_data_source : ds
}.

Definition rs_new_from_seed (seed max_iterations : N) : rs :=
  {| rs_max_iterations := max_iterations;
     rs_rng := pcg_from_seed_u64 seed;
     rs_iterations := 0;
     rs_data_source := ds_initialize seed |}.

(* new_execution: None when iterations >= max_iterations, otherwise
   Some(Schedule::new(seed)); we return the schedule's seed.              *)
Definition rs_new_execution (r : rs) : option (N * rs) :=
  if rs_max_iterations r <=? rs_iterations r then None
  else
    let '(seed, d) := ds_reinitialize (rs_data_source r) in
    Some (seed,
          {| rs_max_iterations := rs_max_iterations r;
             rs_rng := pcg_from_seed_u64 seed;
             rs_iterations := rs_iterations r + 1;
             rs_data_source := d |}).

(* next_task(runnable, _current, _is_yielding) =
     Some(runnable.choose(&mut self.rng).unwrap().id())
   `runnable` is given as the list of task ids; the two ignored arguments
   are dropped.  Panic = unwrap on None (empty runnable).                 *)
Definition rs_next_task (fuel : nat) (r : rs) (runnable : list N)
  : outcome (N * rs) :=
  match choose_index (N.of_nat (length runnable)) fuel (rs_rng r) with
  | Done (Some i, st) =>
      Done (nth (N.to_nat i) runnable 0,
            {| rs_max_iterations := rs_max_iterations r;
               rs_rng := st;
               rs_iterations := rs_iterations r;
               rs_data_source := rs_data_source r |})
  | Done (None, _) => Panic
  | Panic => Panic
  | OutOfFuel => OutOfFuel
  | NotModelled => NotModelled
  end.

Definition rs_next_u64 (r : rs) : N * rs :=
  let '(x, d) := ds_next_u64 (rs_data_source r) in
  (x, {| rs_max_iterations := rs_max_iterations r;
         rs_rng := rs_rng r;
         rs_iterations := rs_iterations r;
         rs_data_source := d |}).

(* --------------------------------------------------------------------- *)
(*  Sequences of calls (statement helpers)                                *)
(* --------------------------------------------------------------------- *)

Inductive call : Type :=
| CNextTask (runnable : list N)
| CNextU64.

Inductive obs : Type :=
| OTask (tid : N)       (* next_task returned Some(tid) *)
| OU64 (x : N)          (* next_u64 returned x *)
| OPanic                (* next_task panicked; the run stops *)
| OOutOfFuel            (* model fuel exhausted; the run stops *)
| ONotModelled.         (* runnable list of >= 2^32 entries; run stops *)

(* Perform the calls in order; return what each call returned and the
   final scheduler state.  The run stops at the first non-Done call.      *)
Fixpoint rs_run (fuel : nat) (r : rs) (cs : list call) : list obs * rs :=
  match cs with
  | [] => ([], r)
  | CNextU64 :: cs =>
      let '(x, r) := rs_next_u64 r in
      let '(os, r) := rs_run fuel r cs in
      (OU64 x :: os, r)
  | CNextTask l :: cs =>
      match rs_next_task fuel r l with
      | Done (t, r) =>
          let '(os, r) := rs_run fuel r cs in
          (OTask t :: os, r)
      | Panic => ([OPanic], r)
      | OutOfFuel => ([OOutOfFuel], r)
      | NotModelled => ([ONotModelled], r)
      end
  end.

(* States reachable from rs_new_from_seed seed k by any interleaving of
   new_execution / next_task / next_u64 calls (in particular by any number
   of "new_execution followed by a sequence of next_task/next_u64" rounds). *)
Inductive rs_reachable (seed k : N) : rs -> Prop :=
| rs_reach_init : rs_reachable seed k (rs_new_from_seed seed k)
| rs_reach_exec : forall r s r',
    rs_reachable seed k r -> rs_new_execution r = Some (s, r') ->
    rs_reachable seed k r'
| rs_reach_task : forall fuel r l t r',
    rs_reachable seed k r -> rs_next_task fuel r l = Done (t, r') ->
    rs_reachable seed k r'
| rs_reach_u64 : forall r x r',
    rs_reachable seed k r -> rs_next_u64 r = (x, r') ->
    rs_reachable seed k r'.

(* States of a FixedDataSource reachable from fd_initialize seed. *)
Inductive fd_reachable (seed : N) : fd -> Prop :=
| fd_reach_init : fd_reachable seed (fd_initialize seed)
| fd_reach_reinit : forall f s f',
    fd_reachable seed f -> fd_reinitialize f = (s, f') -> fd_reachable seed f'
| fd_reach_u64 : forall f x f',
    fd_reachable seed f -> fd_next_u64 f = (x, f') -> fd_reachable seed f'.

(* ceil(a / b) for b > 0 (statement helper). *)
Definition ceil_div (a b : N) : N := (a + b - 1) / b.

(* A whole test session: for each round, new_execution (recording the
   schedule seed, or None when the scheduler is exhausted -- the session
   then stops) followed by that round's calls.                            *)
Fixpoint rs_session (fuel : nat) (r : rs) (rounds : list (list call))
  : list (option N * list obs) :=
  match rounds with
  | [] => []
  | cs :: rounds =>
      match rs_new_execution r with
      | None => [(None, [])]
      | Some (seed, r) =>
          let '(os, r) := rs_run fuel r cs in
          (Some seed, os) :: rs_session fuel r rounds
      end
  end.
