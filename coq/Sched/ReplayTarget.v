(* Model of ReplayScheduler::next_task / next_u64 with a target clock (shuttle-schedulers/src/replay.rs, lines 94-141):
   "Events which are not causally related to this clock will not be scheduled."  The scheduler sees the offered tasks
   with their current clocks (`task.clock`, the clock after the task's last operation).  The data source is abstracted
   to the stream of values it will return.  No proofs in this file. *)
From Coq Require Import List NArith Bool Arith.
From SV Require Import Clock.VClock Engine.Exec.
Import ListNotations.

Inductive rt_answer :=
| RtRun (t : nat)                 (* Some(next) *)
| RtEnded                         (* the schedule is used up: assert!(allow_incomplete, "schedule ended early"); None *)
| RtWantedSwitch                  (* panic!("expected context switch but next schedule step is random choice") *)
| RtNotRunnable (t : nat).        (* assert!(allow_incomplete, "scheduled task is not runnable ..."); None *)

Record rt_state := mkRt {
  rt_steps : list sstep;          (* schedule.steps[self.steps..] *)
  rt_vals : list N;               (* what data_source.next_u64() will return, in order *)
  rt_skipped : nat;               (* steps_skipped *)
}.

Fixpoint find_task (offered : list (nat * vclock)) (t : nat) : option vclock :=
  match offered with
  | [] => None
  | (i, c) :: r => if Nat.eqb i t then Some c else find_task r t
  end.

(* the loop of next_task; `skipping` = inside the `while let Some(ScheduleStep::Random)` that follows a skipped step
   (each skipped random step also advances the data source) *)
Fixpoint rt_loop (target : option vclock) (offered : list (nat * vclock)) (skipping : bool)
                 (steps : list sstep) (vals : list N) (skipped : nat) : rt_answer * rt_state :=
  match steps with
  | [] => (RtEnded, mkRt [] vals skipped)
  | StRandom :: r =>
    if skipping then rt_loop target offered true r (tl vals) (S skipped)
    else (RtWantedSwitch, mkRt steps vals skipped)
  | StTask t :: r =>
    match find_task offered t with
    | None => (RtNotRunnable t, mkRt steps vals skipped)
    | Some c =>
      match target with
      | None => (RtRun t, mkRt r vals skipped)
      | Some tc =>
        if vle c tc then (RtRun t, mkRt r vals skipped)
        else rt_loop target offered true r vals (S skipped)
      end
    end
  end.

Definition rt_next_task (target : option vclock) (st : rt_state) (offered : list (nat * vclock)) : rt_answer * rt_state :=
  rt_loop target offered false (rt_steps st) (rt_vals st) (rt_skipped st).

(* next_u64: None = panic!("expected random choice but next schedule step is context switch") (or index out of range) *)
Definition rt_next_u64 (st : rt_state) : option N * rt_state :=
  match rt_steps st, rt_vals st with
  | StRandom :: r, v :: vs => (Some v, mkRt r vs (rt_skipped st))
  | _, _ => (None, st)
  end.

(* the task steps that a call consumed without running them, with the clocks the tasks had *)
Fixpoint rt_dropped (target : vclock) (offered : list (nat * vclock)) (steps : list sstep) : list (nat * vclock) :=
  match steps with
  | [] => []
  | StRandom :: r => rt_dropped target offered r
  | StTask t :: r =>
    match find_task offered t with
    | None => []
    | Some c => if vle c target then [] else (t, c) :: rt_dropped target offered r
    end
  end.
