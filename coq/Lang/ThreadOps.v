(* Expansion of thread-level operations (spawn epilogue, join, yield, park/unpark) and atomics into
   runtime-call trees: shuttle-engine/src/thread_support.rs, shuttle-std/src/thread.rs,
   shuttle-std/src/sync/atomic/mod.rs.  No proofs in this file. *)
From Coq Require Import List NArith Bool Arith.
From SV Require Import Clock.VClock Prim.Objects Prim.Atomic Prim.Tls Engine.Exec Lang.Code.
Import ListNotations.

(* ---- thread_fn epilogue (shuttle-engine/src/thread_support.rs) ---- *)
(* the last block of thread_fn: the result is published and the joiner, if any, unblocked *)
Definition publish_code : code :=
  atomic_u (fun e s =>
         match me e with
         | None => None
         | Some t =>
           match e_take_waiter e t with
           | None => None
           | Some (e', None) => Some (e', s)
           | Some (e', Some w) => match e_unblock e' w with Some e'' => Some (e'', s) | None => None end
           end
         end) Ret.

Definition TAG_TLSDROP : N := 39.

(* `while let Some(local) = pop_local() { drop(local) }`: every value is dropped outside the state borrow; its
   destructor logs the value and runs the key's body (`dtor d k` = the code of body d followed by k).  A destructor
   may initialise further slots, which are popped by later rounds.  `n` bounds the rounds; running out of it is
   the model's error value (Panic), excluded by tls_rounds_bound (Proofs/TlsProofs.v). *)
Fixpoint tls_loop (n : nat) (tls : nat) (dtor : nat -> code -> code) (k : code) : code :=
  match n with
  | O => Panic
  | S n' =>
    Atomic (fun e s => match me e with
                       | Some m => match tls_pop s tls m with
                                   | Some (s', Some (key, v, d)) =>
                                     Some (e, s', [1; N.of_nat key; v; match d with Some b => N.of_nat (S b) | None => 0 end]%N)
                                   | Some (_, None) => Some (e, s, [0%N])
                                   | None => None end
                       | None => None end)
      (fun a => match a with
                | [1; key; v; d]%N =>
                  Log TAG_TLSDROP [key; v]
                    (match N.to_nat d with
                     | O => tls_loop n' tls dtor k
                     | S b => dtor b (tls_loop n' tls dtor k)
                     end)
                | _ => k
                end)
  end.
Definition TLS_ROUNDS : nat := 24.

(* thread_fn after the closure returned: the exit scheduling point (when `switch_before_exit`), the thread-local
   destructors, the publication of the result *)
Definition thread_epilogue_d (tls : nat) (dtor : nat -> code -> code) : code :=
  atomic_b (fun e s => match exit_truncates e with Some b => Some (e, s, b) | None => None end)
    (fun b => switch_if b (tls_loop TLS_ROUNDS tls dtor publish_code)).

(* a scoped thread (Scope::spawn): the wrapper closure has its own exit scheduling point, then marks the thread
   finished, and the last one unblocks the scope's main task if that task is waiting at the end of scope();
   thread_fn then runs with switch_before_exit = false *)
Definition scoped_epilogue_d (z tls : nat) (dtor : nat -> code -> code) : code :=
  atomic_b (fun e s => match exit_truncates e with Some b => Some (e, s, b) | None => None end)
    (fun b => switch_if b
      (atomic_u (fun e s =>
                   match scope_get s z with
                   | Some (S r, m, w) =>
                     let s' := set_obj s z (OScope r m w) in
                     if Nat.eqb r 0 && w
                     then match e_unblock e m with Some e' => Some (e', s') | None => None end
                     else Some (e, s')
                   | _ => None end)
         (tls_loop TLS_ROUNDS tls dtor publish_code))).

(* ---- JoinHandle::join (shuttle-std/src/thread.rs) ---- *)
Definition join_code (target : nat) (k : code) : code :=
  atomic_b (fun e s => match get_task e target with Some tk => Some (e, s, is_finished tk) | None => None end)
    (fun fin => switch_if fin
      (atomic_b (fun e s =>
          match me e with
          | None => None
          | Some m =>
            match e_set_waiter e target m with
            | None => None
            | Some (e', true) => match e_block e' m false with Some e'' => Some (e'', s, true) | None => None end
            | Some (e', false) => Some (e', s, false)
            end
          end)
        (fun should_block => switch_if should_block
          (atomic_u (fun e s =>
              match me e, e_clock e target, get_task e target with
              | Some m, Some c, Some tk =>
                if is_finished tk        (* `.expect("target should have finished")` *)
                then match e_update_clock e m c with Some e' => Some (e', s) | None => None end
                else None
              | _, _, _ => None
              end) k)))).

(* ---- yield_now, park, unpark ---- *)
Definition yield_code (k : code) : code :=
  atomic_u (fun e s => match me e with
                       | Some m => match e_waker_wake e m with Some e' => Some (e_request_yield e', s) | None => None end
                       | None => None end)
    (Switch k).

Definition park_code (k : code) : code :=
  atomic_b (fun e s => match me e with
                       | Some m => match e_park e m with
                                   | Some (e', true) => Some (e_request_yield e', s, true)
                                   | Some (e', false) => Some (e', s, false)
                                   | None => None end
                       | None => None end)
    (fun sw => switch_if sw k).

Definition unpark_code (t : nat) (k : code) : code :=
  Switch (atomic_u (fun e s => match e_unpark e t with Some e' => Some (e', s) | None => None end) k).

(* ---- Atomic<T> (shuttle-std/src/sync/atomic/mod.rs) ---- *)
Definition exhale (e : exec) (m : nat) (c : vclock) : option exec := e_update_clock e m c.
Definition inhale (e : exec) (m : nat) (c : vclock) : option (exec * vclock) :=
  match e_increment_clock e m with
  | Some e' => match e_clock e' m with Some mc => Some (e', update c mc) | None => None end
  | None => None
  end.

Definition atomic_code (a : nat) (ty : aty) (o : aop) (k : bool -> N -> code) : code :=
  Switch (Atomic (fun e s =>
      match me e, get_obj s a with
      | Some m, Some (OAtomic v c) =>
        let '(newv, okflag, ret) := a_apply ty o v in
        let e1 := if a_exhales o then exhale e m c else Some e in
        match e1 with
        | None => None
        | Some e1 =>
          if a_inhales ty o v then
            match inhale e1 m c with
            | Some (e2, c') => Some (e2, set_obj s a (OAtomic (match newv with Some x => x | None => v end) c'), [b2n okflag; ret])
            | None => None
            end
          else Some (e1, set_obj s a (OAtomic (match newv with Some x => x | None => v end) c), [b2n okflag; ret])
        end
      | _, _ => None
      end)
    (fun a => match a with [f; r] => k (N.eqb f 1) r | _ => Panic end)).

