(* The program language shared by the model and the Rust harness, and its expansion into the
   runtime-call trees of Engine/Exec.v.  Each operation is expanded into exactly the segments its
   Rust implementation executes between calls of thread::switch().  No proofs in this file. *)
From Coq Require Import List NArith Bool Arith.
From SV Require Import Clock.VClock Prim.Objects Prim.Atomic Engine.Exec.
From SV Require Export Lang.Code.
From SV Require Import Prim.Semaphore Lang.SyncOps.
Import ListNotations.

Inductive op :=
| PSpawn (body : nat)              (* thread::spawn; the JoinHandle becomes the task's next handle *)
| PJoin (h : nat)                  (* JoinHandle::join on the h-th handle of this task *)
| PYield                           (* thread::yield_now *)
| PPark                            (* thread::park *)
| PUnparkH (h : nat)               (* handle.thread().unpark() *)
| PUnparkT (t : nat)               (* unpark of an absolute task id (0 = main) *)
| PRand                            (* one u64 from shuttle::rand *)
| PAtomic (a : nat) (o : aop)      (* AtomicU64 operation on object a *)
| PResetSteps                      (* current::reset_step_count *)
| PPanic                           (* panic!() *)
| PSemAcq (s : nat) (n : N)        (* BatchSemaphore::acquire_blocking(n) *)
| PSemTry (s : nat) (n : N)        (* try_acquire(n) *)
| PSemRel (s : nat) (n : N)        (* release(n) *)
| PSemClose (s : nat)              (* close() *)
| PSemAvail (s : nat)              (* available_permits(), is_closed() *)
| PLock (m : nat)                  (* Mutex::lock; the guard is kept by the task *)
| PTryLock (m : nat)
| PUnlock (m : nat)                (* drop of the most recent guard of m held by this task *)
| PRwLock (r : nat) (write : bool) (* RwLock::read / write *)
| PRwTry (r : nat) (write : bool)
| PRwUnlock (r : nat).             (* drop of the most recent guard of r held by this task *)

(* result tags used in EvOp records; the harness prints the same numbers *)
Definition TAG_SPAWN : N := 1.  Definition TAG_JOIN : N := 2.   Definition TAG_YIELD : N := 3.
Definition TAG_PARK : N := 4.   Definition TAG_UNPARK : N := 5. Definition TAG_RAND : N := 6.
Definition TAG_ATOMIC : N := 7. Definition TAG_RESET : N := 8. Definition TAG_END : N := 9.
Definition TAG_SEMACQ : N := 10. Definition TAG_SEMTRY : N := 11. Definition TAG_SEMREL : N := 12.
Definition TAG_SEMCLOSE : N := 13. Definition TAG_SEMAVAIL : N := 14.
Definition TAG_LOCK : N := 15. Definition TAG_TRYLOCK : N := 16. Definition TAG_UNLOCK : N := 17.
Definition TAG_RWLOCK : N := 18. Definition TAG_RWTRY : N := 19. Definition TAG_RWUNLOCK : N := 20.

(* ---- thread_fn epilogue (shuttle-engine/src/thread_support.rs) ---- *)
Definition thread_epilogue : code :=
  atomic_b (fun e s => match exit_truncates e with Some b => Some (e, s, b) | None => None end)
    (fun b => switch_if b
      (atomic_u (fun e s =>
         match me e with
         | None => None
         | Some t =>
           match e_take_waiter e t with
           | None => None
           | Some (e', None) => Some (e', s)
           | Some (e', Some w) => match e_unblock e' w with Some e'' => Some (e'', s) | None => None end
           end
         end) Ret)).

(* ---- JoinHandle::join (shuttle-std/src/thread.rs) ---- *)
Definition join_code (target : nat) (k : code) : code :=
  atomic_b (fun e s => match get_task e target with Some tk => Some (e, s, is_finished tk) | None => None end)
    (fun fin => switch_if fin
      (atomic_b (fun e s =>
          match me e with
          | None => None
          | Some m =>
            match e_set_waiter e target m with
            | None => None
            | Some (e', true) => match e_block e' m false with Some e'' => Some (e'', s, true) | None => None end
            | Some (e', false) => Some (e', s, false)
            end
          end)
        (fun should_block => switch_if should_block
          (atomic_u (fun e s =>
              match me e, e_clock e target with
              | Some m, Some c => match e_update_clock e m c with Some e' => Some (e', s) | None => None end
              | _, _ => None
              end) k)))).

(* ---- yield_now, park, unpark ---- *)
Definition yield_code (k : code) : code :=
  atomic_u (fun e s => match me e with
                       | Some m => match e_waker_wake e m with Some e' => Some (e_request_yield e', s) | None => None end
                       | None => None end)
    (Switch k).

Definition park_code (k : code) : code :=
  atomic_b (fun e s => match me e with
                       | Some m => match e_park e m with
                                   | Some (e', true) => Some (e_request_yield e', s, true)
                                   | Some (e', false) => Some (e', s, false)
                                   | None => None end
                       | None => None end)
    (fun sw => switch_if sw k).

Definition unpark_code (t : nat) (k : code) : code :=
  Switch (atomic_u (fun e s => match e_unpark e t with Some e' => Some (e', s) | None => None end) k).

(* ---- Atomic<T> (shuttle-std/src/sync/atomic/mod.rs) ---- *)
Definition exhale (e : exec) (m : nat) (c : vclock) : option exec := e_update_clock e m c.
Definition inhale (e : exec) (m : nat) (c : vclock) : option (exec * vclock) :=
  match e_increment_clock e m with
  | Some e' => match e_clock e' m with Some mc => Some (e', update c mc) | None => None end
  | None => None
  end.

Definition atomic_code (a : nat) (ty : aty) (o : aop) (k : bool -> N -> code) : code :=
  Switch (Atomic (fun e s =>
      match me e, get_obj s a with
      | Some m, Some (OAtomic v c) =>
        let '(newv, okflag, ret) := a_apply ty o v in
        let e1 := if a_exhales o then exhale e m c else Some e in
        match e1 with
        | None => None
        | Some e1 =>
          if a_inhales ty o v then
            match inhale e1 m c with
            | Some (e2, c') => Some (e2, set_obj s a (OAtomic (match newv with Some x => x | None => v end) c'), [b2n okflag; ret])
            | None => None
            end
          else Some (e1, set_obj s a (OAtomic (match newv with Some x => x | None => v end) c), [b2n okflag; ret])
        end
      | _, _ => None
      end)
    (fun a => match a with [f; r] => k (N.eqb f 1) r | _ => Panic end)).

(* ---- whole programs ---- *)
Definition nth_handle (hs : list nat) (h : nat) : option nat := nth_error hs h.

(* guards held by a task: (object, write?) newest first; `kinds` tells mutex guards from rwlock guards *)
Fixpoint take_guard (o : nat) (gs : list (nat * bool)) : option (bool * list (nat * bool)) :=
  match gs with
  | [] => None
  | (o', w) :: r => if Nat.eqb o o' then Some (w, r)
                    else match take_guard o r with Some (w', r') => Some (w', (o', w) :: r') | None => None end
  end.

(* guards still held when the body returns are dropped newest first; the object decides which guard it is *)
Fixpoint drop_guards (gs : list (nat * bool)) (k : code) : code :=
  match gs with
  | [] => k
  | (o, w) :: r =>
    Atomic (fun e st => match get_obj st o with
                        | Some (OMutex _ _ _) => Some (e, st, [0%N])
                        | Some (ORwLock _ _ _ _) => Some (e, st, [1%N])
                        | _ => None end)
      (fun a => match a with
                | [0%N] => mutex_unlock_code o (drop_guards r k)
                | _ => rw_unlock_code o w (drop_guards r k)
                end)
  end.

Fixpoint comp (fuel : nat) (bodies : list (list op)) (b : nat) : code :=
  match fuel with
  | O => Ret
  | S f =>
    (fix go (ops : list op) (hs : list nat) (js : list nat) (gs : list (nat * bool)) : code :=
       match ops with
       | [] => Log TAG_END [] (drop_guards gs thread_epilogue)
       | o :: r =>
         match o with
         | PSpawn j => Switch (SpawnNow (comp f bodies j) (fun tid => Log TAG_SPAWN [N.of_nat tid] (go r (hs ++ [tid]) js gs)))
         | PJoin h => match nth_handle hs h with
                      | Some t => if existsb (Nat.eqb h) js then Panic      (* the JoinHandle was consumed *)
                                  else join_code t (Log TAG_JOIN [N.of_nat t] (go r hs (h :: js) gs))
                      | None => Panic end
         | PYield => yield_code (Log TAG_YIELD [] (go r hs js gs))
         | PPark => park_code (Log TAG_PARK [] (go r hs js gs))
         | PUnparkH h => match nth_handle hs h with
                         | Some t => unpark_code t (Log TAG_UNPARK [N.of_nat t] (go r hs js gs))
                         | None => Panic end
         | PUnparkT t => unpark_code t (Log TAG_UNPARK [N.of_nat t] (go r hs js gs))
         | PRand => Rand (fun v => Log TAG_RAND [v] (go r hs js gs))
         | PAtomic a o => atomic_code a u64 o (fun okf ret => Log TAG_ATOMIC [b2n okf; ret] (go r hs js gs))
         | PResetSteps => atomic_u (fun e s => Some (e_reset_step_count e, s)) (Log TAG_RESET [] (go r hs js gs))
         | PPanic => atomic_u (fun e st => Some (with_panicking e true, st)) (drop_guards gs Panic)   (* unwinding drops the guards *)
         | PSemAcq o n => acquire_blocking o n (fun ok => Log TAG_SEMACQ [b2n ok] (go r hs js gs))
         | PSemTry o n => sem_try_code o n (fun res => Log TAG_SEMTRY [n_of_acq res] (go r hs js gs))
         | PSemRel o n => sem_release_code o n (Log TAG_SEMREL [] (go r hs js gs))
         | PSemClose o => sem_close_code o (Log TAG_SEMCLOSE [] (go r hs js gs))
         | PSemAvail o => Atomic (fun e st => match get_obj st o with
                                              | Some ob => match sem_of ob with
                                                           | Some sm => Some (e, st, [sm_avail sm; b2n (sm_closed sm)])
                                                           | None => None end
                                              | None => None end)
                                 (fun a => Log TAG_SEMAVAIL a (go r hs js gs))
         | PLock o => mutex_lock_code o (fun res => Log TAG_LOCK [n_of_lock res] (go r hs js ((o, false) :: gs)))
         | PTryLock o => mutex_try_lock_code o (fun res => Log TAG_TRYLOCK [n_of_lock res]
                            (go r hs js (match res with LkWouldBlock => gs | _ => (o, false) :: gs end)))
         | PUnlock o => match take_guard o gs with
                        | Some (_, gs') => mutex_unlock_code o (Log TAG_UNLOCK [] (go r hs js gs'))
                        | None => Panic end
         | PRwLock o w => rw_lock_code o w (fun res => Log TAG_RWLOCK [b2n w; n_of_lock res] (go r hs js ((o, w) :: gs)))
         | PRwTry o w => rw_try_code o w (fun res => Log TAG_RWTRY [b2n w; n_of_lock res]
                            (go r hs js (match res with LkWouldBlock => gs | _ => (o, w) :: gs end)))
         | PRwUnlock o => match take_guard o gs with
                          | Some (w, gs') => rw_unlock_code o w (Log TAG_RWUNLOCK [b2n w] (go r hs js gs'))
                          | None => Panic end
         end
       end) (nth b bodies []) [] [] []
  end.

Definition compile (bodies : list (list op)) : code := comp (S (length bodies)) bodies 0.


(* ---- the scripted scheduler used by the correspondence check ---- *)
Record script_state := mkScript { sc_script : list (option nat); sc_rnd : N }.

Definition rnd_next (x : N) : N := ((x * 6364136223846793005 + 1442695040888963407) mod 18446744073709551616)%N.

Definition scripted : scheduler script_state :=
  mkSched
    (fun st offered cur yielding =>
       match sc_script st with
       | [] => (hd_error offered, st)
       | None :: r => (None, mkScript r (sc_rnd st))
       | Some i :: r => (nth_error offered (i mod (length offered)), mkScript r (sc_rnd st))
       end)
    (fun st => let v := rnd_next (sc_rnd st) in (Some v, mkScript (sc_script st) v)).

Definition run_prog (fuel : nat) (ms : max_steps) (objs : store) (bodies : list (list op)) (script : list (option nat)) (rseed : N)
  : world * script_state * outcome :=
  run_exec scripted ms fuel (compile bodies) objs (mkScript script rseed).

(* check_dfs on a program: every execution's recorded schedule, in order *)
From SV Require Import Engine.Runner Sched.Dfs.
Definition run_prog_dfs (iters efuel : nat) (ms : max_steps) (max_iter : option nat) (objs : store) (bodies : list (list op))
  : list (world * Exec.outcome) * dfs_state * bool :=
  runner_loop dfs_sched ms iters efuel (compile bodies) objs (mkDfsSt (dfs_new max_iter) false).
