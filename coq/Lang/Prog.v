(* The program language shared by the model and the Rust harness, and its expansion into the
   runtime-call trees of Engine/Exec.v.  Each operation is expanded into exactly the segments its
   Rust implementation executes between calls of thread::switch().  No proofs in this file. *)
From Coq Require Import List NArith Bool Arith.
From SV Require Import Clock.VClock Prim.Objects Prim.Atomic Engine.Exec.
Import ListNotations.

Inductive op :=
| PSpawn (body : nat)              (* thread::spawn; the JoinHandle becomes the task's next handle *)
| PJoin (h : nat)                  (* JoinHandle::join on the h-th handle of this task *)
| PYield                           (* thread::yield_now *)
| PPark                            (* thread::park *)
| PUnparkH (h : nat)               (* handle.thread().unpark() *)
| PUnparkT (t : nat)               (* unpark of an absolute task id (0 = main) *)
| PRand                            (* one u64 from shuttle::rand *)
| PAtomic (a : nat) (o : aop)      (* AtomicU64 operation on object a *)
| PResetSteps                      (* current::reset_step_count *)
| PPanic.                          (* panic!() *)

(* result tags used in EvOp records; the harness prints the same numbers *)
Definition TAG_SPAWN : N := 1.  Definition TAG_JOIN : N := 2.   Definition TAG_YIELD : N := 3.
Definition TAG_PARK : N := 4.   Definition TAG_UNPARK : N := 5. Definition TAG_RAND : N := 6.
Definition TAG_ATOMIC : N := 7. Definition TAG_RESET : N := 8. Definition TAG_END : N := 9.

Definition b2n (b : bool) : N := if b then 1%N else 0%N.
Definition ans_bool (a : list N) : bool := match a with (1%N :: _) => true | _ => false end.


(* small combinators over the call trees *)
Definition atomic_u (f : exec -> store -> option (exec * store)) (k : code) : code :=
  Atomic (fun e s => match f e s with Some (e', s') => Some (e', s', []) | None => None end) (fun _ => k).
Definition atomic_b (f : exec -> store -> option (exec * store * bool)) (k : bool -> code) : code :=
  Atomic (fun e s => match f e s with Some (e', s', b) => Some (e', s', [b2n b]) | None => None end)
         (fun a => k (ans_bool a)).
Definition switch_if (b : bool) (k : code) : code := if b then Switch k else k.

(* ---- thread_fn epilogue (shuttle-engine/src/thread_support.rs) ---- *)
Definition thread_epilogue : code :=
  atomic_b (fun e s => match exit_truncates e with Some b => Some (e, s, b) | None => None end)
    (fun b => switch_if b
      (atomic_u (fun e s =>
         match me e with
         | None => None
         | Some t =>
           match e_take_waiter e t with
           | None => None
           | Some (e', None) => Some (e', s)
           | Some (e', Some w) => match e_unblock e' w with Some e'' => Some (e'', s) | None => None end
           end
         end) Ret)).

(* ---- JoinHandle::join (shuttle-std/src/thread.rs) ---- *)
Definition join_code (target : nat) (k : code) : code :=
  atomic_b (fun e s => match get_task e target with Some tk => Some (e, s, is_finished tk) | None => None end)
    (fun fin => switch_if fin
      (atomic_b (fun e s =>
          match me e with
          | None => None
          | Some m =>
            match e_set_waiter e target m with
            | None => None
            | Some (e', true) => match e_block e' m false with Some e'' => Some (e'', s, true) | None => None end
            | Some (e', false) => Some (e', s, false)
            end
          end)
        (fun should_block => switch_if should_block
          (atomic_u (fun e s =>
              match me e, e_clock e target with
              | Some m, Some c => match e_update_clock e m c with Some e' => Some (e', s) | None => None end
              | _, _ => None
              end) k)))).

(* ---- yield_now, park, unpark ---- *)
Definition yield_code (k : code) : code :=
  atomic_u (fun e s => match me e with
                       | Some m => match e_waker_wake e m with Some e' => Some (e_request_yield e', s) | None => None end
                       | None => None end)
    (Switch k).

Definition park_code (k : code) : code :=
  atomic_b (fun e s => match me e with
                       | Some m => match e_park e m with
                                   | Some (e', true) => Some (e_request_yield e', s, true)
                                   | Some (e', false) => Some (e', s, false)
                                   | None => None end
                       | None => None end)
    (fun sw => switch_if sw k).

Definition unpark_code (t : nat) (k : code) : code :=
  Switch (atomic_u (fun e s => match e_unpark e t with Some e' => Some (e', s) | None => None end) k).

(* ---- Atomic<T> (shuttle-std/src/sync/atomic/mod.rs) ---- *)
Definition exhale (e : exec) (m : nat) (c : vclock) : option exec := e_update_clock e m c.
Definition inhale (e : exec) (m : nat) (c : vclock) : option (exec * vclock) :=
  match e_increment_clock e m with
  | Some e' => match e_clock e' m with Some mc => Some (e', update c mc) | None => None end
  | None => None
  end.

Definition atomic_code (a : nat) (ty : aty) (o : aop) (k : bool -> N -> code) : code :=
  Switch (Atomic (fun e s =>
      match me e, get_obj s a with
      | Some m, Some (OAtomic v c) =>
        let '(newv, okflag, ret) := a_apply ty o v in
        let e1 := if a_exhales o then exhale e m c else Some e in
        match e1 with
        | None => None
        | Some e1 =>
          if a_inhales ty o v then
            match inhale e1 m c with
            | Some (e2, c') => Some (e2, set_obj s a (OAtomic (match newv with Some x => x | None => v end) c'), [b2n okflag; ret])
            | None => None
            end
          else Some (e1, set_obj s a (OAtomic (match newv with Some x => x | None => v end) c), [b2n okflag; ret])
        end
      | _, _ => None
      end)
    (fun a => match a with [f; r] => k (N.eqb f 1) r | _ => Panic end)).

(* ---- whole programs ---- *)
Definition nth_handle (hs : list nat) (h : nat) : option nat := nth_error hs h.

Fixpoint comp (fuel : nat) (bodies : list (list op)) (b : nat) : code :=
  match fuel with
  | O => Ret
  | S f =>
    (fix go (ops : list op) (hs : list nat) (js : list nat) : code :=
       match ops with
       | [] => Log TAG_END [] thread_epilogue
       | o :: r =>
         match o with
         | PSpawn j => Switch (SpawnNow (comp f bodies j) (fun tid => Log TAG_SPAWN [N.of_nat tid] (go r (hs ++ [tid]) js)))
         | PJoin h => match nth_handle hs h with
                      | Some t => if existsb (Nat.eqb h) js then Panic      (* the JoinHandle was consumed *)
                                  else join_code t (Log TAG_JOIN [N.of_nat t] (go r hs (h :: js)))
                      | None => Panic end
         | PYield => yield_code (Log TAG_YIELD [] (go r hs js))
         | PPark => park_code (Log TAG_PARK [] (go r hs js))
         | PUnparkH h => match nth_handle hs h with
                         | Some t => unpark_code t (Log TAG_UNPARK [N.of_nat t] (go r hs js))
                         | None => Panic end
         | PUnparkT t => unpark_code t (Log TAG_UNPARK [N.of_nat t] (go r hs js))
         | PRand => Rand (fun v => Log TAG_RAND [v] (go r hs js))
         | PAtomic a o => atomic_code a u64 o (fun okf ret => Log TAG_ATOMIC [b2n okf; ret] (go r hs js))
         | PResetSteps => atomic_u (fun e s => Some (e_reset_step_count e, s)) (Log TAG_RESET [] (go r hs js))
         | PPanic => Panic
         end
       end) (nth b bodies []) [] []
  end.

Definition compile (bodies : list (list op)) : code := comp (S (length bodies)) bodies 0.


(* ---- the scripted scheduler used by the correspondence check ---- *)
Record script_state := mkScript { sc_script : list (option nat); sc_rnd : N }.

Definition rnd_next (x : N) : N := ((x * 6364136223846793005 + 1442695040888963407) mod 18446744073709551616)%N.

Definition scripted : scheduler script_state :=
  mkSched
    (fun st offered cur yielding =>
       match sc_script st with
       | [] => (hd_error offered, st)
       | None :: r => (None, mkScript r (sc_rnd st))
       | Some i :: r => (nth_error offered (i mod (length offered)), mkScript r (sc_rnd st))
       end)
    (fun st => let v := rnd_next (sc_rnd st) in (Some v, mkScript (sc_script st) v)).

Definition run_prog (fuel : nat) (ms : max_steps) (objs : store) (bodies : list (list op)) (script : list (option nat)) (rseed : N)
  : world * script_state * outcome :=
  run_exec scripted ms fuel (compile bodies) objs (mkScript script rseed).

(* check_dfs on a program: every execution's recorded schedule, in order *)
From SV Require Import Engine.Runner Sched.Dfs.
Definition run_prog_dfs (iters efuel : nat) (ms : max_steps) (max_iter : option nat) (objs : store) (bodies : list (list op))
  : list (world * Exec.outcome) * dfs_state * bool :=
  runner_loop dfs_sched ms iters efuel (compile bodies) objs (mkDfsSt (dfs_new max_iter) false).
