(* The program language shared by the model and the Rust harness, and its expansion into the
   runtime-call trees of Engine/Exec.v.  Each operation is expanded into exactly the segments its
   Rust implementation executes between calls of thread::switch() (see Lang/ThreadOps.v,
   Lang/SyncOps.v, Lang/SyncOps2.v).  No proofs in this file. *)
From Coq Require Import List NArith Bool Arith.
From SV Require Import Clock.VClock Prim.Objects Prim.Atomic Prim.Tls Engine.Exec.
From SV Require Export Lang.Code Lang.ThreadOps.
From SV Require Import Prim.Semaphore Lang.SyncOps Lang.SyncOps2 Lang.AsyncOps.
Import ListNotations.

Inductive op :=
| PSpawn (body : nat)              (* thread::spawn; the JoinHandle becomes the task's next handle *)
| PJoin (h : nat)                  (* JoinHandle::join on the h-th handle of this task *)
| PYield                           (* thread::yield_now *)
| PPark                            (* thread::park *)
| PUnparkH (h : nat)               (* handle.thread().unpark() *)
| PUnparkT (t : nat)               (* unpark of an absolute task id (0 = main) *)
| PRand                            (* one u64 from shuttle::rand *)
| PAtomic (a : nat) (o : aop)      (* AtomicU64 operation on object a *)
| PResetSteps                      (* current::reset_step_count *)
| PPanic                           (* panic!() *)
| PSemAcq (s : nat) (n : N)        (* BatchSemaphore::acquire_blocking(n) *)
| PSemTry (s : nat) (n : N)        (* try_acquire(n) *)
| PSemRel (s : nat) (n : N)        (* release(n) *)
| PSemClose (s : nat)              (* close() *)
| PSemAvail (s : nat)              (* available_permits(), is_closed() *)
| PLock (m : nat)                  (* Mutex::lock; the guard is kept by the task *)
| PTryLock (m : nat)
| PUnlock (m : nat)                (* drop of the most recent guard of m held by this task *)
| PRwLock (r : nat) (write : bool) (* RwLock::read / write *)
| PRwTry (r : nat) (write : bool)
| PRwUnlock (r : nat)              (* drop of the most recent guard of r held by this task *)
| PCvWait (cv m : nat)             (* Condvar::wait with the task's guard of mutex m *)
| PCvNotify (cv : nat) (all : bool)
| PSend (ch slot : nat) (v : N)    (* Sender/SyncSender::send through sender endpoint `slot` *)
| PTrySend (ch slot : nat) (v : N)
| PRecv (ch : nat)
| PTryRecv (ch : nat)
| PDropTx (ch slot : nat)          (* drop of a sender endpoint *)
| PDropRx (ch : nat)               (* drop of the receiver *)
| PBarrier (b : nat)               (* Barrier::wait *)
| PCallOnce (o : nat) (body : nat) (* Once::call_once(|| body) *)
| PIsCompleted (o : nat)
| PASpawn (body : nat)             (* future::spawn_local(async body); the JoinHandle becomes the task's next async handle *)
| PAwait (h : nat)                 (* handle.await in an async body, block_on(handle) in a thread *)
| PAbort (h : nat)                 (* handle.abort() *)
| PDetach (h : nat)                (* drop(handle) *)
| PAYield                          (* future::yield_now().await (block_on(yield_now()) in a thread) *)
| PBlockOn (body : nat)            (* future::block_on(async body) *)
| PIsFinished (h : nat)
| PTlsWith (key : nat) (add : N)   (* KEY.try_with(|c| { let old = c.get(); c.set(old + add); old }) *)
| PThreadId                        (* thread::current().id(), and whether thread::current().name() is the name given at spawn *)
| PScope (z : nat) (body : nat)    (* thread::scope(|s| body): the body runs inline, its PScopeSpawn use `s` *)
| PScopeSpawn (z : nat) (body : nat)   (* s.spawn(body); the ScopedJoinHandle becomes the task's next handle *)
| PAcqNew (q slot s : nat) (n : N)     (* slot := sem.acquire(n): an Acquire future kept in the shared slot table q *)
| PAcqPoll (q slot s : nat)            (* one poll of that future by the running task (with its waker) *)
| PAcqDrop (q slot s : nat)            (* drop of that future *)
| PRecvAll (ch : nat).                 (* for v in rx { .. }: the owning iterator receives until disconnection, then the Receiver is dropped *)

(* result tags used in EvOp records; the harness prints the same numbers *)
Definition TAG_SPAWN : N := 1.  Definition TAG_JOIN : N := 2.   Definition TAG_YIELD : N := 3.
Definition TAG_PARK : N := 4.   Definition TAG_UNPARK : N := 5. Definition TAG_RAND : N := 6.
Definition TAG_ATOMIC : N := 7. Definition TAG_RESET : N := 8. Definition TAG_END : N := 9.
Definition TAG_SEMACQ : N := 10. Definition TAG_SEMTRY : N := 11. Definition TAG_SEMREL : N := 12.
Definition TAG_SEMCLOSE : N := 13. Definition TAG_SEMAVAIL : N := 14.
Definition TAG_LOCK : N := 15. Definition TAG_TRYLOCK : N := 16. Definition TAG_UNLOCK : N := 17.
Definition TAG_RWLOCK : N := 18. Definition TAG_RWTRY : N := 19. Definition TAG_RWUNLOCK : N := 20.
Definition TAG_CVWAIT : N := 21. Definition TAG_CVNOTIFY : N := 22.
Definition TAG_SEND : N := 23. Definition TAG_RECV : N := 24. Definition TAG_DROPTX : N := 25. Definition TAG_DROPRX : N := 26.
Definition TAG_BARRIER : N := 27. Definition TAG_CALLONCE : N := 28. Definition TAG_ISCOMPLETED : N := 29.
Definition TAG_INIT : N := 30.
Definition TAG_ASPAWN : N := 31. Definition TAG_AWAIT : N := 32. Definition TAG_ABORT : N := 33. Definition TAG_DETACH : N := 34.
Definition TAG_AYIELD : N := 35. Definition TAG_BLOCKON : N := 36. Definition TAG_ISFINISHED : N := 37.
Definition TAG_QNEW : N := 42. Definition TAG_QPOLL : N := 43. Definition TAG_QDROP : N := 44.
Definition TAG_TLS : N := 38. (* TAG_TLSDROP = 39: Lang/ThreadOps.v *) Definition TAG_TID : N := 40. Definition TAG_SCOPE : N := 41.
(* the value a thread's closure returns (and join hands over): a function of the thread's id *)
Definition thread_value (t : nat) : N := (1000 + N.of_nat t)%N.

(* ---- whole programs ---- *)
Definition nth_handle (hs : list nat) (h : nat) : option nat := nth_error hs h.

(* guards held by a task: (object, write?) newest first *)
Fixpoint take_guard (o : nat) (gs : list (nat * bool)) : option (bool * list (nat * bool)) :=
  match gs with
  | [] => None
  | (o', w) :: r => if Nat.eqb o o' then Some (w, r)
                    else match take_guard o r with Some (w', r') => Some (w', (o', w) :: r') | None => None end
  end.

(* guards still held when a body returns are dropped newest first; the object decides which guard it is *)
Fixpoint drop_guards (logit : bool) (gs : list (nat * bool)) (k : code) : code :=
  match gs with
  | [] => k
  | (o, w) :: r =>
    Atomic (fun e st => match get_obj st o with
                        | Some (OMutex _ _ _) => Some (e, st, [0%N])
                        | Some (ORwLock _ _ _ _) => Some (e, st, [1%N])
                        | _ => None end)
      (fun a => match a with
                | [0%N] => mutex_unlock_code o (if logit then Log TAG_UNLOCK [N.of_nat o] (drop_guards logit r k) else drop_guards logit r k)
                | _ => rw_unlock_code o w (if logit then Log TAG_RWUNLOCK [b2n w; N.of_nat o] (drop_guards logit r k) else drop_guards logit r k)
                end)
  end.

(* the harness keeps the liveness of a channel's endpoints in the OCell that follows the channel object:
   vals = [tx slot 0 alive; tx slot 1 alive; tx slot 2 alive; rx alive] *)
Definition endpoint_alive (st : store) (ch idx : nat) : bool :=
  match get_obj st (S ch) with Some (OCell vals _) => N.eqb (nth idx vals 0%N) 1 | _ => false end.
Definition endpoint_kill (st : store) (ch idx : nat) : store :=
  match get_obj st (S ch) with
  | Some (OCell vals c) => set_obj st (S ch) (OCell (list_upd vals idx (fun _ => 0%N)) c)
  | _ => st end.
Definition RX_SLOT : nat := 3.

(* comp fuel bodies b fin outer: the code of body b; `outer` are the guards of the enclosing scopes (dropped after the
   body's own when the body panics); `fin gs` is what follows the body's last operation, given the
   guards the body still holds.  A thread ends with its END record, the drop of its guards and thread_fn's
   epilogue; an inline closure (call_once) ends with the drop of its guards and the caller's continuation. *)
(* JoinHandles of spawned futures still owned when a body returns are dropped: each drop detaches its task *)
Fixpoint detach_all (ahs : list nat) (k : code) : code :=
  match ahs with
  | [] => k
  | t :: r => atomic_u (fun e st => detach_handle e st t) (detach_all r k)
  end.

Definition thread_fin (tls : nat) (dtor : nat -> code -> code) (gs : list (nat * bool)) (ahs : list nat) : code :=
  Log TAG_END [] (drop_guards true gs (detach_all ahs (thread_epilogue_d tls dtor))).

Definition scoped_fin (z tls : nat) (dtor : nat -> code -> code) (gs : list (nat * bool)) (ahs : list nat) : code :=
  Log TAG_END [] (drop_guards true gs (detach_all ahs (scoped_epilogue_d z tls dtor))).

(* the end of scope(): the main task waits for the scoped threads still running *)
Definition scope_end (z : nat) (k : code) : code :=
  atomic_b (fun e st => match me e, scope_get st z with
                        | Some m, Some (r, mt, _) =>
                          if Nat.eqb r 0 then Some (e, st, false)
                          else match e_block e m false with
                               | Some e' => Some (e', set_obj st z (OScope r mt true), true)
                               | None => None end
                        | _, _ => None end)
    (fun blk => switch_if blk k).

(* the end of a spawned future: locals dropped, then Wrapper::finish(Ok(value)): the task's thread-local destructors run
   (the same pop_local loop as in thread_fn; they are user code and may contain scheduling points), then the result is
   published and the task awaiting the JoinHandle is woken, in one block; no thread_fn epilogue *)
Definition async_fin (tls : nat) (dtor : nat -> code -> code) (jt : nat) (value : N) (gs : list (nat * bool)) (ahs : list nat) : code :=
  Log TAG_END [] (drop_guards true gs (detach_all ahs
    (tls_loop TLS_ROUNDS tls dtor (atomic_u (fun e st => wrapper_finish e st jt (Some value)) Ret)))).

(* Wrapper::poll finding the abort flag set: the future is dropped (its live locals with it), then finish(Err(Cancelled)) *)
Definition async_abort (tls : nat) (dtor : nat -> code -> code) (jt : nat) (gs : list (nat * bool)) (ahs : list nat) : code :=
  drop_guards false gs (detach_all ahs
    (tls_loop TLS_ROUNDS tls dtor (atomic_u (fun e st => wrapper_finish e st jt None) Ret))).

(* async handles: (task id, still owned?) *)
Definition live_handles (ahs : list (nat * bool)) : list nat := map fst (filter snd ahs).
Fixpoint consume_handle (ahs : list (nat * bool)) (h : nat) : list (nat * bool) :=
  match ahs, h with
  | [], _ => []
  | (t, _) :: r, O => (t, false) :: r
  | x :: r, S h' => x :: consume_handle r h'
  end.

(* `for v in rx`: IntoIter::next is a blocking recv; the loop ends at the first Err; the Receiver goes away with the iterator.
   `n` bounds the number of messages (model fuel: Panic when exhausted, never a silent stop). *)
Fixpoint recv_all_code (n : nat) (ch : nat) (k : code) : code :=
  match n with
  | O => Log 99 [] Panic
  | S n' =>
    chan_recv_code ch true (fun res =>
      match res with
      | RvOk v => Log TAG_RECV [0%N; v] (recv_all_code n' ch k)
      | _ => Log TAG_RECV [2%N]
               (atomic_u (fun e st => chan_drop_rx e (endpoint_kill st ch RX_SLOT) ch) (Log TAG_DROPRX [] k))
      end)
  end.
Definition RECV_ALL_FUEL : nat := 24.

Fixpoint comp (fuel : nat) (jt : nat) (bodies : list (list op)) (b : nat) (ctx : pctx) (fin : list (nat * bool) -> list nat -> code) (outer : list (nat * bool)) : code :=
  match fuel with
  | O => Ret
  | S f =>
    let tls := S jt in
    let dtor := fun (d : nat) (k : code) =>
                  comp f jt bodies d CtxBlockOn (fun gs' ahs' => drop_guards true gs' (detach_all ahs' k)) [] in
    (fix go (ops : list op) (hs : list nat) (js : list nat) (gs : list (nat * bool)) (ahs : list (nat * bool)) : code :=
       match ops with
       | [] => fin gs (live_handles ahs)
       | o :: r =>
         match o with
         | PSpawn j => Switch (SpawnNow (comp f jt bodies j CtxBlockOn (thread_fin tls dtor) []) (fun tid => Log TAG_SPAWN [N.of_nat tid] (go r (hs ++ [tid]) js gs ahs)))
         | PJoin h => match nth_handle hs h with
                      | Some t => if existsb (Nat.eqb h) js then Panic      (* the JoinHandle was consumed *)
                                  else join_code t (Log TAG_JOIN [N.of_nat t; thread_value t] (go r hs (h :: js) gs ahs))
                      | None => Panic end
         | PYield => yield_code (Log TAG_YIELD [] (go r hs js gs ahs))
         | PPark => park_code (Log TAG_PARK [] (go r hs js gs ahs))
         | PUnparkH h => match nth_handle hs h with
                         | Some t => unpark_code t (Log TAG_UNPARK [N.of_nat t] (go r hs js gs ahs))
                         | None => Panic end
         | PUnparkT t => unpark_code t (Log TAG_UNPARK [N.of_nat t] (go r hs js gs ahs))
         | PRand => Rand (fun v => Log TAG_RAND [v] (go r hs js gs ahs))
         | PAtomic a o => atomic_code a u64 o (fun okf ret => Log TAG_ATOMIC [b2n okf; ret] (go r hs js gs ahs))
         | PResetSteps => atomic_u (fun e s => Some (e_reset_step_count e, s)) (Log TAG_RESET [] (go r hs js gs ahs))
         | PPanic => atomic_u (fun e st => Some (with_panicking e true, st)) (drop_guards false (gs ++ outer) Panic)   (* unwinding drops the guards, innermost scope first *)
         | PSemAcq o n => acquire_blocking o n (fun ok => Log TAG_SEMACQ [b2n ok] (go r hs js gs ahs))
         | PSemTry o n => sem_try_code o n (fun res => Log TAG_SEMTRY [n_of_acq res] (go r hs js gs ahs))
         | PSemRel o n => sem_release_code o n (Log TAG_SEMREL [] (go r hs js gs ahs))
         | PSemClose o => sem_close_code o (Log TAG_SEMCLOSE [] (go r hs js gs ahs))
         | PSemAvail o => Atomic (fun e st => match get_obj st o with
                                              | Some ob => match sem_of ob with
                                                           | Some sm => Some (e, st, [sm_avail sm; b2n (sm_closed sm)])
                                                           | None => None end
                                              | None => None end)
                                 (fun a => Log TAG_SEMAVAIL a (go r hs js gs ahs))
         | PLock o => mutex_lock_code o (fun res => Log TAG_LOCK [n_of_lock res] (go r hs js ((o, false) :: gs) ahs))
         | PTryLock o => mutex_try_lock_code o (fun res => Log TAG_TRYLOCK [n_of_lock res]
                            (go r hs js (match res with LkWouldBlock => gs | _ => (o, false) :: gs end) ahs))
         | PUnlock o => match take_guard o gs with
                        | Some (_, gs') => mutex_unlock_code o (Log TAG_UNLOCK [N.of_nat o] (go r hs js gs' ahs))
                        | None => Panic end
         | PRwLock o w => rw_lock_code o w (fun res => Log TAG_RWLOCK [b2n w; n_of_lock res] (go r hs js ((o, w) :: gs) ahs))
         | PRwTry o w => rw_try_code o w (fun res => Log TAG_RWTRY [b2n w; n_of_lock res]
                            (go r hs js (match res with LkWouldBlock => gs | _ => (o, w) :: gs end) ahs))
         | PRwUnlock o => match take_guard o gs with
                          | Some (w, gs') => rw_unlock_code o w (Log TAG_RWUNLOCK [b2n w; N.of_nat o] (go r hs js gs' ahs))
                          | None => Panic end
         | PCvWait cv m => match take_guard m gs with
                           | Some (_, gs') => cv_wait_code cv m (fun res => Log TAG_CVWAIT [n_of_lock res] (go r hs js ((m, false) :: gs') ahs))
                           | None => Panic end
         | PCvNotify cv all => cv_notify_code cv all (Log TAG_CVNOTIFY [b2n all] (go r hs js gs ahs))
         | PSend ch slot v =>
           atomic_b (fun e st => Some (e, st, endpoint_alive st ch slot))
             (fun alive => if alive then chan_send_code ch v true (fun res => Log TAG_SEND [n_of_send res] (go r hs js gs ahs)) else Panic)
         | PTrySend ch slot v =>
           atomic_b (fun e st => Some (e, st, endpoint_alive st ch slot))
             (fun alive => if alive then chan_send_code ch v false (fun res => Log TAG_SEND [n_of_send res] (go r hs js gs ahs)) else Panic)
         | PRecv ch =>
           atomic_b (fun e st => Some (e, st, endpoint_alive st ch RX_SLOT))
             (fun alive => if alive then chan_recv_code ch true (fun res =>
                 Log TAG_RECV (match res with RvOk v => [0%N; v] | RvEmpty => [1%N] | RvDisconnected => [2%N] | RvBlock => [3%N] end) (go r hs js gs ahs)) else Panic)
         | PTryRecv ch =>
           atomic_b (fun e st => Some (e, st, endpoint_alive st ch RX_SLOT))
             (fun alive => if alive then chan_recv_code ch false (fun res =>
                 Log TAG_RECV (match res with RvOk v => [0%N; v] | RvEmpty => [1%N] | RvDisconnected => [2%N] | RvBlock => [3%N] end) (go r hs js gs ahs)) else Panic)
         | PDropTx ch slot =>
           atomic_b (fun e st => Some (e, st, endpoint_alive st ch slot))
             (fun alive => if alive then atomic_u (fun e st => chan_drop_tx e (endpoint_kill st ch slot) ch) (Log TAG_DROPTX [] (go r hs js gs ahs)) else Panic)
         | PDropRx ch =>
           atomic_b (fun e st => Some (e, st, endpoint_alive st ch RX_SLOT))
             (fun alive => if alive then atomic_u (fun e st => chan_drop_rx e (endpoint_kill st ch RX_SLOT) ch) (Log TAG_DROPRX [] (go r hs js gs ahs)) else Panic)
         | PBarrier b => barrier_wait_code b (fun leader => Log TAG_BARRIER [b2n leader] (go r hs js gs ahs))
         | PCallOnce o j =>
           Atomic (fun e st => match once_mutex st o with Some mx => Some (e, st, [N.of_nat mx]) | None => None end)
             (fun a => match a with
                       | [mx] => call_once_code o (N.to_nat mx)
                                   (fun k => Log TAG_INIT [] (comp f jt bodies j ctx (fun gs' ahs' => drop_guards true gs' (detach_all ahs' k)) ((N.to_nat mx, false) :: gs ++ outer)))
                                   (Log TAG_CALLONCE [] (go r hs js gs ahs))
                       | _ => Panic end)
         | PIsCompleted o => Switch (atomic_b (fun e st => once_is_completed e st o) (fun c => Log TAG_ISCOMPLETED [b2n c] (go r hs js gs ahs)))
         | PASpawn j =>
           Switch (SpawnNow
                     (atomic_b (fun e st => match wrapper_aborted e st jt with Some ab => Some (e, st, ab) | None => None end)
                        (fun ab => if ab then async_abort tls dtor jt [] []
                                   else comp f jt bodies j CtxTask (async_fin tls dtor jt (N.of_nat j)) []))
                     (fun tid => atomic_u (fun e st => joins_register e st jt tid)
                                   (Log TAG_ASPAWN [N.of_nat tid] (go r hs js gs (ahs ++ [(tid, true)])))))
         | PAwait h => match nth_error ahs h with
                       | Some (t, true) =>
                         await_join AWAIT_FUEL (match ctx with CtxTask => CtxTask | _ => CtxBlockOn end) jt t
                           (async_abort tls dtor jt gs (live_handles ahs))
                           (fun res => Log TAG_AWAIT (match res with Some v => [0%N; v] | None => [1%N] end)
                                         (atomic_u (fun e st => detach_handle e st t) (go r hs js gs (consume_handle ahs h))))
                       | _ => Panic end
         | PAbort h => match nth_error ahs h with
                       | Some (t, true) => abort_code jt t (Log TAG_ABORT [N.of_nat t] (go r hs js gs ahs))
                       | _ => Panic end
         | PDetach h => match nth_error ahs h with
                        | Some (t, true) => atomic_u (fun e st => detach_handle e st t) (Log TAG_DETACH [N.of_nat t] (go r hs js gs (consume_handle ahs h)))
                        | _ => Panic end
         | PAYield => await_yield (match ctx with CtxTask => CtxTask | _ => CtxBlockOn end) jt (async_abort tls dtor jt gs (live_handles ahs))
                        (Log TAG_AYIELD [] (go r hs js gs ahs))
         | PBlockOn j => Log TAG_BLOCKON [N.of_nat j]
                           (comp f jt bodies j CtxBlockOn (fun gs' ahs' => drop_guards true gs' (detach_all ahs' (Log TAG_BLOCKON [] (go r hs js gs ahs)))) (gs ++ outer))
         | PIsFinished h => match nth_error ahs h with
                            | Some (t, true) => atomic_b (fun e st => is_finished_handle e st t) (fun fin_ => Log TAG_ISFINISHED [b2n fin_] (go r hs js gs ahs))
                            | _ => Panic end
         | PTlsWith key add =>
           Atomic (fun e st => match me e with
                               | Some m => match tls_with st tls m key add with
                                           | Some (st', status, old) => Some (e, st', [n_of_tls status; old])
                                           | None => None end
                               | None => None end)
             (fun a => Log TAG_TLS (N.of_nat key :: a) (go r hs js gs ahs))
         | PThreadId =>
           Atomic (fun e st => match me e with Some m => Some (e, st, [N.of_nat m; 1%N]) | None => None end)
             (fun a => Log TAG_TID a (go r hs js gs ahs))
         | PScope z j =>
           atomic_u (fun e st => match me e, get_obj st z with
                                 | Some m, Some (OScope _ _ _) => Some (e, set_obj st z (OScope 0 m false))
                                 | _, _ => None end)
             (Log TAG_SCOPE [N.of_nat z]
                (comp f jt bodies j ctx
                   (fun gs' ahs' => drop_guards true gs' (detach_all ahs' (scope_end z (Log TAG_SCOPE [] (go r hs js gs ahs)))))
                   (gs ++ outer)))
         | PRecvAll ch =>
           atomic_b (fun e st => Some (e, st, endpoint_alive st ch RX_SLOT))
             (fun alive => if alive then recv_all_code RECV_ALL_FUEL ch (go r hs js gs ahs) else Panic)
         | PAcqNew q slot o n => acq_new_code q slot o n (Log TAG_QNEW [N.of_nat slot] (go r hs js gs ahs))
         | PAcqPoll q slot o => acq_poll_code q slot o (fun res => Log TAG_QPOLL [N.of_nat slot; res] (go r hs js gs ahs))
         | PAcqDrop q slot o => acq_drop_code q slot o (Log TAG_QDROP [N.of_nat slot] (go r hs js gs ahs))
         | PScopeSpawn z j =>
           atomic_u (fun e st => match scope_get st z with
                                 | Some (rn, m, w) => Some (e, set_obj st z (OScope (S rn) m w))
                                 | None => None end)
             (Switch (SpawnNow (comp f jt bodies j CtxBlockOn (scoped_fin z tls dtor) [])
                        (fun tid => Log TAG_SPAWN [N.of_nat tid] (go r (hs ++ [tid]) js gs ahs))))
         end
       end) (nth b bodies []) [] [] [] []
  end.

Definition top_dtor (jt : nat) (bodies : list (list op)) (d : nat) (k : code) : code :=
  comp (S (length bodies)) jt bodies d CtxBlockOn (fun gs' ahs' => drop_guards true gs' (detach_all ahs' k)) [].
Definition compile (jt : nat) (bodies : list (list op)) : code :=
  comp (S (S (length bodies))) jt bodies 0 CtxBlockOn (thread_fin (S jt) (top_dtor jt bodies)) [].

(* ---- the scripted scheduler used by the correspondence check ---- *)
Record script_state := mkScript { sc_script : list (option nat); sc_rnd : N }.

Definition rnd_next (x : N) : N := ((x * 6364136223846793005 + 1442695040888963407) mod 18446744073709551616)%N.

Definition scripted : scheduler script_state :=
  mkSched
    (fun st offered cur yielding =>
       match sc_script st with
       | [] => (hd_error offered, st)
       | None :: r => (None, mkScript r (sc_rnd st))
       | Some i :: r => (nth_error offered (i mod (length offered)), mkScript r (sc_rnd st))
       end)
    (fun st => let v := rnd_next (sc_rnd st) in (Some v, mkScript (sc_script st) v)).

Definition run_prog (fuel : nat) (ms : max_steps) (objs : store) (bodies : list (list op)) (script : list (option nat)) (rseed : N)
  : world * script_state * outcome :=
  run_exec scripted ms fuel (compile (length objs) bodies) (objs ++ [OJoins []; OTls []]) (mkScript script rseed).

(* check_dfs on a program: every execution's recorded schedule, in order *)
From SV Require Import Engine.Runner Sched.Dfs.
Definition run_prog_dfs (iters efuel : nat) (ms : max_steps) (max_iter : option nat) (allow_random_data : bool) (objs : store) (bodies : list (list op))
  : list (world * Exec.outcome) * dfs_state * bool :=
  runner_loop dfs_sched ms iters efuel (compile (length objs) bodies) (objs ++ [OJoins []; OTls []]) (dfs_initial max_iter allow_random_data).

(* the count returned by a run of a program with an iteration budget and a time limit (clock readings as a list) *)
Definition prog_count_t (expired : list bool) (budget efuel : nat) (objs : store) (bodies : list (list op)) : nat :=
  run_count_t expired budget efuel (compile (length objs) bodies) (objs ++ [OJoins []; OTls []]).
