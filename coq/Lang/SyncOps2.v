(* Expansion of Condvar, mpsc channel, Barrier and Once operations into runtime-call trees:
     shuttle-std/src/sync/condvar.rs, mpsc.rs, barrier.rs, once.rs.
   No proofs in this file. *)
From Coq Require Import List NArith Bool Arith.
From SV Require Import Params Clock.VClock Prim.Objects Engine.Exec Prim.Semaphore Lang.Code Lang.SyncOps.
Import ListNotations.

(* ================= Condvar ================= *)
Fixpoint assoc_get {A} (l : list (nat * A)) (k : nat) : option A :=
  match l with [] => None | (k', v) :: r => if Nat.eqb k k' then Some v else assoc_get r k end.
Fixpoint assoc_remove {A} (l : list (nat * A)) (k : nat) : list (nat * A) :=
  match l with [] => [] | (k', v) :: r => if Nat.eqb k k' then r else (k', v) :: assoc_remove r k end.

(* after the guard was released: enqueue as Waiting and block *)
Definition cv_enqueue (e : exec) (st : store) (cv : nat) : option (exec * store) :=
  match me e, get_obj st cv with
  | Some m, Some (OCondvar ws ne) =>
    match e_block e m false with
    | Some e' => Some (e', set_obj st cv (OCondvar (ws ++ [(m, CvWaiting)]) ne))
    | None => None end
  | _, _ => None
  end.

(* remove `epoch` from every other waiter's list; a waiter left without epochs goes back to Waiting and is blocked *)
Fixpoint cv_consume_epoch (e : exec) (ws : list (nat * cv_status)) (epoch : nat) : option (exec * list (nat * cv_status)) :=
  match ws with
  | [] => Some (e, [])
  | (tid, stt) :: r =>
    match stt with
    | CvSignal eps =>
      if existsb (fun p => Nat.eqb (fst p) epoch) eps then
        (* epochs.remove(position of the first entry with that epoch) *)
        let eps' := (fix rm (l : list (nat * vclock)) := match l with [] => [] | p :: t => if Nat.eqb (fst p) epoch then t else p :: rm t end) eps in
        match eps' with
        | [] => match e_block e tid false with
                | Some e1 => match cv_consume_epoch e1 r epoch with
                             | Some (e2, r') => Some (e2, (tid, CvWaiting) :: r') | None => None end
                | None => None end
        | _ => match cv_consume_epoch e r epoch with
               | Some (e2, r') => Some (e2, (tid, CvSignal eps') :: r') | None => None end
        end
      else match cv_consume_epoch e r epoch with
           | Some (e2, r') => Some (e2, (tid, stt) :: r') | None => None end
    | _ => match cv_consume_epoch e r epoch with
           | Some (e2, r') => Some (e2, (tid, stt) :: r') | None => None end
    end
  end.

(* after the wake-up: consume the signal that woke us *)
Definition cv_wake (e : exec) (st : store) (cv : nat) : option (exec * store) :=
  match me e, get_obj st cv with
  | Some m, Some (OCondvar ws ne) =>
    match assoc_get ws m with
    | None => None                                                   (* expect("should be waiting") *)
    | Some my =>
      let ws1 := assoc_remove ws m in
      match my with
      | CvBroadcast c => match e_update_clock e m c with Some e' => Some (e', set_obj st cv (OCondvar ws1 ne)) | None => None end
      | CvSignal [] => None                                          (* expect("should be a pending signal") *)
      | CvSignal ((epoch, c) :: _) =>
        match cv_consume_epoch e ws1 epoch with
        | Some (e1, ws2) => match e_update_clock e1 m c with Some e2 => Some (e2, set_obj st cv (OCondvar ws2 ne)) | None => None end
        | None => None
        end
      | CvWaiting => None                                            (* "should not have been woken while in Waiting status" *)
      end
    end
  | _, _ => None
  end.

(* Condvar::wait(guard): drop the guard (release with its switch), enqueue+block, switch, consume, lock again *)
Definition cv_wait_code (cv m : nat) (kont : lock_res -> code) : code :=
  mutex_unlock_code m
    (atomic_u (fun e st => cv_enqueue e st cv)
      (Switch (atomic_u (fun e st => cv_wake e st cv) (mutex_lock_code m kont)))).

Definition cv_notify_one (e : exec) (st : store) (cv : nat) : option (exec * store) :=
  match me e, get_obj st cv with
  | Some m, Some (OCondvar ws ne) =>
    match e_clock e m with
    | None => None
    | Some c =>
      match fold_left (fun acc p =>
              match acc with
              | None => None
              | Some (e, out) =>
                let '(tid, stt) := p in
                if Nat.eqb tid m then None else                      (* assert_ne!(tid, me) *)
                let stt' := match stt with
                            | CvWaiting => CvSignal [(ne, c)]
                            | CvSignal eps => CvSignal (eps ++ [(ne, c)])
                            | CvBroadcast b => CvBroadcast b end in
                match e_unblock e tid with Some e' => Some (e', out ++ [(tid, stt')]) | None => None end
              end) ws (Some (e, [])) with
      | Some (e', ws') => Some (e', set_obj st cv (OCondvar ws' (S ne)))
      | None => None
      end
    end
  | _, _ => None
  end.

Definition cv_notify_all (e : exec) (st : store) (cv : nat) : option (exec * store) :=
  match me e, get_obj st cv with
  | Some m, Some (OCondvar ws ne) =>
    match e_clock e m with
    | None => None
    | Some c =>
      match fold_left (fun acc p =>
              match acc with
              | None => None
              | Some (e, out) =>
                let '(tid, _) := p in
                if Nat.eqb tid m then None else
                match e_unblock e tid with Some e' => Some (e', out ++ [(tid, CvBroadcast c)]) | None => None end
              end) ws (Some (e, [])) with
      | Some (e', ws') => Some (e', set_obj st cv (OCondvar ws' ne))
      | None => None
      end
    end
  | _, _ => None
  end.

Definition cv_notify_code (cv : nat) (all : bool) (kont : code) : code :=
  Switch (atomic_u (fun e st => if all then cv_notify_all e st cv else cv_notify_one e st cv) kont).

(* ================= mpsc ================= *)
Definition set_msgs (c : chan) (m : list (N * vclock)) := mkChan (ch_bound c) m (ch_rclock c) (ch_senders c) (ch_receivers c) (ch_wsend c) (ch_wrecv c).
Definition set_rclock (c : chan) (r : option (list vclock)) := mkChan (ch_bound c) (ch_msgs c) r (ch_senders c) (ch_receivers c) (ch_wsend c) (ch_wrecv c).
Definition set_senders (c : chan) (n : nat) := mkChan (ch_bound c) (ch_msgs c) (ch_rclock c) n (ch_receivers c) (ch_wsend c) (ch_wrecv c).
Definition set_receivers (c : chan) (n : nat) := mkChan (ch_bound c) (ch_msgs c) (ch_rclock c) (ch_senders c) n (ch_wsend c) (ch_wrecv c).
Definition set_wsend (c : chan) (l : list nat) := mkChan (ch_bound c) (ch_msgs c) (ch_rclock c) (ch_senders c) (ch_receivers c) l (ch_wrecv c).
Definition set_wrecv (c : chan) (l : list nat) := mkChan (ch_bound c) (ch_msgs c) (ch_rclock c) (ch_senders c) (ch_receivers c) (ch_wsend c) l.

Definition chan_new (bound : option nat) : chan :=
  mkChan bound [] (match bound with Some k => Some (repeat [] k) | None => None end) 1 1 [] [].

Definition is_rendezvous (c : chan) : bool := match ch_bound c with Some O => true | _ => false end.

Definition sender_must_block (c : chan) : bool :=
  let '(rdv, full) := match ch_bound c with
                      | Some b => (Nat.eqb b 0, Nat.leb (Nat.max b 1) (length (ch_msgs c)))
                      | None => (false, false) end in
  full || negb (match ch_wsend c with [] => true | _ => false end)
  || (rdv && (match ch_wrecv c with [] => true | _ => false end)).

Inductive send_res := SdOk | SdFull | SdDisconnected | SdBlock.

(* first half of send_internal (after its leading switch): decides, and enqueues the sender if it must block *)
Definition chan_send_pre (e : exec) (c : chan) (can_block : bool) : option (exec * chan * send_res) :=
  match me e with
  | None => None
  | Some m =>
    let should_block := sender_must_block c in
    if Nat.eqb (ch_receivers c) 0 then Some (e, c, SdDisconnected)
    else if should_block then
      if negb can_block then Some (e, c, SdFull)
      else match e_block e m false with
           | Some e' => Some (e', set_wsend c (ch_wsend c ++ [m]), SdBlock)
           | None => None end
    else Some (e, c, SdOk)
  end.

(* after the blocking switch: None = assert_eq!(head, me) fails or remove(0) on empty *)
Definition chan_send_woken (e : exec) (c : chan) : option (exec * chan * send_res) :=
  match me e with
  | None => None
  | Some m =>
    if Nat.eqb (ch_receivers c) 0 then Some (e, set_wsend c (filter (fun t => negb (Nat.eqb t m)) (ch_wsend c)), SdDisconnected)
    else match ch_wsend c with
         | h :: r => if Nat.eqb h m then Some (e, set_wsend c r, SdOk) else None
         | [] => None
         end
  end.

(* the delivery part of send_internal *)
Definition chan_send_deliver (e : exec) (c : chan) (v : N) : option (exec * chan) :=
  match me e with
  | None => None
  | Some m =>
    match e_increment_clock e m with
    | None => None
    | Some e1 =>
      match e_clock e1 m with
      | None => None
      | Some mc =>
        let c1 := set_msgs c (ch_msgs c ++ [(v, mc)]) in
        (* wake the first waiting receiver; for a rendezvous channel the sender inherits the receiver's clock *)
        let e2 := match ch_wrecv c1 with
                  | tid :: _ =>
                    match e_unblock e1 tid with
                    | Some e' => if is_rendezvous c1 then
                                   match e_clock e' tid with Some rc => e_update_clock e' m rc | None => None end
                                 else Some e'
                    | None => None end
                  | [] => Some e1 end in
        match e2 with
        | None => None
        | Some e2 =>
          let e3 := match ch_wsend c1 with
                    | tid :: _ =>
                      match ch_bound c1 with
                      | None => None                                 (* expect("can't have waiting senders on an unbounded channel") *)
                      | Some b => if Nat.ltb (length (ch_msgs c1)) b then e_unblock e2 tid else Some e2
                      end
                    | [] => Some e2 end in
          match e3 with
          | None => None
          | Some e3 =>
            if negb (is_rendezvous c1) then
              match ch_rclock c1 with
              | Some (rc :: rest) => match e_update_clock e3 m rc with Some e4 => Some (e4, set_rclock c1 (Some rest)) | None => None end
              | Some [] => None                                      (* receiver_clock.remove(0) on an empty vector *)
              | None => Some (e3, c1)
              end
            else Some (e3, c1)
          end
        end
      end
    end
  end.

Definition on_chan {A} (st : store) (ch : nat) (f : chan -> option A) : option A :=
  match get_obj st ch with Some (OChan c) => f c | _ => None end.

Definition n_of_send (r : send_res) : N := match r with SdOk => 0%N | SdFull => 1%N | SdDisconnected => 2%N | SdBlock => 3%N end.

Definition chan_send_code (ch : nat) (v : N) (can_block : bool) (kont : send_res -> code) : code :=
  let deliver := atomic_u (fun e st => on_chan st ch (fun c => match chan_send_deliver e c v with
                                                               | Some (e', c') => Some (e', set_obj st ch (OChan c')) | None => None end))
                          (kont SdOk) in
  Switch (Atomic (fun e st => on_chan st ch (fun c => match chan_send_pre e c can_block with
                                                      | Some (e', c', r) => Some (e', set_obj st ch (OChan c'), [n_of_send r]) | None => None end))
    (fun a => match a with
              | [0%N] => deliver
              | [1%N] => kont SdFull
              | [2%N] => kont SdDisconnected
              | _ => Switch (Atomic (fun e st => on_chan st ch (fun c => match chan_send_woken e c with
                                                                         | Some (e', c', r) => Some (e', set_obj st ch (OChan c'), [n_of_send r]) | None => None end))
                       (fun a => match a with [0%N] => deliver | _ => kont SdDisconnected end))
              end)).

Inductive recv_res := RvOk (v : N) | RvEmpty | RvDisconnected | RvBlock.

Definition receiver_must_block (c : chan) : bool :=
  (match ch_msgs c with [] => true | _ => false end) || negb (match ch_wrecv c with [] => true | _ => false end).

(* first half of recv_internal: [tag; value] *)
Definition chan_recv_pre (e : exec) (c : chan) (can_block : bool) : option (exec * chan * recv_res) :=
  match me e with
  | None => None
  | Some m =>
    let should_block := receiver_must_block c in
    let empty := match ch_msgs c with [] => true | _ => false end in
    if empty && Nat.eqb (ch_senders c) 0 then Some (e, c, RvDisconnected)
    else
      (* rendezvous with no message: wake the first waiting sender, or report Empty for try_recv *)
      let r1 := if is_rendezvous c && empty then
                  match ch_wsend c with
                  | tid :: _ => match e_unblock e tid with Some e' => Some (e', false) | None => None end
                  | [] => if negb can_block then Some (e, true) else Some (e, false)
                  end
                else Some (e, false) in
      match r1 with
      | None => None
      | Some (_, true) => Some (e, c, RvEmpty)
      | Some (e1, false) =>
        if negb (is_rendezvous c) && negb can_block && Nat.leb (length (ch_msgs c)) (length (ch_wrecv c)) then Some (e1, c, RvEmpty)
        else
          match e_increment_clock e1 m with
          | None => None
          | Some e2 =>
            if should_block then
              match e_block e2 m false with
              | Some e3 => Some (e3, set_wrecv c (ch_wrecv c ++ [m]), RvBlock)
              | None => None end
            else Some (e2, c, RvOk 0)
          end
      end
  end.

Definition chan_recv_woken (e : exec) (c : chan) : option (exec * chan * recv_res) :=
  match me e with
  | None => None
  | Some m =>
    if (match ch_msgs c with [] => true | _ => false end) && Nat.eqb (ch_senders c) 0 then
      Some (e, set_wrecv c (filter (fun t => negb (Nat.eqb t m)) (ch_wrecv c)), RvDisconnected)
    else match ch_wrecv c with
         | h :: r => if Nat.eqb h m then Some (e, set_wrecv c r, RvOk 0) else None
         | [] => None
         end
  end.

(* the taking part of recv_internal; None also for messages.remove(0) on an empty queue *)
Definition chan_recv_take (e : exec) (c : chan) : option (exec * chan * N) :=
  match me e, ch_msgs c with
  | Some m, (v, vc) :: rest =>
    let c1 := set_msgs c rest in
    let e1 := match ch_wsend c1 with
              | tid :: _ =>
                match ch_bound c1 with
                | None => None
                | Some b => if Nat.ltb 0 b || negb (match ch_wrecv c1 with [] => true | _ => false end) then e_unblock e tid else Some e
                end
              | [] => Some e end in
    match e1 with
    | None => None
    | Some e1 =>
      let e2 := match ch_wrecv c1 with
                | tid :: _ => if negb (match ch_msgs c1 with [] => true | _ => false end) then e_unblock e1 tid else Some e1
                | [] => Some e1 end in
      match e2 with
      | None => None
      | Some e2 =>
        match e_join_clock e2 m vc with
        | None => None
        | Some e3 =>
          match ch_rclock c1, ch_bound c1, e_clock e3 m with
          | Some rc, Some b, Some mc =>
            if Nat.ltb 0 b then
              if Nat.ltb (length rc) b then Some (e3, set_rclock c1 (Some (rc ++ [mc])), v) else None   (* assert!(receiver_clock.len() < bound) *)
            else Some (e3, c1, v)
          | Some _, None, _ => None
          | _, _, _ => Some (e3, c1, v)
          end
        end
      end
    end
  | _, _ => None
  end.

Definition chan_recv_code (ch : nat) (can_block : bool) (kont : recv_res -> code) : code :=
  let take := Atomic (fun e st => on_chan st ch (fun c => match chan_recv_take e c with
                                                          | Some (e', c', v) => Some (e', set_obj st ch (OChan c'), [v]) | None => None end))
                     (fun a => match a with [v] => kont (RvOk v) | _ => Panic end) in
  let tagn := fun r => match r with RvOk _ => 0%N | RvEmpty => 1%N | RvDisconnected => 2%N | RvBlock => 3%N end in
  Switch (Atomic (fun e st => on_chan st ch (fun c => match chan_recv_pre e c can_block with
                                                      | Some (e', c', r) => Some (e', set_obj st ch (OChan c'), [tagn r]) | None => None end))
    (fun a => match a with
              | [0%N] => take
              | [1%N] => kont RvEmpty
              | [2%N] => kont RvDisconnected
              | _ => Switch (Atomic (fun e st => on_chan st ch (fun c => match chan_recv_woken e c with
                                                                         | Some (e', c', r) => Some (e', set_obj st ch (OChan c'), [tagn r]) | None => None end))
                       (fun a => match a with [0%N] => take | _ => kont RvDisconnected end))
              end)).

(* Sender::clone (no scheduling point) *)
Definition chan_clone_tx (e : exec) (st : store) (ch : nat) : option (exec * store) :=
  on_chan st ch (fun c => Some (e, set_obj st ch (OChan (set_senders c (S (ch_senders c)))))).

Definition unblock_all (e : exec) (l : list nat) : option exec :=
  fold_left (fun acc t => match acc with Some e => e_unblock e t | None => None end) l (Some e).

(* Drop for Sender / SyncSender / Receiver (no scheduling point); None = assert!(known > 0) *)
Definition chan_drop_tx (e : exec) (st : store) (ch : nat) : option (exec * store) :=
  match should_stop e with
  | None => None
  | Some true => Some (e, st)
  | Some false =>
    on_chan st ch (fun c =>
      match ch_senders c with
      | O => None
      | S n => let c' := set_senders c n in
               match (if Nat.eqb n 0 then unblock_all e (ch_wrecv c') else Some e) with
               | Some e' => Some (e', set_obj st ch (OChan c')) | None => None end
      end)
  end.

Definition chan_drop_rx (e : exec) (st : store) (ch : nat) : option (exec * store) :=
  match should_stop e with
  | None => None
  | Some true => Some (e, st)
  | Some false =>
    on_chan st ch (fun c =>
      match ch_receivers c with
      | O => None
      | S n => let c' := set_receivers c n in
               match (if Nat.eqb n 0 then unblock_all e (ch_wsend c') else Some e) with
               | Some e' => Some (e', set_obj st ch (OChan c')) | None => None end
      end)
  end.

(* ================= Barrier ================= *)
Definition barrier_will_block (st : store) (b : nat) : option bool :=
  match get_obj st b with Some (OBarrier bound _ ws _ _) => Some (Nat.ltb (S (length ws)) bound) | _ => None end.

(* arrival: returns (my_epoch, blocked?) *)
Definition barrier_arrive (e : exec) (st : store) (b : nat) : option (exec * store * nat * bool) :=
  match me e, get_obj st b with
  | Some m, Some (OBarrier bound epoch ws toks clk) =>
    match e_increment_clock e m with
    | None => None
    | Some e1 =>
      match e_clock e1 m with
      | None => None
      | Some mc =>
        let clk1 := update clk mc in
        if existsb (Nat.eqb m) ws then None                           (* assert!(waiters.insert(me)) *)
        else
          let ws1 := ws ++ [m] in
          if Nat.ltb (length ws1) bound then
            match e_block e1 m false with
            | Some e2 => Some (e2, set_obj st b (OBarrier bound epoch ws1 toks clk1), epoch, true)
            | None => None end
          else
            if existsb (Nat.eqb epoch) toks then None                 (* assert!(leader_tokens.insert(my_epoch)) *)
            else
              match fold_left (fun acc tid =>
                      match acc with
                      | None => None
                      | Some e =>
                        match e_increment_clock e tid with
                        | Some e' => match e_join_clock e' tid clk1 with
                                     | Some e'' => e_unblock e'' tid | None => None end
                        | None => None end
                      end) ws1 (Some e1) with
              | Some e2 => Some (e2, set_obj st b (OBarrier bound (S epoch) [] (toks ++ [epoch]) clk1), epoch, false)
              | None => None
              end
      end
    end
  | _, _ => None
  end.

Definition barrier_leave (e : exec) (st : store) (b : nat) (my_epoch : nat) : option (exec * store * bool) :=
  match get_obj st b with
  | Some (OBarrier bound epoch ws toks clk) =>
    let leader := existsb (Nat.eqb my_epoch) toks in
    Some (e, set_obj st b (OBarrier bound epoch ws (filter (fun x => negb (Nat.eqb x my_epoch)) toks) clk), leader)
  | _ => None
  end.

Definition barrier_wait_code (b : nat) (kont : bool -> code) : code :=
  atomic_b (fun e st => match barrier_will_block st b with Some wb => Some (e, st, wb) | None => None end)
    (fun wb => switch_if (negb wb)
      (Atomic (fun e st => match barrier_arrive e st b with
                           | Some (e', st', ep, blocked) => Some (e', st', [N.of_nat ep; b2n blocked]) | None => None end)
        (fun a => match a with
                  | [ep; blk] =>
                    let leave := atomic_b (fun e st => barrier_leave e st b (N.to_nat ep)) kont in
                    if N.eqb blk 1 then Switch leave else leave
                  | _ => Panic end))).

(* ================= Once ================= *)
(* call_once entry: initialise the per-execution state if needed; Complete -> inherit the clock and return *)
Definition once_enter (e : exec) (st : store) (o : nat) : option (exec * store * bool (*must take the lock*) ) :=
  match me e, get_obj st o with
  | Some m, Some (OOnce s flag mx) =>
    match s with
    | OnComplete c => match e_update_clock e m c with Some e' => Some (e', st, false) | None => None end
    | OnNone => Some (e, set_obj st o (OOnce OnRunning flag mx), true)
    | OnRunning => Some (e, st, true)
    end
  | _, _ => None
  end.

Definition once_flag (st : store) (o : nat) : option bool :=
  match get_obj st o with Some (OOnce _ flag _) => Some flag | _ => None end.
Definition once_mutex (st : store) (o : nat) : option nat :=
  match get_obj st o with Some (OOnce _ _ mx) => Some mx | _ => None end.

(* after the initialiser ran: flag := true; state := Complete(incremented clock) *)
Definition once_complete (e : exec) (st : store) (o : nat) : option (exec * store) :=
  match me e, get_obj st o with
  | Some m, Some (OOnce _ _ mx) =>
    match e_increment_clock e m with
    | Some e1 => match e_clock e1 m with
                 | Some c => Some (e1, set_obj st o (OOnce (OnComplete c) true mx))
                 | None => None end
    | None => None end
  | _, _ => None
  end.

(* call_once(f): `body k` is the initialiser's code continuing with k; `mx` must be the Once's mutex *)
Definition call_once_code (o mx : nat) (body : code -> code) (kont : code) : code :=
  atomic_b (fun e st => once_enter e st o)
    (fun need => if negb need then kont else
      mutex_lock_code mx (fun res =>
        match res with
        | LkPoisoned => Panic                                          (* "Once instance has previously been poisoned" *)
        | _ =>
          atomic_b (fun e st => match once_flag st o with Some f => Some (e, st, f) | None => None end)
            (fun done => if done then mutex_unlock_code mx kont
                         else body (Switch (atomic_u (fun e st => once_complete e st o) (mutex_unlock_code mx kont))))
        end)).

(* is_completed (no scheduling point) *)
Definition once_is_completed (e : exec) (st : store) (o : nat) : option (exec * store * bool) :=
  match me e, get_obj st o with
  | Some m, Some (OOnce (OnComplete c) _ _) => match e_update_clock e m c with Some e' => Some (e', st, true) | None => None end
  | Some _, Some (OOnce _ _ _) => Some (e, st, false)
  | _, _ => None
  end.
