(* C19: the abstract specification level of the bounded mpsc channel - the protocol of
   wrappers/tokio/impls/tokio/inner/src/sync/mpsc.rs over two permit counters and a FIFO buffer, with one phase per
   client for every position between two scheduling points of send / try_send / recv / try_recv / blocking_recv
   (the code as of /repo 7bf2a6b: every receive method gives its slot back).
   A block of the model that does two things at once (a release that hands the permit to the queued head, an acquire
   that pushes in the same block) appears here either as one step or as two consecutive ones, so the abstract runs are
   a superset of the model's.  Definitions only; proofs in Proofs/TokProto.v. *)
From Coq Require Import List Arith Bool.
Import ListNotations.

Inductive cph :=
| CIdle
| CSendWait (v : nat)          (* send_semaphore.acquire(1) queued *)
| CSendGranted (v : nat)       (* a release handed this sender its capacity permit; the sender has not run yet *)
| CSendPushed                  (* message pushed; recv_semaphore.release(1) comes after the scheduling point *)
| CRecvWait (blocking : bool)  (* recv_semaphore.acquire(1) queued *)
| CRecvGranted (blocking : bool)
| CRecvPopped.                 (* message taken by recv / try_recv / blocking_recv; send_semaphore.release(1) comes after the scheduling point *)

Record amp := mkAmp {
  a_k : nat;              (* Channel.bound *)
  a_q : list nat;         (* ChannelState.messages *)
  a_free : nat;           (* send_semaphore: available permits *)
  a_msgs : nat;           (* recv_semaphore: available permits *)
  a_closed : bool;        (* send_semaphore closed (Receiver::close, receiver or last sender dropped) *)
  a_cl : list cph;        (* the clients *)
  a_sent : list nat;      (* ghost: values pushed, in order *)
  a_rcvd : list nat;      (* ghost: values taken, in order *)
  a_lost : nat;           (* ghost: capacity permits of senders that found the channel closed after being granted *)
}.

Inductive alabel :=
| LSendStart (v : nat)         (* first poll of send: no permit, the sender queues *)
| LSendNow (v : nat)           (* first poll of send / try_send with a free slot: permit taken and message pushed in one block *)
| LSendGrant                   (* a release hands the head sender its permit *)
| LSendObserve                 (* the granted sender runs: pushes, or finds the channel closed *)
| LSendFail                    (* a queued sender is woken by close *)
| LSendRelease                 (* recv_semaphore.release(1) *)
| LRecvStart (b : bool)
| LRecvNow (b : bool)          (* first poll of recv / blocking_recv, or try_recv, with a message permit: permit taken and message popped *)
| LRecvGrant
| LRecvObserve
| LRecvGiveBack                (* send_semaphore.release(1) *)
| LClose.

Fixpoint set_nth {A} (l : list A) (i : nat) (x : A) : list A :=
  match l, i with
  | [], _ => []
  | _ :: r, O => x :: r
  | y :: r, S j => y :: set_nth r j x
  end.

Definition with_cl (a : amp) (i : nat) (c : cph) : amp :=
  mkAmp (a_k a) (a_q a) (a_free a) (a_msgs a) (a_closed a) (set_nth (a_cl a) i c) (a_sent a) (a_rcvd a) (a_lost a).

(* push v, by client i which moves to CSendPushed *)
Definition do_push (a : amp) (i : nat) (v : nat) (free' : nat) : amp :=
  mkAmp (a_k a) (a_q a ++ [v]) free' (a_msgs a) (a_closed a) (set_nth (a_cl a) i CSendPushed) (a_sent a ++ [v]) (a_rcvd a) (a_lost a).

(* pop by client i, for recv / try_recv / blocking_recv alike (since /repo 7bf2a6b blocking_recv gives the slot back too);
   None = the buffer is empty although a message permit was held (the `expect` of try_recv) *)
Definition do_pop (a : amp) (i : nat) (msgs' : nat) : option amp :=
  match a_q a with
  | [] => None
  | v :: q' =>
    Some (mkAmp (a_k a) q' (a_free a) msgs' (a_closed a) (set_nth (a_cl a) i CRecvPopped)
                (a_sent a) (a_rcvd a ++ [v]) (a_lost a))
  end.

(* None = the step is not enabled (wrong phase / no permit) or the model would panic *)
Definition astep (a : amp) (i : nat) (l : alabel) : option amp :=
  match nth_error (a_cl a) i with
  | None => None
  | Some ph =>
    match l, ph with
    | LSendStart v, CIdle => if a_closed a then None else Some (with_cl a i (CSendWait v))
    | LSendNow v, CIdle =>
      if a_closed a then None else
      match a_free a with O => None | S f => Some (do_push a i v f) end
    | LSendGrant, CSendWait v =>
      if a_closed a then None else
      match a_free a with
      | O => None
      | S f => Some (mkAmp (a_k a) (a_q a) f (a_msgs a) (a_closed a) (set_nth (a_cl a) i (CSendGranted v)) (a_sent a) (a_rcvd a) (a_lost a))
      end
    | LSendObserve, CSendGranted v =>
      if a_closed a then
        Some (mkAmp (a_k a) (a_q a) (a_free a) (a_msgs a) (a_closed a) (set_nth (a_cl a) i CIdle) (a_sent a) (a_rcvd a) (S (a_lost a)))
      else Some (do_push a i v (a_free a))
    | LSendFail, CSendWait _ => if a_closed a then Some (with_cl a i CIdle) else None
    | LSendRelease, CSendPushed =>
      Some (mkAmp (a_k a) (a_q a) (a_free a) (S (a_msgs a)) (a_closed a) (set_nth (a_cl a) i CIdle) (a_sent a) (a_rcvd a) (a_lost a))
    | LRecvStart b, CIdle => Some (with_cl a i (CRecvWait b))
    | LRecvNow b, CIdle => match a_msgs a with O => None | S m => do_pop a i m end
    | LRecvGrant, CRecvWait b =>
      match a_msgs a with
      | O => None
      | S m => Some (mkAmp (a_k a) (a_q a) (a_free a) m (a_closed a) (set_nth (a_cl a) i (CRecvGranted b)) (a_sent a) (a_rcvd a) (a_lost a))
      end
    | LRecvObserve, CRecvGranted b => do_pop a i (a_msgs a)
    | LRecvGiveBack, CRecvPopped =>
      Some (mkAmp (a_k a) (a_q a) (S (a_free a)) (a_msgs a) (a_closed a) (set_nth (a_cl a) i CIdle) (a_sent a) (a_rcvd a) (a_lost a))
    | LClose, _ =>
      Some (mkAmp (a_k a) (a_q a) (a_free a) (a_msgs a) true (a_cl a) (a_sent a) (a_rcvd a) (a_lost a))
    | _, _ => None
    end
  end.

Fixpoint arun (a : amp) (steps : list (nat * alabel)) : option amp :=
  match steps with
  | [] => Some a
  | (i, l) :: r => match astep a i l with Some a' => arun a' r | None => None end
  end.

Definition amp_init (k nclients : nat) : amp := mkAmp k [] k 0 false (repeat CIdle nclients) [] [] 0.

Definition cnt (p : cph -> bool) (l : list cph) : nat := length (filter p l).
Definition is_sgranted (c : cph) : bool := match c with CSendGranted _ => true | _ => false end.
Definition is_pushed (c : cph) : bool := match c with CSendPushed => true | _ => false end.
Definition is_rgranted (c : cph) : bool := match c with CRecvGranted _ => true | _ => false end.
Definition is_popped (c : cph) : bool := match c with CRecvPopped => true | _ => false end.
Definition is_idle (c : cph) : bool := match c with CIdle => true | _ => false end.

(* capacity accounting, message accounting, FIFO *)
Definition amp_inv (a : amp) : Prop :=
  a_free a + cnt is_sgranted (a_cl a) + length (a_q a) + cnt is_popped (a_cl a) + a_lost a = a_k a /\
  a_msgs a + cnt is_rgranted (a_cl a) + cnt is_pushed (a_cl a) = length (a_q a) /\
  a_sent a = a_rcvd a ++ a_q a.
