(* Expansion of the async executor's operations into runtime-call trees:
     shuttle-std/src/future.rs (spawn, JoinHandle, Wrapper, block_on, yield_now),
     shuttle-engine/src/runtime/task/mod.rs (Task::from_future: the poll loop).
   The JoinHandle state of every spawned future lives in one OJoins object whose index `jt` the
   driver passes in.  No proofs in this file. *)
From Coq Require Import List NArith Bool Arith.
From SV Require Import Clock.VClock Prim.Objects Engine.Exec Lang.Code Lang.SyncOps2.
Import ListNotations.

Definition joins_get (st : store) (jt t : nat) : option join_inner :=
  match get_obj st jt with Some (OJoins l) => assoc_get l t | _ => None end.
Definition joins_set (st : store) (jt t : nat) (j : join_inner) : store :=
  match get_obj st jt with
  | Some (OJoins l) => set_obj st jt (OJoins ((t, j) :: assoc_remove l t))
  | _ => st end.

(* spawn: register the JoinHandle state of the new task *)
Definition joins_register (e : exec) (st : store) (jt child : nat) : option (exec * store) :=
  Some (e, joins_set st jt child (mkJoin None None false)).

(* one polling context: a thread inside block_on, or a task spawned from a future *)
Inductive pctx := CtxBlockOn | CtxTask.

Definition AWAIT_FUEL : nat := 64.

(* Wrapper::finish(result): publish the result and wake the stored waker (TLS destructors are handled by the caller) *)
Definition wrapper_finish (e : exec) (st : store) (jt : nat) (res : option N) : option (exec * store) :=
  match me e with
  | None => None
  | Some m =>
    if exec_is_finished e then Some (e, st) else
    match joins_get st jt m with
    | None => None
    | Some j =>
      let st' := joins_set st jt m (mkJoin (Some res) None (ji_aborted j)) in
      match ji_waker j with
      | Some w => match e_waker_wake e w with Some e' => Some (e', st') | None => None end
      | None => Some (e, st')
      end
    end
  end.

(* the top of Wrapper::poll: has this task been aborted? *)
Definition wrapper_aborted (e : exec) (st : store) (jt : nat) : option bool :=
  match me e with
  | Some m => match joins_get st jt m with Some j => Some (ji_aborted j) | None => None end
  | None => None end.

(* What happens between a Pending result and the next poll.  In a task spawned from a future the next
   poll starts with the abort check of Wrapper::poll; `on_abort` is the code that drops the future
   (its live locals) and finishes with Cancelled. *)
Definition suspend (ctx : pctx) (jt : nat) (on_abort : code) (retry : code) : code :=
  atomic_u (fun e st => match me e with
                        | Some m => match e_sleep_unless_woken e m with Some e' => Some (e', st) | None => None end
                        | None => None end)
    (Switch
       (match ctx with
        | CtxBlockOn => retry
        | CtxTask => atomic_b (fun e st => match wrapper_aborted e st jt with Some b => Some (e, st, b) | None => None end)
                       (fun ab => if ab then on_abort else retry)
        end)).

(* JoinHandle::poll *)
Definition join_poll (e : exec) (st : store) (jt target : nat) : option (exec * store * option (option N)) :=
  match me e, joins_get st jt target with
  | Some m, Some j =>
    match ji_result j with
    | Some r => Some (e, joins_set st jt target (mkJoin None (ji_waker j) (ji_aborted j)), Some r)
    | None => Some (e, joins_set st jt target (mkJoin None (Some m) (ji_aborted j)), None)
    end
  | _, _ => None
  end.

Fixpoint await_join (fuel : nat) (ctx : pctx) (jt target : nat) (on_abort : code) (kont : option N -> code) : code :=
  match fuel with
  | O => Log 99 [] Panic
  | S f =>
    Atomic (fun e st => match join_poll e st jt target with
                        | Some (e', st', Some (Some v)) => Some (e', st', [0%N; v])
                        | Some (e', st', Some None) => Some (e', st', [1%N])
                        | Some (e', st', None) => Some (e', st', [2%N])
                        | None => None end)
      (fun a => match a with
                | [0%N; v] => kont (Some v)
                | [1%N] => kont None
                | _ => suspend ctx jt on_abort (await_join f ctx jt target on_abort kont)
                end)
  end.

(* future::yield_now().await: first poll wakes itself, requests a yield and is Pending; second poll is Ready *)
Definition await_yield (ctx : pctx) (jt : nat) (on_abort : code) (kont : code) : code :=
  atomic_u (fun e st => match me e with
                        | Some m => match e_waker_wake e m with Some e' => Some (e_request_yield e', st) | None => None end
                        | None => None end)
    (suspend ctx jt on_abort kont).

(* JoinHandle::abort / AbortHandle::abort *)
Definition abort_code (jt target : nat) (kont : code) : code :=
  Switch (atomic_u (fun e st =>
      match joins_get st jt target with
      | None => None
      | Some j =>
        if ji_aborted j then Some (e, st)
        else
          let st' := joins_set st jt target (mkJoin (ji_result j) (ji_waker j) true) in
          if exec_is_finished e then Some (e, st')
          else match e_abort e target with Some e' => Some (e', st') | None => None end
      end) kont).

(* Drop for JoinHandle: detach *)
Definition detach_handle (e : exec) (st : store) (target : nat) : option (exec * store) :=
  if exec_is_finished e then Some (e, st)
  else match e_detach e target with Some e' => Some (e', st) | None => None end.

Definition is_finished_handle (e : exec) (st : store) (target : nat) : option (exec * store * bool) :=
  match get_task e target with Some tk => Some (e, st, is_finished tk) | None => None end.
