(* C20 — specification devices for the parking_lot replacement (definitions only; proofs: Proofs/PlLockProofs.v).

   (1) `asem`: the tiny abstract specification of a strictly fair counting semaphore: a number of available permits, a
       FIFO queue of requests, and the requests a release has granted but whose owner has not polled yet.  It is what
       C18 establishes of Prim/Semaphore.v in strictly fair mode (conservation C18_run_preserves, no overtaking
       C18_fair_no_overtake_*, grants in queue order C18_fair_grants_in_order); the simulation between `sem` and `asem`
       is not mechanised (see Props/C20.v, "partial").
   (2) the lock machine: RawRwLock = two such semaphores (`sem` with MAX permits, `upgradable_sem` with one) operated by
       any number of tasks through the blocks the code of raw_rwlock.rs consists of (try_acquire / first poll / later
       poll / release), plus ghost steps marking where an operation returns a guard (commit) and where an operation on a
       guard starts (open).  Permits "in hand" are pooled over all tasks: the machine over-approximates every
       interleaving of every well-bracketed use of the lock_api guards.
   (3) the reader / writer / upgradable state machine lock_api specifies. *)
From Coq Require Import List NArith Bool Arith.
Import ListNotations.
Open Scope N_scope.

(* ---------------- (1) strictly fair counting semaphore ---------------- *)
Record asem := mkA { a_avail : N; a_queue : list (nat * N); a_ready : list (nat * N) }.
Definition a_new (n : N) : asem := mkA n [] [].

Fixpoint sumn (l : list (nat * N)) : N := match l with [] => 0 | (_, n) :: r => n + sumn r end.

(* unblock_waiters_from_front *)
Fixpoint a_grant (fuel : nat) (avail : N) (q ready : list (nat * N)) : N * list (nat * N) * list (nat * N) :=
  match fuel, q with
  | S f, (id, n) :: r => if n <=? avail then a_grant f (avail - n) r (ready ++ [(id, n)]) else (avail, q, ready)
  | _, _ => (avail, q, ready)
  end.

Definition a_release (s : asem) (k : N) : asem :=
  let '(av, q, rd) := a_grant (length (a_queue s)) (a_avail s + k) (a_queue s) (a_ready s) in mkA av q rd.

(* try_acquire: only with an empty queue *)
Definition a_try (s : asem) (k : N) : asem * bool :=
  if (match a_queue s with [] => true | _ => false end) && (k <=? a_avail s) && (0 <? k)
  then (mkA (a_avail s - k) (a_queue s) (a_ready s), true) else (s, false).

(* first poll of a new request *)
Definition a_request (s : asem) (id : nat) (k : N) : asem * bool :=
  let '(s', ok) := a_try s k in
  if ok then (s', true) else (mkA (a_avail s) (a_queue s ++ [(id, k)]) (a_ready s), false).

Fixpoint take_first (id : nat) (l : list (nat * N)) : option (N * list (nat * N)) :=
  match l with
  | [] => None
  | (i, n) :: r => if Nat.eqb i id then Some (n, r)
                   else match take_first id r with Some (m, r') => Some (m, (i, n) :: r') | None => None end
  end.

(* a later poll: Ready exactly when a release has granted the request *)
Definition a_poll (s : asem) (id : nat) : asem * option N :=
  match take_first id (a_ready s) with
  | Some (n, r) => (mkA (a_avail s) (a_queue s) r, Some n)
  | None => (s, None)
  end.

(* ---------------- (2) the lock machine ---------------- *)
Inductive mode := MShared | MExcl | MUpgr.

Section Machine.
Variable MAX : N.

Definition need_s (m : mode) : N := match m with MShared => 1 | MExcl => MAX | MUpgr => 1 end.
Definition need_u (m : mode) : N := match m with MUpgr => 1 | _ => 0 end.

Record lk := mkLk {
  k_s : asem; k_u : asem;         (* sem, upgradable_sem *)
  k_hs : N; k_hu : N;             (* permits in the hands of operations in progress *)
  k_sh : N; k_ex : N; k_up : N;   (* guards alive: shared, exclusive, upgradable *)
}.
Definition lk_init : lk := mkLk (a_new MAX) (a_new 1) 0 0 0 0 0.

Inductive lstep :=
| LTry (upg : bool) (k : N)                  (* try_acquire(k) on upgradable_sem / sem *)
| LReq (upg : bool) (id : nat) (k : N)       (* first poll of an acquire of k permits *)
| LPoll (upg : bool) (id : nat)              (* later poll *)
| LRel (upg : bool) (k : N)                  (* release of k permits in hand *)
| LCommit (m : mode)                         (* an operation returns a guard of mode m *)
| LOpen (m : mode).                          (* an operation on a guard of mode m starts (unlock, upgrade, downgrade) *)

Definition on_side (st : lk) (upg : bool) (f : asem -> asem * N) : lk :=
  if upg then let '(u', got) := f (k_u st) in mkLk (k_s st) u' (k_hs st) (k_hu st + got) (k_sh st) (k_ex st) (k_up st)
  else let '(s', got) := f (k_s st) in mkLk s' (k_u st) (k_hs st + got) (k_hu st) (k_sh st) (k_ex st) (k_up st).

Definition bump (m : mode) (st : lk) (d : bool) : lk :=      (* d = true: one more guard of mode m, false: one less *)
  let f := fun (x : N) => if d then x + 1 else x - 1 in
  match m with
  | MShared => mkLk (k_s st) (k_u st) (k_hs st) (k_hu st) (f (k_sh st)) (k_ex st) (k_up st)
  | MExcl => mkLk (k_s st) (k_u st) (k_hs st) (k_hu st) (k_sh st) (f (k_ex st)) (k_up st)
  | MUpgr => mkLk (k_s st) (k_u st) (k_hs st) (k_hu st) (k_sh st) (k_ex st) (f (k_up st))
  end.
Definition count (m : mode) (st : lk) : N := match m with MShared => k_sh st | MExcl => k_ex st | MUpgr => k_up st end.
Definition set_hands (st : lk) (hs hu : N) : lk := mkLk (k_s st) (k_u st) hs hu (k_sh st) (k_ex st) (k_up st).

Definition lock_step (st : lk) (a : lstep) : option lk :=
  match a with
  | LTry upg k => Some (on_side st upg (fun s => let '(s', ok) := a_try s k in (s', if ok then k else 0)))
  | LReq upg id k => Some (on_side st upg (fun s => let '(s', ok) := a_request s id k in (s', if ok then k else 0)))
  | LPoll upg id => Some (on_side st upg (fun s => let '(s', r) := a_poll s id in (s', match r with Some n => n | None => 0 end)))
  | LRel upg k =>
    if upg then (if k <=? k_hu st then Some (mkLk (k_s st) (a_release (k_u st) k) (k_hs st) (k_hu st - k) (k_sh st) (k_ex st) (k_up st)) else None)
    else (if k <=? k_hs st then Some (mkLk (a_release (k_s st) k) (k_u st) (k_hs st - k) (k_hu st) (k_sh st) (k_ex st) (k_up st)) else None)
  | LCommit m =>
    if (need_s m <=? k_hs st) && (need_u m <=? k_hu st)
    then Some (bump m (set_hands st (k_hs st - need_s m) (k_hu st - need_u m)) true) else None
  | LOpen m =>
    if 1 <=? count m st
    then Some (bump m (set_hands st (k_hs st + need_s m) (k_hu st + need_u m)) false) else None
  end.

Fixpoint lock_run (st : lk) (l : list lstep) : option lk :=
  match l with [] => Some st | a :: r => match lock_step st a with Some st' => lock_run st' r | None => None end end.

(* the steps of the operations of raw_rwlock.rs (an acquire that is not served at once polls again later: LPoll) *)
Definition op_lock_shared (id : nat) := [LReq false id 1; LPoll false id; LCommit MShared].
Definition op_lock_exclusive (id : nat) := [LReq false id MAX; LPoll false id; LCommit MExcl].
Definition op_lock_upgradable (id id2 : nat) := [LReq true id 1; LPoll true id; LReq false id2 1; LPoll false id2; LCommit MUpgr].
Definition op_unlock_shared := [LOpen MShared; LRel false 1].
Definition op_unlock_exclusive := [LOpen MExcl; LRel false MAX].
Definition op_unlock_upgradable := [LOpen MUpgr; LRel false 1; LRel true 1].
Definition op_downgrade := [LOpen MExcl; LRel false (MAX - 1); LCommit MShared].
Definition op_downgrade_upgradable := [LOpen MUpgr; LRel true 1; LCommit MShared].
Definition op_downgrade_to_upgradable (id : nat) := [LOpen MExcl; LReq true id 1; LPoll true id; LRel false (MAX - 1); LCommit MUpgr].
Definition op_upgrade (id : nat) := [LOpen MUpgr; LReq false id MAX; LRel false 1; LPoll false id; LRel true 1; LCommit MExcl].
Definition op_try_upgrade := [LOpen MUpgr; LTry false (MAX - 1); LRel true 1; LCommit MExcl].
End Machine.

(* ---------------- (3) what lock_api specifies ---------------- *)
(* a guard of mode m may come into existence next to `sh` shared, `ex` exclusive and `up` upgradable guards *)
Definition spec_admits (m : mode) (sh ex up : N) : Prop :=
  match m with
  | MShared => ex = 0
  | MExcl => sh = 0 /\ ex = 0 /\ up = 0
  | MUpgr => ex = 0 /\ up = 0
  end.
