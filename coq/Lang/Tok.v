(* The program language of the C19 layer ("tok"): bounded programs over the tokio-compatible primitives, run by
   threads (async entry points through block_on / the blocking_* methods) and by spawned futures (.await), and
   its expansion into the runtime-call trees of Engine/Exec.v.  The Rust side is harness/src/l_tok.rs.
   No proofs in this file. *)
From Coq Require Import List NArith Bool Arith.
From SV Require Import Clock.VClock Prim.Objects Engine.Exec Prim.Semaphore.
From SV Require Import Lang.Code Lang.ThreadOps Lang.SyncOps Lang.SyncOps2 Lang.AsyncOps Lang.Prog Lang.TokOps Lang.TokNotify Lang.TokWatch.
Import ListNotations.

Inductive top :=
| TSpawnT (b : nat)                        (* thread::spawn; the JoinHandle becomes the body's next thread handle *)
| TJoinT (h : nat)
| TSpawnA (b : nat)                        (* tokio::spawn(async body); the JoinHandle becomes the body's next task handle *)
| TAwaitA (h : nat)                        (* handle.await (block_on(handle) in a thread) *)
| TYield                                   (* task::yield_now().await in a task, thread::yield_now() in a thread *)
| TSend (kind : nat) (ch slot : nat) (v : N)   (* 0: send(v).await  1: blocking_send(v) / UnboundedSender::send(v)  2: try_send(v) *)
| TRecv (kind : nat) (ch : nat)            (* 0: recv().await  1: blocking_recv()  2: try_recv() *)
| TCloseRx (ch : nat)
| TDropRx (ch : nat)
| TDropTx (ch slot : nat)
| TChanInfo (ch : nat)                     (* len(), is_closed(), send-side available permits *)
| TAcq (tag : N) (strict : bool) (s : nat) (n : N)   (* acquire_many(n).await / lock().await / read().await / write().await; strict = the
                                                         wrapper (Mutex, RwLock) treats a closed semaphore as unreachable!();
                                                         not strict = Semaphore::acquire_many with its zero-permit path *)
| TTry (tag : N) (zok : bool) (s : nat) (n : N)      (* try_acquire_many (zok: with its zero-permit path) / try_lock / try_read / try_write *)
| TAdd (s : nat) (n : N)                   (* add_permits *)
| TRel (s : nat)                           (* drop of the most recent permit / guard of s held by the body *)
| TForget (s : nat)                        (* SemaphorePermit::forget of the most recent permit of s *)
| TSemClose (s : nat)
| TSemInfo (s : nat)                       (* available_permits(), is_closed() *)
| TNotified (n : nat)                      (* notify.notified(): the future becomes the body's next Notified *)
| TEnable (f : nat)                        (* Pin::new(&mut fut).enable() *)
| TAwaitN (f : nat)                        (* (&mut fut).await *)
| TDropN (f : nat)                         (* drop(fut) *)
| TNotifyOne (n : nat)
| TNotifyAll (n : nat)
| TOsSend (o : nat) (v : N)                (* oneshot Sender::send (consumes the sender) *)
| TOsRecv (kind : nat) (o : nat)           (* 0: (&mut rx).await  2: try_recv() *)
| TOsClose (o : nat)                       (* Receiver::close *)
| TOsDropTx (o : nat)
| TOsDropRx (o : nat)
| TWSend (w slot : nat) (v : N)            (* watch Sender::send(v) *)
| TWModify (w slot : nat) (v : N) (m : bool)   (* send_if_modified(|x| if m { *x = v; true } else { false }) *)
| TWReplace (w slot : nat) (v : N)         (* send_replace(v): the previous value *)
| TWBorrow (w rslot : nat)                 (* *rx.borrow() *)
| TWBorrowUpd (w rslot : nat)              (* *rx.borrow_and_update() *)
| TWHasChanged (w rslot : nat)
| TWChanged (w rslot : nat)                (* rx.changed().await *)
| TWWaitFor (w rslot : nat) (target : N)   (* rx.wait_for(|x| *x >= target).await *)
| TWDropTx (w slot : nat)
| TWDropRx (w rslot : nat)
| TWSubscribe (w slot rslot : nat)         (* tx.subscribe() into the empty receiver slot rslot *)
| TWClosed (w slot : nat)                  (* tx.closed().await *)
| TWInfo (w slot : nat)                    (* tx.is_closed(), tx.receiver_count() *)
| TDowngrade (s : nat) (k : N)             (* RwLockWriteGuard::downgrade of the most recent guard of s (k = the lock's max_readers) *)
| TMerge (s : nat)                         (* SemaphorePermit::merge of the two most recent permits of s *)
| TSplit (s : nat) (n : N)                 (* SemaphorePermit::split(n) of the most recent permit of s *)
| TOsIsClosed (o : nat)                    (* oneshot Sender::is_closed *)
| TOcSet (x : nat) (v : N)                 (* OnceCell::set(v): 0 Ok, 1 AlreadyInitializedError, 2 InitializingError *)
| TOcGet (x : nat)                         (* OnceCell::get *)
| TOcInit (x : nat) (v : N) (y : nat) (ok : bool).
                                           (* get_or_init(|| async { y yields; v }) (ok) / get_or_try_init(.. Err) (not ok) *)

Definition TG_SPAWNT : N := 50. Definition TG_JOINT : N := 51. Definition TG_SPAWNA : N := 52. Definition TG_AWAITA : N := 53.
Definition TG_YIELD : N := 54. Definition TG_END : N := 55. Definition TG_START : N := 56.
Definition TG_SEND : N := 60. Definition TG_RECV : N := 61. Definition TG_CLOSERX : N := 62. Definition TG_DROPRX : N := 63.
Definition TG_DROPTX : N := 64. Definition TG_CHANINFO : N := 65.
Definition TG_ADD : N := 72. Definition TG_REL : N := 73. Definition TG_FORGET : N := 74. Definition TG_SEMCLOSE : N := 75.
Definition TG_SEMINFO : N := 76.
Definition TG_NOTIFIED : N := 80. Definition TG_ENABLE : N := 81. Definition TG_AWAITN : N := 82. Definition TG_DROPN : N := 83.
Definition TG_NOTIFYONE : N := 84. Definition TG_NOTIFYALL : N := 85.
Definition TG_OSSEND : N := 90. Definition TG_OSRECV : N := 91. Definition TG_OSCLOSE : N := 92. Definition TG_OSDROPTX : N := 93.
Definition TG_OSDROPRX : N := 94.
Definition TG_WSEND : N := 100. Definition TG_WMODIFY : N := 101. Definition TG_WREPLACE : N := 102. Definition TG_WBORROW : N := 103.
Definition TG_WBORROWUPD : N := 104. Definition TG_WHASCHANGED : N := 105. Definition TG_WCHANGED : N := 106. Definition TG_WWAITFOR : N := 107.
Definition TG_WDROPTX : N := 108. Definition TG_WDROPRX : N := 109. Definition TG_WSUBSCRIBE : N := 110. Definition TG_WCLOSED : N := 111.
Definition TG_WINFO : N := 112.
Definition TG_DOWNGRADE : N := 113. Definition TG_MERGE : N := 114. Definition TG_SPLIT : N := 115. Definition TG_OSISCLOSED : N := 116.
Definition TG_OCSET : N := 117. Definition TG_OCGET : N := 118. Definition TG_OCINIT : N := 119.
Definition TG_MISUSE : N := 98.          (* the harness refused the operation (dead endpoint, nothing held, ...) *)

(* permits / guards held by a body: (semaphore object, permits), newest first *)
Fixpoint take_held (s : nat) (hs : list (nat * N)) : option (N * list (nat * N)) :=
  match hs with
  | [] => None
  | (s', n) :: r => if Nat.eqb s s' then Some (n, r)
                    else match take_held s r with Some (n', r') => Some (n', (s', n) :: r') | None => None end
  end.

(* SemaphorePermit::split(n) on the newest entry of s: it keeps k - n permits in place, the new permit is the newest *)
Fixpoint split_held (s : nat) (n : N) (hs : list (nat * N)) : option (list (nat * N)) :=
  match hs with
  | [] => None
  | (s', k) :: r => if Nat.eqb s s' then (if N.leb n k then Some ((s', (k - n)%N) :: r) else None)
                    else match split_held s n r with Some r' => Some ((s', k) :: r') | None => None end
  end.

(* ---- OnceCell (wrappers/tokio/impls/tokio/inner/src/sync/once_cell.rs): x = its Semaphore::new(1), x+1 = the cell
   [value_set; value] (value_set is a real std AtomicBool: no scheduling point) ---- *)
Definition oc_new : list obj := [tok_sem_new 1%N [0%N]; OCell [0%N; 0%N] []].
Definition oc_read (st : store) (x : nat) : option (list N) :=
  match get_obj st (S x) with Some (OCell v _) => Some v | _ => None end.
(* set_value: write, value_set.store(true), semaphore.close(), permit.forget() (whose drop is add_permits(0)) *)
Definition oc_set_value (x : nat) (v : N) (k : code) : code :=
  atomic_u (fun e st => match get_obj st (S x) with
                        | Some (OCell _ c) => Some (e, set_obj st (S x) (OCell [1%N; v] c))
                        | _ => None end)
    (sem_close_code x (sem_release_code x 0 k)).
(* the initialiser of the harness: y yields, then the value *)
Fixpoint oc_yields (y : nat) (ctx : pctx) (jt : nat) (k : code) : code :=
  match y with
  | O => k
  | S y' => match ctx with
            | CtxTask => await_yield CtxTask jt Panic (oc_yields y' ctx jt k)
            | CtxBlockOn => yield_code (oc_yields y' ctx jt k)
            end
  end.

(* what a body still holds when it returns is dropped newest first: each drop is add_permits(n) = release(n) *)
Fixpoint drop_held (hs : list (nat * N)) (k : code) : code :=
  match hs with
  | [] => k
  | (s, n) :: r => sem_release_code s n (Log TG_REL [N.of_nat s; n] (drop_held r k))
  end.

(* Notified futures still owned when a body returns are dropped, newest first *)
Fixpoint drop_notifieds (fs : list (nat * nat * bool)) (k : code) : code :=
  match fs with
  | [] => k
  | (n, id, alive) :: r => if alive then notified_drop n id (drop_notifieds r k) else drop_notifieds r k
  end.

Definition no_dtor (d : nat) (k : code) : code := k.

Definition tthread_fin (tls : nat) (held : list (nat * N)) (fs : list (nat * nat * bool)) (ahs : list nat) : code :=
  Log TG_END [] (drop_held held (drop_notifieds (rev fs) (detach_all ahs (thread_epilogue_d tls no_dtor)))).

Definition tasync_fin (jt : nat) (value : N) (held : list (nat * N)) (fs : list (nat * nat * bool)) (ahs : list nat) : code :=
  Log TG_END [] (drop_held held (drop_notifieds (rev fs) (detach_all ahs
    (atomic_u (fun e st => wrapper_finish e st jt (Some value)) Ret)))).

Definition endpoint_ok (st : store) (ch : nat) (slot : option nat) : bool :=
  match mpsc_get st ch with
  | Some m => match slot with None => mp_rx m | Some i => nth i (mp_tx m) false end
  | None => false
  end.

Definition kill_notified (fs : list (nat * nat * bool)) (f : nat) : list (nat * nat * bool) :=
  list_upd fs f (fun x => (fst x, false)).

Fixpoint tcomp (fuel : nat) (jt : nat) (bodies : list (list top)) (b : nat) (ctx : pctx)
               (fin : list (nat * N) -> list (nat * nat * bool) -> list nat -> code) : code :=
  match fuel with
  | O => Ret
  | S f =>
    let tls := S jt in
    (fix go (ops : list top) (hs : list nat) (js : list nat) (held : list (nat * N)) (fs : list (nat * nat * bool)) (ahs : list (nat * bool)) : code :=
       match ops with
       | [] => fin held fs (live_handles ahs)
       | o :: r =>
         let misuse := Log TG_MISUSE [] (go r hs js held fs ahs) in
         Log TG_START []
         match o with
         | TSpawnT j => Switch (SpawnNow (tcomp f jt bodies j CtxBlockOn (tthread_fin tls))
                                  (fun tid => Log TG_SPAWNT [N.of_nat tid] (go r (hs ++ [tid]) js held fs ahs)))
         | TJoinT h => match nth_error hs h with
                       | Some t => if existsb (Nat.eqb h) js then misuse
                                   else join_code t (Log TG_JOINT [N.of_nat t] (go r hs (h :: js) held fs ahs))
                       | None => misuse end
         | TSpawnA j =>
           Switch (SpawnNow
                     (atomic_b (fun e st => match wrapper_aborted e st jt with Some ab => Some (e, st, ab) | None => None end)
                        (fun ab => if ab then Panic else tcomp f jt bodies j CtxTask (tasync_fin jt (N.of_nat j))))
                     (fun tid => atomic_u (fun e st => joins_register e st jt tid)
                                   (Log TG_SPAWNA [N.of_nat tid] (go r hs js held fs (ahs ++ [(tid, true)])))))
         | TAwaitA h => match nth_error ahs h with
                        | Some (t, true) =>
                          await_join AWAIT_FUEL ctx jt t Panic
                            (fun res => Log TG_AWAITA (match res with Some v => [0%N; v] | None => [1%N] end)
                                          (atomic_u (fun e st => detach_handle e st t) (go r hs js held fs (consume_handle ahs h))))
                        | _ => misuse end
         | TYield => match ctx with
                     | CtxTask => await_yield CtxTask jt Panic (Log TG_YIELD [] (go r hs js held fs ahs))
                     | CtxBlockOn => yield_code (Log TG_YIELD [] (go r hs js held fs ahs))
                     end
         | TSend kind ch slot v =>
           Atomic (fun e st => Some (e, st, [b2n (endpoint_ok st ch (Some slot)); b2n (match chan_bounded st ch with Some true => true | _ => false end)]))
             (fun a => match a with
                       | [1%N; bd] =>
                         let k := fun res => Log TG_SEND [N.of_nat kind; n_of_sd res] (go r hs js held fs ahs) in
                         match kind with
                         | O => if N.eqb bd 1 then mpsc_send ctx jt ch v k else misuse       (* UnboundedSender has no async send *)
                         | S O => mpsc_send CtxBlockOn jt ch v k
                         | _ => if N.eqb bd 1 then mpsc_try_send ch v k else misuse           (* nor try_send *)
                         end
                       | _ => misuse
                       end)
         | TRecv kind ch =>
           atomic_b (fun e st => Some (e, st, endpoint_ok st ch None))
             (fun alive =>
                if alive then
                  let k := fun res => Log TG_RECV (N.of_nat kind :: vals_of_rc res) (go r hs js held fs ahs) in
                  match kind with
                  | O => mpsc_recv ctx jt ch k
                  | S O => mpsc_blocking_recv jt ch k
                  | _ => mpsc_try_recv ch k
                  end
                else misuse)
         | TCloseRx ch =>
           atomic_b (fun e st => Some (e, st, endpoint_ok st ch None))
             (fun alive => if alive then mpsc_close_rx ch (Log TG_CLOSERX [] (go r hs js held fs ahs)) else misuse)
         | TDropRx ch =>
           atomic_b (fun e st => Some (e, st, endpoint_ok st ch None))
             (fun alive => if alive then mpsc_drop_rx ch (Log TG_DROPRX [] (go r hs js held fs ahs)) else misuse)
         | TDropTx ch slot =>
           atomic_b (fun e st => Some (e, st, endpoint_ok st ch (Some slot)))
             (fun alive => if alive then mpsc_drop_tx ch slot (Log TG_DROPTX [] (go r hs js held fs ahs)) else misuse)
         | TChanInfo ch =>
           atomic_b (fun e st => Some (e, st, endpoint_ok st ch None))
             (fun alive =>
                if alive then
                  Atomic (fun e st => match mpsc_info st ch with Some l => Some (e, st, l) | None => None end)
                    (fun a => Log TG_CHANINFO a (go r hs js held fs ahs))
                else misuse)
         | TAcq tag strict s n =>
           let acq := fun k =>
             acquire_ctx ctx jt s k (fun ok =>
               if ok then Log tag [1%N] (go r hs js ((s, n) :: held) fs ahs)
               else if strict then Panic                                   (* unreachable!() *)
               else Log tag [0%N] (go r hs js held fs ahs)) in
           if negb strict && N.eqb n 0 then
             (* Semaphore::acquire_many(0): `if permits == 0 && !is_closed() { return Ok(empty permit) }`, no scheduling
                point; on a closed semaphore `acquire(permits.max(1))` reports the closure *)
             atomic_b (fun e st => match sem_closed_at st s with Some c => Some (e, st, c) | None => None end)
               (fun closed => if closed then acq 1%N else Log tag [1%N] (go r hs js ((s, n) :: held) fs ahs))
           else acq n
         | TTry tag zok s n =>
           if zok && N.eqb n 0 then
             (* Semaphore::try_acquire_many(0): Closed or an empty permit, no scheduling point *)
             atomic_b (fun e st => match sem_closed_at st s with Some c => Some (e, st, c) | None => None end)
               (fun closed => if closed then Log tag [n_of_acq AClosed] (go r hs js held fs ahs)
                              else Log tag [n_of_acq AOk] (go r hs js ((s, n) :: held) fs ahs))
           else
           sem_try_code s n (fun res => Log tag [n_of_acq res]
                               (go r hs js (match res with AOk => (s, n) :: held | _ => held end) fs ahs))
         | TAdd s n => sem_release_code s n (Log TG_ADD [] (go r hs js held fs ahs))
         | TRel s => match take_held s held with
                     | Some (n, held') => sem_release_code s n (Log TG_REL [N.of_nat s; n] (go r hs js held' fs ahs))
                     | None => misuse end
         | TForget s => match take_held s held with
                        | Some (n, held') => sem_release_code s 0 (Log TG_FORGET [N.of_nat s; n] (go r hs js held' fs ahs))
                        | None => misuse end
         | TSemClose s => sem_close_code s (Log TG_SEMCLOSE [] (go r hs js held fs ahs))
         | TSemInfo s =>
           Atomic (fun e st => match sem_info st s with Some l => Some (e, st, l) | None => None end)
             (fun a => Log TG_SEMINFO a (go r hs js held fs ahs))
         | TNotified n =>
           Atomic (fun e st => match notified_new st n with Some (st', id) => Some (e, st', [N.of_nat id]) | None => None end)
             (fun a => match a with
                       | [id] => Log TG_NOTIFIED [id] (go r hs js held (fs ++ [(n, N.to_nat id, true)]) ahs)
                       | _ => Panic end)
         | TEnable fi => match nth_error fs fi with
                         | Some (n, id, true) => notified_enable n id (fun rdy => Log TG_ENABLE [b2n rdy] (go r hs js held fs ahs))
                         | _ => misuse end
         | TAwaitN fi => match nth_error fs fi with
                         | Some (n, id, true) => notified_await ctx jt n id (Log TG_AWAITN [] (go r hs js held fs ahs))
                         | _ => misuse end
         | TDropN fi => match nth_error fs fi with
                        | Some (n, id, true) => notified_drop n id (Log TG_DROPN [] (go r hs js held (kill_notified fs fi) ahs))
                        | _ => misuse end
         | TNotifyOne n => notify_one_code n (Log TG_NOTIFYONE [] (go r hs js held fs ahs))
         | TNotifyAll n => notify_waiters_code n (Log TG_NOTIFYALL [] (go r hs js held fs ahs))
         | TOsSend o v =>
           atomic_b (fun e st => Some (e, st, os_tx_alive st o))
             (fun alive => if alive then os_send_code o v (fun ok => Log TG_OSSEND [b2n ok] (go r hs js held fs ahs)) else misuse)
         | TOsRecv kind o =>
           atomic_b (fun e st => Some (e, st, os_rx_alive st o))
             (fun alive =>
                if alive then
                  let k := fun res => Log TG_OSRECV (N.of_nat kind :: vals_of_rc res) (go r hs js held fs ahs) in
                  match kind with
                  | O => os_recv_await ctx jt o k
                  | _ => os_try_recv_code o k
                  end
                else misuse)
         | TOsClose o =>
           atomic_b (fun e st => Some (e, st, os_rx_alive st o))
             (fun alive => if alive then os_close_code o (Log TG_OSCLOSE [] (go r hs js held fs ahs)) else misuse)
         | TOsDropTx o =>
           atomic_b (fun e st => Some (e, st, os_tx_alive st o))
             (fun alive => if alive then os_drop_tx_code o (Log TG_OSDROPTX [] (go r hs js held fs ahs)) else misuse)
         | TOsDropRx o =>
           atomic_b (fun e st => Some (e, st, os_rx_alive st o))
             (fun alive => if alive then os_drop_rx_code o (Log TG_OSDROPRX [] (go r hs js held fs ahs)) else misuse)
         | TWSend w slot v =>
           atomic_b (fun e st => Some (e, st, wt_tx_alive st w slot))
             (fun alive => if alive then watch_send jt w v (fun ok => Log TG_WSEND [b2n ok] (go r hs js held fs ahs)) else misuse)
         | TWModify w slot v m =>
           atomic_b (fun e st => Some (e, st, wt_tx_alive st w slot))
             (fun alive => if alive then watch_send_modify jt w v m (fun ok _ => Log TG_WMODIFY [b2n ok] (go r hs js held fs ahs)) else misuse)
         | TWReplace w slot v =>
           atomic_b (fun e st => Some (e, st, wt_tx_alive st w slot))
             (fun alive => if alive then watch_send_modify jt w v true (fun _ old => Log TG_WREPLACE [old] (go r hs js held fs ahs)) else misuse)
         | TWBorrow w rslot =>
           atomic_b (fun e st => Some (e, st, wt_rx_alive st w rslot))
             (fun alive => if alive then watch_borrow jt w (fun v => Log TG_WBORROW [v] (go r hs js held fs ahs)) else misuse)
         | TWBorrowUpd w rslot =>
           atomic_b (fun e st => Some (e, st, wt_rx_alive st w rslot))
             (fun alive => if alive then watch_borrow_update jt w rslot (fun v => Log TG_WBORROWUPD [v] (go r hs js held fs ahs)) else misuse)
         | TWHasChanged w rslot =>
           atomic_b (fun e st => Some (e, st, wt_rx_alive st w rslot))
             (fun alive => if alive then watch_has_changed w rslot (fun c => Log TG_WHASCHANGED [c] (go r hs js held fs ahs)) else misuse)
         | TWChanged w rslot =>
           atomic_b (fun e st => Some (e, st, wt_rx_alive st w rslot))
             (fun alive => if alive then watch_changed ctx jt w rslot (fun ok => Log TG_WCHANGED [b2n ok] (go r hs js held fs ahs)) else misuse)
         | TWWaitFor w rslot target =>
           atomic_b (fun e st => Some (e, st, wt_rx_alive st w rslot))
             (fun alive => if alive then
                             watch_wait_for ctx jt w rslot target
                               (fun res => Log TG_WWAITFOR (match res with Some v => [1%N; v] | None => [0%N] end) (go r hs js held fs ahs))
                           else misuse)
         | TWDropTx w slot =>
           atomic_b (fun e st => Some (e, st, wt_tx_alive st w slot))
             (fun alive => if alive then watch_drop_tx w slot (Log TG_WDROPTX [] (go r hs js held fs ahs)) else misuse)
         | TWDropRx w rslot =>
           atomic_b (fun e st => Some (e, st, wt_rx_alive st w rslot))
             (fun alive => if alive then watch_drop_rx w rslot (Log TG_WDROPRX [] (go r hs js held fs ahs)) else misuse)
         | TWSubscribe w slot rslot =>
           atomic_b (fun e st => Some (e, st, wt_tx_alive st w slot && negb (wt_rx_alive st w rslot) && Nat.ltb rslot 3))
             (fun okk => if okk then watch_subscribe w rslot (Log TG_WSUBSCRIBE [] (go r hs js held fs ahs)) else misuse)
         | TWClosed w slot =>
           atomic_b (fun e st => Some (e, st, wt_tx_alive st w slot))
             (fun alive => if alive then watch_closed ctx jt w (Log TG_WCLOSED [] (go r hs js held fs ahs)) else misuse)
         | TWInfo w slot =>
           atomic_b (fun e st => Some (e, st, wt_tx_alive st w slot))
             (fun alive =>
                if alive then
                  Atomic (fun e st => match watch_info st w with Some l => Some (e, st, l) | None => None end)
                    (fun a => Log TG_WINFO a (go r hs js held fs ahs))
                else misuse)
         | TDowngrade s k =>
           (* `let to_release = permits_acquired - 1; forget(self); sem.release(to_release)`: the guard becomes a read guard *)
           match take_held s held with
           | Some (n, held') => if N.eqb n k && N.ltb 1 k
                                then sem_release_code s (k - 1) (Log TG_DOWNGRADE [] (go r hs js ((s, 1%N) :: held') fs ahs))
                                else misuse
           | None => misuse end
         | TMerge s =>
           match take_held s held with
           | Some (n1, h1) => match take_held s h1 with
                              | Some (n2, h2) =>
                                (* `self.permits += other.permits; other.permits = 0`, then `other` is dropped: add_permits(0) *)
                                sem_release_code s 0 (Log TG_MERGE [(n1 + n2)%N] (go r hs js ((s, (n1 + n2)%N) :: h2) fs ahs))
                              | None => misuse end
           | None => misuse end
         | TSplit s n =>
           match take_held s held with
           | Some _ => match split_held s n held with
                       | Some held' => Log TG_SPLIT [1%N] (go r hs js ((s, n) :: held') fs ahs)
                       | None => Log TG_SPLIT [0%N] (go r hs js held fs ahs) end
           | None => misuse end
         | TOcSet x v =>
           Atomic (fun e st => match oc_read st x with Some l => Some (e, st, l) | None => None end)
             (fun a => match a with
                       | [1%N; _] => Log TG_OCSET [1%N] (go r hs js held fs ahs)
                       | _ => sem_try_code x 1 (fun res =>
                                match res with
                                | AOk => oc_set_value x v (Log TG_OCSET [0%N] (go r hs js held fs ahs))
                                | ANoPermits => Log TG_OCSET [2%N] (go r hs js held fs ahs)
                                | AClosed => Log TG_OCSET [1%N] (go r hs js held fs ahs)
                                end)
                       end)
         | TOcGet x =>
           Atomic (fun e st => match oc_read st x with Some l => Some (e, st, l) | None => None end)
             (fun a => Log TG_OCGET (match a with [1%N; v] => [1%N; v] | _ => [0%N] end) (go r hs js held fs ahs))
         | TOcInit x v y ok =>
           Atomic (fun e st => match oc_read st x with Some l => Some (e, st, l) | None => None end)
             (fun a => match a with
                       | [1%N; cur] => Log TG_OCINIT [1%N; cur] (go r hs js held fs ahs)
                       | _ =>
                         acquire_ctx ctx jt x 1 (fun got =>
                           if got then
                             oc_yields y ctx jt
                               (if ok then oc_set_value x v (Log TG_OCINIT [1%N; v] (go r hs js held fs ahs))
                                else (* Err(e): the permit is dropped, the next caller gets its turn *)
                                  sem_release_code x 1 (Log TG_OCINIT [0%N] (go r hs js held fs ahs)))
                           else
                             Atomic (fun e st => match oc_read st x with Some l => Some (e, st, l) | None => None end)
                               (fun b => match b with
                                         | [_; cur] => Log TG_OCINIT [1%N; cur] (go r hs js held fs ahs)
                                         | _ => Panic end))
                       end)
         | TOsIsClosed o =>
           atomic_b (fun e st => Some (e, st, os_tx_alive st o))
             (fun alive =>
                if alive then
                  Atomic (fun e st => match os_get st o with Some x => Some (e, st, [b2n (os_complete (oo_in x))]) | None => None end)
                    (fun a => Log TG_OSISCLOSED a (go r hs js held fs ahs))
                else misuse)
         end
       end) (nth b bodies []) [] [] [] [] []
  end.

Definition tcompile (jt : nat) (bodies : list (list top)) : code :=
  tcomp (S (S (length bodies))) jt bodies 0 CtxBlockOn (tthread_fin (S jt)).

Definition run_tok (fuel : nat) (ms : max_steps) (objs : store) (bodies : list (list top)) (script : list (option nat)) (rseed : N)
  : world * script_state * outcome :=
  run_exec scripted ms fuel (tcompile (length objs) bodies) (objs ++ [OJoins []; OTls []]) (mkScript script rseed).
