(* C20 — the map / set the wrapper collections are compared with:
     wrappers/collections/deterministic_collections/src/lib.rs (HashMap, HashSet: std's tables under a fixed hasher)
     wrappers/dashmap/dashmap_impl/src/lib.rs, set.rs          (the table inside the single lock)
   The hash table itself (hashbrown + SipHash-1-3) is not modelled: the model is an association list kept in key order;
   its contents, sizes and results are what the correspondence check compares (iteration results are compared
   after sorting, the raw iteration order is judged by the cross-instance / cross-process oracle of tools/p_c20.py).
   The functional specification (`N -> option N`) and the refinement proofs are in Proofs/PlMapProofs.v.
   No proofs in this file. *)
From Coq Require Import List NArith Bool Arith.
Import ListNotations.
Open Scope N_scope.

Definition W64 : N := 18446744073709551616.
Definition wadd (a b : N) : N := (a + b) mod W64.

Definition amap := list (N * N).

Fixpoint am_get (m : amap) (k : N) : option N :=
  match m with
  | [] => None
  | (k', v) :: r => if k =? k' then Some v else am_get r k
  end.

Fixpoint am_insert (m : amap) (k v : N) : amap :=
  match m with
  | [] => [(k, v)]
  | (k', v') :: r =>
    if k =? k' then (k, v) :: r
    else if k <? k' then (k, v) :: (k', v') :: r
    else (k', v') :: am_insert r k v
  end.

Definition am_remove (m : amap) (k : N) : amap := filter (fun p => negb (fst p =? k)) m.
Definition am_contains (m : amap) (k : N) : bool := match am_get m k with Some _ => true | None => false end.
Definition am_len (m : amap) : N := N.of_nat (length m).
(* retain(|k, v| (k + v) % md != rm) with md >= 1 *)
Definition am_keep (md rm : N) (p : N * N) : bool := negb ((wadd (fst p) (snd p)) mod md =? rm).
Definition am_retain (m : amap) (md rm : N) : amap := filter (am_keep md rm) m.
Definition am_extend (m : amap) (items : list (N * N)) : amap := fold_left (fun m p => am_insert m (fst p) (snd p)) items m.

Fixpoint pairs_of (l : list N) : list (N * N) :=
  match l with k :: v :: r => (k, v) :: pairs_of r | _ => [] end.
Fixpoint flat_of (m : amap) : list N :=
  match m with [] => [] | (k, v) :: r => k :: v :: flat_of r end.

(* ---- sets: association lists with value 0 (DashSet<K> is DashMap<K, ()>) ---- *)
Definition aset := list N.
Fixpoint as_insert (s : aset) (k : N) : aset :=
  match s with
  | [] => [k]
  | k' :: r => if k =? k' then s else if k <? k' then k :: s else k' :: as_insert r k
  end.
Definition as_mem (s : aset) (k : N) : bool := existsb (N.eqb k) s.
Definition as_remove (s : aset) (k : N) : aset := filter (fun x => negb (x =? k)) s.
Definition as_union (a b : aset) : aset := fold_left as_insert b a.
Definition as_inter (a b : aset) : aset := filter (as_mem b) a.
Definition as_diff (a b : aset) : aset := filter (fun x => negb (as_mem b x)) a.
Definition as_xor (a b : aset) : aset := as_union (as_diff a b) (as_diff b a).

(* ---- sequential histories (the `hist` cases): one map M and two sets A, B ---- *)
Inductive hop :=
| HIns (k v : N) | HRem (k : N) | HGet (k : N) | HCon (k : N) | HLen | HClear | HRetain (md rm : N)
| HEntry (k v : N)            (* *entry(k).or_insert(v) *)
| HAddOr (k d : N)            (* entry(k).and_modify(|v| v += d).or_insert(d) *)
| HExtend (items : list N)
| HRebuild                    (* clone / from_iter / with_capacity refill / shrink / reserve / deserialize / From<std>: contents unchanged *)
| HDrain | HIter | HKeys
| HSIns (k : N) | HSRem (k : N) | HSCon (k : N) | HSLen | HBIns (k : N) | HBRem (k : N)
| HOr | HAnd | HXor | HSub | HSExtend (items : list N) | HSIter
| HUnknown.

Inductive hres := RNone | ROpt (v : option N) | RNum (n : N) | RPairs (m : amap) | RKeys (s : aset) | RBad.

Record hstate := mkH { h_m : amap; h_a : aset; h_b : aset }.
Definition h_init : hstate := mkH [] [] [].

Definition h_step (st : hstate) (o : hop) : hstate * hres :=
  let m := h_m st in let a := h_a st in let b := h_b st in
  match o with
  | HIns k v => (mkH (am_insert m k v) a b, ROpt (am_get m k))
  | HRem k => (mkH (am_remove m k) a b, ROpt (am_get m k))
  | HGet k => (st, ROpt (am_get m k))
  | HCon k => (st, RNum (if am_contains m k then 1 else 0))
  | HLen => (st, RNum (am_len m))
  | HClear => (mkH [] a b, RNone)
  | HRetain md rm => (mkH (am_retain m (N.max md 1) rm) a b, RNone)
  | HEntry k v => match am_get m k with
                  | Some x => (st, RNum x)
                  | None => (mkH (am_insert m k v) a b, RNum v) end
  | HAddOr k d => match am_get m k with
                  | Some x => (mkH (am_insert m k (wadd x d)) a b, RNum (wadd x d))
                  | None => (mkH (am_insert m k d) a b, RNum d) end
  | HExtend items => (mkH (am_extend m (pairs_of items)) a b, RNone)
  | HRebuild => (st, RNone)
  | HDrain => (mkH [] a b, RPairs m)
  | HIter => (st, RPairs m)
  | HKeys => (st, RKeys (map fst m))
  | HSIns k => (mkH m (as_insert a k) b, RNum (if as_mem a k then 0 else 1))
  | HSRem k => (mkH m (as_remove a k) b, RNum (if as_mem a k then 1 else 0))
  | HSCon k => (st, RNum (if as_mem a k then 1 else 0))
  | HSLen => (st, RNum (N.of_nat (length a)))
  | HBIns k => (mkH m a (as_insert b k), RNum (if as_mem b k then 0 else 1))
  | HBRem k => (mkH m a (as_remove b k), RNum (if as_mem b k then 1 else 0))
  | HOr => (mkH m (as_union a b) b, RNone)
  | HAnd => (mkH m (as_inter a b) b, RNone)
  | HXor => (mkH m (as_xor a b) b, RNone)
  | HSub => (mkH m (as_diff a b) b, RNone)
  | HSExtend items => (mkH m (fold_left as_insert items a) b, RNone)
  | HSIter => (st, RKeys a)
  | HUnknown => (st, RBad)
  end.

Fixpoint h_run (st : hstate) (ops : list hop) : hstate * list hres :=
  match ops with
  | [] => (st, [])
  | o :: r => let '(st1, x) := h_step st o in let '(st2, xs) := h_run st1 r in (st2, x :: xs)
  end.

Definition hist_results (ops : list hop) : list hres := snd (h_run h_init ops).
