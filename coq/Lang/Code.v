(* Small combinators over the runtime-call trees of Engine/Exec.v.  No proofs in this file. *)
From Coq Require Import List NArith Bool Arith.
From SV Require Import Clock.VClock Prim.Objects Engine.Exec.
Import ListNotations.

Definition b2n (b : bool) : N := if b then 1%N else 0%N.
Definition ans_bool (a : list N) : bool := match a with (1%N :: _) => true | _ => false end.


(* small combinators over the call trees *)
Definition atomic_u (f : exec -> store -> option (exec * store)) (k : code) : code :=
  Atomic (fun e s => match f e s with Some (e', s') => Some (e', s', []) | None => None end) (fun _ => k).
Definition atomic_b (f : exec -> store -> option (exec * store * bool)) (k : bool -> code) : code :=
  Atomic (fun e s => match f e s with Some (e', s', b) => Some (e', s', [b2n b]) | None => None end)
         (fun a => k (ans_bool a)).
Definition switch_if (b : bool) (k : code) : code := if b then Switch k else k.

