(* C19: the abstract specification level of the watch channel - the protocol of
   wrappers/tokio/impls/tokio/inner/src/sync/watch.rs over a version counter, a value, a CLOSED flag and one phase per
   client for every position between two scheduling points of send / send_if_modified / changed / the drops.
   Under Shuttle the value and the version word change in ONE block (the AtomicState is a real std atomic, the write
   lock is held), so the RwLock does not appear here; what matters is the window between the block that commits a
   value and the notify_waiters that announces it, and the window between a receiver's notified() and its await.
   Definitions only; proofs in Proofs/TokWatchProto.v. *)
From Coq Require Import List Arith Bool.
From SV Require Import Lang.TokSpec.
Import ListNotations.

(* a receiver *)
Inductive rph :=
| RIdle                       (* outside changed() *)
| RReg (notified : bool)      (* changed_impl: the Notified exists, the version has not been checked yet *)
| RWait (notified : bool)     (* the version was equal and the channel open: awaiting the Notified *)
| RGone.                      (* dropped *)

(* a sender *)
Inductive sph :=
| SIdle
| SPending                    (* value and version committed; notify_rx.notify_waiters() not yet run *)
| SClosing                    (* last sender dropped: CLOSED set; notify_rx.notify_waiters() not yet run *)
| SGone.

Record wm := mkWm {
  w_init : nat;
  w_hist : list nat;          (* ghost: the values committed, oldest first *)
  w_val : nat;                (* the RwLock's content *)
  w_ver : nat;                (* version / 2 *)
  w_closed : bool;
  w_rx : list (rph * nat);    (* phase, Receiver.version / 2 *)
  w_tx : list sph;
}.

Inductive wlabel :=
| WCommit (v : nat)           (* sender: the block `*lock = v; state.increment_version()` *)
| WNotify                     (* sender: notify_rx.notify_waiters() (after a commit, or after the last drop) *)
| WDropTx                     (* sender: Drop *)
| WRegister                   (* receiver: let notified = notify_rx.notified() *)
| WCheck                      (* receiver: maybe_changed *)
| WWake                       (* receiver: the awaited Notified completes; the loop goes round *)
| WLook                       (* receiver: borrow_and_update (outside changed()) *)
| WDropRx
| WSubscribe.                 (* a Sender handle re-creates the receiver of a dropped slot: it starts at the current version *)

Definition is_live_tx (s : sph) : bool := match s with SIdle | SPending => true | _ => false end.
Definition is_notifier (s : sph) : bool := match s with SPending | SClosing => true | _ => false end.
Definition live_senders (w : wm) : nat := length (filter is_live_tx (w_tx w)).

Definition notify_rx_all (l : list (rph * nat)) : list (rph * nat) :=
  map (fun r => match fst r with
                | RReg _ => (RReg true, snd r)
                | RWait _ => (RWait true, snd r)
                | p => (p, snd r) end) l.

Definition with_rx (w : wm) (l : list (rph * nat)) : wm := mkWm (w_init w) (w_hist w) (w_val w) (w_ver w) (w_closed w) l (w_tx w).
Definition with_tx (w : wm) (l : list sph) : wm := mkWm (w_init w) (w_hist w) (w_val w) (w_ver w) (w_closed w) (w_rx w) l.

(* client i of the senders / of the receivers takes a step; None = not enabled *)
Definition wstep (w : wm) (i : nat) (l : wlabel) : option wm :=
  match l with
  | WCommit v =>
    match nth_error (w_tx w) i with
    | Some SIdle => Some (mkWm (w_init w) (w_hist w ++ [v]) v (S (w_ver w)) (w_closed w) (w_rx w) (set_nth (w_tx w) i SPending))
    | _ => None end
  | WNotify =>
    match nth_error (w_tx w) i with
    | Some SPending => Some (mkWm (w_init w) (w_hist w) (w_val w) (w_ver w) (w_closed w) (notify_rx_all (w_rx w)) (set_nth (w_tx w) i SIdle))
    | Some SClosing => Some (mkWm (w_init w) (w_hist w) (w_val w) (w_ver w) (w_closed w) (notify_rx_all (w_rx w)) (set_nth (w_tx w) i SGone))
    | _ => None end
  | WDropTx =>
    match nth_error (w_tx w) i with
    | Some SIdle =>
      if Nat.eqb (live_senders w) 1
      then Some (mkWm (w_init w) (w_hist w) (w_val w) (w_ver w) true (w_rx w) (set_nth (w_tx w) i SClosing))
      else Some (with_tx w (set_nth (w_tx w) i SGone))
    | _ => None end
  | WRegister =>
    match nth_error (w_rx w) i with
    | Some (RIdle, s) => Some (with_rx w (set_nth (w_rx w) i (RReg false, s)))
    | _ => None end
  | WCheck =>
    match nth_error (w_rx w) i with
    | Some (RReg n, s) =>
      if negb (Nat.eqb s (w_ver w)) then Some (with_rx w (set_nth (w_rx w) i (RIdle, w_ver w)))      (* Ok(()) *)
      else if w_closed w then Some (with_rx w (set_nth (w_rx w) i (RIdle, s)))                        (* Err *)
      else Some (with_rx w (set_nth (w_rx w) i (RWait n, s)))
    | _ => None end
  | WWake =>
    match nth_error (w_rx w) i with
    | Some (RWait true, s) => Some (with_rx w (set_nth (w_rx w) i (RIdle, s)))
    | _ => None end
  | WLook =>
    match nth_error (w_rx w) i with
    | Some (RIdle, s) => Some (with_rx w (set_nth (w_rx w) i (RIdle, w_ver w)))
    | _ => None end
  | WDropRx =>
    match nth_error (w_rx w) i with
    | Some (RGone, _) => None
    | Some (_, s) => Some (with_rx w (set_nth (w_rx w) i (RGone, s)))
    | None => None end
  | WSubscribe =>
    match nth_error (w_rx w) i with
    | Some (RGone, _) => Some (with_rx w (set_nth (w_rx w) i (RIdle, w_ver w)))
    | _ => None end
  end.

Fixpoint wrun (w : wm) (steps : list (nat * wlabel)) : option wm :=
  match steps with
  | [] => Some w
  | (i, l) :: r => match wstep w i l with Some w' => wrun w' r | None => None end
  end.

Definition wm_init (init ntx nrx : nat) : wm := mkWm init [] init 0 false (repeat (RIdle, 0) nrx) (repeat SIdle ntx).

Definition latest (w : wm) : nat := last (w_hist w) (w_init w).

Definition some_notifier (w : wm) : Prop := exists j, nth_error (w_tx w) j = Some SPending \/ nth_error (w_tx w) j = Some SClosing.

(* what the receiver's answers mean: the borrowed value is the latest one committed; the version counts the commits;
   a receiver's version never runs ahead; and the no-lost-notification clause: a receiver that waits un-notified has seen
   the current version of an open channel, unless a sender is still between its commit (or its closing drop) and its
   notify_waiters - a step that is always enabled *)
Definition wm_inv (w : wm) : Prop :=
  w_val w = latest w /\
  w_ver w = length (w_hist w) /\
  (forall i p s, nth_error (w_rx w) i = Some (p, s) -> s <= w_ver w) /\
  (forall i s, nth_error (w_rx w) i = Some (RWait false, s) -> (s = w_ver w /\ w_closed w = false) \/ some_notifier w) /\
  (w_closed w = true -> live_senders w = 0).
