(* Stand-alone execution of a program under a recorded schedule (the model side of the C14 / C01 correspondence):
   the world is built from scratch (init_world) and the scheduler is the replay scheduler of Sched/Replay.v fed with the
   recorded steps and drawn values.  No proofs in this file. *)
From Coq Require Import List NArith Bool Arith.
From SV Require Import Clock.VClock Prim.Objects Engine.Exec Sched.Replay Lang.Prog.
Import ListNotations.

Definition prog_store (objs : store) : store := objs ++ [OJoins []; OTls []].

Definition run_prog_replay (fuel : nat) (ms : max_steps) (objs : store) (bodies : list (list op))
  (steps : list sstep) (vals : list N) : world * replay_state * outcome :=
  run_exec replay ms fuel (compile (length objs) bodies) (prog_store objs) (mkReplay steps vals false false).
