(* Expansion of the tokio-compatible primitives into runtime-call trees, segment by segment as the Rust
   code executes them:
     wrappers/tokio/impls/tokio/inner/src/sync/mpsc.rs       (Channel, SenderInternal, ReceiverInternal)
     wrappers/tokio/impls/tokio/inner/src/sync/semaphore.rs  (Semaphore, SemaphorePermit)
     wrappers/tokio/impls/tokio/inner/src/sync/mutex.rs      (Mutex, MutexGuard)
     wrappers/tokio/impls/tokio/inner/src/sync/rwlock.rs     (RwLock, read / write guards)
   Everything rests on the strictly fair BatchSemaphore of Prim/Semaphore.v and on the two polling contexts of
   Lang/AsyncOps.v (a thread inside block_on, a task spawned from a future).  The state of a channel that is not
   a semaphore (ChannelState + the harness's endpoint table) is kept in an OCell through mpsc_enc / mpsc_dec.
   No proofs in this file. *)
From Coq Require Import List NArith Bool Arith.
From SV Require Import Params Clock.VClock Prim.Objects Engine.Exec Prim.Semaphore Lang.Code Lang.SyncOps Lang.SyncOps2 Lang.AsyncOps.
Import ListNotations.

(* ---------------- awaiting an Acquire future in a polling context ---------------- *)
(* The programs of this layer never abort a task, so the abort branch of Wrapper::poll is never taken; the
   check itself is still executed (it reads the flag). *)
Definition pend (ctx : pctx) (jt : nat) (retry : code) : code := suspend ctx jt Panic retry.

Definition TOK_POLL_FUEL : nat := 64.

Fixpoint acq_loop (fuel : nat) (ctx : pctx) (jt oid wid : nat) (never_polled : bool) (kont : bool -> code) : code :=
  match fuel with
  | O => Log 99 [] Panic                                     (* model fuel: reported, never silently passed *)
  | S f =>
    atomic_b (fun e st => match on_sem oid st (fun s => poll_needs_switch s wid never_polled) with
                          | Some (_, b) => Some (e, st, b) | None => None end)
      (fun sw => switch_if sw
        (Atomic (fun e st =>
             match me e with
             | None => None
             | Some m =>
               match on_sem oid st (fun s => sem_poll e s wid m) with
               | Some (o, (e', s', r)) =>
                 Some (e', set_obj st oid (with_sem o s'), [match r with PReadyOk => 0 | PReadyErr => 1 | PPending => 2 end]%N)
               | None => None
               end
             end)
           (fun a => match a with
                     | [0%N] => kont true
                     | [1%N] => kont false
                     | _ => pend ctx jt (acq_loop f ctx jt oid wid false kont)
                     end)))
  end.

(* semaphore.acquire(k).await : Acquire::new, then the polls; the completed future's drop does nothing *)
Definition acquire_ctx (ctx : pctx) (jt oid : nat) (k : N) (kont : bool -> code) : code :=
  Atomic (fun e st => match on_sem oid st (fun s => sem_new_waiter e s k) with
                      | Some (o, (s', wid)) => Some (e, set_obj st oid (with_sem o s'), [N.of_nat wid])
                      | None => None end)
    (fun a => match a with [w] => acq_loop TOK_POLL_FUEL ctx jt oid (N.to_nat w) true kont | _ => Panic end).

(* ---------------- mpsc ---------------- *)
(* A channel occupies three consecutive objects: ch = recv_semaphore, ch+1 = send_semaphore, ch+2 = the cell. *)
Record mpsc := mkMpsc {
  mp_bound : option N;            (* Channel.bound *)
  mp_senders : N;                 (* ChannelState.known_senders *)
  mp_rx : bool;                   (* harness: the Receiver has not been dropped *)
  mp_tx : list bool;              (* harness: the three Sender slots (alive?) *)
  mp_msgs : list N;               (* ChannelState.messages *)
}.

Definition mpsc_enc (m : mpsc) : list N :=
  (match mp_bound m with None => 0%N | Some k => N.succ k end) :: mp_senders m :: b2n (mp_rx m)
    :: b2n (nth 0 (mp_tx m) false) :: b2n (nth 1 (mp_tx m) false) :: b2n (nth 2 (mp_tx m) false) :: mp_msgs m.

Definition mpsc_dec (l : list N) : option mpsc :=
  match l with
  | b :: s :: r :: t0 :: t1 :: t2 :: msgs =>
    Some (mkMpsc (if N.eqb b 0 then None else Some (N.pred b)) s (N.eqb r 1) [N.eqb t0 1; N.eqb t1 1; N.eqb t2 1] msgs)
  | _ => None
  end.

Definition USIZE_MAX : N := 18446744073709551615%N.

(* mpsc::channel(k) / unbounded_channel() followed by the harness's clones: `nsend` live Sender slots *)
Definition mpsc_new (bound : option N) (nsend : nat) (creator_clock : vclock) : list obj :=
  [ OSem (sem_new 0 true creator_clock);
    OSem (sem_new (match bound with Some k => k | None => USIZE_MAX end) true creator_clock);
    OCell (mpsc_enc (mkMpsc bound (N.of_nat nsend) true [Nat.ltb 0 nsend; Nat.ltb 1 nsend; Nat.ltb 2 nsend] [])) [] ].

Definition mpsc_get (st : store) (ch : nat) : option mpsc :=
  match get_obj st (S (S ch)) with Some (OCell v _) => mpsc_dec v | _ => None end.
Definition mpsc_put (st : store) (ch : nat) (m : mpsc) : store :=
  match get_obj st (S (S ch)) with Some (OCell _ c) => set_obj st (S (S ch)) (OCell (mpsc_enc m) c) | _ => st end.

Definition mp_set_msgs (m : mpsc) (l : list N) := mkMpsc (mp_bound m) (mp_senders m) (mp_rx m) (mp_tx m) l.
Definition mp_set_senders (m : mpsc) (n : N) := mkMpsc (mp_bound m) n (mp_rx m) (mp_tx m) (mp_msgs m).
Definition mp_kill_rx (m : mpsc) := mkMpsc (mp_bound m) (mp_senders m) false (mp_tx m) (mp_msgs m).
Definition mp_kill_tx (m : mpsc) (slot : nat) := mkMpsc (mp_bound m) (mp_senders m) (mp_rx m) (list_upd (mp_tx m) slot (fun _ => false)) (mp_msgs m).

Definition sem_at (st : store) (i : nat) : option sem :=
  match get_obj st i with Some o => sem_of o | None => None end.

(* Channel::is_closed *)
Definition chan_closed (st : store) (ch : nat) : option bool :=
  match sem_at st (S ch) with Some s => Some (sm_closed s) | None => None end.

(* Channel::send: Some false = Err(SendError) (closed); None = assert!(messages.len() < bound) *)
Definition chan_push (st : store) (ch : nat) (v : N) : option (store * bool) :=
  match chan_closed st ch, mpsc_get st ch with
  | Some true, Some _ => Some (st, false)
  | Some false, Some m =>
    let full := match mp_bound m with Some k => negb (N.ltb (N.of_nat (length (mp_msgs m))) k) | None => false end in
    if full then None else Some (mpsc_put st ch (mp_set_msgs m (mp_msgs m ++ [v])), true)
  | _, _ => None
  end.

(* Channel::recv up to its scheduling point: the message (if any) and whether recv_semaphore.close() follows *)
Definition chan_pop (st : store) (ch : nat) : option (store * option N * bool) :=
  match mpsc_get st ch with
  | Some m =>
    match mp_msgs m with
    | [] => Some (st, None, false)
    | v :: r => Some (mpsc_put st ch (mp_set_msgs m r), Some v, (match r with [] => true | _ => false end) && N.eqb (mp_senders m) 0)
    end
  | None => None
  end.

Definition chan_bounded (st : store) (ch : nat) : option bool :=
  match mpsc_get st ch with Some m => Some (match mp_bound m with Some _ => true | None => false end) | None => None end.

Inductive send_res := SdOk | SdFull | SdClosed.
Definition n_of_sd (r : send_res) : N := match r with SdOk => 0 | SdFull => 1 | SdClosed => 2 end.

(* the tail of send / try_send once capacity is held: chan.send(message)?; recv_semaphore.release(1) *)
Definition send_tail (ch : nat) (v : N) (kont : send_res -> code) : code :=
  atomic_b (fun e st => match chan_push st ch v with Some (st', ok) => Some (e, st', ok) | None => None end)
    (fun ok => if ok then sem_release_code ch 1 (kont SdOk) else kont SdClosed).

(* SenderInternal::send(message).await  (blocking_send and UnboundedSender::send are block_on of it) *)
Definition mpsc_send (ctx : pctx) (jt ch : nat) (v : N) (kont : send_res -> code) : code :=
  atomic_b (fun e st => match chan_bounded st ch with Some b => Some (e, st, b) | None => None end)
    (fun bounded =>
       if bounded then acquire_ctx ctx jt (S ch) 1 (fun ok => if ok then send_tail ch v kont else kont SdClosed)
       else send_tail ch v kont).

(* SenderInternal::try_send *)
Definition mpsc_try_send (ch : nat) (v : N) (kont : send_res -> code) : code :=
  sem_try_code (S ch) 1 (fun r =>
    match r with
    | AClosed => kont SdClosed
    | ANoPermits => kont SdFull
    | AOk => send_tail ch v kont
    end).

Inductive recv_res := RcOk (v : N) | RcNone | RcEmpty.
Definition vals_of_rc (r : recv_res) : list N := match r with RcOk v => [0%N; v] | RcNone => [2%N] | RcEmpty => [1%N] end.

(* Channel::recv inside a receive method: `after v` is what the method does with the message *)
Definition recv_tail (ch : nat) (none_k : code) (after : N -> code) : code :=
  Atomic (fun e st => match chan_pop st ch with
                      | Some (st', Some v, cl) => Some (e, st', [1%N; v; b2n cl])
                      | Some (st', None, _) => Some (e, st', [0%N])
                      | None => None end)
    (fun a => match a with
              | [1%N; v; cl] => if N.eqb cl 1 then sem_close_code ch (after v) else after v
              | _ => none_k
              end).

(* `if bounded { send_semaphore.release(1) }` *)
Definition give_back (ch : nat) (k : code) : code :=
  atomic_b (fun e st => match chan_bounded st ch with Some b => Some (e, st, b) | None => None end)
    (fun bounded => if bounded then sem_release_code (S ch) 1 k else k).

(* `if self.is_closed() && self.is_empty() { return None }` *)
Definition recv_gate (ch : nat) (none_k : code) (k : code) : code :=
  atomic_b (fun e st => match chan_closed st ch, mpsc_get st ch with
                        | Some c, Some m => Some (e, st, c && (match mp_msgs m with [] => true | _ => false end))
                        | _, _ => None end)
    (fun done => if done then none_k else k).

(* ReceiverInternal::recv().await *)
Definition mpsc_recv (ctx : pctx) (jt ch : nat) (kont : recv_res -> code) : code :=
  recv_gate ch (kont RcNone)
    (acquire_ctx ctx jt ch 1 (fun ok =>
       if ok then recv_tail ch (kont RcNone) (fun v => give_back ch (kont (RcOk v))) else kont RcNone)).

(* ReceiverInternal::blocking_recv: acquire_blocking, Channel::recv, and the slot given back as in recv
   (since /repo 7bf2a6b; before, the send permit was never released: fixed finding C19-F1) *)
Definition mpsc_blocking_recv (jt ch : nat) (kont : recv_res -> code) : code :=
  recv_gate ch (kont RcNone)
    (acquire_ctx CtxBlockOn jt ch 1 (fun ok =>
       if ok then recv_tail ch (kont RcNone) (fun v => give_back ch (kont (RcOk v))) else kont RcNone)).

(* ReceiverInternal::try_recv; an acquired permit for an empty buffer is the `expect` panic *)
Definition mpsc_try_recv (ch : nat) (kont : recv_res -> code) : code :=
  sem_try_code ch 1 (fun r =>
    match r with
    | AClosed => kont RcNone
    | ANoPermits => kont RcEmpty
    | AOk => recv_tail ch Panic (fun v => give_back ch (kont (RcOk v)))
    end).

(* Receiver::close *)
Definition mpsc_close_rx (ch : nat) (k : code) : code := sem_close_code (S ch) k.

(* Drop for ReceiverInternal: close(), then the unreceived messages are taken out and dropped *)
Definition mpsc_drop_rx (ch : nat) (k : code) : code :=
  atomic_u (fun e st => match mpsc_get st ch with Some m => Some (e, mpsc_put st ch (mp_kill_rx m)) | None => None end)
    (sem_close_code (S ch)
       (atomic_u (fun e st => match mpsc_get st ch with Some m => Some (e, mpsc_put st ch (mp_set_msgs m [])) | None => None end) k)).

(* Drop for SenderInternal: the count goes down; the last one closes the send side (a scheduling point) and,
   if the buffer is empty, the receive side without a scheduling point *)
Definition mpsc_drop_tx (ch slot : nat) (k : code) : code :=
  Atomic (fun e st => match mpsc_get st ch with
                      | Some m => if N.eqb (mp_senders m) 0 then None          (* assert!(known_senders > 0) *)
                                  else let n := N.pred (mp_senders m) in
                                       Some (e, mpsc_put st ch (mp_kill_tx (mp_set_senders m n) slot), [n])
                      | None => None end)
    (fun a => match a with
              | [0%N] =>
                sem_close_code (S ch)
                  (atomic_u (fun e st =>
                       match mpsc_get st ch with
                       | Some m =>
                         match mp_msgs m with
                         | [] => match on_sem ch st (fun s => sem_close e s) with
                                 | Some (o, (e', s')) => Some (e', set_obj st ch (with_sem o s'))
                                 | None => None end
                         | _ => Some (e, st)
                         end
                       | None => None end) k)
              | _ => k
              end).

(* Receiver::len(), Receiver::is_closed(), and - when the channel is bounded and a Sender is alive - Sender::capacity() *)
Definition mpsc_info (st : store) (ch : nat) : option (list N) :=
  match mpsc_get st ch, sem_at st (S ch) with
  | Some m, Some s =>
    Some ([N.of_nat (length (mp_msgs m)); b2n (sm_closed s)]
            ++ (if (match mp_bound m with Some _ => true | None => false end) && existsb (fun b => b) (mp_tx m) then [sm_avail s] else []))
  | _, _ => None
  end.

(* ---------------- Semaphore / Mutex / RwLock: one strictly fair BatchSemaphore each ---------------- *)
Definition tok_sem_new (n : N) (creator_clock : vclock) : obj := OSem (sem_new n true creator_clock).

Definition sem_info (st : store) (s : nat) : option (list N) :=
  match sem_at st s with Some sm => Some [sm_avail sm; b2n (sm_closed sm)] | None => None end.

(* Semaphore::is_closed on the wrapper's semaphore *)
Definition sem_closed_at (st : store) (s : nat) : option bool :=
  match sem_at st s with Some sm => Some (sm_closed sm) | None => None end.
