(* Concrete engine states, programs and a scripted scheduler used by the non-vacuity examples and the
   counterexample of Props/C17.v.  Definitions only. *)
From Coq Require Import List NArith Bool Arith.
From SV Require Import Clock.VClock Prim.Objects Engine.Exec Prim.Semaphore Lang.Code Lang.SyncOps
  Lang.SyncOps2 Lang.AsyncOps Lang.AsyncSpec.
Import ListNotations.
Local Open Scope nat_scope.

(* ---- an engine state with two live tasks, task 0 running ---- *)
Definition ex_task : task := mkTask Runnable false false false false None [].
Definition ex_exec : exec := mkExec [ex_task; ex_task] (SSome 0) SNone false 0 0 [0; 1] [] false false.

Definition view (e : option exec) (t : nat) : option (tstate * bool) :=
  match e with
  | Some e => match get_task e t with Some tk => Some (t_state tk, t_woken tk) | None => None end
  | None => None
  end.

(* ---- a scripted scheduler: follows the script, then takes the first offered task ---- *)
Definition script_sched : scheduler (list nat) :=
  mkSched (fun st offered _ _ =>
             match st with
             | c :: r => (Some c, r)
             | [] => (match offered with x :: _ => Some x | [] => None end, [])
             end)
          (fun st => (Some 0%N, st)).

Definition JT : nat := 0.
Definition ex_store : store := [OJoins []].

(* (task, tag, values) of the Log records, oldest first *)
Definition logs_of (w : world) : list (nat * N * list N) :=
  rev (flat_map (fun ev => match ev with EvOp t tag vals _ => [(t, tag, vals)] | _ => [] end) (w_trace w)).

Definition run_prog (main : code) (script : list nat) : outcome * list (nat * N * list N) * option join_inner :=
  let '(w, _, o) := run_exec script_sched MSNone 64 main ex_store script in
  (o, logs_of w, joins_get (w_s w) JT 1).

(* future::spawn(child): the scheduling point of spawn, the new task, then the JoinHandle state *)
Definition spawn_async (child : code) (k : nat -> code) : code :=
  Switch (SpawnNow child (fun c => atomic_u (fun e st => joins_register e st JT c) (k c))).

Definition report (r : option N) : code :=
  Log 50 (match r with Some v => [0%N; v] | None => [1%N] end) Ret.

(* an async block that logs 7 and returns 42 *)
Definition child_simple : code := spawned JT CFin (FLog 7 [] (FDone 42)).

(* main: spawn; abort; block_on(handle) *)
Definition prog_abort : code :=
  spawn_async child_simple (fun c => abort_code JT c (await_join 8 CtxBlockOn JT c Panic report)).
(* main: spawn; abort; abort; block_on(handle) *)
Definition prog_abort_twice : code :=
  spawn_async child_simple (fun c => abort_code JT c (abort_code JT c (await_join 8 CtxBlockOn JT c Panic report))).
(* main: spawn; block_on(handle) *)
Definition prog_join : code :=
  spawn_async child_simple (fun c => await_join 8 CtxBlockOn JT c Panic report).
(* main: spawn; drop(handle); yield *)
Definition prog_detach : code :=
  spawn_async child_simple (fun c => atomic_u (fun e st => detach_handle e st c) (Switch (Log 51 [] Ret))).

(* a future that is Pending once without arranging any wake, then returns 42 *)
Definition pending_once (k : fbody) : fbody := FSuspend CFin k.

(* control: async { yield_to_scheduler; log 8; pending_once; log 9; 42 } *)
Definition child_plain : code :=
  spawned JT CFin (FSw (FLog 8 [] (pending_once (FLog 9 [] (FDone 42))))).
(* the same with a nested block_on(yield_now()) before the log:
   async { yield_to_scheduler; block_on(yield_now()); log 8; pending_once; log 9; 42 } *)
Definition child_nested : code :=
  check_code JT (ccomp JT CFin)
    (Switch (await_yield CtxBlockOn JT Panic
       (fcomp JT (FLog 8 [] (pending_once (FLog 9 [] (FDone 42))))))).

Definition prog_plain : code :=
  spawn_async child_plain (fun c => abort_code JT c (await_join 8 CtxBlockOn JT c Panic report)).
Definition prog_nested : code :=
  spawn_async child_nested (fun c => abort_code JT c (await_join 8 CtxBlockOn JT c Panic report)).
