(* The watch channel of the tokio-compatible layer as runtime-call trees:
     wrappers/tokio/impls/tokio/inner/src/sync/watch.rs  (Shared, Sender, Receiver, Ref, state::{AtomicState, Version})
   A watch channel is a composition of primitives that are modelled elsewhere: the value sits in a tokio-compatible
   RwLock (one strictly fair BatchSemaphore with MAX_READERS permits, reached through blocking_read / blocking_write =
   block_on of the async methods), changes are announced through a Notify (notify_rx; notify_tx announces the last
   receiver's drop), and the version word / the two reference counts are *real* std atomics (no scheduling point, no
   clock).  A channel occupies four consecutive objects:
     w = the RwLock's semaphore, w+1 = notify_rx, w+2 = notify_tx, w+3 = the cell (value, state word, counts and the
     harness's endpoint table: two Sender slots, three Receiver slots with their `version` fields).
   No proofs in this file. *)
From Coq Require Import List NArith Bool Arith.
From SV Require Import Clock.VClock Prim.Objects Engine.Exec Prim.Semaphore Lang.Code Lang.SyncOps Lang.AsyncOps Lang.TokOps Lang.TokNotify.
Import ListNotations.

(* usize::MAX >> 3 : RwLock::new's number of permits *)
Definition WATCH_MAX_READERS : N := 2305843009213693951%N.

Record watch := mkWatch {
  wt_value : N;                    (* the RwLock's content *)
  wt_state : N;                    (* AtomicState: version (even part) + CLOSED bit *)
  wt_rxc : N;                      (* ref_count_rx *)
  wt_txc : N;                      (* ref_count_tx *)
  wt_tx : list bool;               (* harness: the two Sender slots (alive?) *)
  wt_rx : list (bool * N);         (* harness: the three Receiver slots (alive?, Receiver.version) *)
}.

Definition rx_enc (r : bool * N) : list N := [b2n (fst r); snd r].
Definition watch_enc (x : watch) : list N :=
  [wt_value x; wt_state x; wt_rxc x; wt_txc x; b2n (nth 0 (wt_tx x) false); b2n (nth 1 (wt_tx x) false)]
    ++ rx_enc (nth 0 (wt_rx x) (false, 0%N)) ++ rx_enc (nth 1 (wt_rx x) (false, 0%N)) ++ rx_enc (nth 2 (wt_rx x) (false, 0%N)).
Definition watch_dec (l : list N) : option watch :=
  match l with
  | [v; s; rc; tc; t0; t1; a0; v0; a1; v1; a2; v2] =>
    Some (mkWatch v s rc tc [N.eqb t0 1; N.eqb t1 1] [(N.eqb a0 1, v0); (N.eqb a1 1, v1); (N.eqb a2 1, v2)])
  | _ => None
  end.

(* watch::channel(init) followed by the harness's clones: ntx live Sender slots, nrx live Receiver slots (all at the
   initial version) *)
Definition watch_new (init : N) (ntx nrx : nat) (creator_clock : vclock) : list obj :=
  [ OSem (sem_new WATCH_MAX_READERS true creator_clock);
    notify_new;
    notify_new;
    OCell (watch_enc (mkWatch init 0 (N.of_nat nrx) (N.of_nat ntx) [Nat.ltb 0 ntx; Nat.ltb 1 ntx]
                        [(Nat.ltb 0 nrx, 0%N); (Nat.ltb 1 nrx, 0%N); (Nat.ltb 2 nrx, 0%N)])) [] ].

Definition wt_cell (w : nat) : nat := S (S (S w)).
Definition wt_nrx (w : nat) : nat := S w.
Definition wt_ntx (w : nat) : nat := S (S w).

Definition wt_get (st : store) (w : nat) : option watch :=
  match get_obj st (wt_cell w) with Some (OCell v _) => watch_dec v | _ => None end.
Definition wt_put (st : store) (w : nat) (x : watch) : store :=
  match get_obj st (wt_cell w) with Some (OCell _ c) => set_obj st (wt_cell w) (OCell (watch_enc x) c) | _ => st end.

Definition wt_tx_alive (st : store) (w slot : nat) : bool :=
  match wt_get st w with Some x => nth slot (wt_tx x) false | None => false end.
Definition wt_rx_alive (st : store) (w slot : nat) : bool :=
  match wt_get st w with Some x => fst (nth slot (wt_rx x) (false, 0%N)) | None => false end.

(* StateSnapshot::version: the word without its CLOSED bit; is_closed: the bit *)
Definition st_version (s : N) : N := (s - s mod 2)%N.
Definition st_closed (s : N) : bool := N.eqb (s mod 2) 1.

Definition wt_set_value (x : watch) (v : N) := mkWatch v (wt_state x) (wt_rxc x) (wt_txc x) (wt_tx x) (wt_rx x).
Definition wt_set_state (x : watch) (s : N) := mkWatch (wt_value x) s (wt_rxc x) (wt_txc x) (wt_tx x) (wt_rx x).
Definition wt_set_rxc (x : watch) (n : N) := mkWatch (wt_value x) (wt_state x) n (wt_txc x) (wt_tx x) (wt_rx x).
Definition wt_set_txc (x : watch) (n : N) := mkWatch (wt_value x) (wt_state x) (wt_rxc x) n (wt_tx x) (wt_rx x).
Definition wt_set_tx (x : watch) (slot : nat) (b : bool) :=
  mkWatch (wt_value x) (wt_state x) (wt_rxc x) (wt_txc x) (list_upd (wt_tx x) slot (fun _ => b)) (wt_rx x).
Definition wt_set_rx (x : watch) (slot : nat) (r : bool * N) :=
  mkWatch (wt_value x) (wt_state x) (wt_rxc x) (wt_txc x) (wt_tx x) (list_upd (wt_rx x) slot (fun _ => r)).
Definition wt_ver (x : watch) (slot : nat) : N := snd (nth slot (wt_rx x) (false, 0%N)).
Definition wt_set_ver (x : watch) (slot : nat) (v : N) : watch := wt_set_rx x slot (fst (nth slot (wt_rx x) (false, 0%N)), v).

(* reading / updating the cell in one block *)
Definition wt_read (w : nat) (f : watch -> list N) (kont : list N -> code) : code :=
  Atomic (fun e st => match wt_get st w with Some x => Some (e, st, f x) | None => None end) kont.
Definition wt_upd (w : nat) (f : watch -> watch * list N) (kont : list N -> code) : code :=
  Atomic (fun e st => match wt_get st w with Some x => let '(x', r) := f x in Some (e, wt_put st w x', r) | None => None end) kont.

(* value.blocking_read() / blocking_write(): block_on(read()) / block_on(write()), whatever the caller is; a closed
   semaphore is unreachable!() *)
Definition wt_lock (jt w : nat) (n : N) (k : code) : code :=
  acquire_ctx CtxBlockOn jt w n (fun ok => if ok then k else Panic).

(* the blocks that change the cell, as named functions (characterised in Proofs/TokWatchBase.v) *)
(* `*lock = v; state.increment_version()`: returns the previous value *)
Definition commit_fun (v : N) (x : watch) : watch * list N :=
  (wt_set_state (wt_set_value x v) (wt_state x + 2)%N, [wt_value x]).
(* Drop for Sender: ref_count_tx.fetch_sub(1); the last one does state.set_closed() (fetch_or CLOSED) *)
Definition drop_tx_fun (slot : nat) (x : watch) : watch * list N :=
  let x1 := wt_set_tx (wt_set_txc x (N.pred (wt_txc x))) slot false in
  if N.eqb (wt_txc x) 1 then (wt_set_state x1 (if st_closed (wt_state x) then wt_state x else wt_state x + 1)%N, [1%N])
  else (x1, [0%N]).
(* Drop for Receiver: ref_count_rx.fetch_sub(1), the previous count is returned *)
Definition drop_rx_fun (slot : nat) (x : watch) : watch * list N :=
  (wt_set_rx (wt_set_rxc x (N.pred (wt_rxc x))) slot (false, 0%N), [wt_rxc x]).
(* Sender::subscribe: the new Receiver starts at the current version *)
Definition subscribe_fun (rslot : nat) (x : watch) : watch * list N :=
  (wt_set_rx (wt_set_rxc x (wt_rxc x + 1)%N) rslot (true, st_version (wt_state x)), []).

(* Sender::send_if_modified(|x| if modified { *x = v; true } else { false }): `old` receives the previous value *)
Definition watch_send_modify (jt w : nat) (v : N) (modified : bool) (kont : bool -> N -> code) : code :=
  wt_lock jt w WATCH_MAX_READERS
    (if modified then
       wt_upd w (commit_fun v)
         (fun a => sem_release_code w WATCH_MAX_READERS
                     (notify_waiters_code (wt_nrx w) (kont true (nth 0 a 0%N))))
     else
       sem_release_code w WATCH_MAX_READERS (kont false 0%N)).

(* Sender::send *)
Definition watch_send (jt w : nat) (v : N) (kont : bool -> code) : code :=
  wt_read w (fun x => [wt_rxc x])
    (fun a => match a with
              | [0%N] => kont false
              | _ => watch_send_modify jt w v true (fun _ _ => kont true)
              end).

(* Receiver::borrow (Sender::borrow is the same) followed by the drop of the Ref *)
Definition watch_borrow (jt w : nat) (kont : N -> code) : code :=
  wt_lock jt w 1
    (wt_read w (fun x => [wt_value x])
       (fun a => sem_release_code w 1 (kont (nth 0 a 0%N)))).

(* Receiver::borrow_and_update followed by the drop of the Ref *)
Definition watch_borrow_update (jt w slot : nat) (kont : N -> code) : code :=
  wt_lock jt w 1
    (wt_upd w (fun x => (wt_set_ver x slot (st_version (wt_state x)), [wt_value x]))
       (fun a => sem_release_code w 1 (kont (nth 0 a 0%N)))).

(* Receiver::has_changed: 0 = Ok(false), 1 = Ok(true), 2 = Err *)
Definition watch_has_changed (w slot : nat) (kont : N -> code) : code :=
  wt_read w (fun x => [if st_closed (wt_state x) then 2%N
                       else if N.eqb (wt_ver x slot) (st_version (wt_state x)) then 0%N else 1%N])
    (fun a => kont (nth 0 a 0%N)).

(* maybe_changed: 0 = Some(Ok) (the version is observed), 1 = Some(Err), 2 = None *)
Definition maybe_changed (x : watch) (slot : nat) : watch * list N :=
  let nv := st_version (wt_state x) in
  if negb (N.eqb (wt_ver x slot) nv) then (wt_set_ver x slot nv, [0%N])
  else if st_closed (wt_state x) then (x, [1%N])
  else (x, [2%N]).

Definition WATCH_FUEL : nat := 32.

(* changed_impl: request a notification, then check the version; the Notified is dropped when the function returns
   or when the await has completed *)
Fixpoint changed_loop (fuel : nat) (ctx : pctx) (jt w slot : nat) (kont : bool -> code) : code :=
  match fuel with
  | O => Log 99 [] Panic
  | S f =>
    Atomic (fun e st => match notified_new st (wt_nrx w) with Some (st', id) => Some (e, st', [N.of_nat id]) | None => None end)
      (fun a => match a with
                | [idn] =>
                  let id := N.to_nat idn in
                  wt_upd w (fun x => maybe_changed x slot)
                    (fun r => match r with
                              | [0%N] => notified_drop (wt_nrx w) id (kont true)
                              | [1%N] => notified_drop (wt_nrx w) id (kont false)
                              | _ => notified_await ctx jt (wt_nrx w) id
                                       (notified_drop (wt_nrx w) id (changed_loop f ctx jt w slot kont))
                              end)
                | _ => Panic
                end)
  end.
Definition watch_changed (ctx : pctx) (jt w slot : nat) (kont : bool -> code) : code := changed_loop WATCH_FUEL ctx jt w slot kont.

(* Receiver::wait_for(|x| *x >= target), then the drop of the returned Ref: Some value / None = Err *)
Fixpoint wait_for_loop (fuel : nat) (ctx : pctx) (jt w slot : nat) (target : N) (closed : bool) (kont : option N -> code) : code :=
  match fuel with
  | O => Log 99 [] Panic
  | S f =>
    wt_lock jt w 1
      (wt_upd w (fun x => let nv := st_version (wt_state x) in
                          (wt_set_ver x slot nv, [b2n (negb (N.eqb (wt_ver x slot) nv)); wt_value x]))
         (fun a => match a with
                   | [hc; v] =>
                     if (negb closed || N.eqb hc 1) && N.leb target v then sem_release_code w 1 (kont (Some v))
                     else sem_release_code w 1
                            (if closed then kont None
                             else changed_loop WATCH_FUEL ctx jt w slot (fun ok => wait_for_loop f ctx jt w slot target (negb ok) kont))
                   | _ => Panic
                   end))
  end.
Definition watch_wait_for (ctx : pctx) (jt w slot : nat) (target : N) (kont : option N -> code) : code :=
  wait_for_loop WATCH_FUEL ctx jt w slot target false kont.

(* Drop for Receiver: the last one wakes the tasks in Sender::closed() *)
Definition watch_drop_rx (w slot : nat) (k : code) : code :=
  wt_upd w (drop_rx_fun slot)
    (fun a => match a with [1%N] => notify_waiters_code (wt_ntx w) k | _ => k end).

(* Drop for Sender: the last one sets CLOSED and wakes the receivers *)
Definition watch_drop_tx (w slot : nat) (k : code) : code :=
  wt_upd w (drop_tx_fun slot)
    (fun a => match a with [1%N] => notify_waiters_code (wt_nrx w) k | _ => k end).

(* Sender::subscribe into the empty Receiver slot rslot *)
Definition watch_subscribe (w rslot : nat) (k : code) : code :=
  wt_upd w (subscribe_fun rslot) (fun _ => k).

(* Sender::closed().await *)
Fixpoint closed_loop (fuel : nat) (ctx : pctx) (jt w : nat) (k : code) : code :=
  match fuel with
  | O => Log 99 [] Panic
  | S f =>
    wt_read w (fun x => [wt_rxc x])
      (fun a => match a with
                | [0%N] => k
                | _ =>
                  Atomic (fun e st => match notified_new st (wt_ntx w) with Some (st', id) => Some (e, st', [N.of_nat id]) | None => None end)
                    (fun b => match b with
                              | [idn] =>
                                let id := N.to_nat idn in
                                wt_read w (fun x => [wt_rxc x])
                                  (fun c => match c with
                                            | [0%N] => notified_drop (wt_ntx w) id k
                                            | _ => notified_await ctx jt (wt_ntx w) id
                                                     (notified_drop (wt_ntx w) id (closed_loop f ctx jt w k))
                                            end)
                              | _ => Panic
                              end)
                end)
  end.
Definition watch_closed (ctx : pctx) (jt w : nat) (k : code) : code := closed_loop WATCH_FUEL ctx jt w k.

(* Sender::is_closed(), receiver_count() *)
Definition watch_info (st : store) (w : nat) : option (list N) :=
  match wt_get st w with Some x => Some [b2n (N.eqb (wt_rxc x) 0); wt_rxc x] | None => None end.
