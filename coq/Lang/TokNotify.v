(* Notify and oneshot of the tokio-compatible layer as runtime-call trees:
     wrappers/tokio/impls/tokio/inner/src/sync/notify.rs   (Notify, Notified, NotifyState, Waiter)
     wrappers/tokio/impls/tokio/inner/src/sync/oneshot.rs  (a wrapper over futures::channel::oneshot that adds
                                                            thread::yield_now() scheduling points)
     futures-channel 0.3 src/oneshot.rs (Inner: complete, data, rx_task; tx_task is never set by these programs)
     rand 0.8 src/distributions/uniform.rs (gen_range(0..n) for usize: widening multiply with rejection)
   The state lives in OCells through the codecs below.  No proofs in this file. *)
From Coq Require Import List NArith Bool Arith.
From SV Require Import Clock.VClock Prim.Objects Engine.Exec Lang.Code Lang.ThreadOps Lang.AsyncOps Lang.TokOps.
Import ListNotations.

(* ---------------- futures oneshot::Inner ---------------- *)
Record osh := mkOsh { os_complete : bool; os_data : option N; os_waker : option nat }.

Definition osh_new : osh := mkOsh false None None.

(* Inner::send followed by the drop of the consumed Sender (drop_tx): returns the task to wake *)
Definition osh_send (o : osh) (v : N) : osh * bool * option nat :=
  if os_complete o then (mkOsh true (os_data o) None, false, os_waker o)
  else (mkOsh true (Some v) None, true, os_waker o).
(* drop of a Sender that did not send *)
Definition osh_drop_tx (o : osh) : osh * option nat := (mkOsh true (os_data o) None, os_waker o).
(* Inner::recv: Some result = Ready *)
Definition osh_poll (o : osh) (me_ : nat) : osh * option (option N) :=
  if os_complete o then (mkOsh true None (os_waker o), Some (os_data o))
  else (mkOsh false (os_data o) (Some me_), None).
(* Inner::try_recv: None = Ok(None) (empty) *)
Definition osh_try (o : osh) : osh * option (option N) :=
  if os_complete o then (mkOsh true None (os_waker o), Some (os_data o)) else (o, None).
Definition osh_close_rx (o : osh) : osh := mkOsh true (os_data o) (os_waker o).
Definition osh_drop_rx (o : osh) : osh := mkOsh true (os_data o) None.

Definition opt_enc (o : option nat) : N := match o with None => 0%N | Some t => N.of_nat (S t) end.
Definition opt_dec (n : N) : option nat := match N.to_nat n with O => None | S t => Some t end.
Definition optN_enc (o : option N) : list N := match o with None => [0%N; 0%N] | Some v => [1%N; v] end.

(* ---------------- stand-alone oneshot channels (object o = one OCell) ---------------- *)
Record oshobj := mkOshObj { oo_in : osh; oo_tx : bool; oo_rx : bool }.
Definition oshobj_enc (x : oshobj) : list N :=
  b2n (os_complete (oo_in x)) :: optN_enc (os_data (oo_in x)) ++ [opt_enc (os_waker (oo_in x)); b2n (oo_tx x); b2n (oo_rx x)].
Definition oshobj_dec (l : list N) : option oshobj :=
  match l with
  | [c; hd; d; w; tx; rx] => Some (mkOshObj (mkOsh (N.eqb c 1) (if N.eqb hd 1 then Some d else None) (opt_dec w)) (N.eqb tx 1) (N.eqb rx 1))
  | _ => None end.
Definition oneshot_new : obj := OCell (oshobj_enc (mkOshObj osh_new true true)) [].

Definition os_get (st : store) (o : nat) : option oshobj :=
  match get_obj st o with Some (OCell v _) => oshobj_dec v | _ => None end.
Definition os_put (st : store) (o : nat) (x : oshobj) : store :=
  match get_obj st o with Some (OCell _ c) => set_obj st o (OCell (oshobj_enc x) c) | _ => st end.
Definition os_tx_alive (st : store) (o : nat) : bool := match os_get st o with Some x => oo_tx x | None => false end.
Definition os_rx_alive (st : store) (o : nat) : bool := match os_get st o with Some x => oo_rx x | None => false end.

Definition wake_opt_t (e : exec) (w : option nat) : option exec :=
  match w with Some t => e_waker_wake e t | None => Some e end.

(* Sender::send: thread::yield_now(), then the send and the drop of the sender *)
Definition os_send_code (o : nat) (v : N) (kont : bool -> code) : code :=
  atomic_u (fun e st => match os_get st o with Some x => Some (e, os_put st o (mkOshObj (oo_in x) false (oo_rx x))) | None => None end)
    (yield_code
       (atomic_b (fun e st => match os_get st o with
                              | Some x => let '(i, ok, w) := osh_send (oo_in x) v in
                                          match wake_opt_t e w with
                                          | Some e' => Some (e', os_put st o (mkOshObj i (oo_tx x) (oo_rx x)), ok)
                                          | None => None end
                              | None => None end) kont)).

Definition os_drop_tx_code (o : nat) (k : code) : code :=
  atomic_u (fun e st => match os_get st o with
                        | Some x => let '(i, w) := osh_drop_tx (oo_in x) in
                                    match wake_opt_t e w with
                                    | Some e' => Some (e', os_put st o (mkOshObj i false (oo_rx x)))
                                    | None => None end
                        | None => None end) k.

(* Receiver::try_recv / close: thread::yield_now() first *)
Definition os_try_recv_code (o : nat) (kont : recv_res -> code) : code :=
  yield_code
    (Atomic (fun e st => match os_get st o with
                         | Some x => let '(i, r) := osh_try (oo_in x) in
                                     Some (e, os_put st o (mkOshObj i (oo_tx x) (oo_rx x)),
                                           match r with None => [1%N] | Some None => [2%N] | Some (Some v) => [0%N; v] end)
                         | None => None end)
       (fun a => match a with [0%N; v] => kont (RcOk v) | [1%N] => kont RcEmpty | _ => kont RcNone end)).

Definition os_close_code (o : nat) (k : code) : code :=
  yield_code
    (atomic_u (fun e st => match os_get st o with
                           | Some x => Some (e, os_put st o (mkOshObj (osh_close_rx (oo_in x)) (oo_tx x) (oo_rx x)))
                           | None => None end) k).

Definition os_drop_rx_code (o : nat) (k : code) : code :=
  atomic_u (fun e st => match os_get st o with
                        | Some x => Some (e, os_put st o (mkOshObj (osh_drop_rx (oo_in x)) (oo_tx x) false))
                        | None => None end) k.

Definition OS_FUEL : nat := 64.

(* (&mut rx).await: Receiver::poll = the inner poll, and a thread::yield_now() when it is Ready *)
Fixpoint os_recv_loop (fuel : nat) (ctx : pctx) (jt o : nat) (kont : recv_res -> code) : code :=
  match fuel with
  | O => Log 99 [] Panic
  | S f =>
    Atomic (fun e st => match me e, os_get st o with
                        | Some m, Some x => let '(i, r) := osh_poll (oo_in x) m in
                                            Some (e, os_put st o (mkOshObj i (oo_tx x) (oo_rx x)),
                                                  match r with None => [1%N] | Some None => [2%N] | Some (Some v) => [0%N; v] end)
                        | _, _ => None end)
      (fun a => match a with
                | [0%N; v] => yield_code (kont (RcOk v))
                | [1%N] => pend ctx jt (os_recv_loop f ctx jt o kont)
                | _ => yield_code (kont RcNone)
                end)
  end.
Definition os_recv_await (ctx : pctx) (jt o : nat) (kont : recv_res -> code) : code := os_recv_loop OS_FUEL ctx jt o kont.

(* ---------------- Notify ---------------- *)
Definition FL_INIT : N := 0. Definition FL_ENABLED : N := 1. Definition FL_NOTIFIED : N := 2.

(* one Notified ever created (its id is its position): the shared flag and the oneshot between Waiter.tx and Notified.rx *)
Record nwait := mkNW { nw_flag : N; nw_os : osh }.
Record notify := mkNotify { nt_pending : bool; nt_waiters : list nat; nt_tab : list nwait }.   (* next_id = length nt_tab *)

Definition nwait_enc (w : nwait) : list N :=
  [nw_flag w; b2n (os_complete (nw_os w)); b2n (match os_data (nw_os w) with Some _ => true | None => false end); opt_enc (os_waker (nw_os w))].
Definition notify_enc (x : notify) : list N :=
  b2n (nt_pending x) :: N.of_nat (length (nt_waiters x)) :: map N.of_nat (nt_waiters x) ++ flat_map nwait_enc (nt_tab x).

Fixpoint tab_dec (l : list N) : option (list nwait) :=
  match l with
  | [] => Some []
  | f :: c :: d :: w :: r =>
    match tab_dec r with
    | Some t => Some (mkNW f (mkOsh (N.eqb c 1) (if N.eqb d 1 then Some 0%N else None) (opt_dec w)) :: t)
    | None => None end
  | _ => None
  end.
Definition notify_dec (l : list N) : option notify :=
  match l with
  | p :: n :: r =>
    let k := N.to_nat n in
    if Nat.leb k (length r) then
      match tab_dec (skipn k r) with
      | Some t => Some (mkNotify (N.eqb p 1) (map N.to_nat (firstn k r)) t)
      | None => None end
    else None
  | _ => None
  end.

Definition notify_new : obj := OCell (notify_enc (mkNotify false [] [])) [].

Definition nt_get (st : store) (n : nat) : option notify :=
  match get_obj st n with Some (OCell v _) => notify_dec v | _ => None end.
Definition nt_put (st : store) (n : nat) (x : notify) : store :=
  match get_obj st n with Some (OCell _ c) => set_obj st n (OCell (notify_enc x) c) | _ => st end.

Definition nt_flag (x : notify) (id : nat) : option N := match nth_error (nt_tab x) id with Some w => Some (nw_flag w) | None => None end.
Definition nt_upd (x : notify) (id : nat) (f : nwait -> nwait) : notify :=
  mkNotify (nt_pending x) (nt_waiters x) (list_upd (nt_tab x) id f).
Definition nt_set_flag (x : notify) (id : nat) (fl : N) : notify := nt_upd x id (fun w => mkNW fl (nw_os w)).
Definition nt_set_os (x : notify) (id : nat) (o : osh) : notify := nt_upd x id (fun w => mkNW (nw_flag w) o).
Definition nt_set_pending (x : notify) (b : bool) : notify := mkNotify b (nt_waiters x) (nt_tab x).
Definition nt_set_waiters (x : notify) (l : list nat) : notify := mkNotify (nt_pending x) l (nt_tab x).
Fixpoint remove_id (id : nat) (l : list nat) : option (list nat) :=
  match l with
  | [] => None                                         (* panic!("could not find waiter with id ...") *)
  | y :: r => if Nat.eqb y id then Some r else match remove_id id r with Some r' => Some (y :: r') | None => None end
  end.

(* Notify::notified *)
Definition notified_new (st : store) (n : nat) : option (store * nat) :=
  match nt_get st n with
  | Some x => let id := length (nt_tab x) in
              Some (nt_put st n (mkNotify (nt_pending x) (nt_waiters x ++ [id]) (nt_tab x ++ [mkNW FL_INIT osh_new])), id)
  | None => None
  end.

(* waiter.tx.send(()) of the oneshot wrapper: thread::yield_now(), then the inner send and the drop of the sender;
   `must` = the result is unwrapped *)
Definition waiter_send (n id : nat) (must : bool) (k : code) : code :=
  yield_code
    (atomic_u (fun e st => match nt_get st n with
                           | Some x =>
                             match nth_error (nt_tab x) id with
                             | Some w => let '(i, ok, wk) := osh_send (nw_os w) 0 in
                                         if must && negb ok then None
                                         else match wake_opt_t e wk with
                                              | Some e' => Some (e', nt_put st n (nt_set_os x id i))
                                              | None => None end
                             | None => None end
                           | None => None end) k).

(* Notified::poll_inner (also `enable`) *)
Definition poll_inner_code (n id : nat) (kont : bool -> code) : code :=
  Atomic (fun e st =>
      match nt_get st n with
      | Some x =>
        match nt_flag x id with
        | Some fl =>
          if N.eqb fl FL_NOTIFIED then Some (e, st, [1%N])
          else
            let x1 := if N.eqb fl FL_INIT then nt_set_flag x id FL_ENABLED else x in
            if nt_pending x1 then
              match remove_id id (nt_waiters x1) with
              | Some ws => Some (e, nt_put st n (nt_set_flag (nt_set_waiters (nt_set_pending x1 false) ws) id FL_NOTIFIED), [2%N])
              | None => None end
            else Some (e, nt_put st n x1, [0%N])
        | None => None end
      | None => None end)
    (fun a => match a with
              | [1%N] => kont true
              | [2%N] => waiter_send n id true (kont true)
              | _ => kont false
              end).

Definition notified_enable (n id : nat) (kont : bool -> code) : code := poll_inner_code n id kont.

Definition NT_FUEL : nat := 64.

(* Notified::poll in a polling context *)
Fixpoint notified_loop (fuel : nat) (ctx : pctx) (jt n id : nat) (k : code) : code :=
  match fuel with
  | O => Log 99 [] Panic
  | S f =>
    poll_inner_code n id (fun rdy =>
      if rdy then k else
      atomic_b (fun e st => match me e, nt_get st n with
                            | Some m, Some x =>
                              match nth_error (nt_tab x) id with
                              | Some w => let '(i, r) := osh_poll (nw_os w) m in
                                          Some (e, nt_put st n (nt_set_os x id i), match r with Some _ => true | None => false end)
                              | None => None end
                            | _, _ => None end)
        (fun ready => if ready then yield_code k else pend ctx jt (notified_loop f ctx jt n id k)))
  end.
Definition notified_await (ctx : pctx) (jt n id : nat) (k : code) : code := notified_loop NT_FUEL ctx jt n id k.

(* Drop for Notified: the pinned drop (remove the waiter unless notified; the removed Waiter's Sender is dropped), then
   the drop of the rx field *)
Definition notified_drop (n id : nat) (k : code) : code :=
  atomic_u (fun e st =>
      match nt_get st n with
      | Some x =>
        match nth_error (nt_tab x) id with
        | Some w =>
          if N.eqb (nw_flag w) FL_NOTIFIED then Some (e, nt_put st n (nt_set_os x id (osh_drop_rx (nw_os w))))
          else
            match remove_id id (nt_waiters x) with
            | Some ws =>
              let '(i, wk) := osh_drop_tx (nw_os w) in
              match wake_opt_t e wk with
              | Some e' => Some (e', nt_put st n (nt_set_os (nt_set_waiters x ws) id (osh_drop_rx i)))
              | None => None end
            | None => None end
        | None => None end
      | None => None end) k.

(* rand 0.8 UniformInt::<usize>::sample_single_inclusive(0, range-1): one round *)
Definition TWO64 : N := 18446744073709551616%N.
Definition pick_zone (range : N) : N := (range * N.pow 2 (64 - N.size range) - 1)%N.
Definition pick_round (v range : N) : option N :=
  let p := (v * range)%N in
  if N.leb (p mod TWO64) (pick_zone range) then Some (p / TWO64)%N else None.

Definition PICK_FUEL : nat := 64.
Fixpoint pick_loop (fuel : nat) (range : N) (kont : nat -> code) : code :=
  match fuel with
  | O => Log 99 [] Panic
  | S f => Rand (fun v => match pick_round v range with Some i => kont (N.to_nat i) | None => pick_loop f range kont end)
  end.

Definition enabled_ids (x : notify) : list nat :=
  filter (fun id => match nt_flag x id with Some fl => N.eqb fl FL_ENABLED | None => false end) (nt_waiters x).
Definition flags_ok (x : notify) : bool :=
  forallb (fun id => match nt_flag x id with Some fl => N.eqb fl FL_INIT || N.eqb fl FL_ENABLED | None => false end) (nt_waiters x).

(* Notify::notify_one *)
Definition notify_one_code (n : nat) (k : code) : code :=
  Atomic (fun e st =>
      match nt_get st n with
      | Some x =>
        if negb (flags_ok x) then None                                   (* assert!(flag == INIT || flag == ENABLED) *)
        else match enabled_ids x with
             | [] => Some (e, nt_put st n (nt_set_pending x true), [0%N])
             | l => Some (e, st, [N.of_nat (length l)])
             end
      | None => None end)
    (fun a => match a with
              | [0%N] => k
              | [len] =>
                pick_loop PICK_FUEL len (fun idx =>
                  Atomic (fun e st =>
                      match nt_get st n with
                      | Some x =>
                        match nth_error (enabled_ids x) idx with
                        | Some id =>
                          match remove_id id (nt_waiters x) with
                          | Some ws => Some (e, nt_put st n (nt_set_flag (nt_set_waiters (nt_set_pending x false) ws) id FL_NOTIFIED), [N.of_nat id])
                          | None => None end
                        | None => None end
                      | None => None end)
                    (fun b => match b with [id] => waiter_send n (N.to_nat id) false k | _ => Panic end))
              | _ => Panic
              end).

(* Notify::notify_waiters *)
Fixpoint send_all (n : nat) (ids : list nat) (k : code) : code :=
  match ids with
  | [] => k
  | id :: r => waiter_send n id false (send_all n r k)
  end.

Definition notify_waiters_code (n : nat) (k : code) : code :=
  Atomic (fun e st =>
      match nt_get st n with
      | Some x =>
        if negb (flags_ok x) then None
        else
          let ws := nt_waiters x in
          (* a stored permit stays stored (since /repo 074a1e3; before, pending was cleared: fixed finding C19-F5) *)
          let x1 := fold_left (fun acc id => nt_set_flag acc id FL_NOTIFIED) ws (nt_set_waiters x []) in
          Some (e, nt_put st n x1, map N.of_nat ws)
      | None => None end)
    (fun a => send_all n (map N.to_nat a) k).
