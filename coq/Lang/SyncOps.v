(* Expansion of semaphore, Mutex and RwLock operations into runtime-call trees, segment by segment
   as the Rust code executes them:
     shuttle-engine/src/future/batch_semaphore.rs, shuttle-engine/src/future/mod.rs (block_on),
     shuttle-std/src/sync/mutex.rs, shuttle-std/src/sync/rwlock.rs.
   No proofs in this file. *)
From Coq Require Import List NArith Bool Arith.
From SV Require Import Params Clock.VClock Prim.Objects Engine.Exec Prim.Semaphore Lang.Code.
Import ListNotations.

(* the semaphore embedded in an object *)
Definition sem_of (o : obj) : option sem :=
  match o with OSem s => Some s | OMutex _ s _ => Some s | ORwLock _ _ s _ => Some s | _ => None end.
Definition with_sem (o : obj) (s : sem) : obj :=
  match o with
  | OSem _ => OSem s | OMutex h _ p => OMutex h s p | ORwLock w r _ p => ORwLock w r s p | o => o
  end.

(* run a semaphore function on the semaphore of object `oid` *)
Definition on_sem {A} (oid : nat) (st : store) (f : sem -> option A) : option (obj * A) :=
  match get_obj st oid with
  | Some o => match sem_of o with
              | Some s => match f s with Some a => Some (o, a) | None => None end
              | None => None end
  | None => None
  end.

Definition n_of_acq (r : acq_res) : N := match r with AOk => 0%N | ANoPermits => 1%N | AClosed => 2%N end.

(* ---- block_on(semaphore.acquire(k)) : acquire_blocking ----
   `kont ok` continues with ok = false when the semaphore was closed. *)
Fixpoint poll_loop (fuel : nat) (oid wid : nat) (never_polled : bool) (kont : bool -> code) : code :=
  match fuel with
  | O => Log 99 [] Panic                                     (* model fuel: reported, never silently passed *)
  | S f =>
    atomic_b (fun e st => match on_sem oid st (fun s => poll_needs_switch s wid never_polled) with
                          | Some (_, b) => Some (e, st, b) | None => None end)
      (fun sw => switch_if sw
        (Atomic (fun e st =>
             match me e with
             | None => None
             | Some m =>
               match on_sem oid st (fun s => sem_poll e s wid m) with
               | Some (o, (e', s', r)) =>
                 Some (e', set_obj st oid (with_sem o s'), [match r with PReadyOk => 0 | PReadyErr => 1 | PPending => 2 end]%N)
               | None => None
               end
             end)
           (fun a => match a with
                     | [0%N] => kont true
                     | [1%N] => kont false
                     | _ => atomic_u (fun e st => match me e with
                                                  | Some m => match e_sleep_unless_woken e m with Some e' => Some (e', st) | None => None end
                                                  | None => None end)
                              (Switch (poll_loop f oid wid false kont))
                     end)))
  end.

Definition POLL_FUEL : nat := 64.

Definition acquire_blocking (oid : nat) (k : N) (kont : bool -> code) : code :=
  Atomic (fun e st => match on_sem oid st (fun s => sem_new_waiter e s k) with
                      | Some (o, (s', wid)) => Some (e, set_obj st oid (with_sem o s'), [N.of_nat wid])
                      | None => None end)
    (fun a => match a with [w] => poll_loop POLL_FUEL oid (N.to_nat w) true kont | _ => Panic end).

(* ---- BatchSemaphore public operations ---- *)
Definition sem_try_code (oid : nat) (k : N) (kont : acq_res -> code) : code :=
  Switch (Atomic (fun e st => match on_sem oid st (fun s => sem_try_acquire e s k) with
                              | Some (o, (e', s', r)) => Some (e', set_obj st oid (with_sem o s'), [n_of_acq r])
                              | None => None end)
            (fun a => match a with [0%N] => kont AOk | [1%N] => kont ANoPermits | _ => kont AClosed end)).

Definition sem_release_code (oid : nat) (k : N) (kont : code) : code :=
  Switch (atomic_u (fun e st => match on_sem oid st (fun s => sem_release e s k) with
                                | Some (o, (e', s')) => Some (e', set_obj st oid (with_sem o s'))
                                | None => None end) kont).

Definition sem_close_code (oid : nat) (kont : code) : code :=
  Switch (atomic_u (fun e st => match on_sem oid st (fun s => sem_close e s) with
                                | Some (o, (e', s')) => Some (e', set_obj st oid (with_sem o s'))
                                | None => None end) kont).

(* ---- Acquire futures handled by hand: created, polled once at a time (possibly by different tasks), dropped ----
   The harness keeps them in a slot table (an OCell object `q`): per slot three numbers
   [waiter index + 1 (0 = empty); never_polled; completed] and, for addressing, the semaphore object is named by the
   operation.  These are `BatchSemaphore::acquire(n)` (Acquire::new), one call of `Acquire::poll` with the polling
   task's waker, and `Drop for Acquire` (remove from the queue, or give back permits granted but never collected). *)
Definition slot_get (st : store) (q slot : nat) : option (N * N * N) :=
  match get_obj st q with
  | Some (OCell vals _) =>
    match nth_error vals (3 * slot), nth_error vals (3 * slot + 1), nth_error vals (3 * slot + 2) with
    | Some a, Some b, Some c => Some (a, b, c)
    | _, _, _ => None end
  | _ => None end.
Definition slot_set (st : store) (q slot : nat) (a b c : N) : store :=
  match get_obj st q with
  | Some (OCell vals clk) =>
    set_obj st q (OCell (list_upd (list_upd (list_upd vals (3 * slot) (fun _ => a)) (3 * slot + 1) (fun _ => b)) (3 * slot + 2) (fun _ => c)) clk)
  | _ => st end.

Definition acq_new_code (q slot oid : nat) (k : N) (kont : code) : code :=
  atomic_u (fun e st =>
      match slot_get st q slot with
      | Some (0%N, _, _) =>
        match on_sem oid st (fun s => sem_new_waiter e s k) with
        | Some (o, (s', wid)) => Some (e, slot_set (set_obj st oid (with_sem o s')) q slot (N.of_nat (S wid)) 1 0)
        | None => None end
      | _ => None end) kont.

(* one call of Acquire::poll by the running task; answers 0 = Ready(Ok), 1 = Ready(Err(closed)), 2 = Pending *)
Definition acq_poll_code (q slot oid : nat) (kont : N -> code) : code :=
  Atomic (fun e st =>
      match slot_get st q slot with
      | Some (N.pos p, never, 0%N) =>
        match on_sem oid st (fun s => poll_needs_switch s (pred (Pos.to_nat p)) (N.eqb never 1)) with
        | Some (_, b) => Some (e, st, [b2n b; N.of_nat (pred (Pos.to_nat p))])
        | None => None end
      | _ => None end)                                 (* empty slot, or `assert!(!self.completed)` *)
    (fun a => match a with
              | [sw; w] =>
                switch_if (N.eqb sw 1)
                  (Atomic (fun e st =>
                       match me e with
                       | None => None
                       | Some m =>
                         match on_sem oid st (fun s => sem_poll e s (N.to_nat w) m) with
                         | Some (o, (e', s', r)) =>
                           let done_ := match r with PPending => 0%N | _ => 1%N end in
                           Some (e', slot_set (set_obj st oid (with_sem o s')) q slot (N.of_nat (S (N.to_nat w))) 0 done_,
                                 [match r with PReadyOk => 0 | PReadyErr => 1 | PPending => 2 end]%N)
                         | None => None
                         end
                       end)
                     (fun r => match r with [x] => kont x | _ => Panic end))
              | _ => Panic end).

(* Drop for Acquire *)
Definition acq_drop_code (q slot oid : nat) (kont : code) : code :=
  Atomic (fun e st =>
      match slot_get st q slot with
      | Some (N.pos p, _, completed) =>
        match on_sem oid st (fun s => sem_drop_acquire e s (pred (Pos.to_nat p)) (N.eqb completed 1)) with
        | Some (o, (e', s', r)) =>
          Some (e', slot_set (set_obj st oid (with_sem o s')) q slot 0 1 0,
                [match r with DMustRelease n => N.succ n | _ => 0%N end])
        | None => None end
      | _ => None end)
    (fun a => match a with
              | [0%N] => kont
              | [n] => sem_release_code oid (N.pred n) kont
              | _ => Panic end).

(* ---- Mutex ---- *)
Inductive lock_res := LkOk | LkPoisoned | LkWouldBlock.
Definition n_of_lock (r : lock_res) : N := match r with LkOk => 0%N | LkPoisoned => 1%N | LkWouldBlock => 2%N end.

(* take the holder slot and the inner std lock; None = assert!(holder.is_none()) *)
Definition mutex_set_holder (e : exec) (st : store) (oid : nat) : option (exec * store * bool) :=
  match me e, get_obj st oid with
  | Some m, Some (OMutex None s p) => Some (e, set_obj st oid (OMutex (Some m) s p), p)
  | _, _ => None
  end.

Definition mutex_lock_code (oid : nat) (kont : lock_res -> code) : code :=
  let finish := atomic_b (fun e st => mutex_set_holder e st oid) (fun p => kont (if p then LkPoisoned else LkOk)) in
  atomic_b (fun e st =>
      match me e, get_obj st oid with
      | Some m, Some (OMutex h s p) =>
        if sm_closed s then Some (e, st, true)
        else match h with
             | Some h' => if Nat.eqb h' m then None else Some (e, st, false)      (* "deadlock! ... already holds" *)
             | None => Some (e, st, false)
             end
      | _, _ => None
      end)
    (fun closed => if closed then Switch finish
                   else acquire_blocking oid 1 (fun ok => if ok then finish else Panic (* .unwrap() *))).

Definition mutex_try_lock_code (oid : nat) (kont : lock_res -> code) : code :=
  sem_try_code oid 1 (fun r =>
    match r with
    | AOk => atomic_b (fun e st =>
               match me e, get_obj st oid with
               | Some m, Some (OMutex _ s p) => Some (e, set_obj st oid (OMutex (Some m) s p), p)
               | _, _ => None end)
             (fun p => kont (if p then LkPoisoned else LkOk))
    | _ => kont LkWouldBlock
    end).

(* Drop for MutexGuard: release(1) (with its switch), then holder = None; a guard dropped while the
   thread panics poisons the inner std mutex *)
Definition mutex_unlock_code (oid : nat) (kont : code) : code :=
  Switch (atomic_u (fun e st =>
      match on_sem oid st (fun s => sem_release e s 1) with
      | Some (OMutex _ _ p, (e', s')) => Some (e', set_obj st oid (OMutex None s' (p || panicking e)))
      | _ => None end) kont).

(* ---- RwLock ---- *)
Definition rw_permits (write : bool) : N := if write then MAX_READS else 1%N.

(* the holder update after the permits were obtained (blocking path): None = one of the panics *)
Definition rw_take (e : exec) (st : store) (oid : nat) (write : bool) : option (exec * store * bool) :=
  match me e, get_obj st oid with
  | Some m, Some (ORwLock w rs s p) =>
    match write, w, rs with
    | true, None, [] => Some (e, set_obj st oid (ORwLock (Some m) [] s p), p)
    | false, None, _ => if existsb (Nat.eqb m) rs then None        (* assert!(readers.insert(me)) *)
                        else Some (e, set_obj st oid (ORwLock None (rs ++ [m]) s p), p)
    | _, _, _ => None                                              (* "resumed a waiting thread while the lock was in state" *)
    end
  | _, _ => None
  end.

Definition rw_lock_code (oid : nat) (write : bool) (kont : lock_res -> code) : code :=
  let finish := atomic_b (fun e st => rw_take e st oid write) (fun p => kont (if p then LkPoisoned else LkOk)) in
  atomic_b (fun e st =>
      match me e, get_obj st oid with
      | Some m, Some (ORwLock w rs s p) =>
        if sm_closed s then Some (e, st, true)
        else if (match w with Some w' => Nat.eqb w' m | None => false end) || existsb (Nat.eqb m) rs then None
        else Some (e, st, false)
      | _, _ => None
      end)
    (fun closed => if closed then Switch finish
                   else acquire_blocking oid (rw_permits write) (fun ok => if ok then finish else Panic)).

(* try_lock: on success of the semaphore the holder is updated; a re-entrant try_read finds itself
   among the readers, gives the permit back (release, with its scheduling point) and reports failure *)
Definition rw_try_code (oid : nat) (write : bool) (kont : lock_res -> code) : code :=
  sem_try_code oid (rw_permits write) (fun r =>
    match r with
    | AOk => Atomic (fun e st =>
               match me e, get_obj st oid with
               | Some m, Some (ORwLock w rs s p) =>
                 match write, w, rs with
                 | true, None, [] => Some (e, set_obj st oid (ORwLock (Some m) [] s p), [n_of_lock (if p then LkPoisoned else LkOk); 0%N])
                 | false, None, _ =>
                   if existsb (Nat.eqb m) rs then Some (e, st, [n_of_lock LkWouldBlock; 1%N])
                   else Some (e, set_obj st oid (ORwLock None (rs ++ [m]) s p), [n_of_lock (if p then LkPoisoned else LkOk); 0%N])
                 | _, _, _ => Some (e, st, [n_of_lock (if p then LkPoisoned else LkOk); 0%N])      (* `_ => ()`: acquired stays true *)
                 end
               | _, _ => None end)
             (fun a => match a with
                       | [_; 1%N] => sem_release_code oid (rw_permits write) (kont LkWouldBlock)
                       | [0%N; _] => kont LkOk
                       | [1%N; _] => kont LkPoisoned
                       | _ => kont LkWouldBlock end)
    | _ => kont LkWouldBlock
    end).

(* Drop for the read / write guard *)
Definition rw_unlock_code (oid : nat) (write : bool) (kont : code) : code :=
  Switch (atomic_u (fun e st =>
      match me e, on_sem oid st (fun s => sem_release e s (rw_permits write)) with
      | Some m, Some (ORwLock w rs _ p, (e', s')) =>
        if write then
          match w with
          | Some w' => if Nat.eqb w' m then Some (e', set_obj st oid (ORwLock None rs s' (p || panicking e))) else None
          | None => None end
        else
          if existsb (Nat.eqb m) rs then Some (e', set_obj st oid (ORwLock w (filter (fun x => negb (Nat.eqb x m)) rs) s' p))
          else None                                                 (* assert!(readers.remove(self.me)) / wrong state *)
      | _, _ => None end) kont).

(* constructors used by the drivers: the permit counts and fairness come from Params.v *)
Definition mutex_new : obj := OMutex None (sem_const_new MUTEX_PERMITS MUTEX_FAIR) false.
Definition rwlock_new : obj := ORwLock None [] (sem_const_new MAX_READS RWLOCK_FAIR) false.
Definition semaphore_new (n : N) (fair : bool) (creator_clock : vclock) : obj := OSem (sem_new n fair creator_clock).
