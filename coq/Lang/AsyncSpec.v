(* Vocabulary used to state C17 (async executor: no lost wake-up, each result delivered exactly once).
   Definitions only; proofs are in Proofs/AsyncBase.v and Proofs/AsyncProofs.v.

   Three layers:
   (1) engine calls as a datatype (`eng_op`) so that "arbitrary blocks of any task" can be quantified
       over as lists of calls, and the ghost-instrumented polling loop of one task (`gstep`);
   (2) the JoinHandle cell of one spawned future as a pure transition system (`ji_*`, `jev`);
   (3) the shape of the code of a spawned future (`fbody`/`cbody`, compiled with the model's own
       `suspend CtxTask`, `wrapper_aborted`, `wrapper_finish`) and the paths through a code tree. *)
From Coq Require Import List NArith Bool Arith.
From SV Require Import Clock.VClock Prim.Objects Engine.Exec Prim.Semaphore Lang.Code Lang.SyncOps
  Lang.SyncOps2 Lang.AsyncOps.
Import ListNotations.

(* ------------------------------------------------------------------ *)
(* (1) engine calls                                                     *)
(* ------------------------------------------------------------------ *)
Inductive eng_op :=
| OpWake (x : nat)                       (* some Waker of task x is invoked (by whichever task) *)
| OpAbort (x : nat)                      (* Task::abort *)
| OpSUW (x : nat)                        (* Task::sleep_unless_woken *)
| OpUnblock (x : nat)
| OpBlock (x : nat) (spur : bool)
| OpDetach (x : nat)
| OpPark (x : nat)
| OpUnpark (x : nat)
| OpSetWaiter (x w : nat)
| OpTakeWaiter (x : nat)
| OpIncClock (x : nat)
| OpJoinClock (x : nat) (c : vclock)
| OpReqYield
| OpResetSteps.

Definition apply_op (o : eng_op) (e : exec) : option exec :=
  match o with
  | OpWake x => e_waker_wake e x
  | OpAbort x => e_abort e x
  | OpSUW x => e_sleep_unless_woken e x
  | OpUnblock x => e_unblock e x
  | OpBlock x spur => e_block e x spur
  | OpDetach x => e_detach e x
  | OpPark x => match e_park e x with Some (e', _) => Some e' | None => None end
  | OpUnpark x => e_unpark e x
  | OpSetWaiter x w => match e_set_waiter e x w with Some (e', _) => Some e' | None => None end
  | OpTakeWaiter x => match e_take_waiter e x with Some (e', _) => Some e' | None => None end
  | OpIncClock x => e_increment_clock e x
  | OpJoinClock x c => e_join_clock e x c
  | OpReqYield => Some (e_request_yield e)
  | OpResetSteps => Some (e_reset_step_count e)
  end.

Fixpoint apply_ops (l : list eng_op) (e : exec) : option exec :=
  match l with
  | [] => Some e
  | o :: r => match apply_op o e with Some e' => apply_ops r e' | None => None end
  end.

(* the invariant of Task.woken: a sleeping task has no remembered wake *)
Definition wake_ok (tk : task) : Prop := is_sleeping tk = true -> t_woken tk = false.
Definition wake_inv (e : exec) : Prop := forall t tk, get_task e t = Some tk -> wake_ok tk.

(* task t exists and is not finished, and the execution is not finished *)
Definition alive (e : exec) (t : nat) : Prop :=
  exec_is_finished e = false /\ exists tk, get_task e t = Some tk /\ is_finished tk = false.

Definition task_state (e : exec) (t : nat) : option tstate :=
  match get_task e t with Some tk => Some (t_state tk) | None => None end.
Definition task_woken (e : exec) (t : nat) : option bool :=
  match get_task e t with Some tk => Some (t_woken tk) | None => None end.
Definition task_sleeping (e : exec) (t : nat) : bool :=
  match get_task e t with Some tk => is_sleeping tk | None => false end.

(* The polling loop of one task t (Task::from_future's `while poll().is_pending()` loop, or block_on's
   loop), with ghost state.  A poll is in progress in phase Polling; `OpSUW t` ends a poll that
   returned Pending; the next poll starts when t runs again (which requires that t is not asleep).
   `pending` = some Waker of t was invoked since the latest poll started.  Every other engine call,
   by t or by any other task, may happen at any time. *)
Inductive phase := Polling | Suspended.
Record gst := mkG { g_e : exec; g_phase : phase; g_pending : bool }.

Inductive gstep (t : nat) : gst -> gst -> Prop :=
| gs_op : forall o e e' ph pd,
    o <> OpSUW t -> o <> OpWake t -> o <> OpAbort t -> apply_op o e = Some e' ->
    gstep t (mkG e ph pd) (mkG e' ph pd)
| gs_wake : forall e e' ph pd,
    e_waker_wake e t = Some e' -> gstep t (mkG e ph pd) (mkG e' ph true)
| gs_abort : forall e e' ph pd,                      (* Task::abort is a wake too *)
    e_abort e t = Some e' -> gstep t (mkG e ph pd) (mkG e' ph true)
| gs_suw : forall e e' pd,
    e_sleep_unless_woken e t = Some e' -> gstep t (mkG e Polling pd) (mkG e' Suspended pd)
| gs_poll : forall e pd,
    task_sleeping e t = false -> gstep t (mkG e Suspended pd) (mkG e Polling false).

Inductive gsteps (t : nat) : gst -> gst -> Prop :=
| gss_refl : forall g, gsteps t g g
| gss_step : forall g1 g2 g3, gsteps t g1 g2 -> gstep t g2 g3 -> gsteps t g1 g3.

Definition ginv (t : nat) (g : gst) : Prop :=
  alive (g_e g) t /\
  exists tk, get_task (g_e g) t = Some tk /\
    (g_pending g = true -> is_sleeping tk = false) /\
    (g_phase g = Polling -> g_pending g = true -> t_woken tk = true).

(* ------------------------------------------------------------------ *)
(* (2) one JoinHandle cell                                              *)
(* ------------------------------------------------------------------ *)
Definition ji_poll (m : nat) (j : join_inner) : join_inner * option (option N) :=
  match ji_result j with
  | Some r => (mkJoin None (ji_waker j) (ji_aborted j), Some r)
  | None => (mkJoin None (Some m) (ji_aborted j), None)
  end.
Definition ji_finish (res : option N) (j : join_inner) : join_inner := mkJoin (Some res) None (ji_aborted j).
Definition ji_abort (j : join_inner) : join_inner := mkJoin (ji_result j) (ji_waker j) true.

Inductive jev :=
| JPoll (w : nat)                 (* JoinHandle::poll by task w *)
| JFinish (r : option N)          (* Wrapper::finish by the spawned task: Some v = Ok(v), None = Err(Cancelled) *)
| JAbort                          (* the block of abort() *)
| JDetach.                        (* drop of the JoinHandle *)

(* runs the events; collects what the polls returned Ready with, and whom each finish woke *)
Fixpoint ji_run (l : list jev) (j : join_inner) : join_inner * list (option N) * list nat :=
  match l with
  | [] => (j, [], [])
  | JPoll w :: r =>
    let '(j1, out) := ji_poll w j in
    let '(j2, outs, wakes) := ji_run r j1 in
    (j2, match out with Some v => v :: outs | None => outs end, wakes)
  | JFinish res :: r =>
    let '(j2, outs, wakes) := ji_run r (ji_finish res j) in
    (j2, outs, match ji_waker j with Some w => w :: wakes | None => wakes end)
  | JAbort :: r => ji_run r (ji_abort j)
  | JDetach :: r => ji_run r j
  end.

Definition is_finish (ev : jev) : bool := match ev with JFinish _ => true | _ => false end.
Definition is_poll (ev : jev) : bool := match ev with JPoll _ => true | _ => false end.
Definition count_finish (l : list jev) : nat := length (filter is_finish l).

(* the store has a JoinHandle table at jt *)
Definition has_joins (st : store) (jt : nat) : Prop := exists l, get_obj st jt = Some (OJoins l).

(* the block of abort() after its leading switch, as a block function *)
Definition abort_blk (jt target : nat) (e : exec) (st : store) : option (exec * store) :=
  match joins_get st jt target with
  | None => None
  | Some j =>
    if ji_aborted j then Some (e, st)
    else
      let st' := joins_set st jt target (mkJoin (ji_result j) (ji_waker j) true) in
      if exec_is_finished e then Some (e, st')
      else match e_abort e target with Some e' => Some (e', st') | None => None end
  end.

(* ------------------------------------------------------------------ *)
(* (3) the code of a spawned future                                     *)
(* ------------------------------------------------------------------ *)
Definition blockfn := exec -> store -> option (exec * store * list N).

(* the abort check at the top of Wrapper::poll *)
Definition chk_blk (jt : nat) : blockfn :=
  fun e s => match (match wrapper_aborted e s jt with Some b => Some (e, s, b) | None => None end) with
             | Some (e', s', b) => Some (e', s', [b2n b]) | None => None end.
(* Wrapper::finish *)
Definition fin_blk (jt : nat) (r : option N) : blockfn :=
  fun e s => match wrapper_finish e s jt r with Some (e', s') => Some (e', s', []) | None => None end.
(* sleep_unless_woken of the current task *)
Definition suw_blk : blockfn :=
  fun e s => match (match me e with
                    | Some m => match e_sleep_unless_woken e m with Some e' => Some (e', s) | None => None end
                    | None => None end) with
             | Some (e', s') => Some (e', s', []) | None => None end.

Definition check_code (jt : nat) (on_abort retry : code) : code :=
  Atomic (chk_blk jt) (fun a => if ans_bool a then on_abort else retry).

(* the cancellation path: the future is dropped (destructors = arbitrary blocks and scheduling points),
   then finish(Err(Cancelled)) *)
Inductive cbody :=
| CFin
| CBlock (f : blockfn) (k : list N -> cbody)
| CSw (k : cbody)
| CLog (tag : N) (vals : list N) (k : cbody).

Fixpoint ccomp (jt : nat) (c : cbody) : code :=
  match c with
  | CFin => Atomic (fin_blk jt None) (fun _ => Ret)
  | CBlock f k => Atomic f (fun a => ccomp jt (k a))
  | CSw k => Switch (ccomp jt k)
  | CLog tag vals k => Log tag vals (ccomp jt k)
  end.

(* the body of an async block: arbitrary blocks, scheduling points, and points where a poll returns
   Pending (`FSuspend`: the model's `suspend CtxTask`, with the cancellation path for the locals alive there) *)
Inductive fbody :=
| FDone (v : N)
| FPanic
| FBlock (f : blockfn) (k : list N -> fbody)
| FSw (k : fbody)
| FLog (tag : N) (vals : list N) (k : fbody)
| FRand (k : N -> fbody)
| FSuspend (on_abort : cbody) (k : fbody).

Fixpoint fcomp (jt : nat) (b : fbody) : code :=
  match b with
  | FDone v => Atomic (fin_blk jt (Some v)) (fun _ => Ret)
  | FPanic => Panic
  | FBlock f k => Atomic f (fun a => fcomp jt (k a))
  | FSw k => Switch (fcomp jt k)
  | FLog tag vals k => Log tag vals (fcomp jt k)
  | FRand k => Rand (fun v => fcomp jt (k v))
  | FSuspend oa k => suspend CtxTask jt (ccomp jt oa) (fcomp jt k)
  end.

(* the whole task: Wrapper::poll's first abort check, then the body *)
Definition spawned (jt : nat) (oa0 : cbody) (b : fbody) : code :=
  check_code jt (ccomp jt oa0) (fcomp jt b).

(* paths through a code tree: the blocks a task executes, each with the answer it got, under an
   arbitrary environment.  `true` = the path reaches Ret. *)
Inductive cpath : code -> list (blockfn * list N) -> bool -> Prop :=
| cp_ret : cpath Ret [] true
| cp_panic : cpath Panic [] false
| cp_fail : forall f k, cpath (Atomic f k) [] false            (* the block panics *)
| cp_atomic : forall f k a p fin, cpath (k a) p fin -> cpath (Atomic f k) ((f, a) :: p) fin
| cp_switch : forall k p fin, cpath k p fin -> cpath (Switch k) p fin
| cp_rand : forall k v p fin, cpath (k v) p fin -> cpath (Rand k) p fin
| cp_log : forall tag vals k p fin, cpath k p fin -> cpath (Log tag vals k) p fin
| cp_spawn : forall child k tid p fin, cpath (k tid) p fin -> cpath (SpawnNow child k) p fin.

(* the same paths with ghost labels saying which part of the future a block belongs to; every label
   carries the answer the block gave *)
Inductive lev :=
| LBody (f : blockfn) (a : list N)          (* a block of the async body *)
| LSleep (a : list N)                       (* sleep_unless_woken after a Pending poll *)
| LCheck (a : list N)                       (* the abort check; `ans_bool a` = the flag it observed *)
| LDrop (f : blockfn) (a : list N)          (* a destructor block on the cancellation path *)
| LFinish (r : option N) (a : list N).      (* Wrapper::finish(r) *)

Definition erase (jt : nat) (l : lev) : blockfn * list N :=
  match l with
  | LBody f a => (f, a)
  | LSleep a => (suw_blk, a)
  | LCheck a => (chk_blk jt, a)
  | LDrop f a => (f, a)
  | LFinish r a => (fin_blk jt r, a)
  end.

Inductive clpath : cbody -> list lev -> bool -> Prop :=
| cl_fin : forall a, clpath CFin [LFinish None a] true
| cl_fin_fail : clpath CFin [] false
| cl_fail : forall f k, clpath (CBlock f k) [] false
| cl_block : forall f k a p fin, clpath (k a) p fin -> clpath (CBlock f k) (LDrop f a :: p) fin
| cl_sw : forall k p fin, clpath k p fin -> clpath (CSw k) p fin
| cl_log : forall tag vals k p fin, clpath k p fin -> clpath (CLog tag vals k) p fin.

Inductive flpath : fbody -> list lev -> bool -> Prop :=
| fl_done : forall v a, flpath (FDone v) [LFinish (Some v) a] true
| fl_done_fail : forall v, flpath (FDone v) [] false
| fl_panic : flpath FPanic [] false
| fl_fail : forall f k, flpath (FBlock f k) [] false
| fl_block : forall f k a p fin, flpath (k a) p fin -> flpath (FBlock f k) (LBody f a :: p) fin
| fl_sw : forall k p fin, flpath k p fin -> flpath (FSw k) p fin
| fl_log : forall tag vals k p fin, flpath k p fin -> flpath (FLog tag vals k) p fin
| fl_rand : forall k v p fin, flpath (k v) p fin -> flpath (FRand k) p fin
| fl_susp_sleepfail : forall oa k, flpath (FSuspend oa k) [] false
| fl_susp_chkfail : forall oa k a1, flpath (FSuspend oa k) [LSleep a1] false
| fl_susp_abort : forall oa k a1 a2 p fin, ans_bool a2 = true -> clpath oa p fin ->
    flpath (FSuspend oa k) (LSleep a1 :: LCheck a2 :: p) fin
| fl_susp_retry : forall oa k a1 a2 p fin, ans_bool a2 = false -> flpath k p fin ->
    flpath (FSuspend oa k) (LSleep a1 :: LCheck a2 :: p) fin.

Inductive slpath (oa0 : cbody) (b : fbody) : list lev -> bool -> Prop :=
| sl_chkfail : slpath oa0 b [] false
| sl_abort : forall a p fin, ans_bool a = true -> clpath oa0 p fin -> slpath oa0 b (LCheck a :: p) fin
| sl_body : forall a p fin, ans_bool a = false -> flpath b p fin -> slpath oa0 b (LCheck a :: p) fin.

(* a check that observed the abort flag set *)
Definition saw_abort (l : lev) : bool := match l with LCheck a => ans_bool a | _ => false end.
(* what may follow it: destructor blocks and finish(Err(Cancelled)) *)
Definition is_cancel_ev (l : lev) : Prop :=
  match l with LDrop _ _ => True | LFinish None _ => True | _ => False end.
(* the results published along a path *)
Definition finishes (p : list lev) : list (option N) :=
  flat_map (fun l => match l with LFinish r _ => [r] | _ => [] end) p.

(* the poll block of the blocking semaphore acquire (block_on(Acquire)) *)
Definition sem_poll_blk (oid wid : nat) : blockfn :=
  fun e st =>
    match me e with
    | None => None
    | Some m =>
      match on_sem oid st (fun s => sem_poll e s wid m) with
      | Some (o, (e', s', r)) =>
        Some (e', set_obj st oid (with_sem o s'), [match r with PReadyOk => 0 | PReadyErr => 1 | PPending => 2 end]%N)
      | None => None
      end
    end.

(* what follows the Switch of `suspend` *)
Definition resume (ctx : pctx) (jt : nat) (on_abort retry : code) : code :=
  match ctx with CtxBlockOn => retry | CtxTask => check_code jt on_abort retry end.
