(* C20 — the wrapper crates as runtime-call trees, switch point by switch point:
     wrappers/parking_lot/parking_lot_impl/src/raw_rwlock.rs, raw_mutex.rs  (over BatchSemaphore, Prim/Semaphore.v;
        the guards are lock_api 0.4.14's: rwlock.rs / mutex.rs of that crate name the raw calls each guard method makes)
     shuttle-engine/src/future/batch_semaphore.rs:705-717                   (BatchSemaphore::upgrade)
     wrappers/dashmap/dashmap_impl/src/lib.rs, set.rs                        (one shuttle::sync::RwLock around a map)
     wrappers/shuttle_rand_0.8/shuttle_rand_inner/src/lib.rs, shuttle/src/rand.rs (every RNG forwards to next_u64)
     shuttle/src/lazy_static.rs                                              (Once + per-execution storage)
   and the program language of the `pl` correspondence layer (harness/src/l_pl.rs runs the same programs on the crates).
   The model mirrors the code that exists, including the behaviours reported as findings F7 / F30 (Props/C20.v).
   No proofs in this file. *)
From Coq Require Import List NArith Bool Arith.
From SV Require Import Params Clock.VClock Prim.Objects Engine.Exec Lang.Code Lang.ThreadOps Prim.Semaphore
  Lang.SyncOps Lang.SyncOps2 Lang.PlMap.
From SV Require Lang.Prog Sched.Random.
Import ListNotations.

(* const MAX_READERS: usize = usize::MAX >> 3 on a 64-bit target (checked against the source by tools/p_c20.py) *)
Definition PL_MAX_READERS : N := 2305843009213693951%N.

(* ---- store layout: object number o owns the three slots 3o, 3o+1, 3o+2 ---- *)
Definition slot (o : nat) : nat := 3 * o.
Inductive ospec := SRw | SMx | SDm | SDs | SLz.

Definition objs_of (o : nat) (s : ospec) : list obj :=
  match s with
  | SRw => [OSem (sem_const_new PL_MAX_READERS true); OSem (sem_const_new 1 true); OCell [0%N] []]   (* sem, upgradable_sem, data *)
  | SMx => [OSem (sem_const_new 1 true); OCell [0%N] []; OCell [] []]                                 (* semaphore, data *)
  | SDm | SDs => [rwlock_new; OCell [] []; OCell [] []]                                               (* inner lock, contents (flat, key order) *)
  | SLz => [OOnce OnNone false (S (slot o)); mutex_new; OCell [] []]                                  (* cell, its mutex, storage slot *)
  end.

Fixpoint build_store_from (o : nat) (specs : list ospec) : store :=
  match specs with [] => [] | s :: r => objs_of o s ++ build_store_from (S o) r end.
Definition build_store (specs : list ospec) : store := build_store_from 0 specs.

Definition spec_eqb (a b : ospec) : bool :=
  match a, b with SRw, SRw | SMx, SMx | SDm, SDm | SDs, SDs | SLz, SLz => true | _, _ => false end.
Definition is_kind (specs : list ospec) (o : nat) (s : ospec) : bool :=
  match nth_error specs o with Some s' => spec_eqb s s' | None => false end.

(* ================= parking_lot ================= *)
(* RawRwLock::acquire / RawMutex::lock:
   acquire_blocking(n).unwrap_or_else(|_| if !thread::panicking() { unreachable!() }) *)
Definition closed_or_panic (k : code) : code :=
  atomic_b (fun e st => Some (e, st, panicking e)) (fun p => if p then k else Panic).
Definition pl_acquire (oid : nat) (n : N) (k : code) : code :=
  acquire_blocking oid n (fun ok => if ok then k else closed_or_panic k).

Definition is_ok (r : acq_res) : bool := match r with AOk => true | _ => false end.
Definition SEM (o : nat) : nat := slot o.
Definition UPG (o : nat) : nat := S (slot o).

Definition pl_lock_shared (o : nat) (k : code) : code := pl_acquire (SEM o) 1 k.
Definition pl_lock_exclusive (o : nat) (k : code) : code := pl_acquire (SEM o) PL_MAX_READERS k.
Definition pl_lock_upgradable (o : nat) (k : code) : code := pl_acquire (UPG o) 1 (pl_acquire (SEM o) 1 k).
Definition pl_try_lock_shared (o : nat) (k : bool -> code) : code := sem_try_code (SEM o) 1 (fun r => k (is_ok r)).
Definition pl_try_lock_exclusive (o : nat) (k : bool -> code) : code := sem_try_code (SEM o) PL_MAX_READERS (fun r => k (is_ok r)).
Definition pl_try_lock_upgradable (o : nat) (k : bool -> code) : code :=
  sem_try_code (UPG o) 1 (fun r =>
    if is_ok r then sem_try_code (SEM o) 1 (fun r2 => if is_ok r2 then k true else sem_release_code (UPG o) 1 (k false))
    else k false).
Definition pl_unlock_shared (o : nat) (k : code) : code := sem_release_code (SEM o) 1 k.
Definition pl_unlock_exclusive (o : nat) (k : code) : code := sem_release_code (SEM o) PL_MAX_READERS k.
Definition pl_unlock_upgradable (o : nat) (k : code) : code := sem_release_code (SEM o) 1 (sem_release_code (UPG o) 1 k).
Definition pl_downgrade (o : nat) (k : code) : code := sem_release_code (SEM o) (PL_MAX_READERS - 1) k.
Definition pl_downgrade_upgradable (o : nat) (k : code) : code := sem_release_code (UPG o) 1 k.
(* "the upgradable slot is free and acquiring it cannot block": it can (F7) *)
Definition pl_downgrade_to_upgradable (o : nat) (k : code) : code :=
  pl_acquire (UPG o) 1 (sem_release_code (SEM o) (PL_MAX_READERS - 1) k).
Definition pl_try_upgrade (o : nat) (k : bool -> code) : code :=
  sem_try_code (SEM o) (PL_MAX_READERS - 1) (fun r => if is_ok r then sem_release_code (UPG o) 1 (k true) else k false).

(* one poll of an Acquire by hand (BatchSemaphore::upgrade): the conditional switch, then the body of poll *)
Definition poll_once (oid wid : nat) (never_polled : bool) (k : N -> code) : code :=
  atomic_b (fun e st => match on_sem oid st (fun s => poll_needs_switch s wid never_polled) with
                        | Some (_, b) => Some (e, st, b) | None => None end)
    (fun sw => switch_if sw
      (Atomic (fun e st =>
           match me e with
           | None => None
           | Some m =>
             match on_sem oid st (fun s => sem_poll e s wid m) with
             | Some (o, (e', s', r)) =>
               Some (e', set_obj st oid (with_sem o s'), [match r with PReadyOk => 0 | PReadyErr => 1 | PPending => 2 end]%N)
             | None => None
             end
           end)
         (fun a => match a with [r] => k r | _ => Panic end))).

(* BatchSemaphore::upgrade(held, to): the two asserts; a new Acquire for `to` permits polled once with the current
   task's waker (its answer is dropped); release(held); the Acquire is handed back.  `kont wid completed`. *)
Definition sem_upgrade_code (oid : nat) (held to : N) (kont : nat -> bool -> code) : code :=
  if N.eqb held 0 || negb (N.ltb held to) then Panic else
  Atomic (fun e st => match on_sem oid st (fun s => sem_new_waiter e s to) with
                      | Some (o, (s', wid)) => Some (e, set_obj st oid (with_sem o s'), [N.of_nat wid])
                      | None => None end)
    (fun a => match a with
              | [w] => poll_once oid (N.to_nat w) true
                         (fun r => sem_release_code oid held (kont (N.to_nat w) (negb (N.eqb r 2))))
              | _ => Panic end).

(* RawRwLock::upgrade: block_on(sem.upgrade(1, MAX_READERS)) (a completed Acquire polled again: assert!(!self.completed)),
   then the upgradable slot is released *)
Definition pl_upgrade (o : nat) (k : code) : code :=
  sem_upgrade_code (SEM o) 1 PL_MAX_READERS (fun wid completed =>
    if completed then Panic
    else poll_loop POLL_FUEL (SEM o) wid false (fun ok =>
           let rest := sem_release_code (UPG o) 1 k in
           if ok then rest else closed_or_panic rest)).

(* RawMutex *)
Definition pl_mutex_lock (o : nat) (k : code) : code := pl_acquire (SEM o) 1 k.
Definition pl_mutex_try_lock (o : nat) (k : bool -> code) : code := sem_try_code (SEM o) 1 (fun r => k (is_ok r)).
Definition pl_mutex_unlock (o : nat) (k : code) : code := sem_release_code (SEM o) 1 k.

(* the u64 behind a lock: RwLock data in slot 3o+2, Mutex data in slot 3o+1 *)
Definition cell_get (st : store) (i : nat) : option N :=
  match get_obj st i with Some (OCell [v] _) => Some v | _ => None end.
Definition cell_set (st : store) (i : nat) (v : N) : option store :=
  match get_obj st i with Some (OCell _ c) => Some (set_obj st i (OCell [v] c)) | _ => None end.
Definition data_read (i : nat) (k : N -> code) : code :=
  Atomic (fun e st => match cell_get st i with Some v => Some (e, st, [v]) | None => None end)
    (fun a => match a with [v] => k v | _ => Panic end).
Definition data_incr (i : nat) (k : N -> code) : code :=
  Atomic (fun e st => match cell_get st i with
                      | Some v => match cell_set st i (wadd v 1) with Some st' => Some (e, st', [wadd v 1]) | None => None end
                      | None => None end)
    (fun a => match a with [v] => k v | _ => Panic end).

(* ================= DashMap / DashSet ================= *)
(* every method: self.inner.read()/write().unwrap(), the table operation, the guard's drop *)
Definition MAPCELL (o : nat) : nat := S (slot o).
(* the table operation of a method, performed under the lock in one block *)
Definition dm_block (o : nat) (f : amap -> amap * list N) (e : exec) (st : store) : option (exec * store * list N) :=
  match get_obj st (MAPCELL o) with
  | Some (OCell vals c) => let '(m', out) := f (pairs_of vals) in
                           Some (e, set_obj st (MAPCELL o) (OCell (flat_of m') c), out)
  | _ => None end.
Definition dm_apply (o : nat) (f : amap -> amap * list N) (k : list N -> code) : code := Atomic (dm_block o f) k.
Definition dm_locked (o : nat) (write : bool) (k : code) : code :=
  rw_lock_code (slot o) write (fun res => match res with LkOk => k | _ => Panic end).
Definition dm_op (o : nat) (write : bool) (f : amap -> amap * list N) (k : list N -> code) : code :=
  dm_locked o write (dm_apply o f (fun out => rw_unlock_code (slot o) write (k out))).

Definition opt_vals (v : option N) : list N := match v with Some x => [1%N; x] | None => [0%N; 0%N] end.

(* ================= rand replacement ================= *)
Fixpoint rand_n (n : nat) (acc : list N) (k : list N -> code) : code :=
  match n with O => k (rev acc) | S n' => Rand (fun v => rand_n n' (v :: acc) k) end.
Fixpoint le_bytes (n : nat) (v : N) : list N :=
  match n with O => [] | S n' => (v mod 256)%N :: le_bytes n' (v / 256)%N end.
(* fill_bytes_via_next: whole 8-byte chunks from next_u64, a remainder > 4 from next_u64, a remainder 1..4 from next_u32
   (= the low half of next_u64): in each case the little-endian bytes of one draw *)
Definition fill_bytes_code (n : nat) (k : list N -> code) : code :=
  rand_n (Nat.div (n + 7) 8) [] (fun draws => k (firstn n (flat_map (le_bytes 8) draws))).
(* UniformInt<u64>::sample_single(0, n): rejection loop over next_u64 (Sched/Random.v accept_w at width 64) *)
Fixpoint gen_range_code (fuel : nat) (n : N) (k : N -> code) : code :=
  match fuel with
  | O => Log 99 [] Panic
  | S f => Rand (fun v => match Random.accept_w 64 n v with Some hi => k hi | None => gen_range_code f n k end)
  end.

(* ================= lazy_static ================= *)
Definition TAG_LZINIT : N := 111.
(* Lazy::get: storage empty -> cell.call_once(|| { value = init(); init_storage }); then the storage is read.
   The initialiser of the harness logs itself and draws its value through the rand replacement. *)
Definition lazy_get (o : nat) (k : N -> code) : code :=
  let cell := S (S (slot o)) in
  let rd := Atomic (fun e st => match get_obj st cell with Some (OCell [v] _) => Some (e, st, [v]) | _ => None end)   (* .expect("should be initialized") *)
              (fun a => match a with [v] => k v | _ => Panic end) in
  atomic_b (fun e st => match get_obj st cell with
                        | Some (OCell [] _) => Some (e, st, true)
                        | Some (OCell _ _) => Some (e, st, false)
                        | _ => None end)
    (fun init =>
       if init then
         call_once_code (slot o) (S (slot o))
           (fun k' => Log TAG_LZINIT [N.of_nat o]
                        (Rand (fun v => atomic_u (fun e st => match get_obj st cell with
                                                              | Some (OCell _ c) => Some (e, set_obj st cell (OCell [v] c))
                                                              | _ => None end) k')))
           rd
       else rd).

(* ================= the program language ================= *)
Inductive plop :=
| QSp (b : nat) | QJn (h : nat) | QYd
| QRd (o : nat) | QWr (o : nat) | QUr (o : nat) | QTr (o : nat) | QTw (o : nat) | QTu (o : nat)
| QUl (o : nat) | QUp (o : nat) | QTg (o : nat) | QDg (o : nat) | QDu (o : nat) | QDw (o : nat)
| QWu (o : nat) | QTq (o : nat) | QGv (o : nat) | QIv (o : nat) | QBp (o : nat)
| QLk (o : nat) | QTl (o : nat)
| QRn | QR3 | QRb (n : nat) | QRr | QRg (n : N) | QRq
| QDins (o : nat) (k v : N) | QDget (o : nat) (k : N) | QDrem (o : nat) (k : N) | QDlen (o : nat) | QDcon (o : nat) (k : N)
| QDalt (o : nat) (k v : N) | QDent (o : nat) (k v : N) | QDret (o : nat) (md rm : N) | QDclr (o : nat) | QDit (o : nat)
| QDref (o : nat) (k : N) | QDmut (o : nat) (k v : N) | QDtry (o : nat) (k : N)
| QDrif (o : nat) (k p : N) | QDrim (o : nat) (k p : N) | QDvw (o : nat) (k : N)
| QSins (o : nat) (k : N) | QSrem (o : nat) (k : N) | QScon (o : nat) (k : N) | QSlen (o : nat)
| QLz (o : nat)
| QBad (o : nat).

(* position in the table of harness/src/l_pl.rs (opcode()) *)
Definition opcode (p : plop) : N :=
  match p with
  | QSp _ => 0 | QJn _ => 1 | QYd => 2 | QRd _ => 3 | QWr _ => 4 | QUr _ => 5 | QTr _ => 6 | QTw _ => 7 | QTu _ => 8
  | QUl _ => 9 | QUp _ => 10 | QTg _ => 11 | QDg _ => 12 | QDu _ => 13 | QDw _ => 14 | QWu _ => 15 | QTq _ => 16
  | QGv _ => 17 | QIv _ => 18 | QBp _ => 19 | QLk _ => 20 | QTl _ => 21
  | QRn => 22 | QR3 => 23 | QRb _ => 24 | QRr => 25 | QRg _ => 26 | QRq => 27
  | QDins _ _ _ => 28 | QDget _ _ => 29 | QDrem _ _ => 30 | QDlen _ => 31 | QDcon _ _ => 32 | QDalt _ _ _ => 33
  | QDent _ _ _ => 34 | QDret _ _ _ => 35 | QDclr _ => 36 | QDit _ => 37 | QDref _ _ => 38 | QDmut _ _ _ => 39 | QDtry _ _ => 40
  | QSins _ _ => 41 | QSrem _ _ => 42 | QScon _ _ => 43 | QSlen _ => 44 | QLz _ => 45
  | QDrif _ _ _ => 46 | QDrim _ _ _ => 47 | QDvw _ _ => 48
  | QBad _ => 999
  end%N.

Definition TAG_SPAWN : N := 1.  Definition TAG_JOIN : N := 2.  Definition TAG_YIELD : N := 3.  Definition TAG_END : N := 9.
Definition TAG_SKIP : N := 48.  Definition TAG_BEGIN : N := 49. Definition TAG_UNLOCK : N := 57.

(* guard kinds: 0 read, 1 write, 2 upgradable (parking_lot RwLock), 3 parking_lot Mutex, 4 DashMap Ref, 5 DashMap RefMut *)
Definition guards := list (nat * N).
Fixpoint take_g (o : nat) (gs : guards) : option (N * guards) :=
  match gs with
  | [] => None
  | (o', kd) :: r => if Nat.eqb o o' then Some (kd, r)
                     else match take_g o r with Some (kd', r') => Some (kd', (o', kd) :: r') | None => None end
  end.
Definition newest_g (o : nat) (gs : guards) : option N := match take_g o gs with Some (kd, _) => Some kd | None => None end.

Definition unlock_kind (o : nat) (kd : N) (k : code) : code :=
  match kd with
  | 0 => pl_unlock_shared o k
  | 1 => pl_unlock_exclusive o k
  | 2 => pl_unlock_upgradable o k
  | 3 => pl_mutex_unlock o k
  | 4 => rw_unlock_code (slot o) false k
  | _ => rw_unlock_code (slot o) true k
  end%N.

Fixpoint drop_all (gs : guards) (k : code) : code :=
  match gs with
  | [] => k
  | (o, kd) :: r => Log TAG_BEGIN [9%N; N.of_nat o] (unlock_kind o kd (Log TAG_UNLOCK [N.of_nat o; kd] (drop_all r k)))
  end.

(* thread_fn after the closure returned (no thread-locals in these programs) *)
Definition pl_epilogue : code :=
  atomic_b (fun e s => match exit_truncates e with Some b => Some (e, s, b) | None => None end)
    (fun b => switch_if b publish_code).

Definition data_slot (kd : N) (o : nat) : nat := if N.eqb kd 3 then S (slot o) else S (S (slot o)).

Fixpoint plcomp (fuel : nat) (specs : list ospec) (bodies : list (list plop)) (b : nat) : code :=
  match fuel with
  | O => Ret
  | S f =>
    (fix go (ops : list plop) (hs : list nat) (js : list nat) (gs : guards) : code :=
       match ops with
       | [] => Log TAG_END [] (drop_all gs pl_epilogue)
       | p :: r =>
         let on := fun (o : nat) => N.of_nat o in
         let skip := fun (o : nat) (why : N) (gs' : guards) => Log TAG_SKIP [opcode p; on o; why] (go r hs js gs') in
         let begin := fun (o : nat) (k : code) => Log TAG_BEGIN [opcode p; on o] k in
         let next := fun (gs' : guards) => go r hs js gs' in
         (* an operation on the upgradable guard of o *)
         let with_u := fun (o : nat) (k : guards -> code) =>
           match take_g o gs with
           | Some (2%N, gs') => begin o (k gs')
           | Some (kd, gs') => skip o 3%N ((o, kd) :: gs')
           | None => skip o 2%N gs
           end in
         let with_w := fun (o : nat) (k : guards -> code) =>
           match take_g o gs with
           | Some (1%N, gs') => begin o (k gs')
           | Some (kd, gs') => skip o 3%N ((o, kd) :: gs')
           | None => skip o 2%N gs
           end in
         (* Shuttle's RwLock panics when a task re-acquires it: an operation by a task that holds a Ref / RefMut of the same
            map is outside the language (skipped on both sides), try_get excepted *)
         let holds := fun (o : nat) => existsb (fun g => Nat.eqb (fst g) o) gs in
         let dm := fun (o : nat) (k : code) =>
           if is_kind specs o SDm then (if holds o then skip o 5%N gs else begin o k) else skip o 1%N gs in
         let dmt := fun (o : nat) (k : code) => if is_kind specs o SDm then begin o k else skip o 1%N gs in
         let ds := fun (o : nat) (k : code) => if is_kind specs o SDs then begin o k else skip o 1%N gs in
         let rw := fun (o : nat) (k : code) => if is_kind specs o SRw then begin o k else skip o 1%N gs in
         match p with
         | QSp j => if Nat.leb j b then skip j 4%N gs else
                    Switch (SpawnNow (plcomp f specs bodies j) (fun tid => Log TAG_SPAWN [N.of_nat tid] (go r (hs ++ [tid]) js gs)))
         | QJn h => match nth_error hs h with
                    | Some t => if existsb (Nat.eqb h) js then skip h 0%N gs
                                else join_code t (Log TAG_JOIN [N.of_nat t; Prog.thread_value t] (go r hs (h :: js) gs))
                    | None => skip h 0%N gs end
         | QYd => yield_code (Log TAG_YIELD [] (next gs))
         (* ---- RwLock ---- *)
         | QRd o => rw o (pl_lock_shared o (Log 51 [on o] (next ((o, 0%N) :: gs))))
         | QWr o => rw o (pl_lock_exclusive o (Log 52 [on o] (next ((o, 1%N) :: gs))))
         | QUr o => rw o (pl_lock_upgradable o (Log 53 [on o] (next ((o, 2%N) :: gs))))
         | QTr o => rw o (pl_try_lock_shared o (fun ok => Log 54 [on o; b2n ok] (next (if ok then (o, 0%N) :: gs else gs))))
         | QTw o => rw o (pl_try_lock_exclusive o (fun ok => Log 55 [on o; b2n ok] (next (if ok then (o, 1%N) :: gs else gs))))
         | QTu o => rw o (pl_try_lock_upgradable o (fun ok => Log 56 [on o; b2n ok] (next (if ok then (o, 2%N) :: gs else gs))))
         | QUl o => match take_g o gs with
                    | Some (kd, gs') => begin o (unlock_kind o kd (Log TAG_UNLOCK [on o; kd] (next gs')))
                    | None => skip o 2%N gs end
         | QUp o => with_u o (fun gs' => pl_upgrade o (Log 58 [on o] (next ((o, 1%N) :: gs'))))
         | QTg o => with_u o (fun gs' => pl_try_upgrade o (fun ok => Log 59 [on o; b2n ok] (next ((o, if ok then 1%N else 2%N) :: gs'))))
         | QDu o => with_u o (fun gs' => pl_downgrade_upgradable o (Log 61 [on o] (next ((o, 0%N) :: gs'))))
         | QWu o => with_u o (fun gs' =>
                      pl_upgrade o (data_incr (S (S (slot o))) (fun v => Log 68 [on o; v]
                        (pl_downgrade_to_upgradable o (Log 63 [on o; v] (next ((o, 2%N) :: gs')))))))
         | QTq o => with_u o (fun gs' =>
                      pl_try_upgrade o (fun ok =>
                        if ok then data_incr (S (S (slot o))) (fun v => Log 68 [on o; v]
                                     (pl_downgrade_to_upgradable o (Log 64 [on o; 1%N; v] (next ((o, 2%N) :: gs')))))
                        else Log 64 [on o; 0%N; 0%N] (next ((o, 2%N) :: gs'))))
         | QDg o => with_w o (fun gs' => pl_downgrade o (Log 60 [on o] (next ((o, 0%N) :: gs'))))
         | QDw o => with_w o (fun gs' => pl_downgrade_to_upgradable o (Log 62 [on o] (next ((o, 2%N) :: gs'))))
         | QBp o => match take_g o gs with
                    | Some (0%N, gs') => begin o (pl_unlock_shared o (pl_lock_shared o (Log 67 [on o; 0%N] (next ((o, 0%N) :: gs')))))
                    | Some (1%N, gs') => begin o (pl_unlock_exclusive o (pl_lock_exclusive o (Log 67 [on o; 1%N] (next ((o, 1%N) :: gs')))))
                    | Some (3%N, gs') => begin o (pl_mutex_unlock o (pl_mutex_lock o (Log 67 [on o; 3%N] (next ((o, 3%N) :: gs')))))
                    | Some (kd, gs') => skip o 3%N ((o, kd) :: gs')
                    | None => skip o 2%N gs end
         | QGv o => match newest_g o gs with
                    | Some kd => if N.leb kd 3 then data_read (data_slot kd o) (fun v => Log 65 [on o; v] (next gs)) else skip o 3%N gs
                    | None => skip o 2%N gs end
         | QIv o => match newest_g o gs with
                    | Some kd => if N.eqb kd 1 || N.eqb kd 3 then data_incr (data_slot kd o) (fun v => Log 66 [on o; v] (next gs)) else skip o 3%N gs
                    | None => skip o 2%N gs end
         (* ---- Mutex ---- *)
         | QLk o => if is_kind specs o SMx then begin o (pl_mutex_lock o (Log 70 [on o] (next ((o, 3%N) :: gs)))) else skip o 1%N gs
         | QTl o => if is_kind specs o SMx
                    then begin o (pl_mutex_try_lock o (fun ok => Log 71 [on o; b2n ok] (next (if ok then (o, 3%N) :: gs else gs))))
                    else skip o 1%N gs
         (* ---- rand ---- *)
         | QRn => Rand (fun v => Log 80 [v] (next gs))
         | QR3 => Rand (fun v => Log 81 [(v mod 4294967296)%N] (next gs))
         | QRb n => fill_bytes_code (Nat.modulo n 40) (fun bytes => Log 82 bytes (next gs))
         | QRr => Rand (fun v => Log 83 [v] (next gs))
         | QRg n => let n' := N.max n 1 in gen_range_code 200 n' (fun v => Log 84 [n'; v] (next gs))
         | QRq => Rand (fun v => Log 85 [b2n (N.leb 2147483648 (v mod 4294967296))] (next gs))
         (* ---- DashMap ---- *)
         | QDins o k v => dm o (dm_op o true (fun m => (am_insert m k v, [on o; k; v] ++ opt_vals (am_get m k))) (fun out => Log 90 out (next gs)))
         | QDget o k => dm o (dm_op o false (fun m => (m, [on o; k] ++ opt_vals (am_get m k))) (fun out => Log 91 out (next gs)))
         | QDrem o k => dm o (dm_op o true (fun m => (am_remove m k, [on o; k] ++ opt_vals (am_get m k))) (fun out => Log 92 out (next gs)))
         | QDlen o => dm o (dm_op o false (fun m => (m, [on o; am_len m])) (fun out => Log 93 out (next gs)))
         | QDcon o k => dm o (dm_op o false (fun m => (m, [on o; k; b2n (am_contains m k)])) (fun out => Log 94 out (next gs)))
         | QDalt o k v => dm o (dm_op o true (fun m => (match am_get m k with Some x => am_insert m k (wadd x v) | None => m end, [on o; k; v]))
                                  (fun out => Log 95 out (next gs)))
         | QDent o k v => dm o (dm_op o true (fun m => match am_get m k with Some x => (m, [on o; k; v; x]) | None => (am_insert m k v, [on o; k; v; v]) end)
                                  (fun out => Log 96 out (next gs)))
         | QDret o md rm => dm o (dm_op o true (fun m => (am_retain m (N.max md 1) rm, [on o; N.max md 1; rm])) (fun out => Log 97 out (next gs)))
         | QDclr o => dm o (dm_op o true (fun m => ([], [on o])) (fun out => Log 98 out (next gs)))
         (* remove_if(k, |_, v| v % 2 == p): removes and returns the entry only if the predicate accepts it; a rejected entry stays *)
         | QDrif o k p => dm o (dm_op o true (fun m => match am_get m k with
                                                        | Some x => if N.eqb (x mod 2) (p mod 2) then (am_remove m k, [on o; k; p; 1%N; x]) else (m, [on o; k; p; 0%N; x])
                                                        | None => (m, [on o; k; p; 2%N; 0%N]) end)
                                  (fun out => Log 112 out (next gs)))
         (* remove_if_mut(k, |_, v| { *v += 1; *v % 2 == p }): a rejected entry stays, with the value the closure left *)
         | QDrim o k p => dm o (dm_op o true (fun m => match am_get m k with
                                                        | Some x => let y := wadd x 1 in
                                                                    if N.eqb (y mod 2) (p mod 2) then (am_remove m k, [on o; k; p; 1%N; y]) else (am_insert m k y, [on o; k; p; 0%N; y])
                                                        | None => (m, [on o; k; p; 2%N; 0%N]) end)
                                  (fun out => Log 113 out (next gs)))
         (* view(k, |_, v| *v): a read under the shard's read lock *)
         | QDvw o k => dm o (dm_op o false (fun m => (m, [on o; k] ++ opt_vals (am_get m k))) (fun out => Log 114 out (next gs)))
         | QDit o => dm o (dm_op o false (fun m => (m, on o :: flat_of m)) (fun out => Log 99 out (next gs)))
         | QDref o k =>
           dm o (dm_locked o false (dm_apply o (fun m => (m, opt_vals (am_get m k)))
             (fun out => match out with
                         | [1%N; x] => Log 100 [on o; k; 1%N; x] (next ((o, 4%N) :: gs))
                         | _ => rw_unlock_code (slot o) false (Log 100 [on o; k; 0%N; 0%N] (next gs)) end)))
         | QDmut o k v =>
           dm o (dm_locked o true (dm_apply o (fun m => match am_get m k with
                                                          | Some x => (am_insert m k (wadd x v), [1%N; wadd x v])
                                                          | None => (m, [0%N; 0%N]) end)
             (fun out => match out with
                         | [1%N; x] => Log 101 [on o; k; v; 1%N; x] (next ((o, 5%N) :: gs))
                         | _ => rw_unlock_code (slot o) true (Log 101 [on o; k; v; 0%N; 0%N] (next gs)) end)))
         | QDtry o k =>
           dmt o (rw_try_code (slot o) false (fun res =>
                   match res with
                   | LkOk => dm_apply o (fun m => (m, match am_get m k with Some x => [0%N; x] | None => [1%N; 0%N] end))
                               (fun out => rw_unlock_code (slot o) false (Log 103 ([on o; k] ++ out) (next gs)))
                   | LkPoisoned => rw_unlock_code (slot o) false (Log 103 [on o; k; 2%N; 0%N] (next gs))
                   | LkWouldBlock => Log 103 [on o; k; 2%N; 0%N] (next gs)
                   end))
         (* ---- DashSet ---- *)
         | QSins o k => ds o (dm_op o true (fun m => (am_insert m k 0%N, [on o; k; b2n (negb (am_contains m k))])) (fun out => Log 104 out (next gs)))
         | QSrem o k => ds o (dm_op o true (fun m => (am_remove m k, [on o; k; b2n (am_contains m k)])) (fun out => Log 105 out (next gs)))
         | QScon o k => ds o (dm_op o false (fun m => (m, [on o; k; b2n (am_contains m k)])) (fun out => Log 106 out (next gs)))
         | QSlen o => ds o (dm_op o false (fun m => (m, [on o; am_len m])) (fun out => Log 107 out (next gs)))
         (* ---- lazy_static ---- *)
         | QLz o => if is_kind specs o SLz then begin o (lazy_get o (fun v => Log 110 [on o; v] (next gs))) else skip o 1%N gs
         | QBad o => skip o 9%N gs
         end
       end) (nth b bodies []) [] [] []
  end.

Definition plcompile (specs : list ospec) (bodies : list (list plop)) : code :=
  plcomp (S (S (length bodies))) specs bodies 0.

Definition run_pl (fuel : nat) (ms : max_steps) (specs : list ospec) (bodies : list (list plop)) (script : list (option nat)) (rseed : N)
  : world * Prog.script_state * outcome :=
  run_exec Prog.scripted ms fuel (plcompile specs bodies) (build_store specs) (Prog.mkScript script rseed).
