(* Model of serialize_schedule / deserialize_schedule
   (shuttle-engine/src/scheduler/serialization.rs) on a 64-bit target.
   Strings are lists of Unicode scalar values (N); bytes are N < 256; bit strings are
   list bool, index 0 = bit 0 of byte 0 (bitvec's Lsb0 order over u8 storage).
   No proofs in this file. *)
From Coq Require Import List NArith Bool.
From SV Require Import Params Codec.Varint.
Import ListNotations.
Open Scope N_scope.

Inductive step := Task (id : N) | Random.
Record schedule := { seed : N; steps : list step }.

(* ---------- bits ---------- *)
(* w low bits of v, least significant first: BitField::store on an Lsb0 slice (little endian). *)
Fixpoint bits_le (w : nat) (v : N) : list bool :=
  match w with O => [] | S w' => N.odd v :: bits_le w' (N.div2 v) end.

(* BitField::load on an Lsb0 slice *)
Fixpoint from_bits_le (l : list bool) : N :=
  match l with [] => 0 | b :: r => (if b then 1 else 0) + 2 * from_bits_le r end.

Definition byte_bits (b : N) : list bool := bits_le 8 b.
Definition bytes_to_bits (bs : list N) : list bool := flat_map byte_bits bs.

(* as_raw_slice of a bitvec: ceil(len/8) bytes, dead bits of the last byte are 0 here
   because the vector was created all-zero *)
Fixpoint bits_to_bytes (fuel : nat) (l : list bool) : list N :=
  match fuel with
  | O => []
  | S f => match l with
           | [] => []
           | _ => from_bits_le (firstn 8 l) :: bits_to_bytes f (skipn 8 l)
           end
  end.

(* ---------- hex ---------- *)
Definition hex_digit (d : N) : N := if N.ltb d 10 then 48 + d else 87 + d.   (* '0'.. / 'a'.. *)
Definition hex_byte (b : N) : list N := [hex_digit (b / 16); hex_digit (b mod 16)].
Definition hex (bs : list N) : list N := flat_map hex_byte bs.

(* hex::decode's val(): 'A'..='F', 'a'..='f', '0'..='9' *)
Definition unhex_digit (c : N) : option N :=
  if (N.leb 48 c && N.leb c 57)%bool then Some (c - 48)
  else if (N.leb 97 c && N.leb c 102)%bool then Some (c - 87)
  else if (N.leb 65 c && N.leb c 70)%bool then Some (c - 55)
  else None.

(* None = FromHexError (odd length or invalid character).  A non-ASCII scalar value occupies
   several UTF-8 bytes, each >= 0x80 and hence invalid, so the result is None in that case too. *)
Fixpoint unhex (cs : list N) : option (list N) :=
  match cs with
  | [] => Some []
  | [_] => None
  | a :: b :: r =>
    match unhex_digit a, unhex_digit b, unhex r with
    | Some x, Some y, Some bs => Some (16 * x + y :: bs)
    | _, _, _ => None
    end
  end.

(* ---------- white space and line wrapping ---------- *)
(* char::is_whitespace = Unicode White_Space *)
Definition is_ws (c : N) : bool :=
  (N.leb 9 c && N.leb c 13) || N.eqb c 32 || N.eqb c 133 || N.eqb c 160 || N.eqb c 5760
  || (N.leb 8192 c && N.leb c 8202) || N.eqb c 8232 || N.eqb c 8233 || N.eqb c 8239
  || N.eqb c 8287 || N.eqb c 12288.

Definition strip_ws (t : list N) : list N := filter (fun c => negb (is_ws c)) t.

(* chunks(LINE_WIDTH).join('\n') *)
Fixpoint wrap (fuel : nat) (l : list N) : list N :=
  match fuel with
  | O => l
  | S f => if Nat.leb (length l) LINE_WIDTH then l
           else firstn LINE_WIDTH l ++ 10 :: wrap f (skipn LINE_WIDTH l)
  end.

(* ---------- serialize ---------- *)
Definition step_bits (w : nat) (s : step) : list bool :=
  match s with Task id => false :: bits_le w id | Random => [true] end.
Definition pack (w : nat) (ss : list step) : list bool := flat_map (step_bits w) ss.

Definition max_id (ss : list step) : N :=
  fold_right (fun s m => match s with Task id => N.max id m | Random => m end) 0 ss.

(* size_of * 8 - leading_zeros, then .max(1) *)
Definition id_bits (ss : list step) : nat := Nat.max (N.to_nat (N.size (max_id ss))) 1.

Definition zeros (n : nat) : list bool := repeat false n.

Definition ser_bytes (s : schedule) : list N :=
  let w := id_bits (steps s) in
  let p := pack w (steps s) in
  let total := (length (steps s) * (1 + w))%nat in
  let encoded := p ++ zeros (total - length p) in
  SCHEDULE_MAGIC :: varint (N.of_nat w) ++ varint (N.of_nat (length (steps s))) ++ varint (seed s)
    ++ bits_to_bytes (length encoded) encoded.

Definition to_text (bs : list N) : list N := let h := hex bs in wrap (length h) h.
Definition ser (s : schedule) : list N := to_text (ser_bytes s).

(* ---------- deserialize ---------- *)
Inductive dres := Decoded (s : schedule) | Invalid | Crash.

(* One constructor for the panicking construct that remains on the path: bitvec's
   `load` asserts 1 <= len <= 64 for a usize.  `get(range)` returning None is Invalid. *)
Inductive lres := LOk (v : N) | LNone | LPanic.
Definition load_range (w : nat) (bits : list bool) : lres :=
  if Nat.ltb (length bits) w then LNone
  else if (Nat.eqb w 0 || Nat.ltb 64 w)%bool then LPanic
  else LOk (from_bits_le (firstn w bits)).

Inductive rres := ROk (ss : list step) | RInvalid | RCrash.
Fixpoint read_steps (n : nat) (w : nat) (bits : list bool) : rres :=
  match n with
  | O => ROk []
  | S n' =>
    match bits with
    | [] => RInvalid                                   (* encoded.get(offset)? *)
    | true :: r => match read_steps n' w r with ROk ss => ROk (Random :: ss) | e => e end
    | false :: r =>
      match load_range w r with
      | LNone => RInvalid                              (* encoded.get(offset+1..end)? *)
      | LPanic => RCrash
      | LOk v => match read_steps n' w (skipn w r) with ROk ss => ROk (Task v :: ss) | e => e end
      end
    end
  end.

Definition deser_bytes (bytes : list N) : dres :=
  match bytes with
  | [] => Invalid                                       (* bytes.first()? *)
  | v :: r =>
    if negb (N.eqb v SCHEDULE_MAGIC) then Invalid else
    match dec r with None => Invalid | Some (w, r1) =>
    if (N.eqb w 0 || N.ltb 64 w)%bool then Invalid else  (* task_id_bits in 1..=usize::BITS *)
    match dec r1 with None => Invalid | Some (len, r2) =>
    match dec r2 with None => Invalid | Some (sd, r3) =>
    let bits := bytes_to_bits r3 in
    if N.ltb (N.of_nat (length bits)) len then Invalid else   (* schedule_len > encoded.len() *)
    match read_steps (N.to_nat len) (N.to_nat w) bits with
    | ROk ss => Decoded {| seed := sd; steps := ss |}
    | RInvalid => Invalid
    | RCrash => Crash
    end end end end
  end.

Definition deser (t : list N) : dres :=
  match unhex (strip_ws t) with
  | None => Invalid
  | Some bytes => deser_bytes bytes
  end.

(* well-formed schedules: what a Rust `Schedule` on a 64-bit target can hold *)
Definition wf_step (s : step) : Prop := match s with Task id => id < 2^64 | Random => True end.
Definition wf (s : schedule) : Prop :=
  seed s < 2^64 /\ Forall wf_step (steps s) /\ N.of_nat (length (steps s)) < 2^64.
