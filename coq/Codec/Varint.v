(* Model of `mod varint` in shuttle-engine/src/scheduler/serialization.rs.
   Bytes are N (< 256).  No proofs in this file. *)
From Coq Require Import List NArith Bool.
Import ListNotations.
Open Scope N_scope.

(* write_u64_varint: loop { current = val & 0x7F; val >>= 7; if val == 0 {[current]} else {current|0x80 :: ...} }
   A u64 needs at most 10 groups of 7 bits; fuel 10 is never exhausted for val < 2^64. *)
Fixpoint enc (fuel : nat) (v : N) : list N :=
  match fuel with
  | O => []
  | S f => let cur := N.land v 127 in
           let v' := N.shiftr v 7 in
           if N.eqb v' 0 then [cur] else N.lor cur 128 :: enc f v'
  end.

Definition varint (v : N) : list N := enc 10 v.

(* read_u64_varint, the loop after the first byte.  `None` = io::Error (short read or
   "varint exceeded 64 bits long"). *)
Fixpoint dec_loop (fuel : nat) (bs : list N) (result offset : N) : option (N * list N) :=
  match fuel with
  | O => None
  | S f =>
    match bs with
    | [] => None
    | cur :: r =>
      let result' := result + N.shiftl (N.land cur 127) offset in
      if N.eqb (N.land cur 128) 0 then Some (result', r)
      else let offset' := offset + 7 in
           if N.eqb offset' 63 then
             match r with
             | [] => None
             | last :: r' => if N.eqb last 1 then Some (result' + N.shiftl 1 63, r') else None
             end
           else dec_loop f r result' offset'
    end
  end.

Definition dec (bs : list N) : option (N * list N) :=
  match bs with
  | [] => None
  | first :: r =>
    if N.eqb (N.land first 128) 0 then Some (first, r)
    else dec_loop 10 r (N.land first 127) 7
  end.

(* space_needed: max((used_bits + 6) / 7, 1) *)
Definition space_needed (v : N) : N := N.max ((N.size v + 6) / 7) 1.
