(* C19 — tokio-compatible primitives (wrappers/tokio/impls/tokio/inner/src/sync/{mpsc,semaphore,mutex,rwlock,notify,oneshot,watch}.rs),
   models Lang/TokOps.v, Lang/TokNotify.v, Lang/TokWatch.v, Lang/Tok.v (segment-by-segment expansion of the Rust code over the
   BatchSemaphore of Prim/Semaphore.v and the polling contexts of Lang/AsyncOps.v), specification Lang/TokSpec.v.

   "Under Shuttle the tokio replacements behave as tokio documents: mpsc channels deliver each sent value exactly
    once in order, bounded ones never exceed capacity and give a slot back for every value received by any receive
    method, and closing or dropping either side is observed as tokio specifies; oneshot delivers at most one value;
    [watch ...]. Notify stores at most one permit, wakes exactly one registered waiter per notify_one and all current
    waiters per notify_waiters, and never loses a notification; Mutex, RwLock and Semaphore give exclusion, permit
    conservation and FIFO fairness; [...]. None of these operations makes a correct tokio program deadlock or panic."

   What is proved, and at which level:
   1. model functions (the code of one atomic block, any task, any engine state): Channel::send / Channel::recv refine a
      FIFO queue over arbitrary call sequences (C19_buffer_fifo), never exceed the bound (C19_push_within_bound);
   2. protocol level (Lang/TokSpec.v: permit counters + FIFO buffer + one phase per client between two scheduling
      points, all interleavings of any number of clients): capacity accounting, message accounting, FIFO exactly once
      (C19_protocol_invariant), a receiver holding a permit always finds a message (C19_recv_never_empty_handed), the
      buffer never exceeds the capacity (C19_protocol_capacity), and the full clause "a slot is given back for every
      value received by any receive method": at rest on an open channel free + len = k (C19_slots_at_rest).  Until
      /repo 7bf2a6b blocking_recv kept its slot (finding C19-F1, fixed): C19_F1_protocol_regression and
      C19_F1_model_regression show the repaired behaviour on the protocol machine and on the executable model;
   3. Semaphore / Mutex / RwLock: instances of the strictly fair BatchSemaphore, so conservation, exclusion and the
      fairness invariant are corollaries of C18 (C19_sem_conservation, C19_lock_exclusion); the zero-permit paths of
      Semaphore (fixed finding C19-F2, /repo bc6ccc4) are exercised by C19_F2_model_regression;
   4. oneshot: at most one value, delivered once (C19_oneshot_...); Notify: the pieces (C19_notify_...); its full
      contract is still FALSE for the code (finding C19-F3, exhibited on the executable model below; C19-F5 was
      fixed by /repo 074a1e3, see C19_F5_model_regression) and is checked against counting reference semantics
      by tools/toklayer.py;
   5. the link between 1./3. and 2. (every block of Lang/TokOps.v is one protocol step, the semaphores being counters by
      C18) is by construction of Lang/TokOps.v and is not a Coq theorem; the link model <-> Rust code is the
      differential check of tools/p_c19.py.
   6. watch (Lang/TokWatch.v: the RwLock's semaphore + two Notify objects + the cell; Lang/TokWatchSpec.v: the protocol
      machine over a version counter, one phase per sender between its commit and its notify_waiters, one phase per
      receiver between its notified() and its await; all interleavings of any number of senders and receivers):
      "watch receivers always see the latest value" - the borrowed value is the last one committed (C19_watch_latest_value),
      the version counts the commits and a receiver's version is the count at its last look, never ahead
      (C19_watch_version_counts), so has_changed / changed answer "changed" exactly for commits after the last look
      (C19_watch_maybe_changed_complete on the model's block, C19_watch_check_refines tying that block to the machine's
      WCheck); "and are notified of every change after their last look" - a receiver that waits un-notified has seen the
      current version of an open channel unless a sender is still between its commit (or closing drop) and its
      notify_waiters (C19_watch_invariant), that step is always enabled and leaves nobody un-notified
      (C19_watch_notifier_progress), so at rest no change notification is lost (C19_watch_no_lost_notification); a closed
      channel never commits again (C19_watch_closed_is_final).  The link machine <-> code trees is by construction of
      Lang/TokWatch.v (each block of watch_send_modify / changed_loop / watch_drop_tx is one label) and not a theorem.
   Not modelled: OnceCell, broadcast, time, select!, task abort inside these operations, reserve()/closed() of mpsc. *)
From Coq Require Import List NArith Bool Arith.
From SV Require Import Clock.VClock Prim.Objects Engine.Exec Prim.Semaphore Prim.SemInv Lang.Code Lang.SyncOps Lang.AsyncOps Lang.Prog.
From SV Require Import Lang.TokOps Lang.TokNotify Lang.TokWatch Lang.Tok Lang.TokSpec Lang.TokWatchSpec.
From SV Require Import Proofs.TokBase Proofs.TokProto Proofs.TokSync Proofs.TokHeld Proofs.TokWatchProto Proofs.TokWatchBase.
Import ListNotations.
Close Scope N_scope.

(* ================================================================== *)
(* 1. The buffer functions refine a FIFO queue                         *)
(* ================================================================== *)
Theorem C19_mpsc_codec : forall m, length (mp_tx m) = 3%nat -> mpsc_dec (mpsc_enc m) = Some m.
Proof. exact mpsc_codec. Qed.
Print Assumptions C19_mpsc_codec.

Theorem C19_buffer_fifo : forall ops st ch out st' out' m,
  qrun st ch ops out = Some (st', out') ->
  mpsc_get st ch = Some m -> chan_closed st ch = Some false ->
  exists m', mpsc_get st' ch = Some m' /\ out ++ mp_msgs m ++ pushes ops = out' ++ mp_msgs m' /\
             (forall k, mp_bound m = Some k -> mp_bound m' = Some k).
Proof. exact qrun_fifo. Qed.
Print Assumptions C19_buffer_fifo.

Theorem C19_push_within_bound : forall st ch v st' m k,
  chan_push st ch v = Some (st', true) -> mpsc_get st ch = Some m -> mp_bound m = Some k ->
  exists m', mpsc_get st' ch = Some m' /\ (N.of_nat (length (mp_msgs m')) <= k)%N.
Proof. exact chan_push_within_bound. Qed.
Print Assumptions C19_push_within_bound.

Theorem C19_push_refused_when_closed : forall st ch v st', chan_push st ch v = Some (st', false) -> st' = st /\ chan_closed st ch = Some true.
Proof. exact chan_push_closed. Qed.
Print Assumptions C19_push_refused_when_closed.

Theorem C19_pop_takes_front : forall st ch st' v cl,
  chan_pop st ch = Some (st', Some v, cl) ->
  exists m r, mpsc_get st ch = Some m /\ mp_msgs m = v :: r /\ mpsc_get st' ch = Some (mp_set_msgs m r) /\
              chan_closed st' ch = chan_closed st ch /\
              cl = (match r with [] => true | _ => false end) && N.eqb (mp_senders m) 0.
Proof. exact chan_pop_some. Qed.
Print Assumptions C19_pop_takes_front.

(* ================================================================== *)
(* 2. The channel protocol over all interleavings                      *)
(* ================================================================== *)
Theorem C19_protocol_invariant : forall k n steps a,
  arun (amp_init k n) steps = Some a ->
  a_free a + cnt is_sgranted (a_cl a) + length (a_q a) + cnt is_popped (a_cl a) + a_lost a = a_k a /\
  a_msgs a + cnt is_rgranted (a_cl a) + cnt is_pushed (a_cl a) = length (a_q a) /\
  a_sent a = a_rcvd a ++ a_q a.
Proof. exact amp_run_from_init. Qed.
Print Assumptions C19_protocol_invariant.

Theorem C19_protocol_step : forall a i l a', astep a i l = Some a' -> amp_inv a -> amp_inv a'.
Proof. exact amp_inv_step. Qed.
Print Assumptions C19_protocol_step.

Theorem C19_protocol_capacity : forall a, amp_inv a -> length (a_q a) <= a_k a.
Proof. exact amp_capacity. Qed.
Print Assumptions C19_protocol_capacity.

Theorem C19_recv_never_empty_handed : forall a i b,
  amp_inv a ->
  (nth_error (a_cl a) i = Some (CRecvGranted b) -> exists a', astep a i LRecvObserve = Some a') /\
  (nth_error (a_cl a) i = Some CIdle -> 0 < a_msgs a -> exists a', astep a i (LRecvNow b) = Some a').
Proof. intros a i b H. split; [apply pop_never_stuck_granted | apply pop_never_stuck_now]; assumption. Qed.
Print Assumptions C19_recv_never_empty_handed.

(* "a slot is given back for every value received by any receive method": at rest on an open channel the free slots and
   the buffered messages add up to the capacity, whatever mix of recv / try_recv / blocking_recv took the values *)
Theorem C19_slots_at_rest : forall k n steps a,
  arun (amp_init k n) steps = Some a ->
  forallb is_idle (a_cl a) = true -> a_closed a = false ->
  a_free a + length (a_q a) = k /\ a_msgs a = length (a_q a).
Proof. exact amp_at_rest. Qed.
Print Assumptions C19_slots_at_rest.

(* the hypotheses are satisfiable; regression of C19-F1: channel(1); send; blocking_recv ends with the slot free again,
   exactly like recv *)
Example C19_F1_protocol_regression :
  option_map (fun a => (a_free a, a_q a, a_rcvd a, a_cl a))
    (arun (amp_init 1 1) [(0, LSendNow 7); (0, LSendRelease); (0, LRecvNow true); (0, LRecvGiveBack)]) = Some (1, [], [7], [CIdle]) /\
  option_map (fun a => (a_free a, a_q a, a_rcvd a, a_cl a))
    (arun (amp_init 1 1) [(0, LSendNow 7); (0, LSendRelease); (0, LRecvNow false); (0, LRecvGiveBack)]) = Some (1, [], [7], [CIdle]) /\
  (* between the pop and the give-back the slot is accounted to the receiver, not lost *)
  option_map (fun a => (a_free a, a_q a, cnt is_popped (a_cl a)))
    (arun (amp_init 1 1) [(0, LSendNow 7); (0, LSendRelease); (0, LRecvNow true)]) = Some (0, [], 1).
Proof. repeat split; vm_compute; reflexivity. Qed.

Example C19_protocol_two_clients :
  option_map (fun a => (a_rcvd a, a_q a, a_free a, a_msgs a))
    (arun (amp_init 1 2) [(0, LSendNow 1); (1, LRecvStart false); (0, LSendRelease); (1, LRecvGrant); (0, LSendStart 2);
                          (1, LRecvObserve); (1, LRecvGiveBack); (0, LSendGrant); (0, LSendObserve); (0, LSendRelease)])
  = Some ([1], [2], 0, 1).
Proof. vm_compute; reflexivity. Qed.

(* ================================================================== *)
(* 3. Semaphore, Mutex, RwLock                                         *)
(* ================================================================== *)
Theorem C19_sem_conservation : forall e n c ops st',
  run (init_state e (sem_new n true c)) ops = Some st' ->
  (sm_avail (rs_s st') + granted (rs_s st') + rs_taken st' = n + rs_released st')%N /\
  sm_fair (rs_s st') = true /\ fair_head (rs_s st') /\ sem_wf (rs_s st').
Proof. exact tok_sem_conservation. Qed.
Print Assumptions C19_sem_conservation.

Theorem C19_lock_exclusion : forall e n c ops st',
  run (init_state e (sem_new n true c)) ops = Some st' ->
  (granted (rs_s st') + rs_taken st' <= n + rs_released st')%N.
Proof. exact tok_permits_out_bounded. Qed.
Print Assumptions C19_lock_exclusion.

Theorem C19_wrappers_are_fair_semaphores : forall n c, tok_sem_new n c = OSem (sem_new n true c).
Proof. exact tok_sem_is_fair_new. Qed.
Print Assumptions C19_wrappers_are_fair_semaphores.

(* ================================================================== *)
(* 4. oneshot and the pieces of Notify                                 *)
(* ================================================================== *)
Theorem C19_oneshot_at_most_one : forall o v o1 ok1 w1 v2, osh_send o v = (o1, ok1, w1) -> snd (fst (osh_send o1 v2)) = false.
Proof. exact osh_send_once. Qed.
Print Assumptions C19_oneshot_at_most_one.

Theorem C19_oneshot_delivers_once : forall v m o1 ok w o2 r o3 r',
  osh_send osh_new v = (o1, ok, w) -> osh_poll o1 m = (o2, r) -> osh_poll o2 m = (o3, r') ->
  ok = true /\ r = Some (Some v) /\ r' = Some None.
Proof. exact osh_delivers_once. Qed.
Print Assumptions C19_oneshot_delivers_once.

Theorem C19_oneshot_wakes_receiver : forall m v o1 r o2 ok w,
  osh_poll osh_new m = (o1, r) -> osh_send o1 v = (o2, ok, w) -> r = None /\ ok = true /\ w = Some m.
Proof. exact osh_pending_then_woken. Qed.
Print Assumptions C19_oneshot_wakes_receiver.

Theorem C19_notify_removes_exactly_one : forall id l l', remove_id id l = Some l' ->
  In id l /\ length l = S (length l') /\ (forall x, x <> id -> (In x l <-> In x l')).
Proof. exact remove_id_spec. Qed.
Print Assumptions C19_notify_removes_exactly_one.

Theorem C19_notify_pick_in_range : forall v range i, (0 < range)%N -> (v < TWO64)%N -> pick_round v range = Some i -> (i < range)%N.
Proof. exact pick_round_lt. Qed.
Print Assumptions C19_notify_pick_in_range.

(* ================================================================== *)
(* 5. The executable model on the witnesses of the findings            *)
(*    (regressions for the repaired ones)                              *)
(* ================================================================== *)
Definition verdict (objs : store) (bodies : list (list top)) (script : list (option nat)) : outcome :=
  snd (run_tok 4000 MSNone objs bodies script 1%N).

(* values received, in trace order *)
Definition received (objs : store) (bodies : list (list top)) (script : list (option nat)) : list N :=
  let w := fst (fst (run_tok 4000 MSNone objs bodies script 1%N)) in
  flat_map (fun ev => match ev with EvOp _ 61%N [_; 0%N; v] _ => [v] | _ => [] end) (rev (w_trace w)).

(* the result records with a given tag, in trace order *)
Definition oplog (objs : store) (bodies : list (list top)) (tag : N) : list (list N) :=
  let w := fst (fst (run_tok 4000 MSNone objs bodies [] 1%N)) in
  flat_map (fun ev => match ev with EvOp _ t vals _ => if N.eqb t tag then [vals] else [] | _ => [] end) (rev (w_trace w)).

Definition chan1 : store := mpsc_new (Some 1%N) 1 [0%N].

(* regression of C19-F1 (fixed by /repo 7bf2a6b): channel(1); blocking_send; blocking_recv; blocking_send passes, as it
   does with recv().await; and channel(2) after two blocking round trips accepts a try_send *)
Example C19_F1_model_regression :
  verdict chan1 [[TSend 1 0 0 7%N; TRecv 1 0; TSend 1 0 0 8%N]] [] = OPass /\
  verdict chan1 [[TSend 1 0 0 7%N; TRecv 0 0; TSend 1 0 0 8%N]] [] = OPass /\
  oplog (mpsc_new (Some 2%N) 1 [0%N]) [[TSend 1 0 0 1%N; TSend 1 0 0 2%N; TRecv 1 0; TRecv 1 0; TChanInfo 0; TSend 2 0 0 3%N]] 65%N = [[0; 0; 2]%N] /\
  oplog (mpsc_new (Some 2%N) 1 [0%N]) [[TSend 1 0 0 1%N; TSend 1 0 0 2%N; TRecv 1 0; TRecv 1 0; TChanInfo 0; TSend 2 0 0 3%N]] 60%N
    = [[1; 0]; [1; 0]; [2; 0]]%N.
Proof. repeat split; vm_compute; reflexivity. Qed.

(* regression of C19-F2 (fixed by /repo bc6ccc4): try_acquire_many(0) and acquire_many(0) return an empty permit without
   touching the semaphore; on a closed semaphore they report the closure *)
Example C19_F2_model_regression :
  verdict [tok_sem_new 1%N [0%N]] [[TTry 71%N true 0 0%N; TAcq 70%N false 0 0%N; TSemInfo 0]] [] = OPass /\
  oplog [tok_sem_new 1%N [0%N]] [[TTry 71%N true 0 0%N; TAcq 70%N false 0 0%N; TSemInfo 0]] 71%N = [[0%N]] /\
  oplog [tok_sem_new 1%N [0%N]] [[TTry 71%N true 0 0%N; TAcq 70%N false 0 0%N; TSemInfo 0]] 70%N = [[1%N]] /\
  oplog [tok_sem_new 1%N [0%N]] [[TTry 71%N true 0 0%N; TAcq 70%N false 0 0%N; TSemInfo 0]] 76%N = [[1; 0]%N] /\
  oplog [tok_sem_new 1%N [0%N]] [[TSemClose 0; TTry 71%N true 0 0%N; TAcq 70%N false 0 0%N]] 71%N = [[2%N]] /\
  oplog [tok_sem_new 1%N [0%N]] [[TSemClose 0; TTry 71%N true 0 0%N; TAcq 70%N false 0 0%N]] 70%N = [[0%N]] /\
  (* the locks have no zero path: RwLock::with_max_readers(0).write() still panics *)
  verdict [tok_sem_new 0%N [0%N]] [[TAcq 86%N true 0 0%N]] [] = OPanic 0.
Proof. repeat split; vm_compute; reflexivity. Qed.

(* C19-F3 (still open): a notified, dropped Notified loses the notification.
   Regression of C19-F5 (fixed by /repo 074a1e3): notify_waiters keeps the stored permit *)
Example C19_F3_model :
  verdict [notify_new] [[TNotified 0; TEnable 0; TNotifyOne 0; TDropN 0; TNotified 0; TAwaitN 1]] [] = ODeadlock [0].
Proof. vm_compute; reflexivity. Qed.

Example C19_F5_model_regression :
  verdict [notify_new] [[TNotifyOne 0; TNotifyAll 0; TNotified 0; TAwaitN 0]] [] = OPass /\
  verdict [notify_new] [[TNotifyOne 0; TNotified 0; TAwaitN 0]] [] = OPass /\
  (* and notify_waiters alone stores nothing *)
  verdict [notify_new] [[TNotifyAll 0; TNotified 0; TAwaitN 0]] [] = ODeadlock [0].
Proof. repeat split; vm_compute; reflexivity. Qed.

(* a producer task and the consuming main thread over channel(1), under every script of four binary choices:
   always passes, always delivers 1, 2, 3 in order *)
Definition pc_bodies : list (list top) :=
  [[TSpawnA 1; TRecv 0 0; TRecv 0 0; TRecv 0 0; TAwaitA 0]; [TSend 0 0 0 1%N; TSend 0 0 0 2%N; TSend 0 0 0 3%N]].
Definition scripts4 : list (list (option nat)) :=
  flat_map (fun a => flat_map (fun b => flat_map (fun c => map (fun d => [Some a; Some b; Some c; Some d]) [0; 1]) [0; 1]) [0; 1]) [0; 1].
Example C19_producer_consumer_all_scripts :
  forallb (fun s => match verdict chan1 pc_bodies s with OPass => true | _ => false end) scripts4 = true /\
  forallb (fun s => match received chan1 pc_bodies s with [1; 2; 3]%N => true | _ => false end) scripts4 = true.
Proof. split; vm_compute; reflexivity. Qed.

(* ================================================================== *)
(* 6. watch                                                            *)
(* ================================================================== *)
Theorem C19_watch_codec : forall x, length (wt_tx x) = 2 -> length (wt_rx x) = 3 -> watch_dec (watch_enc x) = Some x.
Proof. exact watch_codec. Qed.
Print Assumptions C19_watch_codec.

(* the protocol invariant holds in every reachable state of every interleaving of any number of senders and receivers *)
Theorem C19_watch_invariant : forall init ntx nrx steps w,
  wrun (wm_init init ntx nrx) steps = Some w ->
  w_val w = last (w_hist w) (w_init w) /\
  w_ver w = length (w_hist w) /\
  (forall i p s, nth_error (w_rx w) i = Some (p, s) -> s <= w_ver w) /\
  (forall i s, nth_error (w_rx w) i = Some (RWait false, s) -> (s = w_ver w /\ w_closed w = false) \/ some_notifier w) /\
  (w_closed w = true -> live_senders w = 0).
Proof. exact wm_reachable_inv. Qed.
Print Assumptions C19_watch_invariant.

Theorem C19_watch_step : forall w i l w', wstep w i l = Some w' -> wm_inv w -> wm_inv w'.
Proof. exact wm_inv_step. Qed.
Print Assumptions C19_watch_step.

Theorem C19_watch_latest_value : forall init ntx nrx steps w,
  wrun (wm_init init ntx nrx) steps = Some w -> w_val w = last (w_hist w) init.
Proof. exact wm_latest_value. Qed.
Print Assumptions C19_watch_latest_value.

Theorem C19_watch_version_counts : forall init ntx nrx steps w i p s,
  wrun (wm_init init ntx nrx) steps = Some w -> nth_error (w_rx w) i = Some (p, s) ->
  w_ver w = length (w_hist w) /\ s <= length (w_hist w).
Proof. exact wm_version_counts. Qed.
Print Assumptions C19_watch_version_counts.

Theorem C19_watch_no_lost_notification : forall init ntx nrx steps w i s,
  wrun (wm_init init ntx nrx) steps = Some w ->
  (forall j c, nth_error (w_tx w) j = Some c -> is_notifier c = false) ->
  nth_error (w_rx w) i = Some (RWait false, s) ->
  s = w_ver w /\ w_closed w = false.
Proof. exact wm_no_lost_notification. Qed.
Print Assumptions C19_watch_no_lost_notification.

Theorem C19_watch_notifier_progress : forall w j c,
  nth_error (w_tx w) j = Some c -> is_notifier c = true ->
  exists w', wstep w j WNotify = Some w' /\ (forall i s, nth_error (w_rx w') i = Some (RWait false, s) -> False).
Proof.
  intros w j c E Hn. destruct (wm_notify_enabled w j c E Hn) as [w' H]. exists w'. split; [exact H|].
  intros i s. exact (wm_notify_wakes_all w j w' i s H).
Qed.
Print Assumptions C19_watch_notifier_progress.

Theorem C19_watch_woken_receiver_runs : forall w i s, nth_error (w_rx w) i = Some (RWait true, s) -> exists w', wstep w i WWake = Some w'.
Proof. exact wm_wake_enabled. Qed.
Print Assumptions C19_watch_woken_receiver_runs.

Theorem C19_watch_closed_is_final : forall w j v, wm_inv w -> w_closed w = true -> wstep w j (WCommit v) = None.
Proof. exact wm_closed_no_commit. Qed.
Print Assumptions C19_watch_closed_is_final.

(* the model's block: maybe_changed answers Ok exactly when the versions differ (and then takes the channel's), Err exactly
   when they are equal on a closed channel, None otherwise, and changes nothing else *)
Theorem C19_watch_maybe_changed_complete : forall x slot,
  let nv := st_version (wt_state x) in
  (wt_ver x slot <> nv -> maybe_changed x slot = (wt_set_ver x slot nv, [0%N])) /\
  (wt_ver x slot = nv -> st_closed (wt_state x) = true -> maybe_changed x slot = (x, [1%N])) /\
  (wt_ver x slot = nv -> st_closed (wt_state x) = false -> maybe_changed x slot = (x, [2%N])).
Proof. exact maybe_changed_spec. Qed.
Print Assumptions C19_watch_maybe_changed_complete.

Theorem C19_watch_check_refines : forall x slot,
  ((wt_ver x slot) mod 2 = 0)%N ->
  snd (maybe_changed x slot) =
    if negb (Nat.eqb (abs_seen x slot) (abs_ver x)) then [0%N]
    else if st_closed (wt_state x) then [1%N] else [2%N].
Proof. exact maybe_changed_refines. Qed.
Print Assumptions C19_watch_check_refines.

(* the blocks of Lang/TokWatch.v that change the cell, against the machine's steps (abstraction: version word / 2, receiver
   version / 2, CLOSED bit): the commit block is WCommit (version + 1, the value sent, nothing else), after it an up-to-date
   receiver is behind; the last sender's drop sets CLOSED and never moves the version (WDropTx); a subscriber starts at the
   current version *)
Theorem C19_watch_commit_refines : forall v x,
  let x' := fst (commit_fun v x) in
  abs_ver x' = S (abs_ver x) /\ wt_value x' = v /\ abs_closed x' = abs_closed x /\
  wt_rx x' = wt_rx x /\ wt_tx x' = wt_tx x /\ wt_rxc x' = wt_rxc x /\ wt_txc x' = wt_txc x /\
  snd (commit_fun v x) = [wt_value x].
Proof. exact commit_fun_refines. Qed.
Print Assumptions C19_watch_commit_refines.

Theorem C19_watch_commit_makes_stale : forall v x slot,
  abs_seen x slot = abs_ver x -> abs_seen (fst (commit_fun v x)) slot <> abs_ver (fst (commit_fun v x)).
Proof. exact commit_fun_makes_stale. Qed.
Print Assumptions C19_watch_commit_makes_stale.

Theorem C19_watch_drop_tx_refines : forall slot x,
  let x' := fst (drop_tx_fun slot x) in
  abs_ver x' = abs_ver x /\ wt_value x' = wt_value x /\ wt_rx x' = wt_rx x /\
  (wt_txc x = 1%N -> abs_closed x' = true /\ snd (drop_tx_fun slot x) = [1%N]) /\
  (wt_txc x <> 1%N -> abs_closed x' = abs_closed x /\ snd (drop_tx_fun slot x) = [0%N]).
Proof. exact drop_tx_fun_refines. Qed.
Print Assumptions C19_watch_drop_tx_refines.

Theorem C19_watch_subscribe_refines : forall rslot x, rslot < length (wt_rx x) ->
  let x' := fst (subscribe_fun rslot x) in
  abs_seen x' rslot = abs_ver x' /\ abs_ver x' = abs_ver x /\ wt_value x' = wt_value x /\ wt_rxc x' = (wt_rxc x + 1)%N.
Proof. exact subscribe_fun_refines. Qed.
Print Assumptions C19_watch_subscribe_refines.

Theorem C19_watch_version_word : forall n,
  st_version (2 * n) = (2 * n)%N /\ st_version (2 * n + 1) = (2 * n)%N /\ st_closed (2 * n) = false /\ st_closed (2 * n + 1) = true.
Proof. intros n. repeat split; [apply st_version_open|apply st_version_closed|apply st_closed_open|apply st_closed_closed]. Qed.
Print Assumptions C19_watch_version_word.

(* the hypotheses are satisfiable: a receiver registers, finds nothing new and waits; a sender commits - in the window
   before its notify_waiters the receiver waits un-notified with a stale version, covered by the pending notifier -;
   after the notify the receiver is woken, goes round and sees the change *)
Example C19_watch_protocol_window :
  option_map (fun w => (w_rx w, w_tx w, w_ver w, w_val w))
    (wrun (wm_init 5 1 1) [(0, WRegister); (0, WCheck); (0, WCommit 7)]) = Some ([(RWait false, 0)], [SPending], 1, 7) /\
  option_map (fun w => (w_rx w, w_tx w))
    (wrun (wm_init 5 1 1) [(0, WRegister); (0, WCheck); (0, WCommit 7); (0, WNotify)]) = Some ([(RWait true, 0)], [SIdle]) /\
  option_map (fun w => (w_rx w, w_tx w))
    (wrun (wm_init 5 1 1) [(0, WRegister); (0, WCheck); (0, WCommit 7); (0, WNotify); (0, WWake); (0, WRegister); (0, WCheck)])
    = Some ([(RIdle, 1)], [SIdle]) /\
  (* the last sender's drop closes the channel and wakes the waiting receiver, whose next check reports the closure *)
  option_map (fun w => (w_rx w, w_tx w, w_closed w))
    (wrun (wm_init 5 1 1) [(0, WRegister); (0, WCheck); (0, WDropTx); (0, WNotify); (0, WWake); (0, WRegister); (0, WCheck)])
    = Some ([(RIdle, 0)], [SGone], true).
Proof. repeat split; vm_compute; reflexivity. Qed.

(* a channel that lost its receiver is re-opened by subscribe (the machine's WSubscribe: the new receiver starts at the current
   version); the subscriber looks, waits, and a commit that comes after its look reaches it - the interleaving of seed C19-4 *)
Example C19_watch_protocol_reopen :
  option_map (fun w => (w_rx w, w_tx w, w_ver w))
    (wrun (wm_init 5 1 1) [(0, WDropRx); (0, WSubscribe); (0, WRegister); (0, WCheck); (0, WCommit 7); (0, WNotify); (0, WWake); (0, WRegister); (0, WCheck)])
    = Some ([(RIdle, 1)], [SIdle], 1) /\
  (* a commit before the subscription is simply part of what the subscriber has seen *)
  option_map (fun w => (w_rx w, w_ver w))
    (wrun (wm_init 5 1 1) [(0, WDropRx); (0, WCommit 7); (0, WNotify); (0, WSubscribe); (0, WRegister); (0, WCheck)]) = Some ([(RWait false, 1)], 1).
Proof. split; vm_compute; reflexivity. Qed.

(* the executable model (code trees over the semaphore, the two Notify objects and the cell): a receiver task blocked in
   changed() is woken by a send under every script of four binary choices, sees the new value, and a second changed()
   after the sender's drop reports the closure; the run always passes *)
Definition watch1 : store := watch_new 5%N 1 1 [0%N].
Definition wc_bodies : list (list top) :=
  [[TSpawnA 1; TWSend 0 0 7%N; TWDropTx 0 0; TAwaitA 0]; [TWChanged 0 0; TWBorrowUpd 0 0; TWChanged 0 0]].
Definition woplog (bodies : list (list top)) (script : list (option nat)) (tag : N) : list (list N) :=
  let w := fst (fst (run_tok 4000 MSNone watch1 bodies script 1%N)) in
  flat_map (fun ev => match ev with EvOp _ t vals _ => if N.eqb t tag then [vals] else [] | _ => [] end) (rev (w_trace w)).
Example C19_watch_model_all_scripts :
  forallb (fun s => match verdict watch1 wc_bodies s with OPass => true | _ => false end) scripts4 = true /\
  forallb (fun s => match woplog wc_bodies s 106%N with [[1]; [0]]%N => true | _ => false end) scripts4 = true /\
  forallb (fun s => match woplog wc_bodies s 104%N with [[7]]%N => true | _ => false end) scripts4 = true.
Proof. repeat split; vm_compute; reflexivity. Qed.

(* ================================================================== *)
(* 7. SemaphorePermit::merge / split, RwLockWriteGuard::downgrade      *)
(*    move permits between what a body holds; none is created or lost  *)
(* ================================================================== *)
Theorem C19_merge_conserves : forall s hs n1 h1 n2 h2,
  take_held s hs = Some (n1, h1) -> take_held s h1 = Some (n2, h2) ->
  total_held s ((s, (n1 + n2)%N) :: h2) = total_held s hs.
Proof. exact merge_held_total. Qed.
Print Assumptions C19_merge_conserves.

Theorem C19_split_conserves : forall s n hs hs', split_held s n hs = Some hs' -> total_held s ((s, n) :: hs') = total_held s hs.
Proof. exact split_held_total. Qed.
Print Assumptions C19_split_conserves.

Theorem C19_downgrade_conserves : forall s hs k h', take_held s hs = Some (k, h') -> (1 <= k)%N ->
  (total_held s ((s, 1%N) :: h') + (k - 1) = total_held s hs)%N.
Proof. exact downgrade_held_total. Qed.
Print Assumptions C19_downgrade_conserves.

Theorem C19_other_objects_untouched : forall s s' hs n hs', s <> s' -> take_held s hs = Some (n, hs') -> total_held s' hs' = total_held s' hs.
Proof. exact take_held_other. Qed.
Print Assumptions C19_other_objects_untouched.

(* write; downgrade; a second reader gets in, a writer does not; split and merge around a semaphore of 3 *)
Example C19_downgrade_split_merge_model :
  oplog [tok_sem_new 2%N [0%N]] [[TAcq 86%N true 0 2%N; TDowngrade 0 2%N; TTry 87%N false 0 1%N; TTry 88%N false 0 2%N]] 87%N = [[0%N]] /\
  oplog [tok_sem_new 2%N [0%N]] [[TAcq 86%N true 0 2%N; TDowngrade 0 2%N; TTry 87%N false 0 1%N; TTry 88%N false 0 2%N]] 88%N = [[1%N]] /\
  oplog [tok_sem_new 3%N [0%N]] [[TAcq 70%N false 0 3%N; TSplit 0 1%N; TRel 0; TSemInfo 0; TSplit 0 5%N; TMerge 0; TRel 0; TSemInfo 0]] 76%N
    = [[1; 0]; [3; 0]]%N /\
  oplog [tok_sem_new 3%N [0%N]] [[TAcq 70%N false 0 2%N; TAcq 70%N false 0 1%N; TMerge 0; TRel 0; TSemInfo 0]] 76%N = [[3; 0]%N].
Proof. repeat split; vm_compute; reflexivity. Qed.

(* ================================================================== *)
(* 8. OnceCell (model only: Semaphore::new(1) + the cell; the contract  *)
(*    is judged by the oracle of tools/toklayer.py)                     *)
(* ================================================================== *)
(* two tasks race get_or_init with different values and initialisers that yield, a third sets: under every script of four
   binary choices the run passes and every get_or_init / get of the run reports one and the same value *)
Definition oc_bodies : list (list top) :=
  [[TSpawnA 1; TOcInit 0 5%N 1 true; TOcGet 0; TAwaitA 0]; [TOcInit 0 6%N 1 true; TOcSet 0 9%N; TOcGet 0]].
Definition oc_values (script : list (option nat)) : list N :=
  let w := fst (fst (run_tok 4000 MSNone oc_new oc_bodies script 1%N)) in
  flat_map (fun ev => match ev with
                      | EvOp _ 119%N [1%N; v] _ => [v]
                      | EvOp _ 118%N [1%N; v] _ => [v]
                      | _ => [] end) (rev (w_trace w)).
Definition all_equal (l : list N) : bool := match l with [] => false | x :: r => forallb (N.eqb x) r end.
Example C19_oncecell_one_value_all_scripts :
  forallb (fun s => match verdict oc_new oc_bodies s with OPass => true | _ => false end) scripts4 = true /\
  forallb (fun s => all_equal (oc_values s) && Nat.eqb (length (oc_values s)) 4) scripts4 = true.
Proof. split; vm_compute; reflexivity. Qed.
