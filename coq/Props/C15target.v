(* C15, last clause - "replay restricted to a target clock never drops a step the target depends on"
   (shuttle-schedulers/src/replay.rs: set_target_clock, next_task).  Model: Sched/ReplayTarget.v.

   What is proved (for every schedule, every offered list with arbitrary clocks, every target):
     - a call of next_task drops only task steps whose task is offered with a clock that is NOT below the target
       (C15_target_drops_only_concurrent), and what it runs is below the target (C15_target_runs_only_below);
     - a step whose task is offered with a clock below the target is never dropped (C15_target_keeps_below), hence -
       clocks only grow (C15 monotonicity theorems of Props/C15edges.v) - neither is any step after which the task's
       clock is below the target, i.e. any step the target depends on (C15_target_keeps_dependency);
     - without a target the scheduler is the plain replay scheduler (C15_target_none_is_plain_replay);
     - accounting of consumed steps, steps_skipped and the data source (C15_target_accounting): the random steps that
       follow a dropped step are consumed together with one value of the data source each, so the values that later
       draws see are the recorded ones.
   What is NOT a theorem, and is false for the code (known findings F36, F37, exhibited on the real crate by the
   `replaytarget` leg of tools/p_c15.py): the whole-run statement "the replay reaches the target event".  The decision
   uses the clock the task has BEFORE the step, in the REPLAY; a task that the target depends on can go on to execute a
   step that is concurrent with the target and blocks for ever on an event of a dropped task (F36: the next step of that
   task in the schedule fails with "scheduled task is not runnable" before the target is reached), and a dropped step
   that spawned a task shifts the ids of the tasks created later (F37). *)
From Coq Require Import List NArith Bool Arith.
From SV Require Import Clock.VClock Engine.Exec Prim.Objects Prim.Semaphore Sched.ReplayTarget Proofs.ReplayTargetProofs Proofs.ClockPrecision.
Import ListNotations.
Close Scope N_scope.

Theorem C15_target_drops_only_concurrent : forall target offered steps t c,
  In (t, c) (rt_dropped target offered steps) -> find_task offered t = Some c /\ vle c target = false.
Proof. exact rt_dropped_not_below. Qed.
Print Assumptions C15_target_drops_only_concurrent.

Theorem C15_target_runs_only_below : forall tc offered steps sk vals n t st,
  rt_loop (Some tc) offered sk steps vals n = (RtRun t, st) ->
  exists c, find_task offered t = Some c /\ vle c tc = true.
Proof. exact rt_loop_run_below. Qed.
Print Assumptions C15_target_runs_only_below.

Theorem C15_target_keeps_below : forall tc offered t c r vals n,
  find_task offered t = Some c -> vle c tc = true ->
  rt_loop (Some tc) offered false (StTask t :: r) vals n = (RtRun t, mkRt r vals n).
Proof. exact rt_keeps_head. Qed.
Print Assumptions C15_target_keeps_below.

Theorem C15_target_keeps_dependency : forall tc offered t c c_after r vals n,
  find_task offered t = Some c -> vle c c_after = true -> vle c_after tc = true ->
  rt_loop (Some tc) offered false (StTask t :: r) vals n = (RtRun t, mkRt r vals n).
Proof. exact rt_keeps_dependency. Qed.
Print Assumptions C15_target_keeps_dependency.

Theorem C15_target_none_is_plain_replay : forall offered t r vals n,
  rt_loop None offered false (StTask t :: r) vals n =
  match find_task offered t with Some _ => (RtRun t, mkRt r vals n) | None => (RtNotRunnable t, mkRt (StTask t :: r) vals n) end.
Proof. exact rt_no_target. Qed.
Print Assumptions C15_target_none_is_plain_replay.

Theorem C15_target_accounting : forall tg offered steps sk vals n a st,
  rt_loop tg offered sk steps vals n = (a, st) ->
  exists consumed, steps = consumed ++ match a with RtRun t => StTask t :: rt_steps st | _ => rt_steps st end /\
                   rt_skipped st = n + length consumed /\
                   rt_vals st = skipn (count_random consumed) vals.
Proof. exact rt_loop_accounting. Qed.
Print Assumptions C15_target_accounting.

(* the schedule of shuttle/tests/basic/replay.rs::replay_causality_with_random at the decision where task 3 (clock
   [2;0;0;1], concurrent with the target [2;2;1]) is named: its step and the three random steps after it are consumed,
   three values of the data source with them, and task 2 runs *)
Example C15_target_skips_step_and_randoms :
  rt_next_task (Some [2; 2; 1]%N)
    (mkRt [StTask 3; StRandom; StRandom; StRandom; StTask 2; StTask 0] [11; 12; 13; 14]%N 0)
    [(0, [2; 0; 0]%N); (2, [2; 0; 1]%N); (3, [2; 0; 0; 1]%N)]
  = (RtRun 2, mkRt [StTask 0] [14%N] 4).
Proof. vm_compute. reflexivity. Qed.

Example C15_target_hypotheses_satisfiable :
  find_task [(0, [2; 0; 0]%N); (2, [2; 0; 1]%N)] 2 = Some [2; 0; 1]%N /\ vle [2; 0; 1]%N [2; 1; 1]%N = true /\ vle [2; 1; 1]%N [2; 2; 1]%N = true.
Proof. vm_compute. auto. Qed.

(* ---- precision ("... connected by no chain of such edges are never reported as ordered"), for the one place where the
   model keeps a queue of stamped clocks that an operation consumes partially: the permit batches of the BatchSemaphore
   (PermitsAvailable::acquire).  An acquisition of k > 0 permits from a queue without empty batches joins the clocks of
   exactly the first m batches, each of which gives it at least one permit (the first m-1 batches hold fewer than k
   permits together), and leaves no empty batch behind; a release of k > 0 permits appends a non-empty batch.  So no
   acquisition ever inherits the clock of a release from which it took nothing.  (The other primitives stamp one clock
   per object or per message: their edge theorems in Props/C15edges.v are equalities.)
   On the crate this is decided by the clock comparison of every record with this model: a record whose clock is
   pointwise above the model's is reported as a precision violation with the program as the failing input. *)
Theorem C15_precision_permit_batches : forall bs k clk bs' clk' miss,
  batches_pos bs -> (0 < k)%N ->
  take_batches bs k clk = (bs', clk', miss) ->
  exists m, (m <= length bs)%nat /\
            clk' = fold_left update (map snd (firstn m bs)) clk /\
            (sizes_sum (firstn (m - 1) bs) < k)%N /\
            batches_pos bs'.
Proof. exact take_batches_precise. Qed.
Print Assumptions C15_precision_permit_batches.

Theorem C15_precision_release_nonempty : forall bs k c, batches_pos bs -> (0 < k)%N -> batches_pos (bs ++ [(k, c)]).
Proof. exact release_keeps_batches_pos. Qed.
Print Assumptions C15_precision_release_nonempty.

Example C15_precision_exact_batch_is_removed :
  take_batches [(2, [1; 0]); (1, [0; 3])]%N 2 [] = ([(1, [0; 3])]%N, [1; 0]%N, 0%N) /\
  take_batches [(1, [0; 3])]%N 1 [] = ([], [0; 3]%N, 0%N).
Proof. vm_compute. auto. Qed.
