(* C08: what the runtime hands to the scheduler, and what it does with the answer.
   Statements: Engine/Stmt.v.  Proofs: Proofs/EngineProofs.v. *)
From Coq Require Import List NArith Bool Arith.
From SV Require Import Clock.VClock Prim.Objects Prim.Atomic Engine.Exec Engine.Inv Sched.Replay Engine.Stmt
  Lang.Prog Proofs.EngineProofs.
Import ListNotations.

Theorem C08_offered : stmt_offered. Proof. exact offered_proof. Qed.
Print Assumptions C08_offered.

Theorem C08_current_arg : stmt_current_arg. Proof. exact current_arg_proof. Qed.
Print Assumptions C08_current_arg.

Theorem C08_yield_flag : stmt_yield_flag. Proof. exact yield_flag_proof. Qed.
Print Assumptions C08_yield_flag.

Theorem C08_yield_consumed : stmt_yield_consumed. Proof. exact yield_consumed_proof. Qed.
Print Assumptions C08_yield_consumed.

Theorem C08_chosen_runs : stmt_chosen_runs. Proof. exact chosen_runs_proof. Qed.
Print Assumptions C08_chosen_runs.

Theorem C08_none_stops : stmt_none_stops. Proof. exact none_stops_proof. Qed.
Print Assumptions C08_none_stops.

(* non-vacuity: two threads, an atomic, park/unpark, join.  The run passes, four decisions offer
   both tasks, and one decision is taken with the yield flag set (after the park); for that
   decision the ghost state carries the pending request too. *)
Definition c08_prog : list (list op) :=
  [[PSpawn 1; PAtomic 0 (AAdd 1); PPark; PJoin 0]; [PAtomic 0 (AAdd 2); PUnparkT 0]].
Definition c08_script : list (option nat) :=
  [Some 0; Some 0; Some 1; Some 1; Some 0; Some 1; Some 1]%nat.
Definition c08_run := run_prog 40 MSNone [OAtomic 0 []] c08_prog c08_script 0.
Definition multi_offer (ev : event) : bool :=
  match ev with EvDecision _ off _ _ _ => Nat.ltb 1 (length off) | _ => false end.
Definition yielding_dec (ev : event) : bool :=
  match ev with EvDecision pre _ _ y _ => y && has_yielded pre | _ => false end.

Example c08_nonvacuous :
  snd c08_run = OPass
  /\ length (filter multi_offer (w_trace (fst (fst c08_run)))) = 4%nat
  /\ length (filter yielding_dec (w_trace (fst (fst c08_run)))) = 1%nat
  /\ length (decisions (w_trace (fst (fst c08_run)))) = 9%nat.
Proof. vm_compute. repeat split; reflexivity. Qed.
