(* ===================================================================== *)
(*  SV.Props.C11 -- the PCT scheduler (shuttle-schedulers/src/pct.rs).    *)
(*  STATEMENTS ONLY: every proof is `exact <lemma of PctProofs>`; the     *)
(*  Examples are test vectors produced by the REAL Rust code (rand 0.8.8, *)
(*  rand_pcg 0.3.1, and the repository's own PctScheduler driven through  *)
(*  the Scheduler trait with fabricated tasks, debug build; generator:    *)
(*  /tmp/ag-c11/rs) and are checked by vm_compute.                        *)
(*                                                                        *)
(*  Conventions: `dbg` = debug assertions compiled in; `fuel` = bound on  *)
(*  the iterations of each rejection loop (model device only, see         *)
(*  C11_pct_deterministic); priorities: SMALLER number = HIGHER priority  *)
(*  (next_task uses min_by_key).                                          *)
(* ===================================================================== *)

From Coq Require Import NArith Arith List Bool Permutation Sorted.
From SV Require Import Sched.Random Sched.Pct Proofs.RandomProofs Proofs.PctProofs.
Import ListNotations.
Local Open Scope N_scope.

(* ===================================================================== *)
(*  pct_strict                                                            *)
(* ===================================================================== *)

(* Without any assumption on the state: the returned task is offered and
   its key `priorities.get(id)` (after this call's bookkeeping) is least
   among the offered ones in Rust's order on Option<&usize>
   (None < Some(_), Some by value).                                        *)
Theorem C11_pct_strict :
  forall dbg fuel p offered current y t p',
    pct_next_task dbg fuel p offered current y = Done (t, p') ->
    In t offered /\
    forall u, In u offered ->
      key_le (pm_get t (pct_priorities p')) (pm_get u (pct_priorities p')) = true.
Proof. exact pct_next_task_min. Qed.
Print Assumptions C11_pct_strict.

(* In a well-formed state, and when `current` names a known task (always
   so in a debug build, where the call panics otherwise), every offered
   task has a priority afterwards and the returned one is STRICTLY best:
   the choice does not depend on the order of `runnable`.                  *)
Theorem C11_pct_strict_unique :
  forall dbg fuel p offered current y t p',
    pct_wf p ->
    (dbg = true \/
     forall c mx, current = Some c -> max_id offered = Some mx ->
                  c < N.max (pm_len (pct_priorities p)) (1 + mx)) ->
    pct_next_task dbg fuel p offered current y = Done (t, p') ->
    In t offered /\
    exists a, pm_get t (pct_priorities p') = Some a /\
      forall u, In u offered -> u <> t ->
        exists b, pm_get u (pct_priorities p') = Some b /\ a < b.
Proof. exact pct_next_task_strict. Qed.
Print Assumptions C11_pct_strict_unique.

(* ===================================================================== *)
(*  pct_distinct                                                          *)
(*  pct_wf p: the keys are exactly 0..len-1, the priorities are pairwise  *)
(*  distinct, and all are below next_priority.  (The Rust debug_assert_eq *)
(*  in new_execution compares the number of distinct (key, value) PAIRS   *)
(*  with len(), which holds for any map -- it does not check this.)       *)
(* ===================================================================== *)

Theorem C11_pct_distinct_init :
  forall seed max_depth max_iterations p,
    pct_new_from_seed seed max_depth max_iterations = Done p ->
    0 < max_depth /\ pct_wf p /\
    pct_iterations p = 0 /\ pct_max_iterations p = max_iterations /\
    pct_max_depth p = max_depth /\ pct_steps p = 0 /\ pct_max_steps p = 0 /\
    pct_change_points p = [] /\ pm_len (pct_priorities p) = DEFAULT_INLINE_TASKS.
Proof. exact pct_new_from_seed_spec. Qed.
Print Assumptions C11_pct_distinct_init.

Theorem C11_pct_distinct_new_execution :
  forall dbg fuel p s p',
    pct_wf p -> pct_new_execution dbg fuel p = Done (Some (s, p')) -> pct_wf p'.
Proof. exact pct_new_execution_wf. Qed.
Print Assumptions C11_pct_distinct_new_execution.

(* next_task: needs `current` to be a known task when it is demoted.  In
   a release build an unknown `current` is silently inserted as a stray
   key (Example pct_release_unknown_current below), after which a new task
   can be left without any priority.                                       *)
Theorem C11_pct_distinct_next_task :
  forall dbg fuel p offered current y t p',
    pct_wf p ->
    (dbg = true \/
     forall c mx, current = Some c -> max_id offered = Some mx ->
                  c < N.max (pm_len (pct_priorities p)) (1 + mx)) ->
    pct_next_task dbg fuel p offered current y = Done (t, p') ->
    pct_wf p' /\
    (forall mx, max_id offered = Some mx ->
       pm_len (pct_priorities p') = N.max (pm_len (pct_priorities p)) (1 + mx)).
Proof. exact pct_next_task_wf. Qed.
Print Assumptions C11_pct_distinct_next_task.

Theorem C11_pct_distinct_next_u64 :
  forall p x p', pct_wf p -> pct_next_u64 p = (x, p') -> pct_wf p'.
Proof. exact pct_next_u64_wf. Qed.
Print Assumptions C11_pct_distinct_next_u64.

(* ===================================================================== *)
(*  pct_order_changes_only                                                *)
(* ===================================================================== *)

(* EVERYTHING next_task does (pct_next_task_effect, defined in Sched/Pct.v):
   for new tasks len, len+1, ..., max offered id, in this order, one target
   each is drawn from [1, current len] -- task 0 is never a target --
   and insert_effect is applied; then, iff  length offered > 1  and
   (steps is a change point or is_yielding), `current` (which must be
   Some) is set to the then-lowest priority; steps is incremented iff
   length offered > 1 (max_steps follows); nothing else changes; the
   answer is min_by_key on the result.                                     *)
Theorem C11_pct_next_task_effect :
  forall dbg fuel p offered current y t p',
    pct_wf p ->
    pct_next_task dbg fuel p offered current y = Done (t, p') ->
    exists targets, pct_next_task_effect dbg p offered current y t p' targets.
Proof. exact pct_next_task_effect_holds. Qed.
Print Assumptions C11_pct_next_task_effect.

(* One insertion: the new task gets next_priority itself if it is its own
   target, otherwise the target's old priority ...                         *)
Theorem C11_pct_insert_new_task :
  forall new target np m,
    (target <> new -> pm_get target m <> None) ->
    pm_get new (insert_effect new target np m) =
    if target =? new then Some np else pm_get target m.
Proof. exact insert_effect_get_new. Qed.
Print Assumptions C11_pct_insert_new_task.

(* ... and the target drops to the fresh lowest priority next_priority.    *)
Theorem C11_pct_insert_target :
  forall new target np m,
    target <> new -> pm_get target m <> None ->
    pm_get target (insert_effect new target np m) = Some np.
Proof. exact insert_effect_get_target. Qed.
Print Assumptions C11_pct_insert_target.

(* A task known before the call that is neither a drawn target nor
   `current` keeps its priority ...                                        *)
Theorem C11_pct_order_changes_only :
  forall dbg p offered current y t p' targets a,
    pct_next_task_effect dbg p offered current y t p' targets ->
    a < pm_len (pct_priorities p) -> ~ In a targets -> current <> Some a ->
    pm_get a (pct_priorities p') = pm_get a (pct_priorities p).
Proof. exact pct_next_task_unchanged. Qed.
Print Assumptions C11_pct_order_changes_only.

(* ... hence the relative order of two such tasks is unchanged.            *)
Theorem C11_pct_order_preserved :
  forall dbg p offered current y t p' targets a b,
    pct_next_task_effect dbg p offered current y t p' targets ->
    a < pm_len (pct_priorities p) -> b < pm_len (pct_priorities p) ->
    ~ In a targets -> ~ In b targets -> current <> Some a -> current <> Some b ->
    key_le (pm_get a (pct_priorities p')) (pm_get b (pct_priorities p')) =
    key_le (pm_get a (pct_priorities p)) (pm_get b (pct_priorities p)).
Proof. exact pct_next_task_order. Qed.
Print Assumptions C11_pct_order_preserved.

(* `current` is demoted to the fresh lowest priority iff more than one
   task is offered and (steps is a change point or is_yielding).           *)
Theorem C11_pct_demotion :
  forall dbg p offered current y t p' targets,
    pct_next_task_effect dbg p offered current y t p' targets ->
    ((1 <? N.of_nat (length offered)) &&
     (memN (pct_steps p) (pct_change_points p) || y) = true ->
     exists c, current = Some c /\
       pm_get c (pct_priorities p') =
         Some (pct_next_priority p + N.of_nat (length targets)) /\
       pct_next_priority p' = pct_next_priority p + N.of_nat (length targets) + 1) /\
    ((1 <? N.of_nat (length offered)) &&
     (memN (pct_steps p) (pct_change_points p) || y) = false ->
     pct_priorities p' =
       insert_effects (pm_len (pct_priorities p)) (pct_next_priority p) targets
                      (pct_priorities p) /\
     pct_next_priority p' = pct_next_priority p + N.of_nat (length targets)).
Proof. exact pct_next_task_demoted. Qed.
Print Assumptions C11_pct_demotion.

(* ===================================================================== *)
(*  pct_change_points                                                     *)
(* ===================================================================== *)

(* After new_execution in iteration >= 2: the change points are pairwise
   distinct, each in [1, max_steps) -- i.e. [1, max_steps - 1]; the source
   comment "[1, self.max_steps]" is off by one --, there are exactly
   min(max_depth - 1, max_steps - 1) of them, and steps restarts at 0.     *)
Theorem C11_pct_change_points :
  forall dbg fuel p s p',
    pct_wf p -> 0 < pct_iterations p ->
    pct_new_execution dbg fuel p = Done (Some (s, p')) ->
    NoDup (pct_change_points p') /\
    (forall c, In c (pct_change_points p') -> 1 <= c /\ c < pct_max_steps p) /\
    N.of_nat (length (pct_change_points p')) =
      N.min (pct_max_depth p - 1) (pct_max_steps p - 1) /\
    pct_steps p' = 0.
Proof. exact pct_change_points_spec. Qed.
Print Assumptions C11_pct_change_points.

(* The first execution runs with the construction-time priorities
   (task i has priority i: oldest first) and without change points.        *)
Theorem C11_pct_first_execution :
  forall seed max_depth max_iterations p dbg fuel s p',
    pct_new_from_seed seed max_depth max_iterations = Done p ->
    pct_new_execution dbg fuel p = Done (Some (s, p')) ->
    pct_change_points p' = [] /\ pct_priorities p' = pct_priorities p.
Proof. exact pct_first_execution_no_change_points. Qed.
Print Assumptions C11_pct_first_execution.

(* steps goes up by exactly one on each call with more than one offered
   task (and is compared with the change points before that); the change
   points and the other configuration fields never change in next_task.    *)
Theorem C11_pct_steps :
  forall dbg fuel p offered current y t p',
    pct_next_task dbg fuel p offered current y = Done (t, p') ->
    pct_max_iterations p' = pct_max_iterations p /\
    pct_max_depth p' = pct_max_depth p /\
    pct_iterations p' = pct_iterations p /\
    pct_change_points p' = pct_change_points p /\
    pct_data_source p' = pct_data_source p /\
    pct_steps p' = (if 1 <? N.of_nat (length offered) then pct_steps p + 1 else pct_steps p) /\
    pct_max_steps p' = (if 1 <? N.of_nat (length offered)
                        then N.max (pct_max_steps p) (pct_steps p + 1) else pct_max_steps p).
Proof. exact pct_next_task_frame. Qed.
Print Assumptions C11_pct_steps.

(* So each change point fires at most once: along any call sequence the
   number of calls at which a change point demotes `current` is at most
   the number of change points not yet passed ...                          *)
Theorem C11_pct_change_point_demotions :
  forall dbg fuel (cs : list pcall) (p : pct),
    (cp_demotions dbg fuel p cs <=
     length (filter (fun c => (pct_steps p <=? c)%N) (pct_change_points p)))%nat.
Proof. exact cp_demotions_bound. Qed.
Print Assumptions C11_pct_change_point_demotions.

(* ... hence at most max_depth - 1 per execution.                          *)
Theorem C11_pct_depth_bound :
  forall dbg fuel dbg' fuel' p s p' cs,
    pct_wf p -> 0 < pct_iterations p ->
    pct_new_execution dbg fuel p = Done (Some (s, p')) ->
    N.of_nat (cp_demotions dbg' fuel' p' cs) <= pct_max_depth p - 1.
Proof. exact pct_cp_demotions_le_depth. Qed.
Print Assumptions C11_pct_depth_bound.

(* The whole effect of new_execution.                                      *)
Theorem C11_pct_new_execution :
  forall dbg fuel p s p',
    pct_wf p ->
    pct_new_execution dbg fuel p = Done (Some (s, p')) ->
    pct_wf p' /\
    pct_iterations p < pct_max_iterations p /\
    pct_iterations p' = pct_iterations p + 1 /\
    pct_max_iterations p' = pct_max_iterations p /\
    pct_max_depth p' = pct_max_depth p /\
    pct_max_steps p' = pct_max_steps p /\
    pct_steps p' = 0 /\
    pm_len (pct_priorities p') = pm_len (pct_priorities p) /\
    (pct_iterations p = 0 ->
       pct_priorities p' = pct_priorities p /\
       pct_next_priority p' = pct_next_priority p /\
       pct_change_points p' = pct_change_points p /\
       pct_rng p' = pct_rng p) /\
    (0 < pct_iterations p ->
       0 < pct_max_steps p /\
       Permutation (map snd (pct_priorities p')) (nseq (pm_len (pct_priorities p))) /\
       pct_next_priority p' = pm_len (pct_priorities p) /\
       NoDup (pct_change_points p') /\
       (forall c, In c (pct_change_points p') -> 1 <= c /\ c < pct_max_steps p) /\
       length (pct_change_points p') =
         N.to_nat (N.min (pct_max_depth p - 1) (pct_max_steps p - 1))).
Proof. exact pct_new_execution_spec. Qed.
Print Assumptions C11_pct_new_execution.

(* ===================================================================== *)
(*  pct_iterations                                                        *)
(* ===================================================================== *)

(* pct_trace .. n p: p is reachable from new_from_seed by any calls, n of
   which were new_execution calls answered Some.  The counter equals n.    *)
Theorem C11_pct_iterations_counter :
  forall seed max_depth max_iterations n p,
    pct_trace seed max_depth max_iterations n p ->
    pct_iterations p = N.of_nat n /\ pct_max_iterations p = max_iterations /\
    N.of_nat n <= max_iterations.
Proof. exact pct_trace_iterations. Qed.
Print Assumptions C11_pct_iterations_counter.

(* new_execution answers None exactly when max_iterations answers Some
   have been given, and can answer Some only before that: so -- unless a
   call panics (e.g. the "did not exercise any concurrency" assertion) --
   it answers Some exactly max_iterations times.                           *)
Theorem C11_pct_iterations :
  forall seed max_depth max_iterations n p dbg fuel,
    pct_trace seed max_depth max_iterations n p ->
    (pct_new_execution dbg fuel p = Done None <-> N.of_nat n = max_iterations) /\
    (forall s p', pct_new_execution dbg fuel p = Done (Some (s, p')) ->
                  N.of_nat n < max_iterations).
Proof. exact pct_iterations_exact. Qed.
Print Assumptions C11_pct_iterations.

(* Determinism.  The model IS a function of (seed, depth, iterations, call
   sequence) and of its two devices dbg and fuel; these can only turn an
   answer into Panic / OutOfFuel, never change it:                         *)
Theorem C11_pct_fuel_dbg_monotone :
  forall b1 b2 f1 f2,
    (b2 = true -> b1 = true) -> (f1 <= f2)%nat ->
    forall seed max_depth max_iterations rounds r,
      pct_session b1 f1 seed max_depth max_iterations rounds = Done r ->
      pct_session b2 f2 seed max_depth max_iterations rounds = Done r.
Proof. exact pct_session_mono. Qed.
Print Assumptions C11_pct_fuel_dbg_monotone.

Theorem C11_pct_deterministic :
  forall b1 f1 b2 f2 seed max_depth max_iterations rounds r1 r2,
    pct_session b1 f1 seed max_depth max_iterations rounds = Done r1 ->
    pct_session b2 f2 seed max_depth max_iterations rounds = Done r2 ->
    r1 = r2.
Proof. exact pct_session_deterministic. Qed.
Print Assumptions C11_pct_deterministic.

(* ===================================================================== *)
(*  pct_bound_arith                                                       *)
(* ===================================================================== *)

(* binom (Sched/Pct.v, Pascal's rule) is the binomial coefficient:         *)
Theorem C11_binom_is_binomial :
  forall n k, (k <= n)%nat -> (binom n k * (fact k * fact (n - k)) = fact n)%nat.
Proof. exact binom_fact. Qed.
Print Assumptions C11_binom_is_binomial.

(* C(k-1, d-1) <= k^(d-1), i.e. 1/(n*C(k-1,d-1)) >= 1/(n*k^(d-1)) in the
   cross-multiplied form.                                                  *)
Theorem C11_pct_bound_arith :
  forall n k d : nat,
    (1 <= n -> 1 <= k -> 1 <= d ->
     binom (k - 1) (d - 1) <= k ^ (d - 1) /\
     n * binom (k - 1) (d - 1) <= n * k ^ (d - 1))%nat.
Proof. exact pct_bound_arith_nat. Qed.
Print Assumptions C11_pct_bound_arith.

(* ===================================================================== *)
(*  pct_sampling_positive                                                 *)
(*  shuffle / index_sample are generic in the draw oracle; `pcg_draw` is  *)
(*  the real sampler on the real generator, `list_draw` reads the drawn   *)
(*  values off a list (any value of the requested interval is allowed,    *)
(*  nothing else).                                                        *)
(* ===================================================================== *)

(* what the real oracle returns lies in the requested interval             *)
Theorem C11_pcg_draw_range :
  forall fuel k low range st v st',
    pcg_draw fuel k low range st = Done (v, st') -> low <= v /\ v < low + range.
Proof. exact pcg_draw_range. Qed.
Print Assumptions C11_pcg_draw_range.

(* every value i < n has a 64-bit word that gen_range(0..n) on usize
   accepts with result i (for u32 this is C10_positive)                    *)
Theorem C11_gen_range_usize_positive :
  forall n i, 1 <= n -> n < 2 ^ 64 -> i < n ->
    exists v, v < 2 ^ 64 /\ accept_w 64 n v = Some i.
Proof. exact accept64_positive. Qed.
Print Assumptions C11_gen_range_usize_positive.

(* the real shuffle returns a permutation *)
Theorem C11_shuffle_permutation :
  forall fuel l st l' st',
    shuffle (pcg_draw fuel) l st = Done (l', st') -> Permutation l l'.
Proof. exact pcg_shuffle_perm. Qed.
Print Assumptions C11_shuffle_permutation.

(* every permutation of the known tasks is produced by some draw sequence *)
Theorem C11_pct_sampling_positive_shuffle :
  forall l sigma : list N,
    Permutation l sigma ->
    exists ds, length ds = (length l - 1)%nat /\
               shuffle list_draw l ds = Done (sigma, []).
Proof. exact shuffle_complete. Qed.
Print Assumptions C11_pct_sampling_positive_shuffle.

(* ... and by only one: draw sequences and arrangements of a duplicate-free
   list correspond one-to-one.  The valid sequences are d_(len-1) in
   [0,len-1], ..., d_1 in [0,1] -- len! of them -- so shuffle is exactly
   uniform IF each gen_index is uniform and the draws are independent.     *)
Theorem C11_shuffle_uniform_given_uniform_draws :
  forall l ds ds' out rest : list N,
    NoDup l ->
    shuffle list_draw l ds = Done (out, rest) ->
    shuffle list_draw l ds' = Done (out, rest) ->
    ds = ds'.
Proof. exact shuffle_injective. Qed.
Print Assumptions C11_shuffle_uniform_given_uniform_draws.

(* the real index::sample returns `amount` distinct values below `length`  *)
Theorem C11_index_sample_distinct :
  forall dbg fuel length amount st l st',
    index_sample (pcg_draw fuel) dbg fuel length amount st = Done (l, st') ->
    amount <= length /\
    NoDup l /\ (forall x, In x l -> x < length) /\ List.length l = N.to_nat amount.
Proof. exact pcg_index_sample_spec. Qed.
Print Assumptions C11_index_sample_distinct.

(* every amount-element subset T of [0, length) (a strictly increasing
   list) is the value set of index::sample for some draw sequence,
   whichever of the three algorithms is selected.  For PCT: length =
   max_steps - 1 = k - 1, amount = d - 1, change points = values + 1, so
   every (d-1)-subset of [1, k) can be chosen.  The side condition only
   rules out the debug assertion `amount < length` of sample_rejection.    *)
Theorem C11_pct_sampling_positive_index_sample :
  forall dbg fuel length amount (T : list N),
    StronglySorted N.lt T -> (forall y, In y T -> y < length) ->
    List.length T = N.to_nat amount ->
    amount < length \/ amount < 163 \/ dbg = false ->
    exists ds l, index_sample list_draw dbg (S fuel) length amount ds = Done (l, []) /\
                 Permutation l T.
Proof. exact index_sample_complete. Qed.
Print Assumptions C11_pct_sampling_positive_index_sample.

(* Which algorithm index::sample uses for PCT-sized arguments: Floyd up to
   11 indices (max_depth <= 12); below 163 indices out of fewer than
   500000 the f32 test decides like the exact rational one.                *)
Theorem C11_sample_select_tiny :
  forall length amount,
    length <= 2 ^ 32 - 1 -> amount <= 11 -> sample_select length amount = AFloyd.
Proof. exact sample_select_tiny. Qed.
Print Assumptions C11_sample_select_tiny.

Theorem C11_sample_select_small :
  forall length amount,
    length < 500000 -> amount < 163 ->
    sample_select length amount =
    if (11 <? amount) && (5 * length <? 8 * amount * amount + 50 * amount)
    then AInplace else AFloyd.
Proof. exact sample_select_small. Qed.
Print Assumptions C11_sample_select_small.

(* ===================================================================== *)
(*  What is NOT proved about the 1/(n * k^(d-1)) guarantee                *)
(* ===================================================================== *)
(*  The PCT theorem (Burckhardt et al., ASPLOS 2010) says: a bug of depth
    d in a program with n threads and k steps is found by one run with
    probability >= 1/(n*k^(d-1)).  Proved here are only ingredients:
     - C11_pct_strict*: the scheduler always runs the best offered task;
     - C11_pct_order_*/C11_pct_demotion: priorities change only by
       demotion of `current` at change points / yields and by new-task
       insertion;
     - C11_pct_change_points: d-1 distinct change points in [1, k);
     - C11_pct_sampling_positive_*: every initial priority permutation and
       every choice of change points is POSSIBLE (has a draw sequence),
       and shuffle is uniform GIVEN uniform independent draws;
     - C11_pct_bound_arith: the arithmetic C(k-1,d-1) <= k^(d-1).
    NOT proved, and not claimed:
     - any probability statement about the real generator: Pcg64Mcg is a
       fixed deterministic sequence per seed; nothing is shown about the
       distribution of its outputs, nor that a seed exists realising a
       given draw sequence.  (C10 shows gen_range's acceptance intervals
       have equal size for every result, i.e. exact uniformity over
       uniformly random input WORDS; for index::sample only possibility,
       not uniformity over subsets, is shown; Floyd's and the inplace
       algorithm are uniform given uniform draws, but that is not
       formalised.)
     - the bug-depth argument itself (that a depth-d bug is hit when the
       d-1 change points and the initial order fall "right").  There is
       no program/bug model here.
     - that this implementation meets the paper's hypotheses.  It
       deviates from the paper: k is not known in advance (max_steps is
       the maximum over the PREVIOUS executions, the first execution runs
       without change points, and change points lie in [1, max_steps-1]);
       steps counts only scheduling points with more than one runnable
       task; yields demote `current` without consuming a change point;
       new tasks are inserted by a random swap that never targets task 0
       (target = gen_range(0..len) + 1) instead of getting a uniformly
       random priority, and the 16 preallocated ids take part in the
       shuffle whether or not such tasks exist; a demoted task gets a
       fresh lowest priority rather than the priority d - i of the paper.
       So 1/(n*k^(d-1)) is NOT established for this scheduler, by us or
       by the source.                                                      *)

(* ===================================================================== *)
(*  Test vectors from the real Rust code                                  *)
(* ===================================================================== *)

(* ---- the f32 constants of index::sample (bit patterns printed by rustc:
        1.6 -> 0x3fcccccd, 8/45 -> 0x3e360b61, 70/9 -> 0x40f8e38e,
        330/9 -> 0x4212aaab; pairs (m, e): mantissa with implicit bit and
        e = 127 + 23 - exponent field, so that value = m * 2^-e)           *)
Example f32_constants :
  (0x3fcccccd mod 2 ^ 23 + 2 ^ 23, 127 + 23 - 0x3fcccccd / 2 ^ 23,
   0x3e360b61 mod 2 ^ 23 + 2 ^ 23, 127 + 23 - 0x3e360b61 / 2 ^ 23,
   0x40f8e38e mod 2 ^ 23 + 2 ^ 23, 127 + 23 - 0x40f8e38e / 2 ^ 23,
   0x4212aaab mod 2 ^ 23 + 2 ^ 23, 127 + 23 - 0x4212aaab / 2 ^ 23)
  = (13421773, 23, 11930465, 26, 16311182, 21, 9611947, 18).
Proof. vm_compute. reflexivity. Qed.

(* ---- which algorithm the REAL index::sample used, detected by comparing
        its output with re-implementations of the three private algorithms
        (triples (length, amount, code); codes as in alg_code)              *)
Example sample_select_grid :
  select_agrees
    [(848, 265, 0); (664, 243, 0); (2131, 181, 0); (978, 284, 0); (1192, 339, 0);
     (2417, 360, 0); (2150, 150, 0); (1474, 6, 1); (2111, 344, 0); (842, 37, 0);
     (3247, 331, 0); (2559, 212, 0); (3208, 247, 0); (1434, 178, 0); (2531, 238, 0);
     (3106, 145, 0); (2530, 98, 0); (658, 395, 0); (1430, 323, 0); (2373, 375, 0);
     (1503, 68, 0); (3067, 347, 0); (638, 174, 0); (2806, 337, 0); (616, 66, 0);
     (965, 203, 0); (1363, 165, 0); (2295, 80, 0); (2123, 95, 0); (2301, 197, 0);
     (983, 164, 0); (821, 312, 0); (1295, 41, 0); (1340, 113, 0); (981, 249, 0);
     (1158, 74, 0); (3307, 325, 0); (2507, 100, 0); (702, 282, 0); (1321, 321, 0);
     (2507, 107, 0); (625, 386, 0); (1481, 319, 0); (2422, 2, 1); (3153, 333, 0);
     (261, 167, 0); (582, 18, 0); (2472, 386, 0); (1263, 353, 0); (1697, 104, 0);
     (1654, 175, 0); (3213, 353, 0); (940, 239, 0); (2313, 25, 1); (2607, 249, 0);
     (2121, 147, 0); (2406, 268, 0); (2084, 156, 0); (2209, 79, 0); (989, 130, 0);
     (179216, 2437, 0); (572564, 855, 2); (483104, 1154, 2); (223451, 395, 2);
     (336050, 784, 2); (463421, 2157, 0); (150792, 1794, 0); (44623, 3076, 0);
     (488234, 2677, 0); (36338, 1686, 0); (317004, 1365, 0); (362892, 603, 2);
     (208232, 3144, 0); (215977, 2917, 0); (508391, 992, 2); (421841, 1588, 0);
     (170705, 745, 0); (392364, 2270, 0); (550438, 929, 2); (110183, 1684, 0)] = true.
Proof. vm_compute. reflexivity. Qed.

(* first length at which the REAL sample stops using sample_inplace, for
   amount = 12, 13, ..., 162 (binary search on the detected algorithm)     *)
Definition T0 : list N :=
  [351; 401; 454; 510; 570; 633; 699; 768; 840; 916; 995; 1077; 1162; 1250; 1342;
   1437; 1535; 1636; 1740; 1848; 1959; 2073; 2190; 2310; 2434; 2561; 2691; 2824;
   2960; 3100; 3243; 3389; 3538; 3690; 3846; 4005; 4167; 4332; 4500; 4672; 4847;
   5025; 5206; 5390; 5578; 5769; 5963; 6160; 6360; 6564; 6771; 6981; 7194; 7410;
   7630; 7853; 8079; 8308; 8540; 8776; 9015; 9257; 9502; 9750; 10002; 10257; 10515;
   10776; 11040; 11308; 11579; 11853; 12130; 12410; 12694; 12981; 13271; 13564;
   13860; 14160; 14463; 14769; 15078; 15390; 15706; 16025; 16347; 16672; 17000;
   17332; 17667; 18005; 18346; 18690; 19038; 19389; 19743; 20100; 20460; 20824;
   21191; 21561; 21934; 22310; 22690; 23073; 23459; 23848; 24240; 24636; 25035;
   25437; 25842; 26250; 26662; 27077; 27495; 27916; 28340; 28768; 29199; 29633;
   30070; 30510; 30954; 31401; 31851; 32304; 32760; 33220; 33683; 34149; 34618;
   35090; 35566; 36045; 36527; 37012; 37500; 37992; 38487; 38985; 39486; 39990;
   40498; 41009; 41523; 42040; 42560; 43084; 43611].

Example sample_select_thresholds_small :
  forallb (fun '(a, t) =>
             (alg_code (sample_select (t - 1) a) =? 0) && (alg_code (sample_select t a) =? 1)
             && (t =? (8 * a * a + 50 * a + 4) / 5))
          (combine (map (fun i => 12 + i) (nseq 151)) T0) = true.
Proof. vm_compute. reflexivity. Qed.

(* the same thresholds found by scanning every length, for a few amounts  *)
Example sample_select_thresholds_scan :
  map (fun a => first_non_inplace_from (N.to_nat 5000) a a) [12; 13; 14; 15; 16; 50]
  = [351; 401; 454; 510; 570; 4500].
Proof. vm_compute. reflexivity. Qed.

(* amount >= 163: (amount, first length with sample_rejection); below
   500000 the threshold is 270*amount, above it (330/9)*amount in f32      *)
Example sample_select_thresholds_large :
  forallb (fun '(a, t) =>
             (alg_code (sample_select (t - 1) a) =? 0) && (alg_code (sample_select t a) =? 2))
          [(163, 44010); (164, 44280); (200, 54000); (500, 135000); (1000, 270000);
           (1851, 499770); (13637, 500024); (20000, 733334); (50000, 1833334)] = true.
Proof. vm_compute. reflexivity. Qed.

(* points where f32 rounding matters, from the decision code of `sample`
   copied verbatim and run by rustc (lengths near u32::MAX cannot be run
   for real: sample_inplace would allocate `length` words)                 *)
Example sample_select_f32_edges :
  select_agrees
    [(5976, 163, 0); (499999, 163, 2); (500000, 163, 2); (4294967295, 163, 2);
     (36666, 1000, 0); (36667, 1000, 0); (499989, 13636, 0); (499999, 13636, 0);
     (500000, 13636, 2); (500286, 13636, 2); (499999, 13637, 0); (500000, 13637, 0);
     (500023, 13637, 0); (500024, 13637, 2); (615164323, 16777217, 0);
     (615164620, 16777217, 2); (615164626, 16777217, 2); (1230328910, 33554433, 0);
     (1230329207, 33554433, 2); (1230329213, 33554433, 2); (3666666403, 100000001, 0);
     (3666666700, 100000001, 2); (3666666706, 100000001, 2); (4289999997, 117000000, 0);
     (4290000000, 117000000, 0); (4290000001, 117000000, 2); (4290000003, 117000000, 2);
     (4294967295, 117000000, 2); (4294967295, 117150000, 0); (4294967295, 4000000000, 0)]
  = true.
Proof. vm_compute. reflexivity. Qed.

(* ---- panics (Rust: catch_unwind reported a panic in each case) ---- *)
Example pct_panic_depth_0 : pct_new_from_seed 1 0 1 = Panic.
Proof. reflexivity. Qed.

(* "test closure did not exercise any concurrency" *)
Example pct_panic_no_concurrency :
  pct_session true 64 1 2 3 [[PTask [0] None false]; []] = Panic.
Proof. vm_compute. reflexivity. Qed.

(* current.expect(..) on a yield with two offered tasks *)
Example pct_panic_yield_without_current :
  pct_session true 64 1 2 3 [[PTask [0; 1] None true]] = Panic.
Proof. vm_compute. reflexivity. Qed.

(* ... but with one offered task nothing is demoted: Rust answered 5 *)
Example pct_yield_without_current_single :
  match pct_session true 64 1 2 3 [[PTask [5] None true]] with
  | Done [(Some 1, _, os, _)] => os = [OT 5]
  | _ => False
  end.
Proof. vm_compute. reflexivity. Qed.

(* runnable.iter().map(..).max().unwrap() on an empty slice *)
Example pct_panic_empty_runnable :
  pct_session true 64 1 2 3 [[PTask [] None false]] = Panic.
Proof. vm_compute. reflexivity. Qed.

(* `current` not a known task: debug build panics (debug_assert) ...       *)
Example pct_debug_unknown_current :
  pct_session true 64 1 2 3
    [[PTask [0; 1] (Some 30) true; PTask [0; 1; 16] (Some 0) true;
      PTask [0; 1; 16; 17] (Some 1) false]] = Panic.
Proof. vm_compute. reflexivity. Qed.

(* ... the RELEASE build (cargo build --release) answers 0, 16, 16 and
   ends with the map below (Rust's Debug output sorted by key: (17, 3)
   before (30, 16)): key 30 is a stray entry, task 16 never gets a
   priority and therefore wins every comparison (None < Some).            *)
Example pct_release_unknown_current :
  pct_session false 64 1 2 3
    [[PTask [0; 1] (Some 30) true; PTask [0; 1; 16] (Some 0) true;
      PTask [0; 1; 16; 17] (Some 1) false]]
  = Done
     [(Some 1,
       mkObs [(0, 0); (1, 1); (2, 2); (3, 3); (4, 4); (5, 5); (6, 6); (7, 7); (8, 8); (9, 9); (10, 10); (11, 11); (12, 12); (13, 13); (14, 14); (15, 15)] 16 [] 0 0 1,
       [OT 0; OT 16; OT 16],
       mkObs [(0, 17); (1, 1); (2, 2); (3, 18); (4, 4); (5, 5); (6, 6); (7, 7); (8, 8); (9, 9); (10, 10); (11, 11); (12, 12); (13, 13); (14, 14); (15, 15); (30, 16); (17, 3)] 19 [] 3 3 1)].
Proof. vm_compute. reflexivity. Qed.

(* ---- rand 0.8.8 on Pcg64Mcg::seed_from_u64(seed): each line is the
        result followed by one next_u64 (pins the final generator state)   *)
Example shuffle_vec_1 :
  shuffle_then_u64 1 0 =
  Some ([], 15803641690485367939).
Proof. vm_compute. reflexivity. Qed.
Example shuffle_vec_2 :
  shuffle_then_u64 2 1 =
  Some ([0], 12569013455718006045).
Proof. vm_compute. reflexivity. Qed.
Example shuffle_vec_3 :
  shuffle_then_u64 3 2 =
  Some ([0; 1], 13004995988561224409).
Proof. vm_compute. reflexivity. Qed.
Example shuffle_vec_4 :
  shuffle_then_u64 4 5 =
  Some ([1; 0; 2; 4; 3], 11371604796208690140).
Proof. vm_compute. reflexivity. Qed.
Example shuffle_vec_5 :
  shuffle_then_u64 5 16 =
  Some ([8; 12; 6; 4; 5; 11; 7; 2; 0; 1; 9; 3; 13; 10; 14; 15], 7301898362306761640).
Proof. vm_compute. reflexivity. Qed.
Example shuffle_vec_6 :
  shuffle_then_u64 6 17 =
  Some ([15; 10; 2; 8; 16; 5; 0; 12; 14; 4; 1; 6; 13; 7; 11; 9; 3], 11012224643845692031).
Proof. vm_compute. reflexivity. Qed.
Example shuffle_vec_7 :
  shuffle_then_u64 7 40 =
  Some ([17; 9; 22; 32; 12; 28; 1; 13; 2; 10; 31; 33; 6; 3; 39; 34; 19; 36; 35; 5; 37; 30; 18; 24; 11; 0; 29; 25; 26; 21; 38; 27; 7; 16; 8; 20; 14; 15; 4; 23], 8332265528811501810).
Proof. vm_compute. reflexivity. Qed.
Example shuffle_vec_8 :
  shuffle_then_u64 8 100 =
  Some ([2; 81; 32; 38; 7; 61; 39; 51; 68; 87; 70; 66; 40; 97; 84; 65; 43; 27; 6; 5; 96; 42; 95; 47; 60; 57; 85; 16; 18; 92; 56; 91; 88; 24; 3; 22; 9; 55; 75; 89; 98; 41; 4; 10; 12; 14; 74; 35; 50; 90; 69; 44; 67; 25; 80; 53; 49; 48; 78; 46; 59; 34; 8; 13; 45; 79; 33; 94; 0; 86; 11; 52; 77; 17; 23; 28; 1; 99; 29; 31; 37; 30; 93; 64; 72; 15; 58; 83; 36; 76; 73; 62; 82; 54; 20; 26; 19; 71; 21; 63], 18398435330321133651).
Proof. vm_compute. reflexivity. Qed.
Example gen_range_usize_vec_1 :
  draws_then_u64 DSingle64 1 1 12 =
  Some ([0; 0; 0; 0; 0; 0; 0; 0; 0; 0; 0; 0], 16971349701860163803).
Proof. vm_compute. reflexivity. Qed.
Example gen_range_usize_vec_2 :
  draws_then_u64 DSingle64 2 2 12 =
  Some ([1; 0; 0; 1; 0; 1; 0; 1; 0; 0; 1; 1], 2667846134791973979).
Proof. vm_compute. reflexivity. Qed.
Example gen_range_usize_vec_3 :
  draws_then_u64 DSingle64 3 16 12 =
  Some ([11; 4; 3; 5; 2; 14; 13; 10; 1; 11; 10; 8], 3554790871565753527).
Proof. vm_compute. reflexivity. Qed.
Example gen_range_usize_vec_4 :
  draws_then_u64 DSingle64 4 17 12 =
  Some ([2; 13; 0; 10; 1; 15; 16; 1; 5; 5; 11; 7], 8901676407586921394).
Proof. vm_compute. reflexivity. Qed.
Example gen_range_usize_vec_5 :
  draws_then_u64 DSingle64 5 1000 12 =
  Some ([963; 127; 667; 85; 88; 554; 667; 311; 75; 424; 516; 740], 1011019680691289852).
Proof. vm_compute. reflexivity. Qed.
Example gen_range_usize_vec_6 :
  draws_then_u64 DSingle64 6 9223372036854775813 12 =
  Some ([3321942373910641701; 5700607872989971972; 8867695572482078227; 1963442176586581754; 5055105334426824331; 9177364808880250288; 4863531015884993577; 4748963288750580429; 6126185160201320026; 6566879508864258475; 4971507394512305525; 6913464150412635132], 16027842350843135213).
Proof. vm_compute. reflexivity. Qed.
Example gen_range_usize_vec_7 :
  draws_then_u64 DSingle64 7 18446744073709551615 12 =
  Some ([12726360963827698829; 8784933628230385457; 4994307442345819818; 17173638446530086667; 5382050175597340134; 4017426987497584801; 3984325674117797041; 7360717891386008144; 15154465034568494754; 4552055082928323985; 16916222725990392721; 8817311188084199359], 13501250456227795994).
Proof. vm_compute. reflexivity. Qed.
Example gen_range_usize_vec_8 :
  draws_then_u64 DSingle64 8 3 12 =
  Some ([2; 1; 0; 0; 0; 0; 1; 0; 1; 1; 2; 1], 14856638647589463729).
Proof. vm_compute. reflexivity. Qed.
Example gen_range_usize_vec_9 :
  draws_then_u64 DSingle64 9 6148914691236517206 12 =
  Some ([1305174710323004182; 1598621681420078182; 956439305235178176; 1390796680361444327; 3279215355899880599; 4340352732001475198; 3107497045343360438; 1251039473690213946; 1032225518120450934; 3049561240999443125; 5516358873976655973; 4619311318463388779], 11979666683673833181).
Proof. vm_compute. reflexivity. Qed.
Example uniform_u32_vec_1 :
  draws_then_u64 DUniform32 1 1 12 =
  Some ([0; 0; 0; 0; 0; 0; 0; 0; 0; 0; 0; 0], 1812453580197723348).
Proof. vm_compute. reflexivity. Qed.
Example uniform_u32_vec_2 :
  draws_then_u64 DUniform32 2 3 12 =
  Some ([2; 0; 1; 2; 1; 1; 1; 1; 1; 2; 2; 0], 4904988019607511433).
Proof. vm_compute. reflexivity. Qed.
Example uniform_u32_vec_3 :
  draws_then_u64 DUniform32 3 60000 12 =
  Some ([40241; 43962; 3442; 13260; 10680; 14282; 2339; 23237; 35666; 16706; 47645; 17454], 18214913376354625523).
Proof. vm_compute. reflexivity. Qed.
Example uniform_u32_vec_4 :
  draws_then_u64 DUniform32 4 3000000000 12 =
  Some ([2483732287; 1744651616; 109188596; 562691811; 1768453666; 1350420674; 24769754; 1206681534; 1006703498; 1338369474; 582163166; 2597823507], 8901676407586921394).
Proof. vm_compute. reflexivity. Qed.
Example uniform_u32_vec_5 :
  draws_then_u64 DUniform32 5 4294967295 12 =
  Some ([2943917011; 766110896; 4112796055; 4090481141; 3254348846; 3304409355; 1171213554; 3412233377; 4271710321; 1077467638; 3498370201; 3721573161], 13655369337290726823).
Proof. vm_compute. reflexivity. Qed.
Example uniform_u32_vec_6 :
  draws_then_u64 DUniform32 6 2147483649 12 =
  Some ([1578710543; 1085369993; 2138725804; 1542157351; 89693074; 1487229352; 1996210807; 1594086846; 1906101568; 887997335; 535679133; 1951214954], 14295250345144250085).
Proof. vm_compute. reflexivity. Qed.
Example uniform_usize_vec_1 :
  draws_then_u64 DUniform64 1 3 12 =
  Some ([2; 0; 1; 2; 1; 1; 1; 2; 0; 1; 0; 0], 1812453580197723348).
Proof. vm_compute. reflexivity. Qed.
Example uniform_usize_vec_2 :
  draws_then_u64 DUniform64 2 8589934599 12 =
  Some ([5852902990; 1766048323; 2194608154; 2653541801; 7727496599; 303275767; 7569359047; 4056675420; 4825477224; 347413188; 6782516900; 4325666225], 4904988019607511433).
Proof. vm_compute. reflexivity. Qed.
Example uniform_usize_vec_3 :
  draws_then_u64 DUniform64 3 9223372036854775813 12 =
  Some ([6502497994280612208; 2443331883565198543; 5052936986973546930; 8636058725512295233; 2678030015096156254; 2978930101349287569; 9107456688177312766; 8517592509356744523; 7529580908893691913; 3828425067733150919; 591857547921341225; 4693067529358608780], 3554790871565753527).
Proof. vm_compute. reflexivity. Qed.
Example uniform_usize_vec_4 :
  draws_then_u64 DUniform64 4 6148914691236517206 12 =
  Some ([804353683647849826; 4800083819465194258; 5281361243141788134; 184956249796820803; 3790534932069563380; 449059216975822763; 5579205673088565063; 5793260951820563378; 5277228426907904929; 1827096504654724242; 1790804616792230859; 590260817244741163], 10740730408837078080).
Proof. vm_compute. reflexivity. Qed.
Example gen_range_u32_vec_1 :
  range_draws_then_u64 DSingle32 1 0 7 12 =
  Some ([6; 1; 4; 1; 1; 6; 3; 1; 6; 6; 4; 4], 16696205546092608887).
Proof. vm_compute. reflexivity. Qed.
Example gen_range_u32_vec_2 :
  range_draws_then_u64 DSingle32 2 5 40 12 =
  Some ([23; 23; 19; 17; 36; 29; 30; 35; 20; 6; 35; 9], 18421120287198918639).
Proof. vm_compute. reflexivity. Qed.
Example gen_range_u32_vec_3 :
  range_draws_then_u64 DSingle32 3 100 101 12 =
  Some ([100; 100; 100; 100; 100; 100; 100; 100; 100; 100; 100; 100], 12043750793058735161).
Proof. vm_compute. reflexivity. Qed.
Example gen_range_u32_vec_4 :
  range_draws_then_u64 DSingle32 4 1 4294967295 12 =
  Some ([2865901605; 3589812532; 3555849648; 274873802; 338015196; 2497740544; 3554491859; 3442989845; 156320483; 805580976; 2531816886; 1933337544], 5372413850376692577).
Proof. vm_compute. reflexivity. Qed.
(* floyd, nothing to draw *)
Example index_sample_vec_1 :
  index_sample_then_u64 1 10 0 =
  Some ([], 15803641690485367939).
Proof. vm_compute. reflexivity. Qed.
(* floyd *)
Example index_sample_vec_2 :
  index_sample_then_u64 1 10 3 =
  Some ([9; 2; 6], 7228268180155082411).
Proof. vm_compute. reflexivity. Qed.
(* floyd, amount = length *)
Example index_sample_vec_3 :
  index_sample_then_u64 2 10 10 =
  Some ([0; 1; 3; 4; 5; 8; 6; 2; 9; 7], 15574476550675562288).
Proof. vm_compute. reflexivity. Qed.
(* floyd *)
Example index_sample_vec_4 :
  index_sample_then_u64 3 1 1 =
  Some ([0], 4886663767130397084).
Proof. vm_compute. reflexivity. Qed.
(* floyd (amount <= 11) *)
Example index_sample_vec_5 :
  index_sample_then_u64 5 100 11 =
  Some ([61; 16; 92; 88; 71; 73; 26; 77; 97; 80; 86], 13655369337290726823).
Proof. vm_compute. reflexivity. Qed.
(* inplace *)
Example index_sample_vec_6 :
  index_sample_then_u64 6 40 12 =
  Some ([2; 23; 21; 7; 20; 30; 4; 39; 9; 37; 5; 16], 13826928300825270257).
Proof. vm_compute. reflexivity. Qed.
(* inplace (350 < 351) *)
Example index_sample_vec_7 :
  index_sample_then_u64 7 350 12 =
  Some ([41; 135; 197; 118; 84; 145; 4; 173; 82; 62; 318; 317], 12046261934309394869).
Proof. vm_compute. reflexivity. Qed.
(* floyd (351 is the threshold for 12) *)
Example index_sample_vec_8 :
  index_sample_then_u64 7 351 12 =
  Some ([197; 40; 343; 139; 79; 312; 167; 54; 247; 349; 316; 0], 15225754178333059027).
Proof. vm_compute. reflexivity. Qed.
(* floyd, amount >= 50: unshuffled variant + final shuffle *)
Example index_sample_vec_9 :
  index_sample_then_u64 9 7000 60 =
  Some ([6034; 3027; 159; 2053; 4484; 2849; 2634; 5037; 478; 2735; 917; 3323; 6703; 5996; 5123; 6801; 5839; 1705; 2310; 6381; 5522; 1087; 4582; 6473; 6513; 458; 1120; 6194; 3230; 3136; 1702; 12; 2881; 4019; 761; 1080; 5949; 6770; 5641; 6633; 3088; 2362; 6140; 4304; 1321; 6818; 4113; 4775; 5768; 5293; 6138; 2947; 4158; 4674; 4364; 3601; 3800; 6617; 2069; 4551], 11427555149972754913).
Proof. vm_compute. reflexivity. Qed.
(* floyd, length >= 500000 *)
Example index_sample_vec_10 :
  index_sample_then_u64 11 600000 30 =
  Some ([63985; 522565; 120100; 577286; 279472; 62204; 473997; 576902; 553508; 116083; 90059; 169664; 35661; 68556; 321325; 541593; 10855; 137221; 226282; 569375; 128927; 585623; 221475; 494963; 288881; 525660; 83865; 469831; 75432; 18091], 16425867494130871504).
Proof. vm_compute. reflexivity. Qed.
(* inplace, amount >= 163 *)
Example index_sample_vec_11 :
  index_sample_then_u64 12 1000 163 =
  Some ([627; 832; 569; 260; 61; 650; 238; 45; 884; 675; 921; 765; 689; 333; 702; 733; 794; 761; 339; 405; 372; 845; 348; 279; 611; 479; 275; 88; 587; 355; 90; 367; 292; 329; 68; 64; 295; 524; 975; 189; 993; 216; 85; 542; 246; 303; 407; 125; 709; 879; 205; 175; 18; 242; 440; 729; 890; 208; 599; 944; 654; 80; 494; 117; 922; 974; 990; 858; 378; 951; 342; 321; 60; 749; 774; 199; 381; 422; 160; 559; 388; 87; 989; 241; 905; 340; 683; 21; 862; 977; 218; 511; 215; 924; 644; 579; 419; 454; 660; 459; 725; 302; 185; 935; 854; 113; 266; 452; 933; 752; 520; 848; 836; 396; 445; 722; 217; 150; 588; 344; 120; 100; 562; 433; 673; 362; 969; 32; 634; 434; 112; 743; 1; 999; 897; 123; 909; 122; 691; 425; 149; 414; 840; 532; 132; 640; 482; 674; 164; 354; 17; 12; 615; 335; 115; 334; 496; 327; 724; 442; 402; 436; 104], 9841213475387161691).
Proof. vm_compute. reflexivity. Qed.
(* rejection (u32) *)
Example index_sample_vec_12 :
  index_sample_then_u64 13 60000 200 =
  Some ([12790; 59128; 33313; 37994; 4564; 57141; 54688; 47501; 11700; 20071; 35542; 800; 50878; 48135; 50855; 13120; 8620; 5571; 23357; 33218; 54619; 54864; 37683; 16044; 983; 9398; 30302; 20930; 14557; 12101; 46276; 36679; 21167; 5134; 32664; 41547; 35347; 58633; 34512; 36816; 21216; 44874; 4277; 2090; 21729; 22221; 29835; 17687; 32439; 20585; 9250; 4324; 20988; 39024; 58611; 9504; 5914; 43748; 35112; 32358; 31420; 55403; 50867; 35697; 57058; 46237; 56908; 16474; 20288; 24093; 12351; 2824; 13037; 5048; 41119; 40380; 38157; 55952; 39268; 4894; 58511; 9150; 32232; 16798; 30367; 49313; 44489; 36097; 39255; 25032; 36179; 8432; 19972; 43810; 9658; 48877; 43461; 54622; 43426; 43428; 9805; 41317; 1188; 48833; 56172; 39454; 16168; 2974; 53541; 8531; 40066; 31256; 34954; 21310; 19660; 18976; 35543; 40955; 52430; 36062; 36086; 19120; 36806; 50652; 15943; 51150; 30830; 16731; 51503; 15007; 57986; 49684; 26036; 10334; 49045; 7815; 46457; 21671; 30482; 24271; 1841; 4904; 15151; 35861; 19093; 35272; 27889; 27712; 9807; 36664; 10460; 27703; 50614; 40893; 17084; 8782; 55145; 27097; 39858; 12688; 22686; 42851; 23219; 6245; 25737; 31500; 42198; 42428; 25839; 26990; 41777; 57491; 31010; 31520; 48170; 30907; 13468; 38872; 37373; 37238; 53176; 38168; 40292; 57606; 40149; 596; 14456; 44191; 40792; 32390; 44602; 33656; 37830; 42468; 17841; 37699; 31133; 18929; 51847; 23649], 9932416764224264988).
Proof. vm_compute. reflexivity. Qed.
(* rejection (u32), length >= 500000 *)
Example index_sample_vec_13 :
  index_sample_then_u64 14 700000 170 =
  Some ([623700; 350222; 476139; 577560; 646643; 185880; 242843; 127563; 567165; 165038; 557334; 664542; 527214; 283492; 598656; 456177; 398769; 170163; 645245; 263152; 413404; 548429; 307468; 166551; 33317; 425592; 351960; 305460; 572191; 26043; 357030; 409444; 499548; 185450; 399433; 676646; 281961; 46422; 655457; 543018; 86312; 49064; 607815; 248104; 458565; 427504; 478233; 362956; 359482; 299120; 600353; 480151; 590262; 372880; 308353; 160898; 219551; 269335; 445770; 598046; 361250; 295611; 624787; 612383; 218407; 183869; 623521; 133282; 198183; 668915; 117689; 638092; 177549; 183407; 533827; 419544; 312765; 482867; 51209; 454730; 437052; 63762; 328701; 621484; 392283; 609840; 28200; 585791; 381017; 296752; 351744; 135740; 553983; 608028; 628122; 276746; 438937; 220707; 467749; 97323; 557058; 58295; 236043; 63746; 428585; 421653; 553399; 40321; 609080; 422145; 124698; 662999; 151597; 173936; 193216; 176346; 492385; 474660; 341663; 388459; 59221; 396833; 655583; 235105; 74004; 574242; 216655; 501628; 170302; 168256; 630409; 375425; 122897; 398172; 458457; 337458; 572869; 82332; 175077; 258581; 181457; 541888; 205302; 50418; 465375; 697933; 456678; 455958; 669318; 545085; 92214; 93748; 453482; 554595; 663533; 584591; 11384; 2566; 449947; 143909; 138494; 605375; 621284; 415786; 514062; 7694; 501841; 304004; 84466; 601880], 15324816677038736848).
Proof. vm_compute. reflexivity. Qed.
(* rejection (usize) *)
Example index_sample_vec_14 :
  index_sample_then_u64 15 8589934599 5 =
  Some ([8343473732; 3800072353; 4585663804; 3938064291; 1489760550], 5505448971507147581).
Proof. vm_compute. reflexivity. Qed.
(* floyd at length = u32::MAX *)
Example index_sample_vec_15 :
  index_sample_then_u64 16 4294967295 3 =
  Some ([1078605112; 2810221800; 2694903803], 5958900442127484424).
Proof. vm_compute. reflexivity. Qed.
(* rejection (usize) at length = 2^32 *)
Example index_sample_vec_16 :
  index_sample_then_u64 17 4294967296 3 =
  Some ([3700029999; 1312059969; 1073694856], 17558288046183883231).
Proof. vm_compute. reflexivity. Qed.

(* ---- PctScheduler::new_from_seed(seed, depth, iters) driven through the
        Scheduler trait: per round (new_execution's seed, state view after it,
        answers, state view after the calls); views parsed from the derived
        Debug output, priorities sorted by task id                           *)
(* pct_vec_1: seed=42 depth=3 iters=4; 51 next_task calls *)
Example pct_vec_1 :
  pct_session true 64 42 3 4
   [[PTask [0] None false;
      PTask [0] (Some 0) false;
      PTask [0] (Some 0) false;
      PU64;
      PTask [0; 1] (Some 0) true;
      PTask [0] (Some 1) false;
      PTask [1; 2] (Some 0) false;
      PTask [0] (Some 1) false;
      PTask [0; 1; 2] (Some 0) true;
      PTask [2] (Some 1) false;
      PTask [0; 1; 2] (Some 2) true;
      PTask [0; 1] (Some 1) false;
      PTask [0; 1; 2] (Some 1) false;
      PTask [2] (Some 1) false];
    [PTask [0] None false;
      PTask [0] (Some 0) false;
      PTask [0] (Some 0) false;
      PU64;
      PTask [0] (Some 0) false;
      PTask [0] (Some 0) false;
      PTask [0] (Some 0) true;
      PTask [0] (Some 0) false;
      PTask [0] (Some 0) false;
      PTask [0] (Some 0) false;
      PTask [0] (Some 0) true;
      PTask [0] (Some 0) false;
      PTask [0] (Some 0) true;
      PTask [0; 1] (Some 0) false];
    [PTask [0] None false;
      PU64;
      PU64;
      PTask [0] (Some 0) false;
      PTask [0] (Some 0) false;
      PTask [0] (Some 0) false;
      PTask [0] (Some 0) true;
      PTask [0] (Some 0) false;
      PTask [0] (Some 0) false;
      PTask [0] (Some 0) false;
      PTask [1] (Some 0) true;
      PU64;
      PTask [0; 1] (Some 1) false;
      PTask [0; 1] (Some 1) false];
    [PTask [0] None false;
      PTask [0] (Some 0) false;
      PTask [0] (Some 0) false;
      PTask [0] (Some 0) false;
      PTask [0] (Some 0) false;
      PTask [1] (Some 0) true;
      PTask [2] (Some 1) false;
      PTask [0] (Some 2) false;
      PTask [1; 2] (Some 0) false;
      PTask [0; 1; 2] (Some 1) false;
      PTask [0; 1; 2] (Some 2) false;
      PTask [0; 1] (Some 2) false;
      PTask [0; 1; 2] (Some 0) false;
      PTask [0; 2] (Some 2) false];
    []]
  = Done
   [(Some 42,
     mkObs [(0, 0); (1, 1); (2, 2); (3, 3); (4, 4); (5, 5); (6, 6); (7, 7); (8, 8); (9, 9); (10, 10); (11, 11); (12, 12); (13, 13); (14, 14); (15, 15)] 16 [] 0 0 1,
     [OT 0; OT 0; OT 0; OU 10580897095847554459; OT 1; OT 0; OT 1; OT 0; OT 1; OT 2; OT 1; OT 1; OT 1; OT 2],
     mkObs [(0, 17); (1, 1); (2, 18); (3, 3); (4, 4); (5, 5); (6, 6); (7, 7); (8, 8); (9, 9); (10, 10); (11, 11); (12, 12); (13, 13); (14, 14); (15, 15)] 19 [] 6 6 1);
    (Some 2459073333136617071,
     mkObs [(0, 9); (1, 5); (2, 12); (3, 0); (4, 15); (5, 8); (6, 13); (7, 3); (8, 2); (9, 6); (10, 11); (11, 7); (12, 1); (13, 10); (14, 14); (15, 4)] 16 [5; 2] 6 0 2,
     [OT 0; OT 0; OT 0; OU 1498268914891522289; OT 0; OT 0; OT 0; OT 0; OT 0; OT 0; OT 0; OT 0; OT 0; OT 1],
     mkObs [(0, 9); (1, 5); (2, 12); (3, 0); (4, 15); (5, 8); (6, 13); (7, 3); (8, 2); (9, 6); (10, 11); (11, 7); (12, 1); (13, 10); (14, 14); (15, 4)] 16 [5; 2] 6 1 2);
    (Some 195608652099297984,
     mkObs [(0, 10); (1, 9); (2, 4); (3, 8); (4, 15); (5, 1); (6, 5); (7, 12); (8, 13); (9, 7); (10, 6); (11, 3); (12, 2); (13, 14); (14, 11); (15, 0)] 16 [3; 2] 6 0 3,
     [OT 0; OU 16797631996225917998; OU 9808314367754649212; OT 0; OT 0; OT 0; OT 0; OT 0; OT 0; OT 0; OT 1; OU 5434352951216297741; OT 1; OT 1],
     mkObs [(0, 10); (1, 9); (2, 4); (3, 8); (4, 15); (5, 1); (6, 5); (7, 12); (8, 13); (9, 7); (10, 6); (11, 3); (12, 2); (13, 14); (14, 11); (15, 0)] 16 [3; 2] 6 2 3);
    (Some 14560100410053365168,
     mkObs [(0, 8); (1, 1); (2, 7); (3, 6); (4, 0); (5, 5); (6, 15); (7, 9); (8, 12); (9, 10); (10, 4); (11, 14); (12, 3); (13, 2); (14, 11); (15, 13)] 16 [4; 1] 6 0 4,
     [OT 0; OT 0; OT 0; OT 0; OT 0; OT 1; OT 2; OT 0; OT 1; OT 2; OT 2; OT 0; OT 2; OT 2],
     mkObs [(0, 17); (1, 16); (2, 7); (3, 6); (4, 0); (5, 5); (6, 15); (7, 9); (8, 12); (9, 10); (10, 4); (11, 14); (12, 3); (13, 2); (14, 11); (15, 13)] 18 [4; 1] 6 6 4);
    (None, mkObs [(0, 17); (1, 16); (2, 7); (3, 6); (4, 0); (5, 5); (6, 15); (7, 9); (8, 12); (9, 10); (10, 4); (11, 14); (12, 3); (13, 2); (14, 11); (15, 13)] 18 [4; 1] 6 6 4, [], mkObs [(0, 17); (1, 16); (2, 7); (3, 6); (4, 0); (5, 5); (6, 15); (7, 9); (8, 12); (9, 10); (10, 4); (11, 14); (12, 3); (13, 2); (14, 11); (15, 13)] 18 [4; 1] 6 6 4)].
Proof. vm_compute. reflexivity. Qed.

(* pct_vec_2: seed=7 depth=1 iters=3; 32 next_task calls *)
Example pct_vec_2 :
  pct_session true 64 7 1 3
   [[PU64;
      PTask [0; 1] None false;
      PTask [0] (Some 0) false;
      PTask [0] (Some 0) false;
      PTask [0; 1; 2] (Some 0) false;
      PTask [1] (Some 0) false;
      PTask [0; 2] (Some 1) false;
      PTask [0; 2] (Some 0) true;
      PTask [0; 1; 2; 3] (Some 2) true;
      PTask [0; 2; 3] (Some 1) false;
      PTask [2; 3] (Some 3) false;
      PTask [0; 1; 2; 3] (Some 3) false];
    [PTask [0; 1] None false;
      PU64;
      PTask [0; 1] (Some 1) false;
      PTask [0] (Some 1) false;
      PTask [0] (Some 0) false;
      PTask [0] (Some 0) false;
      PTask [0; 1] (Some 0) false;
      PTask [0; 1] (Some 1) true;
      PTask [0; 1; 2] (Some 0) false;
      PTask [1] (Some 2) false;
      PTask [0; 2] (Some 1) false;
      PTask [0; 1] (Some 2) false];
    [PTask [0; 1; 2] None false;
      PTask [0; 1; 2] (Some 1) true;
      PTask [0; 1; 3] (Some 2) false;
      PTask [1; 2] (Some 3) false;
      PTask [3] (Some 2) true;
      PTask [2; 3; 4] (Some 3) false;
      PU64;
      PU64;
      PTask [3] (Some 4) false;
      PTask [0; 1; 2; 3] (Some 3) false;
      PTask [0; 1; 2; 3; 4] (Some 2) true;
      PTask [0; 1; 2; 3] (Some 4) false]]
  = Done
   [(Some 7,
     mkObs [(0, 0); (1, 1); (2, 2); (3, 3); (4, 4); (5, 5); (6, 6); (7, 7); (8, 8); (9, 9); (10, 10); (11, 11); (12, 12); (13, 13); (14, 14); (15, 15)] 16 [] 0 0 1,
     [OU 12726360963827698830; OT 0; OT 0; OT 0; OT 0; OT 1; OT 0; OT 2; OT 1; OT 3; OT 3; OT 1],
     mkObs [(0, 16); (1, 1); (2, 17); (3, 3); (4, 4); (5, 5); (6, 6); (7, 7); (8, 8); (9, 9); (10, 10); (11, 11); (12, 12); (13, 13); (14, 14); (15, 15)] 18 [] 8 8 1);
    (Some 8784933628230385458,
     mkObs [(0, 15); (1, 8); (2, 10); (3, 3); (4, 0); (5, 4); (6, 6); (7, 12); (8, 14); (9, 11); (10, 13); (11, 2); (12, 7); (13, 5); (14, 1); (15, 9)] 16 [] 8 0 2,
     [OT 1; OU 6714499752907545917; OT 1; OT 0; OT 0; OT 0; OT 1; OT 0; OT 2; OT 1; OT 2; OT 0],
     mkObs [(0, 15); (1, 16); (2, 10); (3, 3); (4, 0); (5, 4); (6, 6); (7, 12); (8, 14); (9, 11); (10, 13); (11, 2); (12, 7); (13, 5); (14, 1); (15, 9)] 17 [] 8 7 2);
    (Some 6410584968372631448,
     mkObs [(0, 8); (1, 1); (2, 6); (3, 7); (4, 5); (5, 0); (6, 15); (7, 4); (8, 13); (9, 12); (10, 11); (11, 9); (12, 3); (13, 2); (14, 10); (15, 14)] 16 [] 8 0 3,
     [OT 1; OT 2; OT 3; OT 2; OT 3; OT 4; OU 17449378779890280692; OU 2291705266235066185; OT 3; OT 2; OT 4; OT 3],
     mkObs [(0, 8); (1, 16); (2, 17); (3, 7); (4, 5); (5, 0); (6, 15); (7, 4); (8, 13); (9, 12); (10, 11); (11, 9); (12, 3); (13, 2); (14, 10); (15, 14)] 18 [] 8 8 3)].
Proof. vm_compute. reflexivity. Qed.

(* pct_vec_3: seed=123456789 depth=5 iters=3; 67 next_task calls *)
Example pct_vec_3 :
  pct_session true 64 123456789 5 3
   [[PTask [0] None false;
      PTask [0; 1; 2] (Some 0) false;
      PTask [1; 2] (Some 0) false;
      PTask [0; 1; 2] (Some 1) false;
      PTask [0; 1; 3] (Some 0) false;
      PTask [0] (Some 0) false;
      PTask [2] (Some 0) false;
      PTask [0; 1; 2; 3] (Some 2) true;
      PTask [0; 1; 2; 3] (Some 0) false;
      PTask [0; 1; 2] (Some 0) false;
      PTask [3] (Some 0) false;
      PTask [0; 1; 2] (Some 3) false;
      PTask [5] (Some 0) false;
      PTask [0; 1; 3; 5] (Some 5) false;
      PTask [0; 1; 2; 3; 4; 6] (Some 0) false;
      PTask [0; 1; 3; 4; 5; 7; 9] (Some 0) false;
      PTask [1; 3; 5; 6; 11] (Some 0) false;
      PTask [0; 1; 2; 3; 5; 6; 7; 8; 10; 11; 12; 13] (Some 1) false;
      PTask [2; 3; 5; 7; 10; 12; 13; 14] (Some 0) false;
      PTask [0; 1; 2; 3; 4; 7; 11; 12; 13; 14] (Some 3) false;
      PTask [0; 2; 3; 4; 7; 9; 10; 11; 13] (Some 0) false;
      PTask [0; 1; 2; 3; 5; 6; 9; 10; 11; 12; 13; 14; 15; 16; 17] (Some 0) false;
      PTask [1; 3; 7; 8; 9; 10; 11; 12; 13; 14; 15; 17] (Some 0) false;
      PTask [0; 1; 2; 3; 6; 7; 8; 9; 10; 11; 13; 14; 15; 16; 17] (Some 1) false;
      PTask [0; 1; 2; 3; 4; 5; 6; 7; 9; 10; 11; 13; 14; 15; 16; 17] (Some 0) true];
    [PTask [0] None false;
      PTask [1; 2] (Some 0) false;
      PTask [2; 4] (Some 2) false;
      PTask [1; 3] (Some 4) false;
      PTask [0; 1; 2; 3; 4; 5; 6; 7] (Some 3) false;
      PTask [1; 3; 5; 8; 9; 10] (Some 4) false;
      PTask [0; 1; 2; 7; 8; 9] (Some 3) false;
      PTask [0; 1; 2; 3; 8] (Some 0) false;
      PU64;
      PTask [1; 2; 3; 4; 5; 6; 8; 9] (Some 3) false;
      PTask [0; 2; 3; 4; 6; 7; 8; 9; 12; 13] (Some 4) false;
      PTask [1; 2; 7; 9; 10; 11; 12] (Some 6) false;
      PTask [0; 1; 2; 3; 4; 5; 8; 9; 10; 11; 12; 13; 15] (Some 11) false;
      PTask [1; 2; 3; 4; 7; 9; 11; 13; 14; 15] (Some 3) false;
      PTask [0; 1; 2; 5; 7; 8; 9; 10; 11; 13; 14] (Some 3) false;
      PTask [0; 1; 2; 3; 4; 6; 7; 8; 9; 10; 13] (Some 0) true;
      PTask [0; 2; 3; 4; 5; 6; 8; 10; 11; 12; 14; 15] (Some 6) false;
      PTask [0; 2; 3; 7; 8; 9; 10; 11; 12; 14; 16] (Some 3) true;
      PU64;
      PTask [0; 1; 2; 6; 7; 9; 10; 12; 14; 15; 16; 17] (Some 12) false;
      PTask [0; 1; 2; 3; 4; 7; 8; 9; 10; 12; 13; 14; 16; 17] (Some 12) false;
      PTask [0; 6; 9; 10; 11; 12; 13] (Some 12) false;
      PU64;
      PTask [2; 3; 4; 5; 7; 8; 10; 11; 12; 14; 16; 18; 19] (Some 12) false;
      PTask [0; 2; 3; 4; 7; 8; 9; 10; 12; 14; 15; 18; 20] (Some 12) true];
    [PU64;
      PTask [0; 1] None false;
      PTask [0; 1; 2] (Some 1) false;
      PTask [0; 1; 2] (Some 2) false;
      PTask [0; 1; 3; 5; 6] (Some 1) false;
      PU64;
      PTask [0; 2; 3; 4; 5; 6] (Some 3) false;
      PTask [0; 1; 2; 4; 5; 6] (Some 4) false;
      PTask [0; 3; 4] (Some 4) false;
      PTask [1; 2; 4; 5] (Some 4) false;
      PTask [2; 5; 6] (Some 4) false;
      PU64;
      PTask [0; 1; 2; 4; 8] (Some 6) false;
      PU64;
      PTask [0; 2; 3; 5; 6] (Some 4) false;
      PTask [0; 1; 3; 5; 6; 7] (Some 3) false;
      PTask [0; 3; 4; 5; 6; 7; 8] (Some 7) false;
      PU64;
      PTask [0; 2; 4; 5; 6; 7; 8; 10] (Some 7) false;
      PTask [0; 2; 3; 6; 7; 8; 9; 10] (Some 10) false;
      PTask [0; 2; 3; 4; 5; 6; 8; 9; 10; 11; 12] (Some 10) false;
      PTask [0; 1; 3; 4; 6; 7; 8; 11; 12] (Some 11) false;
      PTask [1; 2; 3; 4; 6; 7; 9; 10; 11; 12] (Some 11) false;
      PTask [0; 2; 4; 6; 7; 9; 11] (Some 12) true;
      PTask [0; 1; 2; 3; 6; 7; 8; 10; 11] (Some 7) false]]
  = Done
   [(Some 123456789,
     mkObs [(0, 0); (1, 1); (2, 2); (3, 3); (4, 4); (5, 5); (6, 6); (7, 7); (8, 8); (9, 9); (10, 10); (11, 11); (12, 12); (13, 13); (14, 14); (15, 15)] 16 [] 0 0 1,
     [OT 0; OT 0; OT 1; OT 0; OT 0; OT 0; OT 2; OT 0; OT 0; OT 0; OT 3; OT 0; OT 5; OT 0; OT 0; OT 0; OT 1; OT 0; OT 3; OT 0; OT 0; OT 0; OT 1; OT 0; OT 1],
     mkObs [(0, 19); (1, 1); (2, 18); (3, 3); (4, 4); (5, 5); (6, 6); (7, 7); (8, 8); (9, 17); (10, 10); (11, 11); (12, 12); (13, 13); (14, 14); (15, 15); (16, 9); (17, 16)] 20 [] 20 20 1);
    (Some 6620534140781767585,
     mkObs [(0, 6); (1, 9); (2, 7); (3, 3); (4, 0); (5, 13); (6, 2); (7, 15); (8, 12); (9, 16); (10, 8); (11, 1); (12, 4); (13, 11); (14, 10); (15, 5); (16, 17); (17, 14)] 18 [8; 10; 13; 14] 20 0 2,
     [OT 0; OT 2; OT 4; OT 3; OT 4; OT 3; OT 0; OT 3; OU 8877418927791107899; OT 4; OT 6; OT 11; OT 3; OT 3; OT 0; OT 6; OT 3; OT 12; OU 11825606617931663091; OT 12; OT 12; OT 12; OU 17260396033161628426; OT 12; OT 15],
     mkObs [(0, 20); (1, 9); (2, 7); (3, 24); (4, 18); (5, 13); (6, 23); (7, 15); (8, 12); (9, 16); (10, 8); (11, 19); (12, 26); (13, 11); (14, 10); (15, 5); (16, 17); (17, 14); (18, 25); (19, 22); (20, 21)] 27 [8; 10; 13; 14] 21 21 2);
    (Some 5109814986925993662,
     mkObs [(0, 19); (1, 14); (2, 12); (3, 9); (4, 2); (5, 17); (6, 16); (7, 6); (8, 8); (9, 20); (10, 4); (11, 1); (12, 3); (13, 13); (14, 7); (15, 15); (16, 0); (17, 11); (18, 18); (19, 10); (20, 5)] 21 [10; 20; 17; 2] 21 0 3,
     [OU 4023964920832585467; OT 1; OT 2; OT 1; OT 3; OU 9673865322677979727; OT 4; OT 4; OT 4; OT 4; OT 6; OU 461890699728211054; OT 4; OU 6082809779150290207; OT 3; OT 7; OT 7; OU 2951309412162121447; OT 10; OT 10; OT 11; OT 11; OT 12; OT 7; OT 10],
     mkObs [(0, 19); (1, 14); (2, 21); (3, 9); (4, 22); (5, 17); (6, 16); (7, 6); (8, 8); (9, 20); (10, 4); (11, 23); (12, 24); (13, 13); (14, 7); (15, 15); (16, 0); (17, 11); (18, 18); (19, 10); (20, 5)] 25 [10; 20; 17; 2] 21 20 3)].
Proof. vm_compute. reflexivity. Qed.

(* pct_vec_4: seed=18446744073709551615 depth=20 iters=3; 79 next_task calls *)
Example pct_vec_4 :
  pct_session true 64 18446744073709551615 20 3
   [[PTask [0; 1; 2] None false;
      PTask [0; 1; 2; 3; 4] (Some 0) false;
      PTask [1; 3; 4] (Some 0) true;
      PU64;
      PTask [0; 1; 2; 4] (Some 1) false;
      PTask [1; 3; 4; 5] (Some 1) false;
      PTask [0; 4; 6; 7] (Some 1) false;
      PTask [0; 3; 4; 5; 6] (Some 4) false;
      PTask [2; 3; 5; 6; 7] (Some 3) false;
      PTask [2; 3; 4; 5; 6; 7; 8; 9; 10] (Some 2) true;
      PU64;
      PTask [0; 1; 3; 8; 9; 10; 11] (Some 3) true;
      PTask [0; 2; 3; 4; 5; 6; 7; 9; 11; 12; 13] (Some 1) false;
      PTask [0; 4; 6; 7; 8; 9; 14; 15] (Some 4) false;
      PTask [0; 1; 2; 3; 4; 6; 7; 8; 9; 10; 13; 15] (Some 4) false;
      PTask [0; 2; 3; 4; 6; 7; 10; 13; 15] (Some 1) true;
      PTask [0; 1; 5; 6; 9; 10; 11; 12; 14; 15] (Some 4) false;
      PU64;
      PTask [2; 3; 4; 5; 6; 9; 10; 12; 13; 14; 15; 16; 18; 19] (Some 5) false;
      PTask [0; 1; 2; 3; 4; 5; 6; 8; 10; 11; 12; 13; 14; 15; 17; 18] (Some 4) false;
      PU64;
      PTask [0; 1; 2; 3; 4; 7; 8; 9; 10; 12; 15; 19; 22; 23; 24] (Some 4) false;
      PTask [0; 1; 2; 3; 4; 6; 8; 9; 10; 11; 12; 14; 15; 20; 23; 24] (Some 4) false;
      PTask [1; 2; 3; 4; 6; 7; 10; 13; 15; 16; 18; 19; 21; 22; 23; 25; 26; 27] (Some 4) false;
      PU64;
      PTask [0; 1; 2; 3; 4; 5; 6; 7; 8; 9; 10; 11; 14; 15; 17; 18; 20; 23; 26; 27; 28; 29; 31] (Some 4) false;
      PTask [1; 3; 4; 6; 7; 8; 11; 12; 13; 14; 15; 16; 17; 20; 21; 25; 26; 27; 28; 30; 31; 32; 33; 34] (Some 31) false;
      PTask [0; 1; 3; 4; 6; 7; 10; 11; 13; 14; 16; 18; 19; 22; 23; 26; 27; 31; 32; 33; 34] (Some 31) false;
      PTask [0; 2; 4; 6; 7; 8; 10; 11; 12; 13; 14; 15; 16; 17; 18; 21; 22; 24; 28; 30; 31; 32; 34; 35; 36; 37] (Some 31) false;
      PTask [0; 1; 2; 3; 4; 5; 7; 13; 14; 16; 17; 18; 20; 22; 23; 24; 25; 26; 28; 29; 30; 31; 32; 33; 34; 36; 38] (Some 31) true];
    [PTask [1] None false;
      PTask [0; 2; 3] (Some 1) false;
      PTask [1; 3; 4; 5] (Some 2) true;
      PTask [2; 3; 4] (Some 3) false;
      PTask [0] (Some 4) false;
      PU64;
      PTask [2; 4] (Some 0) false;
      PTask [0; 1; 3; 4; 5] (Some 4) false;
      PTask [1; 2; 4; 5] (Some 1) false;
      PTask [0; 1; 3] (Some 5) false;
      PTask [0; 1; 2; 3; 4; 6] (Some 3) false;
      PTask [1; 4; 6; 7; 8; 9; 10; 11] (Some 6) true;
      PTask [0; 1; 3; 4; 5; 6; 8; 9; 10; 11] (Some 10) false;
      PTask [1; 2; 3; 6; 9; 11; 12; 13; 14] (Some 10) false;
      PU64;
      PTask [0; 1; 2; 4; 5; 6; 7; 10; 12; 14; 15] (Some 13) false;
      PTask [2; 3; 4; 5; 6; 7; 9; 10; 11; 13; 14; 16] (Some 14) false;
      PTask [0; 1; 2; 4; 6; 7; 8; 10; 11; 12; 13; 14; 15; 16; 17; 18; 19; 20] (Some 11) false;
      PTask [0; 5; 8; 9; 10; 11; 12; 13; 14; 15; 16; 17; 18; 19; 20] (Some 17) false;
      PTask [1; 2; 5; 6; 8; 9; 10; 11; 12; 13; 15; 16; 20] (Some 17) false;
      PTask [0; 1; 2; 3; 4; 5; 6; 8; 10; 13; 14; 16; 17; 18; 19] (Some 8) false;
      PTask [0; 1; 2; 3; 6; 7; 8; 9; 10; 11; 12; 13; 15; 16; 17; 18; 19] (Some 19) true;
      PTask [0; 1; 5; 6; 7; 9; 10; 12; 13; 16; 17; 18; 19; 20] (Some 11) false;
      PTask [0; 2; 3; 5; 6; 7; 8; 13; 14; 15; 16; 17; 18; 20; 22] (Some 20) false;
      PTask [0; 1; 2; 8; 9; 10; 11; 13; 15; 16; 17; 18; 19; 20; 21; 22; 23; 25] (Some 20) true;
      PTask [1; 2; 7; 9; 10; 13; 14; 15; 17; 18; 20; 21; 23; 25] (Some 25) false;
      PTask [1; 2; 3; 4; 5; 6; 7; 8; 10; 13; 15; 17; 19; 20; 21; 22; 25] (Some 15) false;
      PTask [2; 3; 4; 5; 6; 7; 8; 9; 11; 12; 13; 14; 16; 17; 21; 22; 23; 24; 25] (Some 21) false;
      PU64;
      PTask [0; 1; 2; 3; 4; 9; 10; 12; 13; 16; 17; 18; 19; 20; 23; 25; 26; 29] (Some 24) false];
    [PU64;
      PTask [1; 2] None false;
      PTask [0; 1; 2; 3] (Some 1) false;
      PTask [1; 2; 3; 4; 6] (Some 0) false;
      PTask [2; 3; 4; 5; 7] (Some 4) false;
      PTask [1; 2; 4; 5] (Some 7) false;
      PTask [1; 4; 5; 7; 9] (Some 5) false;
      PTask [5; 6; 8; 9] (Some 9) false;
      PTask [0; 4; 5; 6; 7; 8; 11] (Some 9) false;
      PTask [0; 1; 3; 8; 9; 10; 11] (Some 8) false;
      PTask [1; 2; 5; 6; 7; 8; 9; 11] (Some 10) false;
      PTask [0; 1; 3; 5; 6; 9; 11; 13; 14; 15] (Some 8) false;
      PTask [0; 2; 3; 4; 5; 10; 11; 13; 14] (Some 14) true;
      PTask [0; 2; 4; 5; 6; 7; 8; 10; 11; 12; 13; 14; 15; 17; 18; 19] (Some 11) false;
      PTask [0; 1; 2; 4; 5; 6; 8; 11; 12; 13; 14; 16] (Some 12) true;
      PTask [1; 4; 8; 10; 11; 12; 13; 14; 15; 18] (Some 16) false;
      PTask [0; 2; 3; 4; 6; 7; 8; 11; 13; 14; 15; 16; 17; 18; 21; 22] (Some 18) false;
      PTask [0; 1; 4; 5; 6; 7; 8; 11; 13; 14; 15; 16; 17; 18; 19; 20; 21] (Some 21) false;
      PTask [0; 1; 3; 4; 5; 6; 7; 8; 9; 11; 14; 15; 17; 18; 19; 21; 22; 23] (Some 21) false;
      PTask [0; 2; 3; 5; 7; 9; 10; 13; 14; 16; 18; 21; 22; 23] (Some 23) false;
      PTask [0; 3; 6; 8; 11; 12; 13; 14; 15; 19; 20; 22; 24; 25] (Some 16) false;
      PU64;
      PTask [0; 1; 3; 5; 6; 7; 8; 9; 11; 13; 15; 18; 19; 20; 21; 22; 23; 24; 25; 26] (Some 25) false;
      PTask [0; 2; 4; 5; 8; 10; 11; 12; 14; 15; 17; 20; 21; 22; 24; 27] (Some 26) false;
      PTask [0; 1; 2; 3; 5; 6; 7; 10; 11; 12; 14; 15; 17; 18; 20; 21; 22; 23; 24; 26; 27] (Some 17) false;
      PTask [1; 5; 6; 7; 8; 9; 10; 11; 13; 15; 16; 17; 18; 19; 20; 21; 22; 24; 26; 27] (Some 6) false;
      PTask [0; 1; 2; 3; 4; 5; 6; 7; 8; 9; 10; 13; 14; 16; 17; 19; 21; 22; 23; 24; 26; 27; 28; 29; 30; 31] (Some 20) false;
      PTask [3; 4; 7; 8; 9; 10; 11; 12; 13; 14; 15; 17; 18; 20; 21; 23; 25; 26; 28; 29; 30; 31] (Some 30) false;
      PU64;
      PTask [0; 1; 2; 3; 4; 5; 6; 7; 9; 10; 12; 13; 14; 15; 16; 17; 19; 20; 21; 22; 23; 24; 25; 26; 27; 29] (Some 30) false]]
  = Done
   [(Some 18446744073709551615,
     mkObs [(0, 0); (1, 1); (2, 2); (3, 3); (4, 4); (5, 5); (6, 6); (7, 7); (8, 8); (9, 9); (10, 10); (11, 11); (12, 12); (13, 13); (14, 14); (15, 15)] 16 [] 0 0 1,
     [OT 0; OT 0; OT 1; OU 6206096000548683403; OT 1; OT 1; OT 4; OT 3; OT 2; OT 3; OU 14211345679586757052; OT 1; OT 4; OT 4; OT 1; OT 4; OT 5; OU 16873869928293931964; OT 4; OT 4; OU 12922840704744694719; OT 4; OT 4; OT 4; OU 15157473341901274612; OT 31; OT 31; OT 31; OT 31; OT 38],
     mkObs [(0, 16); (1, 19); (2, 17); (3, 33); (4, 37); (5, 5); (6, 20); (7, 34); (8, 8); (9, 9); (10, 39); (11, 11); (12, 25); (13, 32); (14, 23); (15, 15); (16, 6); (17, 38); (18, 14); (19, 30); (20, 22); (21, 28); (22, 31); (23, 40); (24, 12); (25, 10); (26, 21); (27, 7); (28, 13); (29, 27); (30, 26); (31, 43); (32, 41); (33, 36); (34, 24); (35, 29); (36, 18); (37, 35); (38, 4)] 44 [] 25 25 1);
    (Some 18190814218455713770,
     mkObs [(0, 14); (1, 16); (2, 2); (3, 6); (4, 11); (5, 20); (6, 35); (7, 32); (8, 8); (9, 36); (10, 4); (11, 18); (12, 34); (13, 12); (14, 19); (15, 23); (16, 28); (17, 0); (18, 29); (19, 15); (20, 9); (21, 24); (22, 38); (23, 37); (24, 1); (25, 21); (26, 26); (27, 33); (28, 27); (29, 31); (30, 7); (31, 3); (32, 5); (33, 30); (34, 13); (35, 17); (36, 10); (37, 22); (38, 25)] 39 [24; 8; 11; 10; 1; 17; 5; 15; 22; 16; 4; 20; 3; 2; 18; 7; 12; 6; 21] 25 0 2,
     [OT 1; OT 2; OT 3; OT 4; OT 0; OU 16007588607905241795; OT 4; OT 1; OT 5; OT 3; OT 6; OT 10; OT 10; OT 13; OU 12509859690893075506; OT 14; OT 11; OT 17; OT 17; OT 8; OT 19; OT 11; OT 20; OT 20; OT 25; OT 15; OT 21; OT 24; OU 9827146019113772507; OT 26],
     mkObs [(0, 41); (1, 43); (2, 39); (3, 45); (4, 42); (5, 44); (6, 46); (7, 32); (8, 51); (9, 36); (10, 47); (11, 53); (12, 34); (13, 48); (14, 49); (15, 56); (16, 28); (17, 50); (18, 29); (19, 52); (20, 54); (21, 24); (22, 38); (23, 37); (24, 57); (25, 55); (26, 26); (27, 33); (28, 27); (29, 31); (30, 7); (31, 3); (32, 5); (33, 30); (34, 13); (35, 17); (36, 10); (37, 22); (38, 25)] 58 [24; 8; 11; 10; 1; 17; 5; 15; 22; 16; 4; 20; 3; 2; 18; 7; 12; 6; 21] 25 25 2);
    (Some 4196910587724174899,
     mkObs [(0, 3); (1, 7); (2, 33); (3, 32); (4, 17); (5, 25); (6, 22); (7, 18); (8, 12); (9, 8); (10, 5); (11, 29); (12, 14); (13, 30); (14, 9); (15, 36); (16, 20); (17, 16); (18, 27); (19, 37); (20, 24); (21, 6); (22, 31); (23, 10); (24, 26); (25, 4); (26, 11); (27, 34); (28, 38); (29, 19); (30, 2); (31, 13); (32, 23); (33, 1); (34, 35); (35, 21); (36, 0); (37, 28); (38, 15)] 39 [20; 12; 17; 22; 21; 1; 7; 19; 24; 10; 9; 23; 18; 5; 15; 4; 13; 3; 2] 25 0 3,
     [OU 4207716555995795796; OT 1; OT 0; OT 4; OT 7; OT 5; OT 9; OT 9; OT 8; OT 10; OT 8; OT 14; OT 11; OT 12; OT 16; OT 18; OT 21; OT 21; OT 23; OT 16; OT 25; OU 17413327756197448031; OT 26; OT 17; OT 6; OT 20; OT 30; OT 30; OU 1428890958666453012; OT 29],
     mkObs [(0, 40); (1, 39); (2, 33); (3, 32); (4, 41); (5, 43); (6, 57); (7, 42); (8, 46); (9, 44); (10, 45); (11, 48); (12, 49); (13, 30); (14, 47); (15, 36); (16, 53); (17, 56); (18, 50); (19, 37); (20, 58); (21, 51); (22, 31); (23, 52); (24, 26); (25, 54); (26, 55); (27, 34); (28, 38); (29, 19); (30, 2); (31, 13); (32, 23); (33, 1); (34, 35); (35, 21); (36, 0); (37, 28); (38, 15)] 59 [20; 12; 17; 22; 21; 1; 7; 19; 24; 10; 9; 23; 18; 5; 15; 4; 13; 3; 2] 27 27 3)].
Proof. vm_compute. reflexivity. Qed.

(* pct_vec_5: seed=0 depth=2 iters=6; 45 next_task calls *)
Example pct_vec_5 :
  pct_session true 64 0 2 6
   [[PTask [0; 1; 2; 3] None false;
      PTask [4] (Some 0) false;
      PTask [1; 3; 4] (Some 4) false;
      PTask [0; 1; 3; 4] (Some 1) true;
      PTask [1; 2] (Some 0) true;
      PTask [1; 2; 3] (Some 2) false;
      PTask [0; 1; 2; 3] (Some 2) true;
      PU64];
    [PTask [3] None false;
      PTask [0; 1; 2] (Some 3) true;
      PTask [0; 1; 2; 3] (Some 1) false;
      PTask [0; 1; 2; 3; 4] (Some 1) false;
      PTask [0; 1; 3; 4] (Some 4) false;
      PTask [0; 1; 2; 3; 4; 5] (Some 4) false;
      PU64;
      PTask [2] (Some 4) false];
    [PTask [0; 1; 3] None false;
      PTask [0; 2; 3] (Some 0) false;
      PTask [0; 1; 2; 3; 4] (Some 0) false;
      PTask [2; 3] (Some 4) true;
      PTask [0; 1; 3] (Some 3) false;
      PTask [2; 3] (Some 0) false;
      PTask [1; 2; 4] (Some 2) false;
      PTask [0; 1; 3] (Some 1) false];
    [PTask [0; 2; 3] None false;
      PTask [0; 1; 3] (Some 2) false;
      PTask [0; 1; 2; 3] (Some 3) true;
      PTask [0; 1; 2; 3] (Some 2) false;
      PTask [0; 2] (Some 2) false;
      PTask [0; 1; 2; 3] (Some 2) false;
      PTask [2] (Some 2) false;
      PTask [1; 2] (Some 2) true];
    [PU64;
      PTask [0; 1; 2; 3] None false;
      PTask [0; 1; 3] (Some 3) true;
      PTask [0; 1] (Some 0) false;
      PTask [0; 1] (Some 0) false;
      PTask [3] (Some 0) true;
      PTask [1; 2; 3] (Some 3) false;
      PTask [1; 2; 3] (Some 1) false];
    [PTask [0; 1; 2; 3] None false;
      PTask [0; 1; 2; 4] (Some 0) true;
      PTask [0; 1; 2; 3; 4] (Some 4) false;
      PTask [0; 1; 2; 3; 4] (Some 4) false;
      PTask [0; 3; 5] (Some 1) true;
      PTask [1; 4] (Some 5) false;
      PTask [0; 2; 3; 4; 5] (Some 4) false;
      PTask [0; 1; 2; 4; 5] (Some 5) true]]
  = Done
   [(Some 0,
     mkObs [(0, 0); (1, 1); (2, 2); (3, 3); (4, 4); (5, 5); (6, 6); (7, 7); (8, 8); (9, 9); (10, 10); (11, 11); (12, 12); (13, 13); (14, 14); (15, 15)] 16 [] 0 0 1,
     [OT 0; OT 4; OT 1; OT 0; OT 2; OT 2; OT 3; OU 6198063878555692194],
     mkObs [(0, 17); (1, 16); (2, 18); (3, 3); (4, 4); (5, 5); (6, 6); (7, 7); (8, 8); (9, 9); (10, 10); (11, 11); (12, 12); (13, 13); (14, 14); (15, 15)] 19 [] 6 6 1);
    (Some 15457584781082106573,
     mkObs [(0, 14); (1, 11); (2, 12); (3, 3); (4, 5); (5, 9); (6, 7); (7, 8); (8, 15); (9, 2); (10, 0); (11, 10); (12, 1); (13, 6); (14, 13); (15, 4)] 16 [5] 6 0 2,
     [OT 3; OT 1; OT 1; OT 4; OT 4; OT 4; OU 12730953637381048942; OT 2],
     mkObs [(0, 14); (1, 11); (2, 12); (3, 16); (4, 5); (5, 9); (6, 7); (7, 8); (8, 15); (9, 2); (10, 0); (11, 10); (12, 1); (13, 6); (14, 13); (15, 4)] 17 [5] 6 5 2);
    (Some 1784540860408891797,
     mkObs [(0, 4); (1, 11); (2, 15); (3, 10); (4, 1); (5, 6); (6, 0); (7, 7); (8, 3); (9, 12); (10, 14); (11, 2); (12, 13); (13, 5); (14, 8); (15, 9)] 16 [4] 6 0 3,
     [OT 0; OT 0; OT 4; OT 3; OT 0; OT 2; OT 1; OT 0],
     mkObs [(0, 4); (1, 11); (2, 15); (3, 17); (4, 16); (5, 6); (6, 0); (7, 7); (8, 3); (9, 12); (10, 14); (11, 2); (12, 13); (13, 5); (14, 8); (15, 9)] 18 [4] 8 8 3);
    (Some 6867543231104894782,
     mkObs [(0, 13); (1, 6); (2, 0); (3, 5); (4, 3); (5, 9); (6, 2); (7, 4); (8, 14); (9, 11); (10, 1); (11, 15); (12, 7); (13, 8); (14, 10); (15, 12)] 16 [7] 8 0 4,
     [OT 2; OT 3; OT 2; OT 2; OT 2; OT 2; OT 2; OT 1],
     mkObs [(0, 13); (1, 6); (2, 17); (3, 16); (4, 3); (5, 9); (6, 2); (7, 4); (8, 14); (9, 11); (10, 1); (11, 15); (12, 7); (13, 8); (14, 10); (15, 12)] 18 [7] 8 7 4);
    (Some 5238191878051068755,
     mkObs [(0, 7); (1, 12); (2, 14); (3, 3); (4, 8); (5, 5); (6, 0); (7, 4); (8, 13); (9, 11); (10, 6); (11, 9); (12, 10); (13, 2); (14, 1); (15, 15)] 16 [7] 8 0 5,
     [OU 16637091709586518921; OT 3; OT 0; OT 0; OT 0; OT 3; OT 1; OT 1],
     mkObs [(0, 7); (1, 12); (2, 14); (3, 16); (4, 8); (5, 5); (6, 0); (7, 4); (8, 13); (9, 11); (10, 6); (11, 9); (12, 10); (13, 2); (14, 1); (15, 15)] 17 [7] 8 6 5);
    (Some 16326008362305979001,
     mkObs [(0, 9); (1, 11); (2, 14); (3, 15); (4, 1); (5, 2); (6, 12); (7, 6); (8, 7); (9, 4); (10, 10); (11, 8); (12, 5); (13, 13); (14, 3); (15, 0)] 16 [3] 8 0 6,
     [OT 0; OT 4; OT 4; OT 1; OT 5; OT 4; OT 5; OT 2],
     mkObs [(0, 16); (1, 18); (2, 14); (3, 15); (4, 17); (5, 19); (6, 12); (7, 6); (8, 7); (9, 4); (10, 10); (11, 8); (12, 5); (13, 13); (14, 3); (15, 0)] 20 [3] 8 8 6)].
Proof. vm_compute. reflexivity. Qed.

(* pct_vec_6: seed=99 depth=4 iters=3; 109 next_task calls *)
Example pct_vec_6 :
  pct_session true 64 99 4 3
   [[PTask [1; 2; 5; 7; 8; 9; 10; 11; 12; 13; 16; 17; 18] None false;
      PTask [0; 1; 3; 4; 7; 9; 10; 13; 14; 17; 18] (Some 1) false;
      PU64;
      PTask [1; 2; 4; 6; 7; 8; 9; 10; 11; 13; 15; 16; 17; 18] (Some 0) true;
      PTask [2; 3; 6; 8; 9; 11; 12; 14; 15; 18] (Some 1) false;
      PTask [0; 4; 5; 7; 10; 12; 13; 14; 15; 16; 17; 18] (Some 2) true;
      PTask [0; 1; 7; 9; 10; 11; 12; 13; 14; 15; 16; 17; 19] (Some 4) false;
      PTask [0; 1; 2; 3; 4; 5; 6; 7; 8; 9; 10; 11; 12; 13; 14; 18; 19] (Some 1) false;
      PTask [0; 2; 3; 5; 6; 8; 10; 13; 14; 15; 19] (Some 1) false;
      PTask [0; 2; 4; 5; 7; 8; 9; 12; 13; 14; 15; 18; 19] (Some 19) false;
      PTask [0; 2; 3; 5; 7; 8; 9; 11; 12; 13; 14; 16; 17; 19] (Some 19) false;
      PTask [1; 3; 4; 5; 7; 8; 9; 10; 11; 14; 15; 16; 17; 18] (Some 19) false;
      PTask [0; 2; 3; 4; 5; 7; 8; 11; 13; 14; 15; 16; 17; 18] (Some 1) false;
      PTask [0; 1; 2; 3; 4; 5; 7; 8; 9; 11; 12; 14; 15; 18; 19] (Some 4) false;
      PU64;
      PTask [0; 1; 3; 5; 6; 7; 8; 9; 10; 11; 15; 16; 18; 19] (Some 1) false;
      PTask [1; 3; 4; 5; 6; 7; 8; 9; 10; 12; 13; 15; 16; 18] (Some 1) false;
      PTask [1; 2; 3; 5; 6; 7; 9; 10; 11; 13; 14; 16; 17; 18; 19; 20] (Some 1) true;
      PTask [0; 1; 3; 4; 6; 8; 9; 13; 14; 15; 18; 19] (Some 19) false;
      PTask [0; 1; 2; 5; 6; 7; 9; 10; 11; 12; 13; 14; 15; 16; 17; 19] (Some 19) false;
      PTask [0; 1; 2; 3; 4; 5; 7; 8; 10; 11; 12; 15; 16; 17; 18; 19; 20] (Some 19) false;
      PTask [0; 4; 5; 6; 7; 8; 9; 11; 12; 13; 14; 15; 16; 18; 19] (Some 19) false;
      PTask [0; 1; 5; 6; 8; 10; 11; 12; 13; 14; 15; 18; 21] (Some 19) false;
      PTask [0; 1; 2; 3; 6; 7; 8; 9; 10; 12; 13; 14; 15; 19; 20; 22; 23] (Some 5) false;
      PTask [0; 1; 3; 4; 5; 7; 8; 9; 10; 15; 17; 18; 19; 21; 24; 25] (Some 19) true;
      PTask [0; 2; 5; 6; 8; 9; 10; 11; 13; 14; 15; 16; 17; 19; 20; 21; 22; 23; 24; 25] (Some 24) true;
      PTask [1; 2; 3; 4; 6; 7; 8; 9; 10; 11; 12; 15; 20; 21] (Some 5) true;
      PTask [0; 3; 4; 5; 6; 7; 8; 11; 12; 15; 16; 17; 18; 19; 20; 21; 23] (Some 6) false;
      PTask [3; 4; 5; 8; 10; 11; 12; 14; 15; 16; 19; 20; 22; 23; 24; 25] (Some 6) false;
      PTask [1; 2; 4; 5; 10; 11; 13; 14; 15; 18; 19; 20; 21; 23; 24; 25; 26] (Some 10) true;
      PTask [1; 2; 3; 4; 6; 7; 11; 12; 14; 16; 20; 21; 22; 24; 25; 26] (Some 21) false;
      PTask [0; 1; 2; 3; 4; 5; 7; 8; 9; 11; 15; 16; 18; 21; 22; 23; 25; 26] (Some 6) false;
      PTask [1; 2; 3; 4; 7; 8; 11; 12; 13; 18; 20; 23; 24; 25; 26; 28] (Some 7) false;
      PTask [0; 1; 6; 7; 8; 10; 11; 12; 14; 17; 18; 19; 20; 21; 24; 26; 29] (Some 7) false;
      PTask [1; 2; 3; 4; 5; 6; 7; 10; 11; 12; 15; 16; 19; 20; 21; 22; 23; 25; 30] (Some 29) false;
      PTask [1; 3; 4; 5; 6; 10; 13; 14; 18; 19; 20; 23; 25; 27; 28; 29; 30] (Some 7) false;
      PTask [1; 4; 5; 8; 9; 10; 11; 12; 14; 15; 16; 17; 18; 20; 21; 22; 23; 25; 26; 28; 29; 32] (Some 29) true;
      PTask [0; 1; 2; 3; 5; 6; 7; 10; 13; 14; 15; 17; 18; 19; 22; 23; 24; 25; 26; 28; 29; 31] (Some 21) false;
      PU64;
      PTask [3; 5; 6; 8; 9; 10; 13; 14; 15; 16; 17; 18; 19; 20; 21; 22; 24; 25; 26; 27; 29; 30; 31; 32] (Some 7) false];
    [PTask [0; 2; 3; 4; 5; 8; 9; 10; 14; 15; 16] None false;
      PTask [0; 1; 2; 3; 5; 6; 7; 10; 11; 12; 13; 15] (Some 3) true;
      PTask [0; 3; 4; 5; 6; 7; 8; 10; 12; 16] (Some 13) true;
      PTask [0; 1; 2; 4; 6; 7; 8; 9; 10; 11; 12; 13; 15] (Some 7) false;
      PTask [1; 3; 4; 5; 6; 7; 9; 10; 13; 14] (Some 7) false;
      PTask [0; 2; 3; 4; 6; 7; 9; 10; 11; 12; 14; 15; 16; 17] (Some 7) true;
      PTask [0; 1; 2; 4; 5; 7; 8; 9; 10; 11; 12; 13; 14; 15; 17] (Some 17) false;
      PTask [1; 2; 3; 4; 5; 7; 8; 9; 10; 11; 12; 14; 15; 17] (Some 17) false;
      PTask [2; 3; 4; 5; 6; 7; 11; 13; 17; 18] (Some 17) false;
      PU64;
      PU64;
      PTask [1; 2; 3; 4; 5; 7; 8; 9; 10; 11; 12; 13; 17; 18; 20] (Some 17) false;
      PTask [0; 1; 4; 5; 7; 8; 10; 13; 14; 15; 16; 17; 18; 19; 20] (Some 17) false;
      PTask [0; 1; 2; 3; 5; 6; 7; 8; 9; 14; 15; 17; 18; 19; 20; 21] (Some 17) false;
      PTask [0; 2; 3; 4; 5; 6; 9; 10; 12; 13; 15; 16; 18; 19; 20; 21] (Some 17) false;
      PTask [0; 1; 2; 7; 8; 10; 11; 12; 13; 14; 16; 17; 18; 19] (Some 19) false;
      PTask [0; 2; 3; 4; 5; 6; 9; 12; 13; 14; 15; 17; 18; 20; 21; 23] (Some 17) false;
      PTask [1; 2; 3; 5; 6; 8; 9; 10; 12; 14; 16; 18; 19; 21; 22; 23] (Some 17) false;
      PTask [0; 1; 3; 5; 8; 9; 10; 11; 12; 13; 15; 17; 19; 20; 21; 22; 23] (Some 19) true;
      PTask [3; 6; 7; 8; 9; 10; 11; 12; 13; 15; 16; 17; 18; 19; 20; 22; 23] (Some 17) false;
      PU64;
      PTask [1; 2; 3; 4; 8; 9; 10; 11; 12; 13; 14; 19; 21; 22; 23] (Some 17) true;
      PTask [0; 1; 2; 3; 4; 5; 6; 8; 9; 11; 12; 15; 17; 18; 19; 20; 22; 23; 24] (Some 23) false;
      PTask [1; 2; 4; 5; 6; 8; 9; 10; 11; 13; 15; 16; 18; 19; 20; 22; 23; 24; 25] (Some 24) true;
      PU64;
      PTask [0; 2; 3; 4; 5; 7; 8; 9; 10; 11; 12; 13; 14; 15; 16; 17; 19; 20; 21; 23; 25; 26] (Some 23) false;
      PTask [0; 1; 2; 3; 4; 6; 8; 9; 10; 11; 13; 14; 16; 17; 18; 22; 23; 24; 26] (Some 23) false;
      PTask [1; 3; 4; 5; 6; 9; 10; 11; 13; 14; 15; 17; 20; 21; 22; 23; 24; 26; 27] (Some 23) false;
      PU64;
      PTask [0; 3; 4; 5; 6; 8; 11; 13; 14; 15; 19; 20; 21; 22; 23; 25; 26] (Some 23) false;
      PTask [0; 1; 3; 5; 6; 7; 8; 9; 10; 11; 12; 13; 14; 15; 16; 17; 18; 19; 20; 22; 24; 25; 26; 28] (Some 23) false;
      PTask [0; 2; 3; 4; 5; 6; 7; 9; 10; 12; 13; 17; 18; 19; 20; 21; 22; 24; 27; 28] (Some 28) false;
      PTask [0; 1; 2; 3; 4; 6; 7; 10; 13; 14; 15; 18; 19; 20; 22; 23; 26; 29] (Some 28) true;
      PTask [0; 1; 2; 3; 4; 6; 8; 13; 15; 17; 18; 19; 20; 21; 26; 27; 28; 29] (Some 29) false;
      PTask [1; 2; 3; 4; 5; 6; 8; 11; 12; 13; 14; 15; 16; 18; 19; 20; 21; 22; 24; 25; 26; 27] (Some 29) false;
      PTask [0; 2; 3; 4; 7; 9; 16; 17; 19; 21; 22; 23; 26; 27; 28; 29] (Some 26) true;
      PTask [2; 3; 4; 6; 8; 10; 11; 12; 13; 14; 16; 17; 18; 20; 23; 24; 25; 27; 28; 29] (Some 29) false;
      PU64;
      PTask [0; 2; 3; 4; 7; 11; 12; 14; 15; 16; 17; 18; 20; 21; 22; 23; 24; 25; 28] (Some 29) false;
      PTask [3; 4; 6; 7; 8; 9; 12; 13; 14; 16; 17; 18; 19; 21; 23; 24; 25; 26; 27; 28] (Some 23) false];
    [PTask [1; 3; 4; 5; 6; 7; 10; 11; 13; 14; 16] None false;
      PTask [1; 2; 3; 4; 5; 6; 7; 8; 9; 10; 11; 12; 13; 14; 16] (Some 7) false;
      PTask [0; 1; 2; 4; 5; 6; 7; 9; 10; 11; 12; 13; 16] (Some 7) false;
      PTask [1; 2; 3; 4; 5; 6; 7; 8; 9; 13; 14; 15; 16; 17] (Some 7) false;
      PTask [3; 5; 6; 7; 12; 13; 14; 15; 16; 17; 18; 19] (Some 7) false;
      PTask [0; 1; 4; 5; 6; 7; 8; 10; 11; 12; 13; 14; 15; 16; 17; 18; 19] (Some 7) false;
      PTask [0; 1; 2; 3; 5; 9; 10; 11; 12; 14; 16; 18; 19] (Some 7) true;
      PTask [0; 1; 4; 5; 6; 7; 9; 10; 11; 12; 14; 15; 16; 17; 18; 19] (Some 11) false;
      PTask [0; 1; 2; 3; 4; 6; 7; 8; 9; 10; 12; 13; 14; 16] (Some 11) false;
      PTask [0; 1; 2; 3; 6; 7; 8; 9; 10; 12; 13; 14; 15; 18; 19; 20] (Some 16) false;
      PTask [1; 3; 5; 6; 7; 9; 12; 13; 16; 18; 19; 21] (Some 3) false;
      PTask [0; 1; 2; 3; 5; 6; 7; 9; 10; 11; 12; 13; 15; 16; 17; 18; 19; 20; 22; 23] (Some 16) true;
      PTask [0; 2; 3; 4; 5; 8; 9; 11; 12; 16; 17; 18; 20; 21; 22; 23; 25] (Some 23) false;
      PU64;
      PTask [1; 2; 3; 4; 6; 8; 9; 11; 12; 13; 15; 16; 17; 18; 21; 23; 25] (Some 23) true;
      PTask [0; 2; 4; 8; 14; 16; 18; 19; 20; 22; 23; 24] (Some 11) false;
      PTask [1; 4; 5; 7; 8; 9; 11; 12; 15; 16; 17; 18; 20; 21; 23; 24; 25; 26; 27] (Some 14) false;
      PTask [0; 3; 4; 5; 6; 7; 8; 9; 10; 12; 13; 14; 15; 16; 17; 18; 20; 21; 22; 24; 27; 28] (Some 5) false;
      PTask [4; 5; 8; 10; 11; 12; 15; 17; 18; 19; 20; 23; 25; 27] (Some 3) true;
      PTask [0; 1; 2; 3; 4; 5; 6; 7; 9; 10; 11; 13; 14; 15; 18; 21; 24] (Some 4) false;
      PTask [0; 1; 2; 3; 4; 6; 7; 8; 9; 10; 11; 12; 13; 14; 15; 16; 18; 19; 20; 21; 23; 24; 26; 27; 28; 29; 30] (Some 14) false;
      PTask [0; 1; 2; 3; 5; 6; 7; 8; 9; 10; 12; 13; 18; 20; 21; 22; 23; 24; 29; 30] (Some 14) false;
      PTask [2; 3; 5; 7; 8; 9; 10; 11; 14; 15; 16; 17; 18; 19; 20; 21; 24; 25; 28; 29] (Some 22) false;
      PU64;
      PTask [0; 1; 2; 3; 4; 5; 6; 7; 8; 9; 12; 13; 14; 17; 18; 19; 20; 24; 26; 27] (Some 14) true;
      PTask [0; 1; 3; 4; 8; 9; 10; 11; 12; 13; 15; 17; 19; 20; 21; 22; 23; 24; 26; 27; 28; 29; 32] (Some 24) true;
      PTask [0; 1; 3; 4; 5; 6; 9; 10; 11; 12; 13; 14; 15; 16; 17; 18; 21; 22; 23; 25; 26; 27; 29; 30; 31; 32] (Some 22) false;
      PTask [0; 1; 3; 6; 7; 8; 9; 12; 16; 19; 20; 21; 22; 24; 26; 27; 29; 30; 31; 32; 33] (Some 22) false;
      PTask [2; 3; 4; 5; 6; 8; 9; 10; 13; 14; 15; 16; 17; 19; 20; 21; 23; 24; 25; 26; 27; 29; 30; 31; 32; 34] (Some 22) false;
      PTask [0; 1; 3; 6; 8; 9; 10; 11; 14; 15; 16; 17; 18; 19; 20; 22; 23; 24; 26; 27; 28; 29; 30; 31; 32; 34] (Some 4) false;
      PTask [0; 1; 2; 3; 4; 5; 6; 7; 8; 14; 16; 17; 18; 22; 26; 27; 28; 30; 33; 34] (Some 22) true;
      PTask [0; 1; 2; 3; 5; 6; 8; 9; 10; 11; 12; 13; 15; 16; 18; 19; 20; 25; 26; 27; 28; 29; 31; 32; 33; 34] (Some 27) true;
      PTask [0; 2; 3; 5; 6; 7; 8; 10; 12; 13; 14; 15; 16; 17; 19; 20; 21; 22; 23; 24; 25; 26; 28; 29; 30; 32; 34; 36] (Some 1) false;
      PTask [0; 2; 5; 7; 8; 10; 11; 13; 15; 16; 17; 18; 19; 21; 22; 23; 24; 25; 26; 27; 28; 29; 30; 33; 34; 35; 36] (Some 8) false;
      PTask [5; 6; 7; 9; 10; 11; 12; 13; 15; 17; 18; 19; 20; 22; 23; 25; 26; 28; 29; 30; 31; 32; 33; 35; 36; 37] (Some 8) false;
      PTask [1; 2; 4; 5; 6; 7; 8; 10; 11; 13; 14; 16; 17; 19; 21; 22; 23; 24; 26; 27; 28; 29; 30; 31; 33; 34; 35; 37] (Some 37) false;
      PTask [0; 1; 2; 3; 6; 7; 8; 9; 10; 13; 15; 16; 17; 18; 19; 20; 21; 23; 26; 27; 28; 29; 31; 32; 34; 36; 37; 38; 39] (Some 1) true;
      PTask [0; 2; 5; 6; 7; 8; 9; 10; 11; 13; 14; 15; 16; 17; 18; 19; 20; 22; 23; 24; 25; 27; 28; 29; 31; 34; 35; 36; 37] (Some 37) false;
      PTask [0; 1; 2; 3; 4; 5; 6; 8; 9; 10; 11; 12; 15; 17; 18; 20; 22; 23; 25; 26; 27; 28; 29; 31; 32; 33; 35; 37; 39; 40] (Some 37) false;
      PTask [1; 4; 5; 7; 11; 12; 14; 16; 17; 18; 19; 20; 21; 22; 24; 27; 28; 30; 31; 32; 33; 34; 36; 37; 38; 39; 40; 41] (Some 37) false]]
  = Done
   [(Some 99,
     mkObs [(0, 0); (1, 1); (2, 2); (3, 3); (4, 4); (5, 5); (6, 6); (7, 7); (8, 8); (9, 9); (10, 10); (11, 11); (12, 12); (13, 13); (14, 14); (15, 15)] 16 [] 0 0 1,
     [OT 1; OT 0; OU 9839048256530676849; OT 1; OT 2; OT 4; OT 1; OT 1; OT 19; OT 19; OT 19; OT 1; OT 4; OT 1; OU 18030334017385950597; OT 1; OT 1; OT 19; OT 19; OT 19; OT 19; OT 19; OT 5; OT 19; OT 24; OT 5; OT 6; OT 6; OT 10; OT 21; OT 6; OT 7; OT 7; OT 29; OT 7; OT 29; OT 21; OT 7; OU 18258366571370231917; OT 21],
     mkObs [(0, 19); (1, 37); (2, 20); (3, 21); (4, 35); (5, 31); (6, 36); (7, 7); (8, 26); (9, 9); (10, 33); (11, 22); (12, 12); (13, 18); (14, 28); (15, 15); (16, 13); (17, 25); (18, 16); (19, 34); (20, 11); (21, 8); (22, 17); (23, 39); (24, 30); (25, 14); (26, 32); (27, 29); (28, 27); (29, 40); (30, 23); (31, 38); (32, 24)] 41 [] 37 37 1);
    (Some 13994287446594589389,
     mkObs [(0, 30); (1, 28); (2, 21); (3, 2); (4, 29); (5, 14); (6, 16); (7, 6); (8, 31); (9, 27); (10, 22); (11, 15); (12, 26); (13, 0); (14, 19); (15, 13); (16, 24); (17, 1); (18, 18); (19, 4); (20, 23); (21, 12); (22, 32); (23, 9); (24, 3); (25, 25); (26, 11); (27, 17); (28, 7); (29, 8); (30, 5); (31, 10); (32, 20)] 33 [35; 32; 16] 37 0 2,
     [OT 3; OT 13; OT 7; OT 7; OT 7; OT 17; OT 17; OT 17; OT 17; OU 2485190322448955603; OU 13989511346741436859; OT 17; OT 17; OT 17; OT 19; OT 17; OT 17; OT 19; OT 17; OT 17; OU 3317159293292629831; OT 23; OT 24; OT 23; OU 8240871531618774879; OT 23; OT 23; OT 23; OU 11026755608407261978; OT 23; OT 28; OT 28; OT 29; OT 29; OT 26; OT 29; OT 29; OU 1019765727835547747; OT 23; OT 23],
     mkObs [(0, 30); (1, 28); (2, 21); (3, 33); (4, 29); (5, 14); (6, 16); (7, 35); (8, 31); (9, 27); (10, 22); (11, 15); (12, 26); (13, 34); (14, 19); (15, 13); (16, 24); (17, 37); (18, 18); (19, 36); (20, 23); (21, 12); (22, 32); (23, 9); (24, 38); (25, 25); (26, 40); (27, 17); (28, 39); (29, 41); (30, 5); (31, 10); (32, 20)] 42 [35; 32; 16] 37 34 2);
    (Some 6101585694865222357,
     mkObs [(0, 29); (1, 11); (2, 25); (3, 5); (4, 9); (5, 4); (6, 21); (7, 0); (8, 13); (9, 22); (10, 18); (11, 2); (12, 19); (13, 27); (14, 6); (15, 30); (16, 3); (17, 16); (18, 32); (19, 26); (20, 20); (21, 28); (22, 7); (23, 1); (24, 8); (25, 31); (26, 15); (27, 10); (28, 23); (29, 17); (30, 14); (31, 12); (32, 24)] 33 [16; 27; 14] 37 0 3,
     [OT 7; OT 7; OT 7; OT 7; OT 7; OT 7; OT 11; OT 11; OT 16; OT 3; OT 16; OT 23; OT 23; OU 969379329008557343; OT 11; OT 14; OT 5; OT 3; OT 4; OT 14; OT 14; OT 22; OT 14; OU 5789684938379599742; OT 24; OT 22; OT 22; OT 22; OT 4; OT 22; OT 27; OT 1; OT 8; OT 8; OT 37; OT 1; OT 37; OT 37; OT 37; OT 37],
     mkObs [(0, 29); (1, 51); (2, 25); (3, 38); (4, 43); (5, 37); (6, 21); (7, 33); (8, 13); (9, 22); (10, 49); (11, 36); (12, 47); (13, 53); (14, 39); (15, 30); (16, 34); (17, 16); (18, 32); (19, 26); (20, 20); (21, 28); (22, 44); (23, 35); (24, 41); (25, 31); (26, 15); (27, 45); (28, 23); (29, 17); (30, 46); (31, 48); (32, 24); (33, 40); (34, 19); (35, 14); (36, 42); (37, 12); (38, 50); (39, 18); (40, 27); (41, 52)] 54 [16; 27; 14] 38 38 3)].
Proof. vm_compute. reflexivity. Qed.

(* pct_vec_7: seed=2024 depth=14 iters=2; 107 next_task calls *)
Example pct_vec_7 :
  pct_session true 64 2024 14 2
   [[PTask [0] None false;
      PTask [1] (Some 0) false;
      PTask [0; 1] (Some 1) false;
      PTask [1; 2; 3] (Some 0) false;
      PTask [1; 2] (Some 1) false;
      PTask [0; 1; 2; 4] (Some 1) false;
      PTask [0; 1; 2; 3; 4] (Some 0) false;
      PTask [1; 3; 4] (Some 0) false;
      PTask [1; 2; 3; 4] (Some 1) true;
      PTask [0; 3; 4; 5; 6] (Some 2) false;
      PTask [2; 3; 5; 6; 7] (Some 0) false;
      PTask [2; 3; 4; 5; 6] (Some 2) true;
      PTask [1; 2; 3; 6; 7; 8] (Some 3) false;
      PTask [1; 2; 3; 4; 5; 6; 7; 9] (Some 3) false;
      PTask [1; 2; 3; 5; 7; 9; 10] (Some 3) true;
      PU64;
      PTask [0; 4; 5; 6; 7; 8; 9; 10] (Some 5) false;
      PTask [1; 2; 3; 4; 6; 7; 10] (Some 0) false;
      PTask [4; 5; 6; 8; 10] (Some 4) false;
      PTask [0; 2; 3; 4; 6; 8] (Some 4) false;
      PTask [0; 2; 3; 7; 8; 9; 10] (Some 0) false;
      PU64;
      PTask [0; 1; 2; 3; 5; 6; 8; 9; 10] (Some 0) false;
      PU64;
      PTask [0; 2; 3; 5; 6; 7; 9; 10] (Some 0) false;
      PTask [1; 2; 3; 4; 5; 6; 9] (Some 0) false;
      PU64;
      PTask [1; 2; 3; 4; 5; 6; 8; 10] (Some 4) false;
      PTask [0; 1; 2; 3; 4; 6; 9; 10] (Some 4) false;
      PTask [1; 6; 7; 8; 10; 11] (Some 0) false;
      PTask [1; 2; 4; 6; 7; 9; 10; 11] (Some 6) false;
      PTask [0; 1; 2; 4; 5; 6; 7; 8; 10] (Some 4) false;
      PTask [3; 4; 5; 7; 9; 10] (Some 0) false;
      PTask [0; 1; 2; 3; 4; 7; 9; 10] (Some 4) false;
      PTask [0; 2; 4; 6; 7; 8; 9; 10; 11; 12] (Some 0) false;
      PTask [2; 3; 5; 6; 7; 8; 9; 10; 11; 12] (Some 0) false;
      PU64;
      PU64;
      PTask [0; 1; 2; 5; 6; 9; 11; 12] (Some 5) true;
      PTask [0; 1; 3; 4; 5; 6; 7; 8; 9; 10; 12] (Some 0) false;
      PTask [1; 3; 4; 5; 7; 10; 11] (Some 0) false;
      PTask [0; 2; 6; 7; 9; 10; 11] (Some 4) false;
      PTask [0; 1; 2; 3; 5; 6; 7; 9; 10; 11; 12] (Some 0) false;
      PTask [0; 1; 2; 3; 4; 5; 6; 7; 9; 10; 11; 12] (Some 0) false;
      PTask [1; 3; 6; 7; 8; 12] (Some 0) false;
      PTask [0; 1; 2; 3; 7; 8; 9; 10; 12] (Some 6) true;
      PTask [1; 2; 4; 5; 8; 9; 10; 12] (Some 0) false;
      PTask [1; 2; 4; 5; 6; 7; 8; 9; 10] (Some 4) false;
      PTask [1; 4; 7; 9; 10; 11; 12] (Some 4) true;
      PTask [1; 3; 5; 7; 8; 10; 11; 12] (Some 7) false;
      PTask [0; 1; 2; 3; 4; 5; 6; 10; 11; 12] (Some 7) true;
      PTask [1; 2; 3; 4; 5; 6; 7; 9; 10; 12] (Some 0) false;
      PTask [0; 1; 2; 3; 7; 9; 10; 12] (Some 9) false;
      PTask [1; 3; 4; 5; 6; 8; 9; 11] (Some 0) true;
      PTask [2; 3; 5; 6; 7; 8; 9; 11; 12] (Some 8) false;
      PTask [1; 2; 3; 4; 5; 7; 8; 9; 10; 11; 12] (Some 8) false;
      PU64;
      PTask [1; 2; 4; 5; 6; 7; 8; 9; 10; 11; 12; 13] (Some 8) true;
      PTask [0; 1; 3; 4; 5; 6; 7; 8; 9; 10; 13] (Some 9) true;
      PTask [0; 1; 2; 4; 5; 6; 7; 8; 9; 10; 11; 12; 13; 15] (Some 10) false];
    [PU64;
      PTask [0] None false;
      PTask [0] (Some 0) false;
      PTask [0; 1; 2] (Some 0) false;
      PTask [0] (Some 0) false;
      PTask [1; 2] (Some 0) false;
      PTask [0; 1] (Some 1) false;
      PTask [0; 1; 2] (Some 0) true;
      PU64;
      PTask [1; 2] (Some 2) false;
      PTask [0; 1; 3] (Some 1) false;
      PU64;
      PTask [0; 1; 4; 5] (Some 3) true;
      PTask [0; 1; 2; 3; 4] (Some 5) false;
      PTask [2; 3; 4] (Some 4) false;
      PTask [0; 1; 2; 3; 4; 5] (Some 2) false;
      PTask [0; 1; 3; 4; 5] (Some 0) false;
      PTask [0; 1; 2; 3; 4; 5; 6] (Some 0) false;
      PTask [0; 2; 4; 5; 6] (Some 6) false;
      PTask [1; 2; 3; 5] (Some 6) false;
      PTask [2; 3; 4; 5] (Some 2) true;
      PTask [2; 4; 5; 6] (Some 3) false;
      PU64;
      PTask [0; 2; 4; 6] (Some 5) false;
      PTask [0; 1; 3; 4; 6; 7] (Some 0) false;
      PTask [0; 2; 3; 4; 5] (Some 7) false;
      PTask [0; 3; 6; 8] (Some 0) false;
      PTask [1; 2; 3; 6; 7; 8] (Some 8) false;
      PTask [3; 4; 5] (Some 7) false;
      PTask [0; 1; 3; 4; 5; 6; 8] (Some 3) false;
      PTask [0; 1; 3; 4; 6; 8] (Some 8) false;
      PTask [0; 1; 2; 3; 5; 8] (Some 8) false;
      PTask [1; 6; 9; 10] (Some 8) false;
      PTask [0; 2; 3; 4; 8; 9; 10] (Some 10) false;
      PTask [0; 1; 2; 4; 6; 7; 8; 9; 10] (Some 10) false;
      PTask [0; 1; 4; 7; 8; 9] (Some 9) false;
      PTask [1; 3; 5; 7; 8; 9; 10; 11; 12] (Some 8) false;
      PTask [0; 1; 5; 8; 10; 11; 12] (Some 11) false;
      PU64;
      PTask [1; 2; 3; 4; 5; 6; 7; 8; 9; 10; 11] (Some 12) true;
      PTask [0; 1; 2; 6; 7; 9; 11; 12; 13] (Some 8) false;
      PTask [0; 1; 3; 4; 5; 7; 9; 12; 13] (Some 13) false;
      PTask [0; 1; 2; 3; 4; 5; 7; 8; 9; 10; 11; 12] (Some 13) false;
      PTask [0; 1; 5; 6; 8; 10; 11; 12; 13] (Some 0) false;
      PTask [0; 1; 2; 3; 4; 6; 7; 9; 10; 13; 14] (Some 13) false;
      PTask [0; 3; 4; 5; 8; 9; 10; 11; 15] (Some 14) false;
      PTask [0; 1; 2; 3; 4; 5; 7; 8; 9; 10; 11; 12; 13; 14] (Some 15) false;
      PTask [0; 1; 2; 4; 5; 6; 7; 8; 10; 11; 13; 14; 15; 16] (Some 14) true;
      PTask [0; 1; 3; 6; 7; 8; 9; 10; 12; 13; 14; 15; 17] (Some 15) false;
      PTask [0; 1; 2; 4; 5; 7; 8; 9; 10; 11; 12; 13; 14; 16; 17] (Some 15) false;
      PTask [0; 1; 2; 3; 4; 5; 6; 8; 9; 10; 11; 12; 13; 14; 15; 17] (Some 0) true;
      PTask [0; 3; 6; 7; 8; 9; 10; 11; 12; 13; 16] (Some 15) false;
      PTask [1; 2; 3; 4; 6; 7; 8; 9; 11; 13; 15] (Some 16) false;
      PU64;
      PTask [1; 3; 4; 5; 6; 7; 10; 11; 12; 15; 17] (Some 15) false;
      PTask [0; 1; 2; 3; 4; 6; 7; 9; 10; 14; 19] (Some 15) false;
      PTask [0; 1; 7; 8; 9; 10; 11; 12; 13; 14; 16; 17; 19; 20; 21] (Some 3) false;
      PTask [1; 2; 4; 5; 6; 7; 8; 9; 13; 14; 15; 16; 18; 19; 21] (Some 16) false;
      PTask [0; 1; 2; 3; 4; 6; 7; 10; 11; 13; 16; 17; 18; 19; 21; 22] (Some 15) true;
      PTask [0; 2; 4; 5; 6; 9; 12; 13; 16; 18; 19; 20; 21; 22] (Some 16) false]]
  = Done
   [(Some 2024,
     mkObs [(0, 0); (1, 1); (2, 2); (3, 3); (4, 4); (5, 5); (6, 6); (7, 7); (8, 8); (9, 9); (10, 10); (11, 11); (12, 12); (13, 13); (14, 14); (15, 15)] 16 [] 0 0 1,
     [OT 0; OT 1; OT 0; OT 1; OT 1; OT 0; OT 0; OT 1; OT 2; OT 0; OT 2; OT 3; OT 3; OT 3; OT 5; OU 5039083441929540702; OT 0; OT 4; OT 4; OT 0; OT 0; OU 331211571904985379; OT 0; OU 15934226751367932041; OT 0; OT 4; OU 9360738119076244011; OT 4; OT 0; OT 6; OT 4; OT 0; OT 4; OT 0; OT 0; OT 5; OU 3284742764812192981; OU 11821656818263181557; OT 0; OT 0; OT 4; OT 0; OT 0; OT 0; OT 6; OT 0; OT 4; OT 4; OT 7; OT 7; OT 0; OT 9; OT 0; OT 8; OT 8; OT 8; OU 11972455798283975167; OT 9; OT 10; OT 10],
     mkObs [(0, 23); (1, 16); (2, 17); (3, 18); (4, 21); (5, 19); (6, 20); (7, 22); (8, 24); (9, 25); (10, 10); (11, 11); (12, 12); (13, 13); (14, 14); (15, 15)] 26 [] 51 51 1);
    (Some 11873751207480763003,
     mkObs [(0, 10); (1, 12); (2, 14); (3, 1); (4, 15); (5, 8); (6, 13); (7, 5); (8, 11); (9, 6); (10, 0); (11, 2); (12, 4); (13, 9); (14, 7); (15, 3)] 16 [7; 5; 28; 21; 8; 27; 2; 32; 13; 30; 4; 36; 1] 51 0 2,
     [OU 14035063369732329596; OT 0; OT 0; OT 0; OT 0; OT 1; OT 0; OT 2; OU 7295654451217875031; OT 1; OT 3; OU 13546763683202791830; OT 5; OT 4; OT 2; OT 0; OT 0; OT 6; OT 6; OT 2; OT 3; OT 5; OU 7070680948402710971; OT 0; OT 7; OT 0; OT 8; OT 7; OT 3; OT 8; OT 8; OT 8; OT 10; OT 10; OT 9; OT 8; OT 11; OT 12; OU 3667067109811122656; OT 8; OT 13; OT 13; OT 0; OT 13; OT 14; OT 15; OT 14; OT 15; OT 15; OT 0; OT 15; OT 16; OT 15; OU 8030797967140494909; OT 15; OT 3; OT 16; OT 15; OT 16; OT 16],
     mkObs [(0, 36); (1, 33); (2, 25); (3, 21); (4, 23); (5, 22); (6, 24); (7, 26); (8, 37); (9, 38); (10, 27); (11, 29); (12, 30); (13, 35); (14, 34); (15, 42); (16, 20); (17, 40); (18, 39); (19, 28); (20, 31); (21, 41); (22, 32)] 43 [7; 5; 28; 21; 8; 27; 2; 32; 13; 30; 4; 36; 1] 51 51 2)].
Proof. vm_compute. reflexivity. Qed.

