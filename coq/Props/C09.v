(* ------------------------------------------------------------------------- *)
(* SV.Props.C09 -- the DFS scheduler enumerates every schedule exactly once  *)
(*                                                                           *)
(* Statements only; every proof is [exact <lemma of SV.Proofs.DfsProofs>].   *)
(* Model: SV.Sched.Dfs (mirror of shuttle-schedulers/src/dfs.rs).            *)
(*                                                                           *)
(* Reading guide.  A [tree] is the program under test as the scheduler sees  *)
(* it: each node is a scheduling point whose children are labelled by the    *)
(* runnable task ids; [wf_tree] says the ids offered at one point are        *)
(* strictly ascending (the runtime iterates the sorted live_tasks), hence    *)
(* distinct.  [leaves t] are all complete schedules, left to right.          *)
(* [dfs_run fuel max_iter bound t] loops "new_execution; run one execution"  *)
(* until new_execution returns None and returns the schedules executed, in   *)
(* order; it is [None] if fuel ran out or any next_task call hit a panicking *)
(* construct ([Crash]).  So [dfs_run .. = Some ps] means: no panic, exactly  *)
(* the executions [ps] happened, then the scheduler stopped.                 *)
(* ------------------------------------------------------------------------- *)
From Coq Require Import List Arith NArith Bool.
From SV Require Import Sched.Dfs Proofs.DfsProofs.
Import ListNotations.

(* Every root-to-leaf choice sequence is executed exactly once, in
   left-to-right order, and then new_execution returns None. *)
Theorem C09_exact : forall t, wf_tree t -> forall fuel, length (leaves t) < fuel ->
  dfs_run fuel None None t = Some (leaves t).
Proof. exact dfs_exact. Qed.

(* ... and the schedules are pairwise distinct, so "exactly once / never
   repeating" is meaningful. *)
Theorem C09_nodup : forall t, wf_tree t -> NoDup (leaves t).
Proof. exact dfs_nodup. Qed.

(* With max_iterations = Some m: exactly the first m schedules (all of them
   if there are fewer).  The fuel hypothesis only asks for more fuel than
   executions actually performed, which is weaker than
   [length (leaves t) < fuel]. *)
Theorem C09_iter_bound : forall t, wf_tree t -> forall m fuel,
  length (firstn m (leaves t)) < fuel ->
  dfs_run fuel (Some m) None t = Some (firstn m (leaves t)).
Proof. exact dfs_iter_bound. Qed.

(* With MaxSteps::ContinueAfter(n): exactly the distinct choice prefixes of
   length n (or shorter maximal paths), each once, left to right.
   No side condition on n: for n = 0 the runtime's step-bound test
   (ExecutionState::schedule, is_step_bound_exceeded: 0 - 0 >= 0) fires
   before the scheduler is ever consulted, so the first execution makes no
   choice; levels stays empty; on the second call new_execution sees
   iterations = 1 > 0 and has_more_choices(0) = false and returns None.
   The model does the same: [truncate 0 t = Node []], whose only leaf is
   the empty path, i.e. one execution with no choices. *)
Theorem C09_step_bound : forall t, wf_tree t -> forall n fuel,
  length (leaves (truncate n t)) < fuel ->
  dfs_run fuel None (Some n) t = Some (leaves (truncate n t)).
Proof. exact dfs_step_bound. Qed.

(* Both bounds together (the three theorems above are instances). *)
Theorem C09_general : forall t, wf_tree t -> forall fuel mi b,
  length (take_opt mi (leaves (truncate_opt b t))) < fuel ->
  dfs_run fuel mi b t = Some (take_opt mi (leaves (truncate_opt b t))).
Proof. exact dfs_run_general. Qed.

(* No next_task call made by the run reaches a panicking construct, and the
   scheduler never returns an id that was not offered -- for every fuel,
   i.e. also for every finite prefix of the run, and for all bounds.
   (The theorems above already imply this when fuel suffices, because
   dfs_run returns None on Crash.) *)
Theorem C09_no_crash : forall t, wf_tree t -> forall fuel mi b,
  dfs_outcome fuel mi b t <> Crashed /\ dfs_outcome fuel mi b t <> BadChoice.
Proof. exact dfs_no_crash. Qed.

(* boolean well-formedness check agrees with wf_tree *)
Theorem C09_wf_treeb : forall t, wf_treeb t = true <-> wf_tree t.
Proof. exact wf_treeb_iff. Qed.

Print Assumptions C09_exact.
Print Assumptions C09_nodup.
Print Assumptions C09_iter_bound.
Print Assumptions C09_step_bound.
Print Assumptions C09_general.
Print Assumptions C09_no_crash.
Print Assumptions C09_wf_treeb.

(* ========================================================================= *)
(* Non-vacuity                                                               *)
(* ========================================================================= *)

Definition L : tree := Node [].

(* Irregular tree: arities 3 / 2 / 1 / 3 / 1 / 2 / 2 at different nodes, the
   last sibling (label 3) is deeper than the others, single-child chains
   (1 -> 0 -> ..., 3 -> 3 -> ...), the same id meaning different things at
   different depths. *)
Definition ex_tree : tree :=
  Node [(0, Node [(0, L); (1, Node [(1, L)])]);
        (1, Node [(0, Node [(0, L); (1, L); (2, L)])]);
        (3, Node [(3, Node [(0, L); (3, Node [(0, L); (1, L)])])])]%N.

Example ex_wf : wf_tree ex_tree.
Proof. apply wf_treeb_sound. vm_compute. reflexivity. Qed.

Example ex_leaves : leaves ex_tree =
  [[0; 0]; [0; 1; 1];
   [1; 0; 0]; [1; 0; 1]; [1; 0; 2];
   [3; 3; 0]; [3; 3; 3; 0]; [3; 3; 3; 1]]%N.
Proof. vm_compute. reflexivity. Qed.

(* the conclusion of C09_exact, computed *)
Example ex_exact : dfs_run 9 None None ex_tree = Some (leaves ex_tree).
Proof. vm_compute. reflexivity. Qed.

(* ... and obtained from the theorem *)
Example ex_exact_thm : dfs_run 9 None None ex_tree = Some (leaves ex_tree).
Proof. apply C09_exact; [exact ex_wf | vm_compute; auto]. Qed.

(* one fuel unit less is not enough: 8 executions + the final new_execution *)
Example ex_exact_fuel : dfs_run 8 None None ex_tree = None
                        /\ dfs_outcome 8 None None ex_tree = OutOfFuel.
Proof. vm_compute. auto. Qed.

Example ex_nodup : NoDup (leaves ex_tree).
Proof. apply C09_nodup. exact ex_wf. Qed.

Example ex_iter_bound : dfs_run 4 (Some 3) None ex_tree
                        = Some [[0; 0]; [0; 1; 1]; [1; 0; 0]]%N.
Proof. vm_compute. reflexivity. Qed.

Example ex_iter_bound_thm : dfs_run 4 (Some 3) None ex_tree = Some (firstn 3 (leaves ex_tree)).
Proof. apply C09_iter_bound; [exact ex_wf | vm_compute; auto]. Qed.

Example ex_iter_bound_0 : dfs_run 1 (Some 0) None ex_tree = Some [].
Proof. vm_compute. reflexivity. Qed.

Example ex_iter_bound_large : dfs_run 9 (Some 100) None ex_tree = Some (leaves ex_tree).
Proof. vm_compute. reflexivity. Qed.

Example ex_step_bound_2 : dfs_run 100 None (Some 2) ex_tree
                          = Some [[0; 0]; [0; 1]; [1; 0]; [3; 3]]%N.
Proof. vm_compute. reflexivity. Qed.

Example ex_step_bound_3 : dfs_run 100 None (Some 3) ex_tree
                          = Some [[0; 0]; [0; 1; 1];
                                  [1; 0; 0]; [1; 0; 1]; [1; 0; 2];
                                  [3; 3; 0]; [3; 3; 3]]%N.
Proof. vm_compute. reflexivity. Qed.

Example ex_step_bound_thm : forall n, n <= 5 ->
  dfs_run 100 None (Some n) ex_tree = Some (leaves (truncate n ex_tree)).
Proof.
  intros n Hn.
  do 6 (destruct n as [|n]; [vm_compute; reflexivity|]).
  exfalso. repeat apply le_S_n in Hn. inversion Hn.
Qed.

(* n = 0: a single execution without any scheduling choice *)
Example ex_step_bound_0 : dfs_run 2 None (Some 0) ex_tree = Some [[]].
Proof. vm_compute. reflexivity. Qed.

(* both bounds *)
Example ex_general : dfs_run 100 (Some 5) (Some 3) ex_tree
                     = Some [[0; 0]; [0; 1; 1]; [1; 0; 0]; [1; 0; 1]; [1; 0; 2]]%N.
Proof. vm_compute. reflexivity. Qed.

(* degenerate programs *)
Example ex_leaf : dfs_run 2 None None L = Some [[]].
Proof. vm_compute. reflexivity. Qed.

Example ex_chain : dfs_run 2 None None (Node [(5, Node [(7, L)])])%N = Some [[5; 7]]%N.
Proof. vm_compute. reflexivity. Qed.

Example ex_no_crash : forall fuel mi b,
  dfs_outcome fuel mi b ex_tree <> Crashed /\ dfs_outcome fuel mi b ex_tree <> BadChoice.
Proof. intros fuel mi b. apply C09_no_crash. exact ex_wf. Qed.

(* ---- the model is not trivially crash free: every panicking construct of
   next_task is reachable in the model ---- *)

(* runnable.first().unwrap() on an empty list *)
Example crash_first_unwrap : next_task (dfs_new None) [] = Crash.
Proof. reflexivity. Qed.

(* assert_eq!(self.steps, self.levels.len()) *)
Example crash_assert_eq : next_task (mkDfs None 1 [] 1) [0%N] = Crash.
Proof. reflexivity. Qed.

(* assert!(!was_last) *)
Example crash_was_last : next_task (mkDfs None 2 [(0%N, true)] 0) [0%N] = Crash.
Proof. reflexivity. Qed.

(* position(..).unwrap(): the previous choice is no longer runnable *)
Example crash_position : next_task (mkDfs None 2 [(0%N, false)] 0) [1; 2]%N = Crash.
Proof. reflexivity. Qed.

(* runnable[next_idx]: the previous choice is now the last runnable task *)
Example crash_index : next_task (mkDfs None 2 [(0%N, false)] 0) [0%N] = Crash.
Proof. reflexivity. Qed.

(* and the non-crashing branches *)
Example chose_first : next_task (dfs_new None) [4; 6]%N
                      = Chose 4%N (mkDfs None 0 [(4%N, false)] 1).
Proof. reflexivity. Qed.

Example chose_same : next_task (mkDfs None 2 [(4, true); (1, false)]%N 0) [4%N]
                     = Chose 4%N (mkDfs None 2 [(4, true); (1, false)]%N 1).
Proof. reflexivity. Qed.

Example chose_next : next_task (mkDfs None 2 [(4, false); (1, true)]%N 0) [4; 6]%N
                     = Chose 6%N (mkDfs None 2 [(6%N, true)] 1).
Proof. reflexivity. Qed.

(* ---- wf_tree is needed: when the same id is offered twice at one
   scheduling point the enumeration is neither complete nor free of
   repetitions ---- *)
Definition bad_tree : tree :=
  Node [(0, Node [(1, L)]); (0, Node [(1, L); (2, L)])]%N.

Example bad_not_wf : wf_treeb bad_tree = false.
Proof. vm_compute. reflexivity. Qed.

Example bad_run : dfs_run 100 None None bad_tree = Some [[0; 1]; [0; 1]]%N
                  /\ leaves bad_tree = [[0; 1]; [0; 1]; [0; 2]]%N.
Proof. vm_compute. auto. Qed.
