(* C14: executions are isolated.  Model: Engine/Runner.v (runner_loop_t), Engine/Exec.v (init_world, run_exec),
   Lang/ProgRun.v (run_prog_replay, the stand-alone execution the correspondence check compares every iteration with).
   Statements only. *)
From Coq Require Import List NArith Bool Arith.
From SV Require Import Params Clock.VClock Prim.Objects Prim.Atomic Engine.Exec Engine.Runner Sched.Replay Lang.Prog Lang.ProgRun
  Proofs.IsolationProofs Proofs.ReplayProofs.
Import ListNotations.

(* Whatever ran before (complete, abandoned or cut executions), the k-th execution of a run is the stand-alone execution
   from the initial world under the scheduler state it started with: no component of the world is carried over. *)
Theorem C14_executions_standalone :
  forall SS (fs : full_scheduler SS) ms efuel main objs expired iters i0 st execs st' okf,
    runner_loop_t expired i0 fs ms iters efuel main objs st = (execs, st', okf) ->
    forall k w out, nth_error execs k = Some (w, out) ->
    exists st1 st2, run_exec (fs_sched fs) ms efuel main objs st1 = (w, st2, out).
Proof. intros SS fs ms efuel main objs. exact (runner_executions_standalone fs ms efuel main objs). Qed.
Print Assumptions C14_executions_standalone.

(* the initial world of every execution: the given objects (per-execution state uninitialised: the store is the
   program's initial store, the thread-local table is empty), an empty trace, no recorded step, one task *)
Theorem C14_initial_world :
  forall main objs,
    let w := init_world main objs in
    w_s w = objs /\ w_trace w = [] /\ recorded (w_e w) = [] /\ length (tasks (w_e w)) = 1%nat.
Proof. exact init_world_fresh. Qed.
Print Assumptions C14_initial_world.

(* non-vacuity: a DFS run of a two-thread program with a thread-local and a Once performs several executions, and each
   of them starts with task 0 alone and the initial objects *)
Definition c14_objs : store := [OAtomic 0 []; OKey 5 None].
Definition c14_prog : list (list op) := [[PSpawn 1; PTlsWith 1 2; PAtomic 0 (AAdd 1); PJoin 0]; [PTlsWith 1 1; PAtomic 0 (AAdd 2)]].
Definition c14_run := run_prog_dfs 20 200 MSNone None false c14_objs c14_prog.
Example c14_several_executions :
  (length (fst (fst c14_run)),
   map (fun x => (snd x, get_obj (w_s (fst x)) 0, length (tasks (w_e (fst x))))) (fst (fst c14_run))) =
  (3%nat, [(OPass, Some (OAtomic 3 [3%N; 2%N]), 2%nat); (OPass, Some (OAtomic 3 [3%N; 2%N]), 2%nat);
           (OPass, Some (OAtomic 3 [3%N; 2%N]), 2%nat)]).
Proof. vm_compute. reflexivity. Qed.
