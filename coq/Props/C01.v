(* C01: replaying a recorded schedule reproduces the execution.

   The three statements of Engine/Stmt.v (stmt_replay, stmt_schedule_complete, stmt_replay_sane) are
   proved in Proofs/ReplayProofs.v by a simulation between a run under an arbitrary scheduler and the
   run under `replay`.  The hypothesis `decisions_offered w` of stmt_replay cannot be dropped: a
   scheduler answer that the runtime rejects inside thread::switch() makes the task panic (OPanic, not
   OSchedulerBug), nothing is recorded for that decision, and the replay then ends in OStopped
   (C01_offered_hyp_needed).  `rp_failed rst = false` holds exactly when the draws are complete, i.e.
   unless the original scheduler's data source itself panicked (Examples norand_* in ReplayProofs.v). *)
From Coq Require Import List NArith Bool Arith.
From SV Require Import Clock.VClock Prim.Objects Prim.Atomic Engine.Exec Engine.Inv Lang.SyncOps Lang.Prog
                       Sched.Replay Engine.Stmt Proofs.ReplayProofs.
Import ListNotations.
Local Open Scope nat_scope.

Theorem C01_replay_identical : stmt_replay.
Proof. exact replay_identical. Qed.
Print Assumptions C01_replay_identical.

Theorem C01_schedule_complete : stmt_schedule_complete.
Proof. exact schedule_complete. Qed.
Print Assumptions C01_schedule_complete.

Theorem C01_replay_sane : stmt_replay_sane.
Proof. exact replay_sane. Qed.
Print Assumptions C01_replay_sane.

(* stmt_replay without `decisions_offered w` (and with only its first conjunct as conclusion) is false *)
Theorem C01_offered_hyp_needed : ~ stmt_replay_without_offered_hyp.
Proof. exact replay_without_offered_hyp_is_false. Qed.
Print Assumptions C01_offered_hyp_needed.

(* the scripted scheduler of Lang/Prog.v (used by run_prog and the Rust harness) meets the hypotheses of
   C01_replay_sane *)
Theorem C01_scripted_sane : sane scripted.
Proof. exact scripted_sane. Qed.
Theorem C01_scripted_total : total_rand scripted.
Proof. exact scripted_total. Qed.
Print Assumptions C01_scripted_sane.
Print Assumptions C01_scripted_total.

(* ---------------- non-vacuity: concrete programs ---------------- *)
(* re-run of a run_prog execution under `replay` loaded with its recorded schedule and drawn values *)
Definition replay_of (ms : max_steps) (objs : store) (bodies : list (list op)) (r : world * script_state * outcome)
  : world * replay_state * outcome :=
  let w := fst (fst r) in
  run_exec replay ms 200 (compile (length objs) bodies) (objs ++ [OJoins []; OTls []])
           (mkReplay (rev (recorded (w_e w))) (draws (w_trace w)) false false).

(* same world (states, objects, continuations, whole trace), same outcome, no replay panic *)
Definition reproduced (r : world * script_state * outcome) (rr : world * replay_state * outcome) : Prop :=
  fst (fst rr) = fst (fst r) /\ snd rr = snd r /\ rp_failed (snd (fst rr)) = false.

(* When tasks are still suspended at the end (deadlock, step bound, stop) the continuations are
   closures over library code, which vm_compute cannot normalise in reasonable time; for those
   runs the examples compare everything else: execution state, objects, which tasks hold a
   continuation, and the whole trace including the ghost states.  (Equality of the continuations
   themselves is what the theorems above give.) *)
Definition obs (w : world) : exec * store * list bool * list event :=
  (w_e w, w_s w, map (fun oc : option code => match oc with Some _ => true | None => false end) (w_conts w),
   w_trace w).
Definition reproduced_obs (r : world * script_state * outcome) (rr : world * replay_state * outcome) : Prop :=
  obs (fst (fst rr)) = obs (fst (fst r)) /\ snd rr = snd r /\ rp_failed (snd (fst rr)) = false.

Definition summary (r : world * script_state * outcome) : outcome * list sstep * nat :=
  (snd r, rev (recorded (w_e (fst (fst r)))), length (draws (w_trace (fst (fst r))))).

(* three threads, one shared atomic, four random draws, a yield and two joins *)
Definition objs1 : store := [OAtomic 0%N []].
Definition bodies1 : list (list op) :=
  [ [PSpawn 1; PSpawn 2; PAtomic 0 (AAdd 1%N); PRand; PJoin 0; PYield; PJoin 1; PAtomic 0 ALoad];
    [PAtomic 0 (AAdd 5%N); PRand; PYield; PAtomic 0 (ACas 6%N 40%N)];
    [PRand; PAtomic 0 (ASwap 3%N); PRand] ].
Definition script1 : list (option nat) :=
  [Some 0; Some 1; Some 2; Some 1; Some 0; Some 2; Some 1; Some 1; Some 0; Some 2; Some 5; Some 3].
Definition run1 := run_prog 200 MSNone objs1 bodies1 script1 42%N.

Example run1_result :
  summary run1 =
  (OPass,
   [StTask 0; StTask 0; StTask 0; StTask 1; StTask 0; StRandom; StTask 1; StRandom; StTask 2; StRandom;
    StTask 2; StRandom; StTask 1; StTask 1; StTask 0; StTask 0; StTask 0; StTask 0; StTask 0], 4).
Proof. vm_compute. reflexivity. Qed.

Example run1_replayed : reproduced run1 (replay_of MSNone objs1 bodies1 run1).
Proof. vm_compute. repeat split; reflexivity. Qed.

Example run1_replay_state : snd (fst (replay_of MSNone objs1 bodies1 run1)) = mkReplay [] [] false false.
Proof. vm_compute. reflexivity. Qed.

(* a deadlock: both threads end up parked *)
Definition bodies2 : list (list op) :=
  [ [PSpawn 1; PAtomic 0 (AAdd 1%N); PPark; PJoin 0]; [PRand; PPark; PAtomic 0 (AAdd 1%N)] ].
Definition run2 := run_prog 200 MSNone objs1 bodies2 [Some 0; Some 1; Some 1; Some 0; Some 1; Some 0] 7%N.

Example run2_result :
  summary run2 = (ODeadlock [0; 1], [StTask 0; StTask 0; StTask 1; StRandom; StTask 0], 1).
Proof. vm_compute. reflexivity. Qed.

Example run2_replayed : reproduced_obs run2 (replay_of MSNone objs1 bodies2 run2).
Proof. vm_compute. repeat split; reflexivity. Qed.

(* the first program cut short by FailAfter at a context switch *)
Definition run3 := run_prog 200 (FailAfter 9) objs1 bodies1 script1 42%N.

Example run3_result :
  summary run3 =
  (OStepBound, [StTask 0; StTask 0; StTask 0; StTask 1; StTask 0; StRandom; StTask 1; StRandom; StTask 2], 2).
Proof. vm_compute. reflexivity. Qed.

Example run3_replayed : reproduced_obs run3 (replay_of (FailAfter 9) objs1 bodies1 run3).
Proof. vm_compute. repeat split; reflexivity. Qed.

(* the first program stopped by its scheduler answering None: the only way rp_ended is set *)
Definition run4 := run_prog 200 MSNone objs1 bodies1 [Some 0; Some 1; Some 2; Some 1; None] 42%N.

Example run4_result : summary run4 = (OStopped, [StTask 0; StTask 0; StTask 0; StTask 1], 0).
Proof. vm_compute. reflexivity. Qed.

Example run4_replayed :
  reproduced_obs run4 (replay_of MSNone objs1 bodies1 run4)
  /\ rp_ended (snd (fst (replay_of MSNone objs1 bodies1 run4))) = true.
Proof. vm_compute. repeat split; reflexivity. Qed.

(* two threads contending for a Mutex around an atomic and random draws, then three more draws *)
Definition objs5 : store := [OAtomic 0%N []; mutex_new].
Definition bodies5 : list (list op) :=
  [ [PSpawn 1; PLock 1; PAtomic 0 (AAdd 1%N); PRand; PUnlock 1; PJoin 0; PRand; PRand; PRand];
    [PLock 1; PRand; PAtomic 0 (AAdd 10%N); PUnlock 1] ].
Definition script5 : list (option nat) := [Some 0; Some 0; Some 1; Some 1; Some 0; Some 1; Some 0; Some 1].
Definition run5 := run_prog 200 MSNone objs5 bodies5 script5 5%N.

Example run5_result :
  summary run5 =
  (OPass,
   [StTask 0; StTask 0; StTask 1; StTask 1; StRandom; StTask 0; StTask 1; StTask 1; StTask 0; StTask 0;
    StRandom; StTask 0; StTask 0; StRandom; StRandom; StRandom; StTask 0], 5).
Proof. vm_compute. reflexivity. Qed.

Example run5_replayed : reproduced run5 (replay_of MSNone objs5 bodies5 run5).
Proof. vm_compute. repeat split; reflexivity. Qed.

(* the same program under FailAfter 14: the bound is reached by the first of the three final draws, so the
   next PRand finds the bound exhausted, becomes a scheduling point, and the scheduler fails the execution
   (the repaired ExecutionState::next_u64): 14 steps recorded, the last one a StRandom, 3 values drawn *)
Definition run6 := run_prog 200 (FailAfter 14) objs5 bodies5 script5 5%N.

Example run6_result :
  summary run6 =
  (OStepBound,
   [StTask 0; StTask 0; StTask 1; StTask 1; StRandom; StTask 0; StTask 1; StTask 1; StTask 0; StTask 0;
    StRandom; StTask 0; StTask 0; StRandom], 3).
Proof. vm_compute. reflexivity. Qed.

Example run6_replayed : reproduced_obs run6 (replay_of (FailAfter 14) objs5 bodies5 run6).
Proof. vm_compute. repeat split; reflexivity. Qed.

(* a different schedule gives a different execution: the replay really follows its input *)
Example run1_other_schedule :
  let w := fst (fst run1) in
  let r := run_exec replay MSNone 200 (compile (length objs1) bodies1) (objs1 ++ [OJoins []; OTls []])
             (mkReplay [StTask 0; StTask 0; StTask 0; StTask 2; StRandom] (draws (w_trace w)) false false) in
  snd r = OStopped /\ rp_ended (snd (fst r)) = true /\ rp_failed (snd (fst r)) = false
  /\ w_trace (fst (fst r)) <> w_trace (fst (fst run4)).
Proof. vm_compute. repeat split; try reflexivity. discriminate. Qed.

(* and a schedule that does not fit the program makes the replay scheduler panic *)
Example run1_mismatched_schedule :
  let w := fst (fst run1) in
  let r := run_exec replay MSNone 200 (compile (length objs1) bodies1) (objs1 ++ [OJoins []; OTls []])
             (mkReplay [StTask 0; StTask 0; StTask 0; StTask 2; StTask 1] (draws (w_trace w)) false false) in
  snd r = OPanic 2 /\ rp_failed (snd (fst r)) = true.
Proof. vm_compute. repeat split; reflexivity. Qed.
