(* ------------------------------------------------------------------------- *)
(*  SV.Props.C15alg : property C15 (vector-clock algebra), statements only.   *)
(*                                                                            *)
(*  Every theorem is stated against the model SV.Clock.VClock in plain        *)
(*  vocabulary (length / nth / =), proved by `exact <lemma>` from             *)
(*  SV.Proofs.VClockProofs, and followed by Print Assumptions.                *)
(*  Examples at the end show the hypotheses are satisfiable, the four         *)
(*  outcomes of partial_cmp all occur, and record the laws that are FALSE.    *)
(* ------------------------------------------------------------------------- *)

From Coq Require Import List NArith Bool Lia.
Import ListNotations.
From SV Require Import Clock.VClock Proofs.VClockProofs.
Local Open Scope N_scope.

(* Plain-vocabulary abbreviations used in the statements below. *)

(* a is not longer than b and pointwise below it on a's indices *)
Definition pointwise_le (a b : vclock) : Prop :=
  (length a <= length b)%nat /\
  forall i, (i < length a)%nat -> nth i a 0 <= nth i b 0.

(* a is shorter than b, or strictly smaller at some common index *)
Definition somewhere_lt (a b : vclock) : Prop :=
  (length a < length b)%nat \/
  exists i, (i < length a)%nat /\ (i < length b)%nat /\ nth i a 0 < nth i b 0.

(* ========================================================================= *)
(*  1. What the comparison means                                             *)
(* ========================================================================= *)

Theorem vle_spec : forall a b,
  vle a b = true <->
  ((length a <= length b)%nat /\
   forall i, (i < length a)%nat -> nth i a 0 <= nth i b 0).
Proof. exact VClockProofs.vle_spec. Qed.
Print Assumptions vle_spec.

Theorem vlt_spec : forall a b,
  vlt a b = true <-> pointwise_le a b /\ a <> b.
Proof. exact VClockProofs.vlt_spec. Qed.
Print Assumptions vlt_spec.

Theorem concurrent_spec : forall a b,
  concurrent a b = true <-> vle a b = false /\ vle b a = false.
Proof. exact VClockProofs.concurrent_spec. Qed.
Print Assumptions concurrent_spec.

(* Full characterisation of the four outcomes, form A (order-theoretic). *)
Theorem partial_cmp_Equal_iff : forall a b,
  partial_cmp a b = Some Equal <-> a = b.
Proof. exact VClockProofs.partial_cmp_Equal_iff. Qed.
Print Assumptions partial_cmp_Equal_iff.

Theorem partial_cmp_Less_iff : forall a b,
  partial_cmp a b = Some Less <-> pointwise_le a b /\ a <> b.
Proof. exact VClockProofs.partial_cmp_Less_iff. Qed.
Print Assumptions partial_cmp_Less_iff.

Theorem partial_cmp_Greater_iff : forall a b,
  partial_cmp a b = Some Greater <-> pointwise_le b a /\ a <> b.
Proof. exact VClockProofs.partial_cmp_Greater_iff. Qed.
Print Assumptions partial_cmp_Greater_iff.

Theorem partial_cmp_None_iff : forall a b,
  partial_cmp a b = None <-> ~ pointwise_le a b /\ ~ pointwise_le b a.
Proof. exact VClockProofs.partial_cmp_None_iff. Qed.
Print Assumptions partial_cmp_None_iff.

(* Form B (witnesses): the result is determined by which of the two kinds of
   evidence exist -- exactly how the loop accumulates `ord`. *)
Theorem partial_cmp_Less_ev : forall a b,
  partial_cmp a b = Some Less <-> somewhere_lt a b /\ ~ somewhere_lt b a.
Proof. exact VClockProofs.partial_cmp_Less_ev. Qed.
Print Assumptions partial_cmp_Less_ev.

Theorem partial_cmp_Greater_ev : forall a b,
  partial_cmp a b = Some Greater <-> ~ somewhere_lt a b /\ somewhere_lt b a.
Proof. exact VClockProofs.partial_cmp_Greater_ev. Qed.
Print Assumptions partial_cmp_Greater_ev.

Theorem partial_cmp_Equal_ev : forall a b,
  partial_cmp a b = Some Equal <-> ~ somewhere_lt a b /\ ~ somewhere_lt b a.
Proof. exact VClockProofs.partial_cmp_Equal_ev. Qed.
Print Assumptions partial_cmp_Equal_ev.

Theorem partial_cmp_None_ev : forall a b,
  partial_cmp a b = None <-> somewhere_lt a b /\ somewhere_lt b a.
Proof. exact VClockProofs.partial_cmp_None_ev. Qed.
Print Assumptions partial_cmp_None_ev.

Theorem partial_cmp_Less_witness : forall a b,
  partial_cmp a b = Some Less <->
  pointwise_le a b /\
  ((length a < length b)%nat \/
   exists i, (i < length a)%nat /\ nth i a 0 < nth i b 0).
Proof. exact VClockProofs.partial_cmp_Less_witness. Qed.
Print Assumptions partial_cmp_Less_witness.

Theorem partial_cmp_antisym : forall a b,
  partial_cmp b a = flip (partial_cmp a b).
Proof. exact VClockProofs.partial_cmp_antisym. Qed.
Print Assumptions partial_cmp_antisym.

(* ========================================================================= *)
(*  2. Partial order                                                         *)
(* ========================================================================= *)

Theorem vle_refl : forall a, vle a a = true.
Proof. exact VClockProofs.vle_refl. Qed.
Print Assumptions vle_refl.

Theorem vle_trans : forall a b c,
  vle a b = true -> vle b c = true -> vle a c = true.
Proof. exact VClockProofs.vle_trans. Qed.
Print Assumptions vle_trans.

Theorem vle_antisym : forall a b,
  vle a b = true -> vle b a = true -> a = b.
Proof. exact VClockProofs.vle_antisym. Qed.
Print Assumptions vle_antisym.

Theorem vlt_irrefl : forall a, vlt a a = false.
Proof. exact VClockProofs.vlt_irrefl. Qed.
Print Assumptions vlt_irrefl.

Theorem vlt_trans : forall a b c,
  vlt a b = true -> vlt b c = true -> vlt a c = true.
Proof. exact VClockProofs.vlt_trans. Qed.
Print Assumptions vlt_trans.

Theorem vlt_vle_ne : forall a b,
  vlt a b = true <-> vle a b = true /\ a <> b.
Proof. exact VClockProofs.vlt_vle_ne. Qed.
Print Assumptions vlt_vle_ne.

Theorem vge_vle : forall a b, vge a b = vle b a.
Proof. exact VClockProofs.vge_vle. Qed.
Print Assumptions vge_vle.

Theorem vgt_vlt : forall a b, vgt a b = vlt b a.
Proof. exact VClockProofs.vgt_vlt. Qed.
Print Assumptions vgt_vlt.

Theorem concurrent_sym : forall a b, concurrent a b = concurrent b a.
Proof. exact VClockProofs.concurrent_sym. Qed.
Print Assumptions concurrent_sym.

(* vle implies the pointwise order at EVERY index, absent entries read as 0 *)
Theorem vle_sound_sem : forall a b,
  vle a b = true -> forall i, nth i a 0 <= nth i b 0.
Proof. exact VClockProofs.vle_sound_sem. Qed.
Print Assumptions vle_sound_sem.

(* ========================================================================= *)
(*  3. update is the join                                                    *)
(* ========================================================================= *)

Theorem update_length : forall a b,
  length (update a b) = Nat.max (length a) (length b).
Proof. exact VClockProofs.update_length. Qed.
Print Assumptions update_length.

Theorem update_nth : forall a b j,
  nth j (update a b) 0 = N.max (nth j a 0) (nth j b 0).
Proof. exact VClockProofs.update_nth. Qed.
Print Assumptions update_nth.

Theorem update_ub_l : forall a b, vle a (update a b) = true.
Proof. exact VClockProofs.update_ub_l. Qed.
Print Assumptions update_ub_l.

Theorem update_ub_r : forall a b, vle b (update a b) = true.
Proof. exact VClockProofs.update_ub_r. Qed.
Print Assumptions update_ub_r.

Theorem update_least : forall a b c,
  vle a c = true -> vle b c = true -> vle (update a b) c = true.
Proof. exact VClockProofs.update_least. Qed.
Print Assumptions update_least.

Theorem update_idem : forall a, update a a = a.
Proof. exact VClockProofs.update_idem. Qed.
Print Assumptions update_idem.

(* Literally equal as lists, although the two loops are asymmetric in
   self/other. *)
Theorem update_comm_equiv : forall a b, update a b = update b a.
Proof. exact VClockProofs.update_comm. Qed.
Print Assumptions update_comm_equiv.

Theorem update_assoc : forall a b c,
  update (update a b) c = update a (update b c).
Proof. exact VClockProofs.update_assoc. Qed.
Print Assumptions update_assoc.

Theorem update_new_l : forall b, update new b = b.
Proof. exact VClockProofs.update_new_l. Qed.
Print Assumptions update_new_l.

Theorem update_new_r : forall a, update a new = a.
Proof. exact VClockProofs.update_new_r. Qed.
Print Assumptions update_new_r.

Theorem update_absorb : forall a b, vle b a = true <-> update a b = a.
Proof. exact VClockProofs.update_absorb. Qed.
Print Assumptions update_absorb.

Theorem update_monotone : forall a a' b b',
  vle a a' = true -> vle b b' = true ->
  vle (update a b) (update a' b') = true.
Proof. exact VClockProofs.update_monotone. Qed.
Print Assumptions update_monotone.

(* The two-loop model equals the obvious structural zip-with-max. *)
Theorem update_eq_rec : forall a b, update a b = update_rec a b.
Proof. exact VClockProofs.update_eq_rec. Qed.
Print Assumptions update_eq_rec.

Theorem update_wf : forall a b, wf a -> wf b -> wf (update a b).
Proof. exact VClockProofs.update_wf. Qed.
Print Assumptions update_wf.

Theorem wfb_wf : forall c, wfb c = true <-> wf c.
Proof. exact VClockProofs.wfb_wf. Qed.
Print Assumptions wfb_wf.

(* ========================================================================= *)
(*  4. increment                                                             *)
(* ========================================================================= *)

Theorem increment_Some_iff : forall a i,
  (exists a', increment a i = Some a') <->
  ((i < length a)%nat /\ nth i a 0 < u32_max).
Proof. exact VClockProofs.increment_Some_iff. Qed.
Print Assumptions increment_Some_iff.

Theorem increment_spec : forall a i a',
  increment a i = Some a' ->
  (i < length a)%nat /\
  length a' = length a /\
  nth i a' 0 = nth i a 0 + 1 /\
  nth i a 0 < u32_max /\
  forall j, j <> i -> nth j a' 0 = nth j a 0.
Proof. exact VClockProofs.increment_spec. Qed.
Print Assumptions increment_spec.

Theorem increment_grows : forall a i a',
  increment a i = Some a' -> vle a a' = true /\ a' <> a.
Proof. exact VClockProofs.increment_grows. Qed.
Print Assumptions increment_grows.

Theorem increment_strict : forall a i a',
  increment a i = Some a' -> vlt a a' = true.
Proof. exact VClockProofs.increment_strict. Qed.
Print Assumptions increment_strict.

Theorem increment_not_le_old : forall a i a' c,
  increment a i = Some a' -> nth i c 0 <= nth i a 0 -> vle a' c = false.
Proof. exact VClockProofs.increment_not_le_old. Qed.
Print Assumptions increment_not_le_old.

Theorem increment_tot_agrees : forall a i a',
  increment a i = Some a' -> increment_tot a i = a'.
Proof. exact VClockProofs.increment_tot_agrees. Qed.
Print Assumptions increment_tot_agrees.

Theorem increment_wf : forall a i a',
  wf a -> increment a i = Some a' -> wf a'.
Proof. exact VClockProofs.increment_wf. Qed.
Print Assumptions increment_wf.

(* ========================================================================= *)
(*  5. extend                                                                *)
(* ========================================================================= *)

Theorem extend_safe : forall c id,
  (exists c', extend c id = Some c') <-> (length c <= 1 + id)%nat.
Proof. exact VClockProofs.extend_safe. Qed.
Print Assumptions extend_safe.

Theorem extend_None_iff : forall c id,
  extend c id = None <-> (length c > 1 + id)%nat.
Proof. exact VClockProofs.extend_None_iff. Qed.
Print Assumptions extend_None_iff.

Theorem extend_spec : forall c id c',
  extend c id = Some c' ->
  c' = c ++ repeat 0 (1 + id - length c) /\
  length c' = (1 + id)%nat /\
  forall i, nth i c' 0 = nth i c 0.
Proof. exact VClockProofs.extend_spec. Qed.
Print Assumptions extend_spec.

Theorem extend_grows : forall c id c',
  extend c id = Some c' -> vle c c' = true.
Proof. exact VClockProofs.extend_grows. Qed.
Print Assumptions extend_grows.

Theorem extend_strict : forall c id c',
  extend c id = Some c' -> (length c < 1 + id)%nat -> vlt c c' = true.
Proof. exact VClockProofs.extend_strict. Qed.
Print Assumptions extend_strict.

Theorem extend_noop : forall c id,
  length c = (1 + id)%nat -> extend c id = Some c.
Proof. exact VClockProofs.extend_noop. Qed.
Print Assumptions extend_noop.

Theorem extend_wf : forall c id c',
  wf c -> extend c id = Some c' -> wf c'.
Proof. exact VClockProofs.extend_wf. Qed.
Print Assumptions extend_wf.

Theorem extend_then_increment_in_range : forall c id c',
  extend c id = Some c' -> (id < length c')%nat.
Proof. exact VClockProofs.extend_then_increment_in_range. Qed.
Print Assumptions extend_then_increment_in_range.

(* The runtime's length invariant: with n tasks created so far, every clock
   has length <= n.  Then extend(TaskId(n)) never underflows, and the
   invariant is re-established for n+1. *)
Theorem bounded_extend_ok : forall c n,
  (length c <= n)%nat ->
  exists c', extend c n = Some c' /\ length c' = S n.
Proof. exact VClockProofs.bounded_extend_ok. Qed.
Print Assumptions bounded_extend_ok.

Theorem bounded_update : forall a b n,
  (length a <= n)%nat -> (length b <= n)%nat -> (length (update a b) <= n)%nat.
Proof. exact VClockProofs.bounded_update. Qed.
Print Assumptions bounded_update.

Theorem bounded_increment : forall a i a' n,
  (length a <= n)%nat -> increment a i = Some a' -> (length a' <= n)%nat.
Proof. exact VClockProofs.bounded_increment. Qed.
Print Assumptions bounded_increment.

(* ========================================================================= *)
(*  6. Laws that are FALSE for the real code                                 *)
(* ========================================================================= *)

(* Trailing zeros matter to partial_cmp (but not to update): two clocks can
   be pointwise ordered as functions task -> time and still be reported
   concurrent, and pointwise-equal clocks can be reported Less. *)
Theorem vle_incomplete_sem :
  exists a b, (forall i, nth i a 0 <= nth i b 0) /\ partial_cmp a b = None.
Proof. exact VClockProofs.vle_incomplete_sem. Qed.
Print Assumptions vle_incomplete_sem.

Theorem equal_sem_not_Equal :
  exists a b, (forall i, nth i a 0 = nth i b 0) /\ partial_cmp a b = Some Less.
Proof. exact VClockProofs.equal_sem_not_Equal. Qed.
Print Assumptions equal_sem_not_Equal.

(* Release-build arithmetic: increment is not monotone. *)
Theorem increment_wrapping_not_monotone :
  exists a i a',
    wf a /\ increment_wrapping a i = Some a' /\
    vle a a' = false /\ vlt a' a = true.
Proof. exact VClockProofs.increment_wrapping_not_monotone. Qed.
Print Assumptions increment_wrapping_not_monotone.

(* extend is partial. *)
Theorem extend_partial : exists c id, wf c /\ extend c id = None.
Proof. exact VClockProofs.extend_partial. Qed.
Print Assumptions extend_partial.

(* ========================================================================= *)
(*  7. Non-vacuity / sanity examples (all by computation)                    *)
(* ========================================================================= *)

(* The assertions of the Rust unit test `clock::test::vector_clock`. *)
Example rust_test_1 :
  vlt [1;2;3;4] [1;2;4;5] = true /\ vgt [1;2;3;4] [1;2;3;1] = true /\
  partial_cmp [1;2;3;4] [1;2;3;4] = Some Equal.
Proof. vm_compute. repeat split. Qed.
Example rust_test_2 :
  vgt [1;2;4;5] [1;2;3;1] = true /\ vgt [1;2;4;5] [1;2;4;1] = true /\
  vlt [1;2;3;1] [1;2;4;1] = true /\ partial_cmp [1;2;3;4] [1;2;4;1] = None.
Proof. vm_compute. repeat split. Qed.
Example rust_test_3 :
  vgt [1;2;3;4] [1;2;2] = true /\ vgt [1;2;3;4] [1;2;3] = true /\
  partial_cmp [1;2;3;4] [1;2;4] = None /\ vlt [] [1] = true.
Proof. vm_compute. repeat split. Qed.
Example rust_test_4 :
  update [1;2;1] [1;3] = [1;3;1] /\ update [1;2;1] [1;1;1;2] = [1;2;1;2] /\
  update [1;2;1] [1;1;2] = [1;2;2] /\ update [1;2;1] new = [1;2;1].
Proof. vm_compute. repeat split. Qed.

(* All four outcomes of partial_cmp occur. *)
Example outcome_Less    : partial_cmp [1;2] [1;3] = Some Less.    Proof. reflexivity. Qed.
Example outcome_Equal   : partial_cmp [1;2] [1;2] = Some Equal.   Proof. reflexivity. Qed.
Example outcome_Greater : partial_cmp [1;3] [1;2] = Some Greater. Proof. reflexivity. Qed.
Example outcome_None    : partial_cmp [1;3] [2;2] = None.         Proof. reflexivity. Qed.
(* The length rule alone decides, and alone conflicts: *)
Example outcome_len_Less : partial_cmp [1] [1;0] = Some Less.     Proof. reflexivity. Qed.
Example outcome_len_None : partial_cmp [2] [1;0] = None.          Proof. reflexivity. Qed.

(* vle is neither constantly true nor constantly false. *)
Example vle_true  : vle [1;2] [1;3;0] = true.  Proof. reflexivity. Qed.
Example vle_false : vle [1;3;0] [1;3] = false. Proof. reflexivity. Qed.

(* Hypotheses of the conditional theorems are satisfiable. *)
Example trans_nonvacuous :
  vle [1] [1;2] = true /\ vle [1;2] [3;2;0] = true /\ vle [1] [3;2;0] = true.
Proof. vm_compute. repeat split. Qed.
Example antisym_nonvacuous : vle [1;2] [1;2] = true.
Proof. reflexivity. Qed.
Example least_nonvacuous :
  vle [1;5] [4;5;0] = true /\ vle [4;0;0] [4;5;0] = true /\
  update [1;5] [4;0;0] = [4;5;0].
Proof. vm_compute. repeat split. Qed.
Example monotone_nonvacuous :
  vle [1] [2;0] = true /\ vle [0;3] [0;4] = true /\
  update [1] [0;3] = [1;3] /\ update [2;0] [0;4] = [2;4].
Proof. vm_compute. repeat split. Qed.
Example increment_ok       : increment [1;2] 1%nat = Some [1;3].       Proof. reflexivity. Qed.
Example increment_oob      : increment [1;2] 2%nat = None.             Proof. reflexivity. Qed.
Example increment_overflow : increment [1;4294967295] 1%nat = None.    Proof. reflexivity. Qed.
Example increment_last_ok  : increment [4294967294] 0%nat = Some [4294967295].
Proof. reflexivity. Qed.
Example increment_wraps    : increment_wrapping [1;4294967295] 1%nat = Some [1;0].
Proof. reflexivity. Qed.
Example extend_main   : extend new 0%nat = Some [0].                   Proof. reflexivity. Qed.
Example extend_ok     : extend [1;2] 4%nat = Some [1;2;0;0;0].         Proof. reflexivity. Qed.
Example extend_same   : extend [1;2] 1%nat = Some [1;2].               Proof. reflexivity. Qed.
Example extend_reject : extend [1;2;3] 1%nat = None.                   Proof. reflexivity. Qed.
(* extend makes the clock strictly larger although no event happened: *)
Example extend_is_strict : vlt [1;2] [1;2;0;0;0] = true.               Proof. reflexivity. Qed.
Example wf_ok  : wfb [0; 4294967295] = true.   Proof. reflexivity. Qed.
Example wf_bad : wfb [4294967296] = false.     Proof. reflexivity. Qed.
