(* C07: thread lifecycle - spawn, join, scope and thread-locals behave as in std.
   Statements only; proofs: Proofs/TlsProofs.v (thread-locals), Proofs/LifecycleProofs.v (join, epilogue, scope,
   finished tasks).  Definitions used by the statements: tls_ok, task_of, tls_run, inits_of, pops_of, num_keys
   (Proofs/TlsProofs.v); fin_in, quiet, drains, join_final, scope_step (Proofs/LifecycleProofs.v). *)
From Coq Require Import List NArith Bool Arith.
From SV Require Import Clock.VClock Prim.Objects Prim.Atomic Prim.Tls Engine.Exec Engine.Inv Sched.Replay Engine.Stmt
  Lang.Prog Lang.SyncOps Proofs.EngineBase Proofs.EngineInv Proofs.ProgOk Proofs.TlsProofs Proofs.LifecycleProofs.
Import ListNotations.
Local Open Scope nat_scope.

(* ================================================================== *)
(* A. thread-locals                                                    *)
(* ================================================================== *)
(* A1: the slot map of every task stays well formed: keys pairwise distinct, and the destructor queue is exactly the
   keys whose slot still holds a value, in insertion order *)
Theorem C07_tls_ok_empty : tls_ok empty_tls.
Proof. exact empty_tls_ok. Qed.
Print Assumptions C07_tls_ok_empty.

Theorem C07_tls_with_preserves : forall st tls tid key add st' status old l,
  tls_table st tls = Some l -> (forall t, tls_ok (tls_of l t)) ->
  tls_with st tls tid key add = Some (st', status, old) ->
  exists l', tls_table st' tls = Some l' /\ forall t, tls_ok (tls_of l' t).
Proof. exact tls_with_preserves. Qed.
Print Assumptions C07_tls_with_preserves.

Theorem C07_tls_pop_preserves : forall st tls tid st' res l,
  tls_table st tls = Some l -> (forall t, tls_ok (tls_of l t)) ->
  tls_pop st tls tid = Some (st', res) ->
  exists l', tls_table st' tls = Some l' /\ forall t, tls_ok (tls_of l' t).
Proof. exact tls_pop_preserves. Qed.
Print Assumptions C07_tls_pop_preserves.

(* A2: every task has its own instance; nothing else in the store is touched *)
Theorem C07_tls_with_other_task : forall st tls tid key add st' status old tid',
  tls_with st tls tid key add = Some (st', status, old) -> tid' <> tid ->
  task_of st' tls tid' = task_of st tls tid'.
Proof. exact tls_with_other_task. Qed.
Print Assumptions C07_tls_with_other_task.

Theorem C07_tls_pop_other_task : forall st tls tid st' res tid',
  tls_pop st tls tid = Some (st', res) -> tid' <> tid ->
  task_of st' tls tid' = task_of st tls tid'.
Proof. exact tls_pop_other_task. Qed.
Print Assumptions C07_tls_pop_other_task.

Theorem C07_tls_with_frame : forall st tls tid key add st' status old i,
  tls_with st tls tid key add = Some (st', status, old) -> i <> tls -> get_obj st' i = get_obj st i.
Proof. exact tls_with_frame. Qed.
Print Assumptions C07_tls_with_frame.

Theorem C07_tls_pop_frame : forall st tls tid st' res i,
  tls_pop st tls tid = Some (st', res) -> i <> tls -> get_obj st' i = get_obj st i.
Proof. exact tls_pop_frame. Qed.
Print Assumptions C07_tls_pop_frame.

(* A3: lazy initialisation *)
Theorem C07_tls_lazy_init : forall st tls tid key add l init d,
  tls_table st tls = Some l -> get_obj st key = Some (OKey init d) ->
  tls_lookup (tls_of l tid) key = None ->
  exists st', tls_with st tls tid key add = Some (st', TlsInit, init)
    /\ tls_lookup (task_of st' tls tid) key = Some (Some ((init + add) mod W64)%N)
    /\ tl_order (task_of st' tls tid) = tl_order (tls_of l tid) ++ [key]
    /\ map fst (tl_locals (task_of st' tls tid)) = map fst (tl_locals (tls_of l tid)) ++ [key].
Proof. exact tls_with_lazy_init. Qed.
Print Assumptions C07_tls_lazy_init.

Theorem C07_tls_live : forall st tls tid key add l init d v,
  tls_table st tls = Some l -> get_obj st key = Some (OKey init d) ->
  tls_lookup (tls_of l tid) key = Some (Some v) ->
  exists st', tls_with st tls tid key add = Some (st', TlsOk, v)
    /\ tls_lookup (task_of st' tls tid) key = Some (Some ((v + add) mod W64)%N)
    /\ tl_order (task_of st' tls tid) = tl_order (tls_of l tid)
    /\ map fst (tl_locals (task_of st' tls tid)) = map fst (tl_locals (tls_of l tid)).
Proof. exact tls_with_live. Qed.
Print Assumptions C07_tls_live.

(* A4: access during or after destruction is an error, and never resurrects the value *)
Theorem C07_tls_destroyed : forall st tls tid key add l init d,
  tls_table st tls = Some l -> get_obj st key = Some (OKey init d) ->
  tls_lookup (tls_of l tid) key = Some None ->
  tls_with st tls tid key add = Some (st, TlsDestroyed, 0%N).
Proof. exact tls_with_destroyed. Qed.
Print Assumptions C07_tls_destroyed.

Theorem C07_pop_tombstone : forall st tls tid st' key v d,
  tls_pop st tls tid = Some (st', Some (key, v, d)) -> tls_lookup (task_of st' tls tid) key = Some None.
Proof. exact pop_tombstone. Qed.
Print Assumptions C07_pop_tombstone.

Theorem C07_tombstone_forever : forall tls ops st tid key,
  tls_lookup (task_of st tls tid) key = Some None ->
  tls_lookup (task_of (tls_run tls st ops) tls tid) key = Some None.
Proof. exact tombstone_forever. Qed.
Print Assumptions C07_tombstone_forever.

Theorem C07_no_resurrection : forall tls ops st tid key add st' status old,
  tls_lookup (task_of st tls tid) key = Some None ->
  tls_with (tls_run tls st ops) tls tid key add = Some (st', status, old) ->
  status = TlsDestroyed /\ old = 0%N /\ st' = tls_run tls st ops.
Proof. exact no_resurrection. Qed.
Print Assumptions C07_no_resurrection.

(* A5: destructors run exactly once per initialised value, in initialisation order *)
Theorem C07_destructor_order : forall tls st ops tid,
  tls_table st tls = Some [] ->
  inits_of tls st ops tid = pops_of tls st ops tid ++ tl_order (task_of (tls_run tls st ops) tls tid)
  /\ prefix (pops_of tls st ops tid) (inits_of tls st ops tid)
  /\ NoDup (inits_of tls st ops tid)
  /\ NoDup (pops_of tls st ops tid)
  /\ (tl_order (task_of (tls_run tls st ops) tls tid) = [] -> pops_of tls st ops tid = inits_of tls st ops tid).
Proof. exact destructor_order. Qed.
Print Assumptions C07_destructor_order.

(* A6: the number of destructor rounds of a task is bounded by the number of key objects; TLS_ROUNDS suffices for stores
   with fewer than TLS_ROUNDS keys; the internal assertions of pop_local / try_with never fire *)
Theorem C07_pops_bounded : forall tls st ops tid,
  tls_table st tls = Some [] ->
  length (pops_of tls st ops tid) <= length (inits_of tls st ops tid)
  /\ length (inits_of tls st ops tid) <= num_keys st.
Proof. exact pops_bounded. Qed.
Print Assumptions C07_pops_bounded.

Theorem C07_tls_rounds_bound : forall tls st ops tid,
  tls_table st tls = Some [] -> num_keys st < TLS_ROUNDS ->
  length (pops_of tls st ops tid) < TLS_ROUNDS.
Proof. intros tls st ops tid. exact (tls_rounds_bound tls st ops tid TLS_ROUNDS). Qed.
Print Assumptions C07_tls_rounds_bound.

Theorem C07_pop_never_fails : forall tls st ops tid,
  tls_table st tls = Some [] -> tls_pop (tls_run tls st ops) tls tid <> None.
Proof. exact pop_never_fails. Qed.
Print Assumptions C07_pop_never_fails.

Theorem C07_with_never_fails : forall tls st ops tid key add init d,
  tls_table st tls = Some [] -> get_obj st key = Some (OKey init d) ->
  tls_with (tls_run tls st ops) tls tid key add <> None.
Proof. exact with_never_fails. Qed.
Print Assumptions C07_with_never_fails.

(* ================================================================== *)
(* B. join and the thread epilogue                                     *)
(* ================================================================== *)
(* B1 *)
Theorem C07_join_code_shape : forall target k,
  join_code target k =
  atomic_b (join_check target)
    (fun fin => switch_if fin (atomic_b (join_wait target) (fun sb => switch_if sb (atomic_u (join_final target) k)))).
Proof. exact join_code_shape. Qed.
Print Assumptions C07_join_code_shape.

Theorem C07_join_final_spec : forall target e s e' s',
  join_final target e s = Some (e', s') ->
  s' = s /\ fin_in e target /\ fin_in e' target
  /\ exists m tk, me e = Some m /\ get_task e target = Some tk /\ is_finished tk = true
       /\ e_update_clock e m (t_clock tk) = Some e'
       /\ exists cm c1, e_clock e m = Some cm /\ increment cm m = Some c1 /\ e_clock e' m = Some (update c1 (t_clock tk)).
Proof. exact join_final_spec. Qed.
Print Assumptions C07_join_final_spec.

Theorem C07_join_final_unfinished : forall target e s tk,
  get_task e target = Some tk -> is_finished tk = false -> join_final target e s = None.
Proof. exact join_final_unfinished. Qed.
Print Assumptions C07_join_final_unfinished.

Theorem C07_join_wait_spec : forall target e s e' s' b,
  join_wait target e s = Some (e', s', b) ->
  s' = s /\ exists m tk, me e = Some m /\ get_task e target = Some tk /\ b = negb (is_finished tk)
    /\ (b = true ->
        (exists tk', get_task e' target = Some tk' /\ t_waiter tk' = Some m)
        /\ (exists tkm, get_task e' m = Some tkm /\ t_state tkm = Blocked false)).
Proof. exact join_wait_spec. Qed.
Print Assumptions C07_join_wait_spec.

Theorem C07_join_continues_after_finish : forall SS (sch : scheduler SS) ms target k w st w' st' r,
  run_seg sch ms (atomic_u (join_final target) k) w st = (w', st', r) ->
  (join_final target (w_e w) (w_s w) = None /\ r = SegPanic /\ w' = w /\ st' = st)
  \/ exists e1, join_final target (w_e w) (w_s w) = Some (e1, w_s w) /\ fin_in (w_e w) target /\ fin_in e1 target
       /\ run_seg sch ms k (mkWorld e1 (w_s w) (w_conts w) (w_trace w)) st = (w', st', r).
Proof. intros SS sch ms. exact (join_continues_after_finish sch ms). Qed.
Print Assumptions C07_join_continues_after_finish.

(* B2: the result is published (and the joiner unblocked) only after the destructor loop found nothing left *)
Theorem C07_tls_loop_drains : forall n tls dtor last,
  dtor_drains tls last dtor -> drains tls last (tls_loop n tls dtor last).
Proof. exact tls_loop_drains. Qed.
Print Assumptions C07_tls_loop_drains.

Theorem C07_thread_epilogue_drains : forall tls dtor,
  dtor_drains tls publish_code dtor -> drains tls publish_code (thread_epilogue_d tls dtor).
Proof. exact thread_epilogue_drains. Qed.
Print Assumptions C07_thread_epilogue_drains.

Theorem C07_scoped_epilogue_drains : forall z tls dtor,
  dtor_drains tls publish_code dtor -> drains tls publish_code (scoped_epilogue_d z tls dtor).
Proof. exact scoped_epilogue_drains. Qed.
Print Assumptions C07_scoped_epilogue_drains.

Theorem C07_thread_fin_drains : forall tls dtor,
  dtor_drains tls publish_code dtor -> drains tls publish_code (thread_fin tls dtor [] []).
Proof. exact thread_fin_drains. Qed.
Print Assumptions C07_thread_fin_drains.

Theorem C07_drains_sound : forall SS (sch : scheduler SS) ms tls last c, drains tls last c -> forall w st w' st' r,
  run_seg sch ms c w st = (w', st', r) ->
  r = SegPanic
  \/ (exists w1 st1 m, me (w_e w1) = Some m /\ tl_order (task_of (w_s w1) tls m) = []
                       /\ run_seg sch ms last w1 st1 = (w', st', r))
  \/ (exists k', r = SegYield k' /\ drains tls last k').
Proof. intros SS sch ms. exact (drains_sound sch ms). Qed.
Print Assumptions C07_drains_sound.

Theorem C07_publish_block_spec : forall e s e' s',
  publish_block e s = Some (e', s') ->
  s' = s /\ exists t tk, me e = Some t /\ get_task e t = Some tk
    /\ match t_waiter tk with
       | None => e' = with_tasks e (list_upd (tasks e) t (fun tk => set_waiter_f tk None))
       | Some w => e_unblock (with_tasks e (list_upd (tasks e) t (fun tk => set_waiter_f tk None))) w = Some e'
       end.
Proof. exact publish_block_spec. Qed.
Print Assumptions C07_publish_block_spec.

(* B3: a finished task never runs again *)
Theorem C07_finished_never_runs : forall SS (sch : scheduler SS) ms fuel main objs st w st' out,
  Run sch ms fuel main objs st w st' out ->
  forall l1 pre off cur y ch l2 t,
    chrono w = l1 ++ EvDecision pre off cur y ch :: l2 -> fin_in pre t ->
    Forall (quiet t) l2.
Proof. exact finished_never_runs. Qed.
Print Assumptions C07_finished_never_runs.

Theorem C07_finished_never_chosen : forall SS (sch : scheduler SS) ms fuel main objs st w st' out,
  Run sch ms fuel main objs st w st' out -> sane sch ->
  forall l1 pre off cur y ch l2 t,
    chrono w = l1 ++ EvDecision pre off cur y ch :: l2 -> fin_in pre t ->
    forall pre' off' cur' y' ch', In (EvDecision pre' off' cur' y' ch') l2 -> ch' <> Some t.
Proof. exact finished_never_chosen. Qed.
Print Assumptions C07_finished_never_chosen.

Theorem C07_finished_quiet_loop : forall SS (sch : scheduler SS) ms fuel w st w' st' out t,
  LInv sch ms w -> fin_in (w_e w) t -> run_loop sch ms fuel w st = (w', st', out) ->
  fin_in (w_e w') t /\ exists evs, w_trace w' = evs ++ w_trace w /\ Forall (quiet t) evs.
Proof. intros SS sch ms. exact (finished_quiet_loop sch ms). Qed.
Print Assumptions C07_finished_quiet_loop.

Theorem C07_join_then_quiet_seg : forall SS (sch : scheduler SS) ms target tag vals k w st w' st' r m,
  code_ok k -> LInv sch ms w -> running (w_e w) (w_trace w) m ->
  run_seg sch ms (atomic_u (join_final target) (Log tag vals k)) w st = (w', st', r) ->
  (join_final target (w_e w) (w_s w) = None /\ r = SegPanic /\ w' = w)
  \/ (fin_in (w_e w) target /\ fin_in (w_e w') target /\ m <> target
      /\ exists clk evs, w_trace w' = evs ++ EvOp m tag vals clk :: w_trace w /\ Forall (quiet target) evs).
Proof. intros SS sch ms. exact (join_then_quiet_seg sch ms). Qed.
Print Assumptions C07_join_then_quiet_seg.

(* whole runs of code in which every join record directly follows the last block of that join ... *)
Theorem C07_joined_never_runs : forall SS (sch : scheduler SS) ms fuel main objs st w st' out,
  Run sch ms fuel main objs st w st' out -> lg join_record main ->
  forall l1 m t v clk l2,
    chrono w = l1 ++ EvOp m TAG_JOIN [N.of_nat t; v] clk :: l2 ->
    Forall (quiet t) l2 /\ fin_in (w_e w) t.
Proof. exact joined_never_runs. Qed.
Print Assumptions C07_joined_never_runs.

(* ... which is the case for every program of Lang/Prog.v ... *)
Theorem C07_compile_join_records : forall jt bodies, lg join_record (compile jt bodies).
Proof. exact compile_lg_all. Qed.
Print Assumptions C07_compile_join_records.

(* ... so: for every program and schedule, after a join on t has returned no event involves t *)
Theorem C07_join_returned_never_runs : forall fuel ms objs bodies script seed w st' out,
  run_prog fuel ms objs bodies script seed = (w, st', out) ->
  forall l1 m t v clk l2,
    chrono w = l1 ++ EvOp m TAG_JOIN [N.of_nat t; v] clk :: l2 ->
    Forall (quiet t) l2 /\ fin_in (w_e w) t.
Proof. exact join_returned_never_runs. Qed.
Print Assumptions C07_join_returned_never_runs.

(* thread ids *)
Theorem C07_spawn_fresh_id : forall e e' tid, rok e -> spawn_thread_now e = Some (e', tid) ->
  tid = length (tasks e) /\ get_task e tid = None /\ length (tasks e') = S (length (tasks e))
  /\ (exists tk, get_task e' tid = Some tk /\ t_state tk = Runnable /\ t_waiter tk = None)
  /\ current e' = current e.
Proof. exact spawn_fresh_id. Qed.
Print Assumptions C07_spawn_fresh_id.

Theorem C07_thread_id : forall e st e' st' a,
  thread_id_block e st = Some (e', st', a) -> e' = e /\ st' = st /\ exists m, current e = SSome m /\ a = [N.of_nat m; 1%N].
Proof. exact thread_id_block_spec. Qed.
Print Assumptions C07_thread_id.

(* ================================================================== *)
(* C. scope                                                            *)
(* ================================================================== *)
Theorem C07_scope_end_block : forall z e st e' st' blk,
  scope_end_block z e st = Some (e', st', blk) ->
  exists m r mt w, me e = Some m /\ scope_get st z = Some (r, mt, w) /\ blk = negb (Nat.eqb r 0)
    /\ ((r = 0 /\ e' = e /\ st' = st)
        \/ (r <> 0 /\ e_block e m false = Some e' /\ st' = set_obj st z (OScope r mt true)
            /\ scope_get st' z = Some (r, mt, true))).
Proof. exact scope_end_block_spec. Qed.
Print Assumptions C07_scope_end_block.

Theorem C07_scoped_exit_block : forall z e s e' s',
  scoped_exit_block z e s = Some (e', s') ->
  exists r m w, scope_get s z = Some (S r, m, w) /\ s' = set_obj s z (OScope r m w) /\ scope_get s' z = Some (r, m, w)
    /\ ((r = 0 /\ w = true /\ e_unblock e m = Some e') \/ (~ (r = 0 /\ w = true) /\ e' = e)).
Proof. exact scoped_exit_block_spec. Qed.
Print Assumptions C07_scoped_exit_block.

Theorem C07_scoped_exit_no_spurious_unblock : forall z e s e' s' r m,
  scoped_exit_block z e s = Some (e', s') -> scope_get s z = Some (S r, m, false) -> e' = e.
Proof. exact scoped_exit_no_spurious_unblock. Qed.
Print Assumptions C07_scoped_exit_no_spurious_unblock.

Theorem C07_scope_shapes : forall z tls dtor k,
  scope_end z k = atomic_b (scope_end_block z) (fun blk => switch_if blk k)
  /\ scoped_epilogue_d z tls dtor =
     atomic_b exit_point_block
       (fun b => switch_if b (atomic_u (scoped_exit_block z) (tls_loop TLS_ROUNDS tls dtor publish_code)))
  /\ thread_epilogue_d tls dtor =
     atomic_b exit_point_block (fun b => switch_if b (tls_loop TLS_ROUNDS tls dtor publish_code))
  /\ publish_code = atomic_u publish_block Ret.
Proof.
  intros z tls dtor k.
  exact (conj (scope_end_shape z k) (conj (scoped_epilogue_shape z tls dtor) (conj (thread_epilogue_shape tls dtor) publish_code_shape))).
Qed.
Print Assumptions C07_scope_shapes.

(* C2 *)
Theorem C07_scope_count : forall s, scope_reach s -> sa_running s + sa_ended s = sa_spawned s.
Proof. exact scope_count. Qed.
Print Assumptions C07_scope_count.

Theorem C07_scope_returns_after_all : forall s, scope_reach s -> sa_pc s = MReturned -> sa_ended s = sa_spawned s.
Proof. exact scope_returns_after_all. Qed.
Print Assumptions C07_scope_returns_after_all.

Theorem C07_scope_return_step : forall s s',
  scope_reach s -> scope_step s s' -> sa_pc s <> MReturned -> sa_pc s' = MReturned ->
  sa_running s = 0 /\ sa_ended s = sa_spawned s.
Proof. exact scope_return_step. Qed.
Print Assumptions C07_scope_return_step.

Theorem C07_scope_unblock_only_waiting : forall s r, scope_reach s -> sa_running s = S r ->
  Nat.eqb r 0 && sa_waiting s = true -> sa_pc s = MWaiting /\ sa_blocked s = true.
Proof. exact scope_unblock_only_waiting. Qed.
Print Assumptions C07_scope_unblock_only_waiting.

Theorem C07_scope_returned_final : forall s s', scope_reach s -> sa_pc s = MReturned -> ~ scope_step s s'.
Proof. exact scope_returned_final. Qed.
Print Assumptions C07_scope_returned_final.

Theorem C07_scope_spawn_refines : forall z e st e' st' s,
  scope_rep st z s -> sa_pc s = MBody \/ 0 < sa_running s ->
  scope_spawn_block z e st = Some (e', st') ->
  exists s', scope_step s s' /\ scope_rep st' z s' /\ e' = e.
Proof. exact scope_spawn_refines. Qed.
Print Assumptions C07_scope_spawn_refines.

Theorem C07_scoped_exit_refines : forall z e st e' st' s,
  scope_rep st z s -> scoped_exit_block z e st = Some (e', st') ->
  exists s' r, sa_running s = S r /\ scope_step s s' /\ scope_rep st' z s'
    /\ (sa_blocked s' <> sa_blocked s -> exists m, scope_get st z = Some (S r, m, true) /\ e_unblock e m = Some e')
    /\ (Nat.eqb r 0 && sa_waiting s = false -> e' = e).
Proof. exact scoped_exit_refines. Qed.
Print Assumptions C07_scoped_exit_refines.

Theorem C07_scope_end_refines : forall z e st e' st' blk s,
  scope_rep st z s -> sa_pc s = MBody ->
  scope_end_block z e st = Some (e', st', blk) ->
  exists s', scope_step s s' /\ scope_rep st' z s' /\ blk = sa_blocked s'
    /\ (blk = false -> sa_pc s' = MReturned /\ e' = e)
    /\ (blk = true -> sa_pc s' = MWaiting /\ exists m, me e = Some m /\ e_block e m false = Some e').
Proof. exact scope_end_refines. Qed.
Print Assumptions C07_scope_end_refines.

(* ================================================================== *)
(* the engine-level statements hold for every program of Lang/Prog.v   *)
(* ================================================================== *)
Example finished_never_runs_programs :
  forall ms fuel objs bodies script seed w st' out,
    run_prog fuel ms objs bodies script seed = (w, st', out) ->
    forall l1 pre off cur y ch l2 t,
      chrono w = l1 ++ EvDecision pre off cur y ch :: l2 -> fin_in pre t -> Forall (quiet t) l2.
Proof.
  intros ms fuel objs bodies script seed w st' out H.
  eapply C07_finished_never_runs. split; [apply compile_ok|exact H].
Qed.
Print Assumptions finished_never_runs_programs.

(* ================================================================== *)
(* non-vacuity                                                         *)
(* ================================================================== *)
Definition ops_of (tr : list event) : list (nat * N * list N) :=
  flat_map (fun ev => match ev with EvOp t tag vals _ => [(t, tag, vals)] | _ => [] end) (rev tr).

(* ---- the table, directly: two tasks, two keys (one with a destructor body), histories of try_with / pop ---- *)
Definition c07_st0 : store := [OKey 10 (Some 7); OKey 20 None; OAtomic 0 []; OTls []].
Definition c07_ops0 : list tls_op :=
  [TOpWith 1 0 1; TOpWith 2 0 5; TOpWith 1 1 2; TOpWith 1 0 1; TOpPop 1; TOpWith 1 0 9; TOpWith 1 2 1;
   TOpPop 2; TOpPop 1; TOpPop 1; TOpPop 2].

Example c07_table_history :
  tls_table c07_st0 3 = Some []
  /\ num_keys c07_st0 = 2
  /\ inits_of 3 c07_st0 c07_ops0 1 = [0; 1] /\ pops_of 3 c07_st0 c07_ops0 1 = [0; 1]
  /\ inits_of 3 c07_st0 c07_ops0 2 = [0] /\ pops_of 3 c07_st0 c07_ops0 2 = [0]
  /\ tls_run 3 c07_st0 c07_ops0 =
     [OKey 10 (Some 7); OKey 20 None; OAtomic 0 [];
      OTls [(1, mkTls [(0, None); (1, None)] []); (2, mkTls [(0, None)] [])]].
Proof. vm_compute. repeat split; reflexivity. Qed.

Example c07_lazy_then_destroyed :
  tls_with c07_st0 3 1 0 4
  = Some ([OKey 10 (Some 7); OKey 20 None; OAtomic 0 []; OTls [(1, mkTls [(0, Some 14%N)] [0])]], TlsInit, 10%N)
  /\ tls_with (tls_run 3 c07_st0 [TOpWith 1 0 1; TOpPop 1]) 3 1 0 4
     = Some ([OKey 10 (Some 7); OKey 20 None; OAtomic 0 []; OTls [(1, mkTls [(0, None)] [])]], TlsDestroyed, 0%N)
  /\ tls_lookup (task_of (tls_run 3 c07_st0 [TOpWith 1 0 1; TOpPop 1]) 3 1) 0 = Some None.
Proof. vm_compute. repeat split; reflexivity. Qed.

(* ---- a whole program: two threads, three keys; the destructor body of key 0 touches key 2 (initialised during
   destruction: TlsInit, and destructed in a later round) and its own key (TlsDestroyed); the destructor body of
   key 1 touches key 0, destructed before it (TlsDestroyed).  The main thread has its own instance of key 0 (it
   reads 11 after the child's two accesses, not 12), and join hands over thread_value 1 = 1001 after the child's
   three TLSDROP records. ---- *)
Definition c07_tls_prog : list (list op) :=
  [[PTlsWith 0 1; PSpawn 1; PJoin 0; PTlsWith 0 5; PThreadId];
   [PThreadId; PTlsWith 0 1; PTlsWith 1 2; PTlsWith 0 1];
   [PTlsWith 2 7; PTlsWith 0 0];
   [PTlsWith 0 0]].
Definition c07_tls_objs : store := [OKey 10 (Some 2); OKey 20 (Some 3); OKey 30 None].
Definition c07_tls_run := run_prog 60 MSNone c07_tls_objs c07_tls_prog [] 0.

Example c07_tls_trace :
  snd c07_tls_run = OPass
  /\ ops_of (w_trace (fst (fst c07_tls_run))) =
     [(0, TAG_TLS, [0; 1; 10]%N); (0, TAG_SPAWN, [1%N]);
      (1, TAG_TID, [1; 1]%N); (1, TAG_TLS, [0; 1; 10]%N); (1, TAG_TLS, [1; 1; 20]%N); (1, TAG_TLS, [0; 0; 11]%N);
      (1, TAG_END, []);
      (1, TAG_TLSDROP, [0; 12]%N); (1, TAG_TLS, [2; 1; 30]%N); (1, TAG_TLS, [0; 2; 0]%N);
      (1, TAG_TLSDROP, [1; 22]%N); (1, TAG_TLS, [0; 2; 0]%N);
      (1, TAG_TLSDROP, [2; 37]%N);
      (0, TAG_JOIN, [1; 1001]%N); (0, TAG_TLS, [0; 0; 11]%N); (0, TAG_TID, [0; 1]%N);
      (0, TAG_END, []);
      (0, TAG_TLSDROP, [0; 16]%N); (0, TAG_TLS, [2; 1; 30]%N); (0, TAG_TLS, [0; 2; 0]%N);
      (0, TAG_TLSDROP, [2; 37]%N)]
  /\ nth_error (w_s (fst (fst c07_tls_run))) 4 =
     Some (OTls [(0, mkTls [(0, None); (2, None)] []); (1, mkTls [(0, None); (1, None); (2, None)] [])])
  /\ thread_value 1 = 1001%N.
Proof. vm_compute. repeat split; reflexivity. Qed.

(* ---- join in both orders: the joiner blocks until the child has finished (default schedule), or finds it finished
   (the child is scheduled at the parent's yield); the value is thread_value 1 either way, and the atomic read after
   the join sees the child's write ---- *)
Definition c07_join_prog : list (list op) :=
  [[PSpawn 1; PYield; PJoin 0; PAtomic 0 (AAdd 0)]; [PAtomic 0 (AAdd 5)]].
Definition c07_join_run (script : list (option nat)) := run_prog 60 MSNone [OAtomic 0 []] c07_join_prog script 0.
Definition c07_child_first : list (option nat) := [Some 0; Some 0; Some 1; Some 1; Some 1].

Example c07_join_trace :
  snd (c07_join_run []) = OPass
  /\ ops_of (w_trace (fst (fst (c07_join_run [])))) =
     [(0, TAG_SPAWN, [1%N]); (0, TAG_YIELD, []); (1, TAG_ATOMIC, [1; 0]%N); (1, TAG_END, []);
      (0, TAG_JOIN, [1; 1001]%N); (0, TAG_ATOMIC, [1; 5]%N); (0, TAG_END, [])]
  /\ snd (c07_join_run c07_child_first) = OPass
  /\ ops_of (w_trace (fst (fst (c07_join_run c07_child_first)))) =
     [(0, TAG_SPAWN, [1%N]); (1, TAG_ATOMIC, [1; 0]%N); (1, TAG_END, []); (0, TAG_YIELD, []);
      (0, TAG_JOIN, [1; 1001]%N); (0, TAG_ATOMIC, [1; 5]%N); (0, TAG_END, [])].
Proof. vm_compute. repeat split; reflexivity. Qed.

(* the premise of C07_finished_never_runs is met in this run: some decision is taken with task 1 finished *)
Definition dec_with_finished (t : nat) (ev : event) : bool :=
  match ev with
  | EvDecision pre _ _ _ _ => match get_task pre t with Some tk => is_finished tk | None => false end
  | _ => false
  end.
Example c07_join_finished_decisions :
  length (filter (dec_with_finished 1) (w_trace (fst (fst (c07_join_run []))))) = 3
  /\ length (filter (dec_with_finished 1) (w_trace (fst (fst (c07_join_run c07_child_first))))) = 4.
Proof. vm_compute. split; reflexivity. Qed.

(* ---- a scope with two scoped threads: under the default schedule the main task blocks at the end of scope() and is
   woken by the last scoped thread; under the second schedule both have finished before the end of scope() and it
   does not block.  Either way the record that closes the scope comes after both END records, and the atomic read
   after the scope sees all three additions. ---- *)
Definition c07_scope_prog : list (list op) :=
  [[PScope 1 1; PAtomic 0 (AAdd 100)];
   [PScopeSpawn 1 2; PScopeSpawn 1 3; PYield; PAtomic 0 (AAdd 1)];
   [PAtomic 0 (AAdd 10)];
   [PAtomic 0 (AAdd 20); PYield]].
Definition c07_scope_objs : store := [OAtomic 0 []; OScope 0 0 false].
Definition c07_scope_run (script : list (option nat)) := run_prog 80 MSNone c07_scope_objs c07_scope_prog script 0.
Definition c07_threads_first : list (option nat) :=
  [Some 0; Some 0; Some 0; Some 1; Some 1; Some 1; Some 1; Some 1; Some 1; Some 1; Some 1].

Example c07_scope_trace :
  snd (c07_scope_run []) = OPass
  /\ ops_of (w_trace (fst (fst (c07_scope_run [])))) =
     [(0, TAG_SCOPE, [1%N]); (0, TAG_SPAWN, [1%N]); (0, TAG_SPAWN, [2%N]); (0, TAG_YIELD, []);
      (0, TAG_ATOMIC, [1; 0]%N);
      (1, TAG_ATOMIC, [1; 1]%N); (1, TAG_END, []);
      (2, TAG_ATOMIC, [1; 11]%N); (2, TAG_YIELD, []); (2, TAG_END, []);
      (0, TAG_SCOPE, []); (0, TAG_ATOMIC, [1; 31]%N); (0, TAG_END, [])]
  /\ nth_error (w_s (fst (fst (c07_scope_run [])))) 1 = Some (OScope 0 0 true)
  /\ snd (c07_scope_run c07_threads_first) = OPass
  /\ ops_of (w_trace (fst (fst (c07_scope_run c07_threads_first)))) =
     [(0, TAG_SCOPE, [1%N]); (0, TAG_SPAWN, [1%N]); (0, TAG_SPAWN, [2%N]);
      (1, TAG_ATOMIC, [1; 0]%N); (1, TAG_END, []);
      (2, TAG_ATOMIC, [1; 10]%N); (2, TAG_YIELD, []); (2, TAG_END, []);
      (0, TAG_YIELD, []); (0, TAG_ATOMIC, [1; 30]%N);
      (0, TAG_SCOPE, []); (0, TAG_ATOMIC, [1; 31]%N); (0, TAG_END, [])]
  /\ nth_error (w_s (fst (fst (c07_scope_run c07_threads_first)))) 1 = Some (OScope 0 0 false).
Proof. vm_compute. repeat split; reflexivity. Qed.

(* ---- the abstract scope: two spawns, the main task blocks, both closures end, the main task returns ---- *)
Example c07_scope_abs_run :
  exists s, scope_reach s /\ sa_pc s = MReturned /\ sa_spawned s = 2 /\ sa_ended s = 2 /\ sa_waiting s = true.
Proof.
  eexists. split.
  - eapply SR_step; [eapply SR_step; [eapply SR_step; [eapply SR_step; [eapply SR_step; [eapply SR_step; [apply SR_init|]|]|]|]|]|].
    + apply SS_spawn. left; reflexivity.
    + apply SS_spawn. left; reflexivity.
    + apply SS_end_block; [reflexivity|discriminate].
    + apply (SS_closure_end _ 1). reflexivity.
    + apply (SS_closure_end _ 0). reflexivity.
    + apply SS_end_wake; reflexivity.
  - cbn. repeat split; reflexivity.
Qed.

(* ---- drains: a destructor that logs and goes on satisfies the hypothesis of B2 ---- *)
Example c07_drains_instance :
  drains 4 publish_code (thread_epilogue_d 4 (fun d k => Log TAG_TLS [N.of_nat d] k)).
Proof. apply C07_thread_epilogue_drains. intros d k Hk. apply dr_log. exact Hk. Qed.

(* ---- the premise of C07_join_returned_never_runs is met: the run above records a join on task 1, and four more
   events follow it (none involving task 1, by the theorem) ---- *)
Definition is_join_rec (t : nat) (ev : event) : bool :=
  match ev with EvOp _ tag (x :: _) _ => N.eqb tag TAG_JOIN && N.eqb x (N.of_nat t) | _ => false end.
Fixpoint find_idx {A} (f : A -> bool) (l : list A) : nat :=
  match l with [] => 0 | x :: r => if f x then 0 else S (find_idx f r) end.
Definition c07_join_w := fst (fst (c07_join_run [])).
Definition c07_join_idx := find_idx (is_join_rec 1) (chrono c07_join_w).
Definition c07_join_clk : vclock :=
  match nth_error (chrono c07_join_w) c07_join_idx with Some (EvOp _ _ _ c) => c | _ => [] end.

Example c07_join_split :
  chrono c07_join_w
  = firstn c07_join_idx (chrono c07_join_w)
    ++ EvOp 0 TAG_JOIN [N.of_nat 1; 1001%N] c07_join_clk :: skipn (S c07_join_idx) (chrono c07_join_w)
  /\ length (skipn (S c07_join_idx) (chrono c07_join_w)) = 4
  /\ c07_join_clk = [2; 2]%N.
Proof. vm_compute. repeat split; reflexivity. Qed.

Lemma triple_eta : forall A B C (r : A * B * C), r = (fst (fst r), snd (fst r), snd r).
Proof. intros A B C [[a b] c]. reflexivity. Qed.
Print Assumptions triple_eta.

Example c07_join_then_quiet :
  Forall (quiet 1) (skipn (S c07_join_idx) (chrono c07_join_w)) /\ fin_in (w_e c07_join_w) 1.
Proof.
  eapply (C07_join_returned_never_runs 60 MSNone [OAtomic 0 []] c07_join_prog [] 0%N c07_join_w).
  - unfold c07_join_w, c07_join_run. apply triple_eta.
  - exact (proj1 c07_join_split).
Qed.
Print Assumptions c07_join_then_quiet.
