(* C07: thread lifecycle — spawn, join, scope, thread-locals.  Model: Prim/Tls.v, Lang/ThreadOps.v
   (thread_epilogue_d, scoped_epilogue_d, tls_loop, join_code), Lang/Prog.v (PTlsWith, PThreadId, PScope, PScopeSpawn).
   Statements only. *)
From Coq Require Import List NArith Bool Arith.
From SV Require Import Clock.VClock Prim.Objects Prim.Atomic Prim.Tls Engine.Exec Lang.Code Lang.ThreadOps Lang.Prog Proofs.TlsBase.
Import ListNotations.

Theorem C07_tls_no_resurrection : forall st tls tid key add l init d,
  tls_table st tls = Some l -> get_obj st key = Some (OKey init d) ->
  tls_lookup (tls_of l tid) key = Some None ->
  tls_with st tls tid key add = Some (st, TlsDestroyed, 0%N).
Proof. exact tls_with_destroyed. Qed.
Print Assumptions C07_tls_no_resurrection.

Theorem C07_tls_lazy_init : forall st tls tid key add l init d,
  tls_table st tls = Some l -> get_obj st key = Some (OKey init d) ->
  tls_lookup (tls_of l tid) key = None ->
  exists st', tls_with st tls tid key add = Some (st', TlsInit, init).
Proof. exact tls_with_first. Qed.
Print Assumptions C07_tls_lazy_init.

Theorem C07_tls_live : forall st tls tid key add l init d v,
  tls_table st tls = Some l -> get_obj st key = Some (OKey init d) ->
  tls_lookup (tls_of l tid) key = Some (Some v) ->
  exists st', tls_with st tls tid key add = Some (st', TlsOk, v).
Proof. exact tls_with_live. Qed.
Print Assumptions C07_tls_live.

Theorem C07_tls_pop_oldest : forall st tls tid l st' key v d,
  tls_table st tls = Some l -> tls_pop st tls tid = Some (st', Some (key, v, d)) ->
  exists r, tl_order (tls_of l tid) = key :: r /\ tls_lookup (tls_of l tid) key = Some (Some v).
Proof. exact tls_pop_oldest. Qed.
Print Assumptions C07_tls_pop_oldest.

Theorem C07_join_after_finish : forall target e s e' s',
  join_last target e s = Some (e', s') ->
  exists tk, get_task e target = Some tk /\ is_finished tk = true.
Proof. exact join_last_finished. Qed.
Print Assumptions C07_join_after_finish.

Theorem C07_join_code_shape : forall target k,
  join_code target k =
  atomic_b (fun e s => match get_task e target with Some tk => Some (e, s, is_finished tk) | None => None end)
    (fun fin => switch_if fin
      (atomic_b (fun e s =>
          match me e with
          | None => None
          | Some m =>
            match e_set_waiter e target m with
            | None => None
            | Some (e', true) => match e_block e' m false with Some e'' => Some (e'', s, true) | None => None end
            | Some (e', false) => Some (e', s, false)
            end
          end)
        (fun should_block => switch_if should_block (atomic_u (join_last target) k)))).
Proof. exact join_code_shape. Qed.
Print Assumptions C07_join_code_shape.

(* non-vacuity: two threads and a scoped thread; key 1 (initial value 5) has a destructor body (body 3) that touches
   key 2 and its own key *)
Definition c07_objs : store := [OAtomic 0 []; OKey 5 (Some 3%nat); OKey 7 None; OScope 0 0 false].
Definition c07_prog : list (list op) :=
  [[PTlsWith 1 2; PSpawn 1; PScope 3 2; PJoin 0; PThreadId];
   [PTlsWith 1 1; PTlsWith 2 4];
   [PScopeSpawn 3 1; PJoin 0];
   [PAtomic 0 (AAdd 1); PTlsWith 2 1; PTlsWith 1 1]].
Definition c07_run := run_prog 200 MSNone c07_objs c07_prog [] 0.
Definition c07_ops (w : world) : list (nat * N * list N) :=
  rev (flat_map (fun ev => match ev with EvOp t tag vals _ => [(t, tag, vals)] | _ => [] end) (w_trace w)).

(* task 1 and task 2 run the same body: each lazily initialises its own instances (5 and 7), the destructor of key 1
   (value 6) runs body 3, which adds to key 2 (still live: 11) and finds its own key destructed (status 2); key 2 is
   destructed second (12); the joins (values 1002, 1001) come after all of that; main's own instance of key 1 holds 7 *)
Example c07_example :
  snd c07_run = OPass /\ c07_ops (fst (fst c07_run)) =
  ([(0%nat, 38, [1; 1; 5]); (0%nat, 1, [1]); (0%nat, 41, [3]); (0%nat, 1, [2]); (1%nat, 38, [1; 1; 5]);
   (1%nat, 38, [2; 1; 7]); (1%nat, 9, []); (1%nat, 39, [1; 6]); (1%nat, 7, [1; 0]);
   (1%nat, 38, [2; 0; 11]); (1%nat, 38, [1; 2; 0]); (1%nat, 39, [2; 12]); (2%nat, 38, [1; 1; 5]);
   (2%nat, 38, [2; 1; 7]); (2%nat, 9, []); (2%nat, 39, [1; 6]); (2%nat, 7, [1; 1]);
   (2%nat, 38, [2; 0; 11]); (2%nat, 38, [1; 2; 0]); (2%nat, 39, [2; 12]); (0%nat, 2, [2; 1002]);
   (0%nat, 41, []); (0%nat, 2, [1; 1001]); (0%nat, 40, [0; 1]);
   (0%nat, 9, []); (0%nat, 39, [1; 7]); (0%nat, 7, [1; 2]);
   (0%nat, 38, [2; 1; 7]); (0%nat, 38, [1; 2; 0]); (0%nat, 39, [2; 8])]%N)%type.
Proof. vm_compute. split; reflexivity. Qed.
