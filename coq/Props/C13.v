(* C13: the step bound (config.max_steps).  Statements: Engine/Stmt.v (stmt_bound_only_cuts:
   Proofs/BoundCuts.v).  Proofs: Proofs/EngineProofs.v, Proofs/BoundProofs.v, Proofs/BoundTotal.v,
   Proofs/BoundCuts.v. *)
From Coq Require Import List NArith Bool Arith.
From SV Require Import Clock.VClock Prim.Objects Prim.Atomic Engine.Exec Engine.Inv Sched.Replay Engine.Stmt
  Engine.Runner Engine.RunStmt Proofs.RunnerProofs Lang.Prog Proofs.EngineBase Proofs.ProgOk Proofs.EngineProofs Proofs.BoundProofs Proofs.BoundTotal Proofs.BoundCuts.
Import ListNotations.

Theorem C13_bound_decisions : stmt_bound_decisions. Proof. exact bound_decisions_proof. Qed.
Print Assumptions C13_bound_decisions.

Theorem C13_bound_fail : stmt_bound_fail. Proof. exact bound_fail_proof. Qed.
Print Assumptions C13_bound_fail.

Theorem C13_bound_continue : stmt_bound_continue. Proof. exact bound_continue_proof. Qed.
Print Assumptions C13_bound_continue.

Theorem C13_bound_unaffected : stmt_bound_unaffected. Proof. exact bound_unaffected_proof. Qed.
Print Assumptions C13_bound_unaffected.

Theorem C13_bound_total : stmt_bound_total. Proof. exact bound_total_proof. Qed.
Print Assumptions C13_bound_total.

Theorem C13_bound_only_cuts : stmt_bound_only_cuts. Proof. exact bound_only_cuts_proof. Qed.
Print Assumptions C13_bound_only_cuts.

(* ---- the iteration loop: budget, first failure, time limit ---- *)
Theorem C13_run_ends : stmt_run_ends. Proof. exact run_ends_proof. Qed.
Print Assumptions C13_run_ends.

Theorem C13_run_first_failure : stmt_run_first_failure. Proof. exact run_first_failure_proof. Qed.
Print Assumptions C13_run_first_failure.

Theorem C13_time_never : stmt_time_never. Proof. exact time_never_proof. Qed.
Print Assumptions C13_time_never.

Theorem C13_time_bound : stmt_time_bound. Proof. exact time_bound_proof. Qed.
Print Assumptions C13_time_bound.

Theorem C13_time_started : stmt_time_started. Proof. exact time_started_proof. Qed.
Print Assumptions C13_time_started.

Theorem C13_time_prefix : stmt_time_prefix. Proof. exact time_prefix_proof. Qed.
Print Assumptions C13_time_prefix.

(* stmt_bound_unaffected as written (with <=) is refuted by main = Ret under FailAfter 1 *)

(* the premise `code_ok main` of all the above holds for every program of Lang/Prog.v *)
Example bound_total_programs :
  forall ms n fuel objs bodies script seed w st' out,
    run_prog fuel ms objs bodies script seed = (w, st', out) ->
    bound_of ms = Some n -> (measure (w_e w) <= n)%nat.
Proof.
  intros ms n fuel objs bodies script seed w st' out H Hb.
  eapply C13_bound_total; [split; [apply compile_ok|exact H]|exact Hb].
Qed.
Print Assumptions bound_total_programs.

(* non-vacuity: the same two-thread program under no bound, FailAfter 3, ContinueAfter 3, and a
   bound that is never reached; and a program that reaches the bound at a random draw. *)
Definition c13_prog : list (list op) :=
  [[PSpawn 1; PAtomic 0 (AAdd 1); PPark; PJoin 0]; [PAtomic 0 (AAdd 2); PUnparkT 0]].
Definition c13_out (ms : max_steps) : outcome := snd (run_prog 40 ms [OAtomic 0 []] c13_prog [] 0).
Definition c13_ndec (ms : max_steps) : nat :=
  length (decisions (w_trace (fst (fst (run_prog 40 ms [OAtomic 0 []] c13_prog [] 0))))).
Definition c13_meas (ms : max_steps) : nat := measure (w_e (fst (fst (run_prog 40 ms [OAtomic 0 []] c13_prog [] 0)))).

Example c13_outcomes :
  c13_out MSNone = OPass /\ c13_out (FailAfter 3) = OStepBound /\ c13_out (ContinueAfter 3) = OStopped
  /\ c13_out (FailAfter 100) = OPass
  /\ c13_ndec MSNone = 9%nat /\ c13_ndec (FailAfter 3) = 3%nat /\ c13_ndec (FailAfter 100) = 9%nat
  /\ c13_meas MSNone = 9%nat /\ c13_meas (FailAfter 3) = 3%nat /\ c13_meas (ContinueAfter 3) = 3%nat.
Proof. vm_compute. repeat split; reflexivity. Qed.

Definition c13_rand (ms : max_steps) : outcome * nat * nat :=
  let r := run_prog 40 ms [] [[PRand; PRand; PRand; PRand]] [] 0 in
  (snd r, measure (w_e (fst (fst r))), length (decisions (w_trace (fst (fst r))))).

Example c13_draws_bounded :
  c13_rand MSNone = (OPass, 6%nat, 2%nat) /\ c13_rand (FailAfter 3) = (OStepBound, 3%nat, 1%nat)
  /\ c13_rand (ContinueAfter 3) = (OStopped, 3%nat, 1%nat).
Proof. vm_compute. repeat split; reflexivity. Qed.
