(* C18 — BatchSemaphore (shuttle-engine/src/future/batch_semaphore.rs), model Prim/Semaphore.v.

   "At all times the permits available plus the permits held by completed, unreleased acquisitions
    equal the initial permits plus those added, an acquisition completes only by removing exactly
    its requested permits, and try_acquire succeeds exactly when an acquire would complete
    immediately.  A strictly fair semaphore grants requests strictly in arrival order (no later
    request, blocking or not, overtakes a queued one, and a waiter at the head is granted as soon as
    enough permits exist), while an unfair one lets any waiter that fits win.  Dropping an
    acquisition before it completes returns whatever it was granted, leaves no trace in the queue
    and never strands the waiters behind it; close fails every pending and future acquisition; and
    the task released is always the one currently awaiting."

   Every function of the model is one atomic block (the code between two scheduling points) and
   `None` is a Rust panic, so a statement "if the block returns Some ... from a state satisfying
   the invariant" covers every interleaving.  Definitions: Prim/SemInv.v.  Statements only here;
   proofs in Proofs/SemBase.v, Proofs/SemProofs.v, Proofs/SemRun.v. *)
From Coq Require Import List NArith Bool Arith.
From SV Require Import Clock.VClock Prim.Objects Engine.Exec Prim.Semaphore Prim.SemInv.
From SV Require Import Proofs.SemBase Proofs.SemProofs Proofs.SemRun.
Import ListNotations.
Open Scope N_scope.

(* ================================================================== *)
(* 1. The invariant                                                    *)
(* ================================================================== *)
(* what sem_inv says *)
Theorem C18_inv_content : forall e s,
  sem_inv e s ->
  (forall bs, sm_batches s = Some bs -> sum_sizes bs = sm_avail s) /\
  NoDup (sm_queue s) /\
  (forall wid, In wid (sm_queue s) ->
     exists w, get_waiter s wid = Some w /\ wt_queued w = true /\ wt_has w = false /\ wt_waker w <> None /\
               (wt_task w < length (tasks e))%nat) /\
  (forall wid w, get_waiter s wid = Some w -> wt_queued w = true -> In wid (sm_queue s)) /\
  (forall wid w, get_waiter s wid = Some w -> wt_has w = true -> wt_queued w = false) /\
  (sm_closed s = true -> sm_queue s = []).
Proof. exact sem_inv_content. Qed.
Print Assumptions C18_inv_content.

Theorem C18_inv_const_new : forall e n fair, sem_inv e (sem_const_new n fair).
Proof. exact sem_inv_const_new. Qed.
Print Assumptions C18_inv_const_new.

Theorem C18_inv_new : forall e n fair c, sem_inv e (sem_new n fair c).
Proof. exact sem_inv_new. Qed.
Print Assumptions C18_inv_new.

Theorem C18_inv_acquire_permits : forall e s k e' s' r,
  acquire_permits e s k = Some (e', s', r) -> sem_inv e s -> sem_inv e' s'.
Proof. exact sem_inv_acquire_permits. Qed.
Print Assumptions C18_inv_acquire_permits.

Theorem C18_inv_unblock_front : forall fuel e s e' s',
  unblock_front fuel e s = Some (e', s') -> sem_inv e s -> sem_inv e' s'.
Proof. exact sem_inv_unblock_front. Qed.
Print Assumptions C18_inv_unblock_front.

Theorem C18_inv_reblock_if_unfair : forall e s e',
  reblock_if_unfair e s = Some e' -> sem_inv e s -> sem_inv e' s.
Proof. exact sem_inv_reblock_if_unfair. Qed.
Print Assumptions C18_inv_reblock_if_unfair.

(* poll stores the waker and has checked that the semaphore is open before it calls enqueue_waiter *)
Theorem C18_inv_enqueue_waiter : forall e s wid s' w,
  enqueue_waiter s wid = Some s' -> sem_inv e s ->
  get_waiter s wid = Some w -> wt_waker w <> None -> sm_closed s = false -> (wt_task w < length (tasks e))%nat ->
  sem_inv e s'.
Proof. exact sem_inv_enqueue_waiter. Qed.
Print Assumptions C18_inv_enqueue_waiter.

Theorem C18_inv_remove_waiter : forall e s wid e' s',
  remove_waiter e s wid = Some (e', s') -> sem_inv e s -> sem_inv e' s'.
Proof. exact sem_inv_remove_waiter. Qed.
Print Assumptions C18_inv_remove_waiter.

Theorem C18_inv_release : forall e s k e' s',
  sem_release e s k = Some (e', s') -> sem_inv e s -> sem_inv e' s'.
Proof. exact sem_inv_release. Qed.
Print Assumptions C18_inv_release.

Theorem C18_inv_close : forall e s e' s',
  sem_close e s = Some (e', s') -> sem_inv e s -> sem_inv e' s'.
Proof. exact sem_inv_close. Qed.
Print Assumptions C18_inv_close.

Theorem C18_inv_try_acquire : forall e s k e' s' r,
  sem_try_acquire e s k = Some (e', s', r) -> sem_inv e s -> sem_inv e' s'.
Proof. exact sem_inv_try_acquire. Qed.
Print Assumptions C18_inv_try_acquire.

Theorem C18_inv_new_waiter : forall e s k s' wid,
  sem_new_waiter e s k = Some (s', wid) -> sem_inv e s -> sem_inv e s'.
Proof. exact sem_inv_new_waiter. Qed.
Print Assumptions C18_inv_new_waiter.

(* engine-side hypothesis: the current task exists (Engine/Inv.v WF gives it) *)
Theorem C18_inv_poll : forall e s wid wk e' s' r,
  sem_poll e s wid wk = Some (e', s', r) -> me_in_range e -> sem_inv e s -> sem_inv e' s'.
Proof. exact sem_inv_poll. Qed.
Print Assumptions C18_inv_poll.

Theorem C18_inv_drop_acquire : forall e s wid completed e' s' r,
  sem_drop_acquire e s wid completed = Some (e', s', r) -> sem_inv e s -> sem_inv e' s'.
Proof. exact sem_inv_drop_acquire. Qed.
Print Assumptions C18_inv_drop_acquire.

(* the deque invariant rules out the assert_eq!(num_permits, 0) of PermitsAvailable::acquire *)
Theorem C18_permits_acquire_never_crashes : forall s k c, batches_ok s -> permits_acquire s k c <> PaCrash.
Proof. exact permits_acquire_nocrash. Qed.
Print Assumptions C18_permits_acquire_never_crashes.

(* ================================================================== *)
(* 2. Conservation                                                     *)
(* ================================================================== *)
(* release(k) adds exactly k — on every path, the should_stop one included *)
Theorem C18_release_adds : forall e s k e' s',
  sem_release e s k = Some (e', s') -> sem_wf s ->
  sm_avail s' + granted s' = sm_avail s + granted s + k.
Proof. exact sem_release_conservation. Qed.
Print Assumptions C18_release_adds.

(* a successful try_acquire(k) removes exactly k, a failed one nothing *)
Theorem C18_try_acquire_removes : forall e s k e' s' r,
  sem_try_acquire e s k = Some (e', s', r) ->
  sm_avail s' + granted s' + (match r with AOk => k | _ => 0 end) = sm_avail s + granted s.
Proof. exact sem_try_acquire_conservation. Qed.
Print Assumptions C18_try_acquire_removes.

Theorem C18_acquire_permits_removes : forall e s k e' s' r,
  acquire_permits e s k = Some (e', s', r) ->
  sm_avail s' + granted s' + (match r with AOk => k | _ => 0 end) = sm_avail s + granted s.
Proof. exact acquire_permits_conservation. Qed.
Print Assumptions C18_acquire_permits_removes.

Theorem C18_poll_conserves : forall e s wid wk e' s' r,
  sem_poll e s wid wk = Some (e', s', r) -> sem_wf s ->
  sm_avail s' + granted s' = sm_avail s + granted s.
Proof. exact sem_poll_conservation. Qed.
Print Assumptions C18_poll_conserves.

Theorem C18_unblock_front_conserves : forall fuel e s e' s',
  unblock_front fuel e s = Some (e', s') -> sm_avail s' + granted s' = sm_avail s + granted s.
Proof. exact unblock_front_conservation. Qed.
Print Assumptions C18_unblock_front_conserves.

Theorem C18_close_conserves : forall e s e' s',
  sem_close e s = Some (e', s') -> sem_wf s -> sm_avail s' = sm_avail s /\ granted s' = granted s.
Proof. exact sem_close_conservation. Qed.
Print Assumptions C18_close_conserves.

Theorem C18_drop_conserves : forall e s wid completed e' s' r,
  sem_drop_acquire e s wid completed = Some (e', s', r) -> sem_wf s ->
  sm_avail s' + granted s' = sm_avail s + granted s.
Proof. exact sem_drop_acquire_conservation. Qed.
Print Assumptions C18_drop_conserves.

Theorem C18_remove_waiter_conserves : forall e s wid e' s',
  remove_waiter e s wid = Some (e', s') -> sem_wf s -> sm_avail s' + granted s' = sm_avail s + granted s.
Proof. exact remove_waiter_conservation. Qed.
Print Assumptions C18_remove_waiter_conserves.

Theorem C18_enqueue_conserves : forall s wid s',
  enqueue_waiter s wid = Some s' -> sm_avail s' = sm_avail s /\ granted s' = granted s.
Proof. exact enqueue_waiter_conservation. Qed.
Print Assumptions C18_enqueue_conserves.

Theorem C18_new_waiter_conserves : forall e s k s' wid,
  sem_new_waiter e s k = Some (s', wid) -> sm_avail s' = sm_avail s /\ granted s' = granted s.
Proof. exact sem_new_waiter_conservation. Qed.
Print Assumptions C18_new_waiter_conserves.

(* an acquisition completes only by removing exactly its requested permits: a poll answering
   Ready(Ok) leaves has_permits set; if it was not set before (the permits were not granted by an
   earlier release) the request could be served on the spot and exactly wt_n permits moved from
   "available" to "granted", nobody else being served in that step *)
Theorem C18_poll_ready_ok : forall e s wid wk e' s' w,
  sem_poll e s wid wk = Some (e', s', PReadyOk) -> sem_wf s -> get_waiter s wid = Some w ->
  (exists w', get_waiter s' wid = Some w' /\ wt_has w' = true /\ wt_queued w' = false /\ wt_n w' = wt_n w) /\
  ~ In wid (sm_queue s') /\
  (wt_has w = true -> s' = s) /\
  (wt_has w = false ->
     can_acquire s (wt_n w) /\ sm_avail s' + wt_n w = sm_avail s /\ granted s' = granted s + wt_n w).
Proof. exact sem_poll_ready_ok. Qed.
Print Assumptions C18_poll_ready_ok.

(* every block, public or internal, run by any task in any engine state *)
Theorem C18_step_preserves : forall st op st',
  step st op = Some st' -> sem_wf (rs_s st) ->
  sem_wf (rs_s st') /\
  (fair_head (rs_s st) -> fair_head (rs_s st')) /\
  (sm_avail (rs_s st') + granted (rs_s st') + rs_taken st') + rs_released st =
  (sm_avail (rs_s st) + granted (rs_s st) + rs_taken st) + rs_released st' /\
  sm_fair (rs_s st') = sm_fair (rs_s st).
Proof. exact step_preserves. Qed.
Print Assumptions C18_step_preserves.

(* over any sequence of blocks run by any tasks with arbitrary engine changes in between *)
Theorem C18_run_preserves : forall ops st st',
  run st ops = Some st' -> sem_wf (rs_s st) ->
  sem_wf (rs_s st') /\
  (fair_head (rs_s st) -> fair_head (rs_s st')) /\
  (sm_avail (rs_s st') + granted (rs_s st') + rs_taken st') + rs_released st =
  (sm_avail (rs_s st) + granted (rs_s st) + rs_taken st) + rs_released st' /\
  sm_fair (rs_s st') = sm_fair (rs_s st).
Proof. exact run_preserves. Qed.
Print Assumptions C18_run_preserves.

Theorem C18_run_from_new : forall e n fair c ops st',
  run (init_state e (sem_new n fair c)) ops = Some st' ->
  sem_wf (rs_s st') /\ fair_head (rs_s st') /\
  sm_avail (rs_s st') + granted (rs_s st') + rs_taken st' = n + rs_released st' /\
  sm_fair (rs_s st') = fair.
Proof. exact run_from_new. Qed.
Print Assumptions C18_run_from_new.

Theorem C18_run_from_const_new : forall e n fair ops st',
  run (init_state e (sem_const_new n fair)) ops = Some st' ->
  sem_wf (rs_s st') /\ fair_head (rs_s st') /\
  sm_avail (rs_s st') + granted (rs_s st') + rs_taken st' = n + rs_released st' /\
  sm_fair (rs_s st') = fair.
Proof. exact run_from_const_new. Qed.
Print Assumptions C18_run_from_const_new.

(* ================================================================== *)
(* 3. try_acquire succeeds exactly when an acquire completes at once   *)
(* ================================================================== *)
Theorem C18_try_acquire_ok_iff : forall e s k e' s' r,
  sem_try_acquire e s k = Some (e', s', r) ->
  (r = AOk <-> 0 < k /\ sm_closed s = false /\ (sm_queue s = [] \/ sm_fair s = false) /\ k <= sm_avail s).
Proof. exact sem_try_acquire_ok_iff. Qed.
Print Assumptions C18_try_acquire_ok_iff.

(* the first poll of an Acquire that is neither queued nor holding permits *)
Theorem C18_first_poll_iff : forall e s wid wk e' s' r w,
  sem_poll e s wid wk = Some (e', s', r) -> get_waiter s wid = Some w ->
  wt_has w = false -> wt_queued w = false ->
  (r = PReadyOk <-> can_acquire s (wt_n w)) /\
  (r = PReadyErr <-> sm_closed s = true) /\
  (r = PPending <-> sm_closed s = false /\ ~ can_acquire s (wt_n w)).
Proof. exact sem_poll_unqueued_iff. Qed.
Print Assumptions C18_first_poll_iff.

(* side by side, whatever the engine states the blocks run in *)
Theorem C18_try_iff_immediate : forall e s k e1 s1 r e2 s2 wid e3 wk e4 s4 pr,
  sem_try_acquire e s k = Some (e1, s1, r) ->
  sem_new_waiter e2 s k = Some (s2, wid) ->
  sem_poll e3 s2 wid wk = Some (e4, s4, pr) ->
  (r = AOk <-> pr = PReadyOk) /\ (r = AClosed <-> pr = PReadyErr) /\ (r = ANoPermits <-> pr = PPending).
Proof. exact try_iff_immediate. Qed.
Print Assumptions C18_try_iff_immediate.

(* The positive direction needs 0 < k: without it the clause is false (k = 0 panics although the
   request "fits", see the Findings below).  Corrected statements: when the request can be served
   (can_acquire includes 0 < k) and the current task exists with an incrementable clock entry,
   try_acquire does return Ok and the first poll of a fresh Acquire does return Ready(Ok). *)
Theorem C18_try_succeeds_when_fits_fixed : forall e s k,
  sem_wf s -> can_acquire s k -> clock_ok e ->
  exists e' s', sem_try_acquire e s k = Some (e', s', AOk).
Proof. exact sem_try_acquire_total. Qed.
Print Assumptions C18_try_succeeds_when_fits_fixed.

Theorem C18_acquire_completes_when_fits_fixed : forall e s wid wk w,
  sem_wf s -> get_waiter s wid = Some w -> wt_has w = false -> wt_queued w = false -> wt_waker w = None ->
  can_acquire s (wt_n w) -> clock_ok e ->
  exists e' s', sem_poll e s wid wk = Some (e', s', PReadyOk).
Proof. exact sem_poll_fresh_total. Qed.
Print Assumptions C18_acquire_completes_when_fits_fixed.

(* reblock_if_unfair never panics on a well-formed semaphore *)
Theorem C18_reblock_total : forall e s, sem_wf s -> exists e', reblock_if_unfair e s = Some e'.
Proof. exact reblock_if_unfair_total. Qed.
Print Assumptions C18_reblock_total.

(* ================================================================== *)
(* 4. Fairness                                                         *)
(* ================================================================== *)
(* (a) strictly fair: nobody overtakes a queued waiter, blocking or not *)
Theorem C18_fair_no_overtake_acquire_permits : forall e s k e' s' r,
  acquire_permits e s k = Some (e', s', r) -> sm_fair s = true -> sm_queue s <> [] ->
  r <> AOk /\ s' = s /\ e' = e.
Proof. exact acquire_permits_no_overtake. Qed.
Print Assumptions C18_fair_no_overtake_acquire_permits.

Theorem C18_fair_no_overtake_try_acquire : forall e s k e' s' r,
  sem_try_acquire e s k = Some (e', s', r) -> sm_fair s = true -> sm_queue s <> [] ->
  r <> AOk /\ s' = s.
Proof. exact sem_try_acquire_no_overtake. Qed.
Print Assumptions C18_fair_no_overtake_try_acquire.

Theorem C18_fair_no_overtake_poll : forall e s wid wk e' s' r w,
  sem_poll e s wid wk = Some (e', s', r) -> sem_wf s -> sm_fair s = true -> sm_queue s <> [] ->
  get_waiter s wid = Some w -> wt_has w = false -> wt_queued w = false ->
  r = PPending /\ sm_queue s' = sm_queue s ++ [wid] /\ sm_avail s' = sm_avail s /\ granted s' = granted s.
Proof. exact sem_poll_no_overtake. Qed.
Print Assumptions C18_fair_no_overtake_poll.

(* (b) grants go in queue order: the entries that leave the queue are a prefix of it; each was
   granted (exactly then its has_permits flips, and its task wt_task is made Runnable) or was stale
   (its task had finished); nothing else changes; with enough fuel the loop stops only on an empty
   queue or a head that does not fit *)
Theorem C18_fair_grants_in_order : forall fuel e s e' s',
  unblock_front fuel e s = Some (e', s') -> sem_wf s ->
  exists pre, sm_queue s = pre ++ sm_queue s' /\
    (forall wid, In wid pre -> exists w, get_waiter s wid = Some w /\
       ((ub_stale e w = true /\ get_waiter s' wid = Some (stale_upd w)) \/
        (ub_stale e w = false /\ wt_has w = false /\ wt_n w <= sm_avail s /\
         get_waiter s' wid = Some (grant_upd w) /\ runnable e' (wt_task w)))) /\
    (forall wid, ~ In wid pre -> get_waiter s' wid = get_waiter s wid) /\
    ((length (sm_queue s) <= fuel)%nat -> head_blocked s').
Proof. exact unblock_front_fair_order. Qed.
Print Assumptions C18_fair_grants_in_order.

Theorem C18_fair_flips_only_in_prefix : forall fuel e s e' s' wid w w',
  unblock_front fuel e s = Some (e', s') -> sem_wf s ->
  get_waiter s wid = Some w -> get_waiter s' wid = Some w' -> wt_has w = false -> wt_has w' = true ->
  exists pre post, sm_queue s = pre ++ wid :: post /\ exists post', post = post' ++ sm_queue s'.
Proof. exact unblock_front_flips_in_prefix. Qed.
Print Assumptions C18_fair_flips_only_in_prefix.

Theorem C18_fair_release : forall e s k e' s',
  sem_release e s k = Some (e', s') -> sem_wf s -> sm_fair s = true -> k <> 0 -> should_stop e = Some false ->
  exists pre, sm_queue s = pre ++ sm_queue s' /\
    (forall wid, In wid pre -> exists w, get_waiter s wid = Some w /\
       ((ub_stale e w = true /\ get_waiter s' wid = Some (stale_upd w)) \/
        (ub_stale e w = false /\ wt_has w = false /\ wt_n w <= sm_avail s + k /\
         get_waiter s' wid = Some (grant_upd w) /\ runnable e' (wt_task w)))) /\
    (forall wid, ~ In wid pre -> get_waiter s' wid = get_waiter s wid) /\
    head_blocked s'.
Proof. exact sem_release_fair_prefix. Qed.
Print Assumptions C18_fair_release.

(* (c) head-eager: the head of a strictly fair queue never fits — an invariant of every block
   (C18_run_preserves), re-established by release and by the cancellation of the head *)
Theorem C18_head_eager_release : forall e s k e' s',
  sem_release e s k = Some (e', s') -> sem_wf s -> fair_head s -> fair_head s'.
Proof. exact sem_release_fair_head. Qed.
Print Assumptions C18_head_eager_release.

Theorem C18_head_eager_remove_head : forall e s wid rest e' s',
  remove_waiter e s wid = Some (e', s') -> sm_fair s = true -> sm_queue s = wid :: rest -> head_blocked s'.
Proof. exact remove_waiter_head_eager. Qed.
Print Assumptions C18_head_eager_remove_head.

Theorem C18_head_eager_remove : forall e s wid e' s',
  remove_waiter e s wid = Some (e', s') -> sem_wf s -> fair_head s -> fair_head s'.
Proof. exact remove_waiter_fair_head. Qed.
Print Assumptions C18_head_eager_remove.

Theorem C18_head_eager_poll : forall e s wid wk e' s' r,
  sem_poll e s wid wk = Some (e', s', r) -> sem_wf s -> fair_head s -> fair_head s'.
Proof. exact sem_poll_fair_head. Qed.
Print Assumptions C18_head_eager_poll.

(* unfair: a release makes Runnable every queued waiter that fits (and whose task is alive); the
   queue is not touched and nobody holds permits yet: any of them may win *)
Theorem C18_unfair_release : forall e s k e' s',
  sem_release e s k = Some (e', s') -> sm_fair s = false -> k <> 0 -> should_stop e = Some false ->
  sm_queue s' = sm_queue s /\ sm_wtab s' = sm_wtab s /\ sm_avail s' = sm_avail s + k /\ sm_closed s' = sm_closed s /\
  forall wid w, In wid (sm_queue s) -> get_waiter s wid = Some w -> wt_n w <= sm_avail s + k ->
                task_finished e (wt_task w) = Some false -> runnable e' (wt_task w).
Proof. exact sem_release_unfair. Qed.
Print Assumptions C18_unfair_release.

(* ================================================================== *)
(* 5. Cancel safety                                                    *)
(* ================================================================== *)
Theorem C18_drop_queued : forall e s wid completed e' s' r w,
  sem_drop_acquire e s wid completed = Some (e', s', r) -> sem_wf s ->
  get_waiter s wid = Some w -> wt_queued w = true ->
  r = DRemoved /\ ~ In wid (sm_queue s') /\ get_waiter s' wid = Some (w_set_queued w false) /\
  (forall x, In x (sm_queue s') -> In x (sm_queue s)) /\
  sm_avail s' + granted s' = sm_avail s + granted s /\ sem_wf s' /\ (fair_head s -> fair_head s').
Proof. exact sem_drop_acquire_queued. Qed.
Print Assumptions C18_drop_queued.

(* granted but not completed: the permits go back through the release that follows *)
Theorem C18_drop_granted : forall e s wid completed w,
  get_waiter s wid = Some w -> wt_queued w = false -> wt_has w = true ->
  sem_drop_acquire e s wid completed =
    Some (e, s, if completed then DNothing else DMustRelease (wt_n w)).
Proof. exact sem_drop_acquire_granted. Qed.
Print Assumptions C18_drop_granted.

Theorem C18_drop_idle : forall e s wid completed w,
  get_waiter s wid = Some w -> wt_queued w = false -> wt_has w = false ->
  sem_drop_acquire e s wid completed = Some (e, s, DNothing).
Proof. exact sem_drop_acquire_idle. Qed.
Print Assumptions C18_drop_idle.

(* ================================================================== *)
(* 6. Close                                                            *)
(* ================================================================== *)
Theorem C18_close : forall e s e' s',
  sem_close e s = Some (e', s') -> sem_wf s ->
  sm_closed s' = true /\ sm_queue s' = [] /\ (forall wid w, get_waiter s' wid = Some w -> wt_queued w = false) /\
  (forall wid w, In wid (sm_queue s) -> get_waiter s wid = Some w -> in_cleanup e = false ->
                 task_finished e (wt_task w) = Some false -> runnable e' (wt_task w)).
Proof. exact sem_close_closed. Qed.
Print Assumptions C18_close.

Theorem C18_closed_acquire_permits : forall e s k,
  sm_closed s = true -> 0 < k -> acquire_permits e s k = Some (e, s, AClosed).
Proof. exact acquire_permits_closed. Qed.
Print Assumptions C18_closed_acquire_permits.

Theorem C18_closed_try_acquire : forall e s k e' s' r,
  sem_try_acquire e s k = Some (e', s', r) -> sm_closed s = true -> r = AClosed /\ s' = s.
Proof. exact sem_try_acquire_closed. Qed.
Print Assumptions C18_closed_try_acquire.

Theorem C18_closed_poll : forall e s wid wk w m,
  sem_wf s -> get_waiter s wid = Some w -> me e = Some m -> sm_closed s = true -> wt_has w = false ->
  sem_poll e s wid wk = Some (e, s, PReadyErr).
Proof. exact sem_poll_closed_total. Qed.
Print Assumptions C18_closed_poll.

(* ================================================================== *)
(* 7. Wake target                                                      *)
(* ================================================================== *)
(* a pending poll re-points the waiter at the polling task and at the waker it was given; the grant
   (C18_fair_grants_in_order, C18_fair_release), the unfair release (C18_unfair_release) and close
   (C18_close) make Runnable exactly wt_task of the waiter: the last poller *)
Theorem C18_poll_pending : forall e s wid wk e' s' w,
  sem_poll e s wid wk = Some (e', s', PPending) -> sem_wf s -> get_waiter s wid = Some w ->
  e' = e /\ sm_avail s' = sm_avail s /\ granted s' = granted s /\ wt_has w = false /\ sm_closed s = false /\
  (exists m, me e = Some m /\ get_waiter s' wid = Some (w_set_queued (repoint wk m w) true)) /\
  (forall x, x <> wid -> get_waiter s' x = get_waiter s x) /\
  (if wt_queued w then sm_queue s' = sm_queue s else sm_queue s' = sm_queue s ++ [wid]) /\
  ((wt_queued w = true /\ sm_fair s = true) \/ ~ can_acquire s (wt_n w)).
Proof. exact sem_poll_pending. Qed.
Print Assumptions C18_poll_pending.

(* ================================================================== *)
(* Findings                                                            *)
(* ================================================================== *)
(* F-a, the k = 0 corner.  PermitsAvailable::acquire handles num_permits = 0 ("always possible"),
   but BatchSemaphoreState::acquire_permits asserts num_permits > 0 first: that branch is dead, and
   try_acquire(0) / acquire(0) panic on an open semaphore.  On a closed one they disagree:
   try_acquire(0) panics, acquire(0) answers Err(closed).  (Examples ex_*_zero_* below.) *)
Theorem C18_zero_permits_panics : forall e s, acquire_permits e s 0 = None /\ sem_try_acquire e s 0 = None.
Proof. exact (fun e s => conj eq_refl eq_refl). Qed.
Print Assumptions C18_zero_permits_panics.

(* ================================================================== *)
(* Examples (non-vacuity)                                              *)
(* ================================================================== *)
Definition ex_task (st : tstate) : task := mkTask st false false false false None [0;0;0;0].
(* four tasks, `cur` running; E: all Runnable, EB: tasks 1-3 blocked (as they are while awaiting) *)
Definition E (cur : nat) : exec :=
  mkExec [ex_task Runnable; ex_task Runnable; ex_task Runnable; ex_task Runnable]
         (SSome cur) SNone false 0 0 [0;1;2;3]%nat [] false false.
Definition EB (cur : nat) : exec :=
  mkExec [ex_task Runnable; ex_task (Blocked false); ex_task (Blocked false); ex_task (Blocked false)]
         (SSome cur) SNone false 0 0 [0;1;2;3]%nat [] false false.

(* (available, queue, per waiter (n, has_permits, is_queued, task), closed, task states, taken, released) *)
Definition obs (st : run_state) :=
  (sm_avail (rs_s st), sm_queue (rs_s st),
   map (fun w => (wt_n w, wt_has w, wt_queued w, wt_task w)) (sm_wtab (rs_s st)),
   sm_closed (rs_s st), map t_state (tasks (rs_e st)), rs_taken st, rs_released st).

(* ---- strictly fair, 1 permit ---- *)
Definition fair0 := init_state (E 0) (sem_new 1 true [0;0;0;0]).
(* tasks 1, 2, 3 ask for 3, 1, 2 permits, in that order *)
Definition fair_queue3 : list sem_op :=
  [OpEnv (E 1); OpNewWaiter 3; OpPoll 0 1;
   OpEnv (E 2); OpNewWaiter 1; OpPoll 1 2;
   OpEnv (E 3); OpNewWaiter 2; OpPoll 2 3].

(* all three queue up in arrival order, although the second one would fit *)
Example ex_fair_queue :
  option_map obs (run fair0 fair_queue3) =
  Some (1, [0;1;2]%nat, [(3, false, true, 1%nat); (1, false, true, 2%nat); (2, false, true, 3%nat)],
        false, [Runnable; Runnable; Runnable; Runnable], 0, 0).
Proof. vm_compute. reflexivity. Qed.

(* a non-blocking request does not overtake either *)
Example ex_fair_try_does_not_overtake :
  match run fair0 (fair_queue3 ++ [OpEnv (E 0)]) with
  | Some st => option_map snd (sem_try_acquire (rs_e st) (rs_s st) 1)
  | None => None end = Some ANoPermits.
Proof. vm_compute. reflexivity. Qed.

(* release(3): 4 permits serve the prefix [3; 1]; their tasks are unblocked, task 3 stays blocked *)
Example ex_fair_release_grants_prefix :
  option_map obs (run fair0 (fair_queue3 ++ [OpEnv (EB 0); OpRelease 3])) =
  Some (0, [2]%nat, [(3, true, false, 1%nat); (1, true, false, 2%nat); (2, false, true, 3%nat)],
        false, [Runnable; Runnable; Runnable; Blocked false], 0, 3).
Proof. vm_compute. reflexivity. Qed.

(* task 1 completes its acquire and queues a new request for 1 behind the head (which wants 2);
   release(1) leaves 1 permit: the head does not fit, nobody behind it is served *)
Definition fair_after_release : list sem_op :=
  fair_queue3 ++ [OpEnv (EB 0); OpRelease 3; OpEnv (E 1); OpPoll 0 1; OpNewWaiter 1; OpPoll 3 1;
                  OpEnv (EB 0); OpRelease 1].
Example ex_fair_head_blocks :
  option_map obs (run fair0 fair_after_release) =
  Some (1, [2;3]%nat,
        [(3, true, false, 1%nat); (1, true, false, 2%nat); (2, false, true, 3%nat); (1, false, true, 1%nat)],
        false, [Runnable; Blocked false; Blocked false; Blocked false], 0, 4).
Proof. vm_compute. reflexivity. Qed.

(* the head is cancelled: it leaves no trace and the waiter behind it is granted and woken *)
Example ex_fair_cancel_head_serves_next :
  option_map obs (run fair0 (fair_after_release ++ [OpEnv (EB 3); OpDrop 2 false])) =
  Some (0, []%nat,
        [(3, true, false, 1%nat); (1, true, false, 2%nat); (2, false, false, 3%nat); (1, true, false, 1%nat)],
        false, [Runnable; Runnable; Blocked false; Blocked false], 0, 4).
Proof. vm_compute. reflexivity. Qed.

(* task 2 queues a request for 5; close wakes it, its next poll and any try_acquire fail *)
Definition fair_before_close : list sem_op :=
  fair_after_release ++ [OpEnv (EB 3); OpDrop 2 false; OpEnv (E 2); OpPoll 1 2; OpNewWaiter 5; OpPoll 4 2].
Example ex_fair_close :
  option_map obs (run fair0 (fair_before_close ++ [OpEnv (EB 0); OpClose])) =
  Some (0, []%nat,
        [(3, true, false, 1%nat); (1, true, false, 2%nat); (2, false, false, 3%nat); (1, true, false, 1%nat);
         (5, false, false, 2%nat)],
        true, [Runnable; Blocked false; Runnable; Blocked false], 0, 4).
Proof. vm_compute. reflexivity. Qed.

Example ex_fair_after_close :
  match run fair0 (fair_before_close ++ [OpEnv (EB 0); OpClose; OpEnv (E 2)]) with
  | Some st => (option_map snd (sem_poll (rs_e st) (rs_s st) 4 2),
                option_map snd (sem_try_acquire (rs_e st) (rs_s st) 1))
  | None => (None, None) end = (Some PReadyErr, Some AClosed).
Proof. vm_compute. reflexivity. Qed.

(* ---- unfair, 0 permits (const_new) ---- *)
Definition unfair0 := init_state (E 0) (sem_const_new 0 false).
Definition unfair_queue3 : list sem_op :=
  [OpEnv (E 1); OpNewWaiter 2; OpPoll 0 1;
   OpEnv (E 2); OpNewWaiter 1; OpPoll 1 2;
   OpEnv (E 3); OpNewWaiter 3; OpPoll 2 3].

(* release(2): both waiters that fit are woken, nobody is granted anything, the queue is intact *)
Example ex_unfair_release_wakes_all_that_fit :
  option_map obs (run unfair0 (unfair_queue3 ++ [OpEnv (EB 0); OpRelease 2])) =
  Some (2, [0;1;2]%nat, [(2, false, true, 1%nat); (1, false, true, 2%nat); (3, false, true, 3%nat)],
        false, [Runnable; Runnable; Runnable; Blocked false], 0, 2).
Proof. vm_compute. reflexivity. Qed.

(* the later arrival (task 2) polls first and wins; the others no longer fit and are re-blocked *)
Example ex_unfair_later_waiter_wins :
  option_map obs (run unfair0 (unfair_queue3 ++ [OpEnv (EB 0); OpRelease 2; OpEnv (E 2); OpPoll 1 2])) =
  Some (1, [0;2]%nat, [(2, false, true, 1%nat); (1, true, false, 2%nat); (3, false, true, 3%nat)],
        false, [Runnable; Blocked false; Runnable; Blocked false], 0, 2).
Proof. vm_compute. reflexivity. Qed.

(* a try_acquire overtakes the queue; then the first waiter is cancelled; then close *)
Definition unfair_tail : list sem_op :=
  unfair_queue3 ++ [OpEnv (EB 0); OpRelease 2; OpEnv (E 2); OpPoll 1 2; OpEnv (E 0); OpTryAcquire 1;
                    OpEnv (E 1); OpDrop 0 false].
Example ex_unfair_try_and_cancel :
  option_map obs (run unfair0 unfair_tail) =
  Some (0, [2]%nat, [(2, false, false, 1%nat); (1, true, false, 2%nat); (3, false, true, 3%nat)],
        false, [Runnable; Runnable; Runnable; Runnable], 1, 2).
Proof. vm_compute. reflexivity. Qed.

Example ex_unfair_close :
  option_map obs (run unfair0 (unfair_tail ++ [OpEnv (EB 0); OpClose])) =
  Some (0, []%nat, [(2, false, false, 1%nat); (1, true, false, 2%nat); (3, false, false, 3%nat)],
        true, [Runnable; Blocked false; Blocked false; Runnable], 1, 2).
Proof. vm_compute. reflexivity. Qed.

(* ---- the k = 0 corner, concretely ---- *)
Example ex_try_acquire_zero_panics : sem_try_acquire (E 0) (sem_new 1 true []) 0 = None.
Proof. vm_compute. reflexivity. Qed.

Example ex_acquire_zero_panics :
  match sem_new_waiter (E 0) (sem_new 1 true []) 0 with
  | Some (s, wid) => option_map snd (sem_poll (E 0) s wid 0)
  | None => Some PPending end = None.
Proof. vm_compute. reflexivity. Qed.

Example ex_zero_on_closed_disagree :
  match sem_close (E 0) (sem_new 1 true []) with
  | Some (e, s) =>
    (option_map snd (sem_try_acquire e s 0),
     match sem_new_waiter e s 0 with
     | Some (s, wid) => option_map snd (sem_poll e s wid 0)
     | None => None end)
  | None => (None, None) end = (None, Some PReadyErr).
Proof. vm_compute. reflexivity. Qed.

(* the should_stop path of release: permits are added, the semaphore is closed, waiters are
   unqueued but NOT woken (conservation still holds: C18_release_adds has no side condition) *)
Definition E_panicking (cur : nat) : exec :=
  mkExec [ex_task Runnable; ex_task (Blocked false); ex_task (Blocked false); ex_task (Blocked false)]
         (SSome cur) SNone false 0 0 [0;1;2;3]%nat [] true false.
Example ex_release_while_stopping :
  option_map obs (run fair0 (fair_queue3 ++ [OpEnv (E_panicking 0); OpRelease 3])) =
  Some (4, []%nat, [(3, false, false, 1%nat); (1, false, false, 2%nat); (2, false, false, 3%nat)],
        true, [Runnable; Blocked false; Blocked false; Blocked false], 0, 3).
Proof. vm_compute. reflexivity. Qed.

(* "try_acquire(k) succeeds whenever the semaphore is open, nobody is queued and k <= available"
   (without 0 < k) is refuted: same engine, same semaphore, k = 1 succeeds and k = 0 panics *)
Example C18_try_succeeds_when_fits_refuted :
  let e := E 0 in let s := sem_new 1 true [0;0;0;0] in
  (sm_closed s = false /\ sm_queue s = [] /\ 0 <= sm_avail s) /\
  option_map snd (sem_try_acquire e s 1) = Some AOk /\ sem_try_acquire e s 0 = None.
Proof. vm_compute. repeat split; intros H; discriminate H. Qed.

(* F-b / F17 (engine side, next to the "any waiter that fits may win" clause): reblock_if_unfair used not to
   exclude the current task.  A task that has a queued Acquire (5 permits) on an unfair semaphore and
   then wins 1 permit itself, by try_acquire or by polling a second Acquire, marked ITSELF Blocked
   while running and was not scheduled again until some release fitted its queued request:
     let s = BatchSemaphore::new(1, Fairness::Unfair);
     block_on(async { let mut big = Box::pin(s.acquire(5));
                      assert!(poll_once(big.as_mut()).is_pending());
                      s.try_acquire(1).unwrap();          // or: s.acquire(1).await.unwrap();
                      thread::yield_now(); s.release(1); drop(big); })
   panicked with "deadlock! blocked tasks: [main-thread]" (confirmed on the Rust code; repaired by the
   `fix:` commit recorded as F17 in known_findings.json: waiters of the running task are skipped).
   The model mirrors the repaired code: the winner (task 1) stays Runnable. *)
Example ex_unfair_winner_stays_runnable :
  let st0 := init_state (E 1) (sem_new 1 false [0;0;0;0]) in
  (option_map obs (run st0 [OpNewWaiter 5; OpPoll 0 1; OpTryAcquire 1]),
   option_map obs (run st0 [OpNewWaiter 5; OpPoll 0 1; OpNewWaiter 1; OpPoll 1 1])) =
  (Some (0, [0]%nat, [(5, false, true, 1%nat)],
         false, [Runnable; Runnable; Runnable; Runnable], 1, 0),
   Some (0, [0]%nat, [(5, false, true, 1%nat); (1, true, false, 1%nat)],
         false, [Runnable; Runnable; Runnable; Runnable], 0, 0)).
Proof. vm_compute. reflexivity. Qed.

(* KNOWN FINDING F35 (confirmed on the Rust code, see known_findings.json): the last clause of the property, "the task
   released is always the one currently awaiting", has a counterpart for blocking that the code does not meet.
   reblock_if_unfair marks the task of every queued waiter that no longer fits Blocked, taking for granted that this task
   is suspended on that waiter.  Task 1 creates an Acquire of 5 permits and polls it once by hand (with its own waker, as
   futures::poll! does): Pending, queued.  It goes on with other work and is Runnable at its next scheduling point (E 2:
   task 2 runs, all tasks Runnable).  Task 2's try_acquire(1) succeeds and blocks task 1, which waits for nothing:
     Rust: 'sp1;qn(5);qp;yd;...|st(1)' under the schedule t0,t0,t1,t1 panics with "deadlock! blocked tasks: [main-thread]". *)
Example C18_reblock_blocks_a_task_that_is_not_waiting_REFUTED :
  let st0 := init_state (E 1) (sem_new 1 false [0;0;0;0]) in
  option_map obs (run st0 [OpNewWaiter 5; OpPoll 0 1; OpEnv (E 2); OpTryAcquire 1]) =
  Some (0, [0]%nat, [(5, false, true, 1%nat)], false, [Runnable; Blocked false; Runnable; Runnable], 1, 0).
Proof. vm_compute. reflexivity. Qed.
Print Assumptions C18_reblock_blocks_a_task_that_is_not_waiting_REFUTED.
