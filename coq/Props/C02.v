(* C02: no interleaving is unreachable: a choice point precedes every visible operation.

   FULL PROPERTY.  For a program whose threads communicate only through Shuttle's primitives, every outcome (the results
   each thread observes plus how the run terminates) that some sequentially consistent interleaving of its visible
   operations allows is produced by at least one sequence of choices the runtime offers to its scheduler.  Equivalently,
   between any two visible operations of different tasks that do not commute, the scheduler is given the chance to run
   either first; the only scheduling points omitted are ones before a blocking step that commutes with every other
   operation on the same object.  In the model: for every `bodies`, `objs` and every outcome of an SC interpreter of the
   operations of Lang/Prog.v there is a `script` such that `run_prog fuel ms objs bodies script seed` produces it.

   PROVED HERE (partial):
   A. Schedule-tree completeness of the engine (Proofs/CompletenessProofs.v): the runtime never withholds a choice.
      C02_offered_exact          at every decision of every run (any scheduler, any code_ok program, any step bound) the
                                 offered list is exactly the tasks runnable (or spuriously wakeable) in the ghost pre-state,
                                 ascending, without duplicates                                   [C08_offered + NoDup]
      C02_decision_state         the recorded pre-state is one in which `schedule` consults the scheduler
      C02_any_offered_accepted   in such a state, whatever offered task ANY scheduler answers, `schedule` returns no error,
                                 records the decision, and that task is the next to run
      C02_decision_any_choice    the same, phrased on the state recorded with a decision of a run
      C02_scripted_chooser       for every offered list and element there is a script entry that makes `scripted` answer it
      C02_prefix_determinism     two scheduler states that answer alike for n decisions give executions that are identical,
                                 or identical up to the (n+1)-th consultation, which happens in the same ghost state with the
                                 same offered list / current task / yield flag        [run_loop is a function of its inputs]
      C02_lockstep_scripted      the instance for two scripts with a common prefix
      C02_script_completeness    at decision i of any run of `scripted` (i <= length of the script) and for any t' offered
                                 there, the script (first i entries ++ position of t' ++ anything) gives a run with the same
                                 trace prefix, the same decision state and offered list, and the answer t'
      C02_script_padding         an exhausted script behaves exactly like one padded with `Some 0`
      C02_script_completeness_any    C02_script_completeness without the length condition (pad up to i first)
      C02_script_completeness_runs   ... and every operation recorded after that decision and before the next is by t'
      So: the set of runs of `scripted` over all scripts is the whole tree whose branching at each node is the offered
      list = the runnable tasks.  Examples c02_two_orders, c02_completeness_instance.
   B. Placement of the scheduling points (Proofs/SwitchPlacement.v; table of all 43 operations in its header):
      C02_library_switch_first   the 14 library operations that begin with thread::switch()
      C02_op_switch_first        the operations of Lang/Prog.v whose tree begins with Switch
      C02_op_quiet_until_switch  the operations that reach a Switch on every path having run only blocks that leave the shared
                                 objects and every other task's entry untouched
      C02_yield / C02_await_yield / C02_park / C02_park_unswitched     yield, future yield, park
      C02_join_shape / C02_join_check / C02_join_register              join: what the unswitched registration block changes
      C02_acquire_shape / C02_acquire_new_waiter / C02_acquire_unswitched_blocks   the omitted point of acquire precedes a
                                 poll that returns Pending (blocks); Mutex::lock, RwLock::read/write: C02_mutex_lock_shape,
                                 C02_rw_lock_shape (read-only entry check, then Switch or acquire)
      C02_barrier_shape / C02_barrier_unswitched_blocks                the omitted point of Barrier::wait precedes a blocking arrival
      REFUTED shapes (no scheduling point before a block that reads / writes shared state):
      C02_sem_avail_refuted (+ C02_sem_avail_observes), C02_drop_tx_refuted, C02_drop_rx_refuted (+ C02_drop_writes): the known findings
      C02_unswitched_others      the same shape for call_once's entry, JoinHandle::poll (await), handle drop, is_finished and
                                 Scope::spawn's counter (outside the correspondence check / claimed harmless; NOT justified here)

   NOT PROVED: the simulation from SC interleavings of visible operations to schedules; it is checked by exhaustive
   exploration of the real runtime against an independent SC interpreter.  Also not proved: that the omitted scheduling
   points (class P/J/A/B of the table) precede steps that COMMUTE with every other operation on the same object (only that
   they block the caller, resp. what they change); the per-operation classification is proved for the library code and for
   the first operation of a body (the trees of later operations are instances of the same match branch of `comp`). *)
From Coq Require Import List NArith Bool Arith.
From SV Require Import Params Clock.VClock Prim.Objects Prim.Atomic Engine.Exec Engine.Inv Sched.Replay Engine.Stmt
  Lang.Code Lang.ThreadOps Prim.Semaphore Lang.SyncOps Lang.SyncOps2 Lang.AsyncOps Lang.Prog
  Proofs.SchedSpec Proofs.CompletenessProofs Proofs.SwitchPlacement.
Import ListNotations.
Local Open Scope nat_scope.

(* ================================================================== *)
(* A. schedule-tree completeness                                        *)
(* ================================================================== *)
Theorem C02_offered_exact :
  forall SS (sch : scheduler SS) ms fuel main objs st w st' out, Run sch ms fuel main objs st w st' out ->
  forall pre off cur y ch, In (EvDecision pre off cur y ch) (w_trace w) ->
    WF pre /\ off = offered_of pre /\ offered_ok pre off /\ NoDup off
    /\ (forall t, In t off <-> exists tk, get_task pre t = Some tk /\ (is_runnable tk = true \/ can_spur tk = true)).
Proof. exact offered_exact_nodup. Qed.
Print Assumptions C02_offered_exact.

Theorem C02_decision_state :
  forall SS (sch : scheduler SS) ms fuel main objs st w st' out, Run sch ms fuel main objs st w st' out ->
  forall pre off cur y ch, In (EvDecision pre off cur y ch) (w_trace w) ->
    WF pre /\ next pre = SNone /\ below_bound ms pre /\ fin_cond pre = false
    /\ off = offered_of pre /\ cur = sched_id (current pre) /\ y = has_yielded pre.
Proof. exact decision_state. Qed.
Print Assumptions C02_decision_state.

Theorem C02_any_offered_accepted : forall SS (sch : scheduler SS) ms e st t st',
  WF e -> next e = SNone -> below_bound ms e -> fin_cond e = false ->
  In t (offered_of (pre_of e)) ->
  s_next_task sch st (offered_of (pre_of e)) (sched_id (current e)) (has_yielded e) = (Some t, st') ->
  exists e', schedule sch ms e st
             = (None, e', st', [EvDecision (pre_of e) (offered_of (pre_of e)) (sched_id (current e)) (has_yielded e) (Some t)])
    /\ next e' = SSome t /\ current (advance e') = SSome t
    /\ exists tk, get_task (advance e') t = Some tk /\ is_runnable tk = true.
Proof. exact any_offered_accepted. Qed.
Print Assumptions C02_any_offered_accepted.

Theorem C02_decision_any_choice :
  forall SS (sch : scheduler SS) ms fuel main objs st w st' out, Run sch ms fuel main objs st w st' out ->
  forall pre off cur y ch, In (EvDecision pre off cur y ch) (w_trace w) ->
  forall t, In t off ->
    (exists e', choice_res (with_yielded pre false) (Some t) None e')
    /\ forall err e', choice_res (with_yielded pre false) (Some t) err e' ->
         err = None /\ next e' = SSome t /\ exists tk, get_task e' t = Some tk /\ is_runnable tk = true.
Proof. exact decision_any_choice. Qed.
Print Assumptions C02_decision_any_choice.

Theorem C02_scripted_chooser : forall off t, In t off ->
  exists j, j < length off /\ nth_error off j = Some t /\
    forall rest rnd cur y,
      s_next_task scripted (mkScript (Some j :: rest) rnd) off cur y = (Some t, mkScript rest rnd).
Proof. exact scripted_chooser. Qed.
Print Assumptions C02_scripted_chooser.

(* `res_sim sch R n tr0 r1 r2` (Proofs/CompletenessProofs.v): either the two results have the same world and outcome, the
   trace grew by at most n decisions since tr0 and the final scheduler states are still related for the remaining
   decisions; or `Div sch R n tr0 tr1 tr2`: tr1 = ext1 ++ EvDecision pre off cur y c1 :: common ++ tr0 and
   tr2 = ext2 ++ EvDecision pre off cur y c2 :: common ++ tr0 with exactly n decisions in `common`, c1 and c2 being the
   answers of two scheduler states related by R 0. *)
Theorem C02_prefix_determinism : forall SS (sch : scheduler SS) ms (R : nat -> SS -> SS -> Prop),
  (forall n a b off cur y, R (S n) a b ->
     fst (s_next_task sch a off cur y) = fst (s_next_task sch b off cur y)
     /\ R n (snd (s_next_task sch a off cur y)) (snd (s_next_task sch b off cur y))) ->
  (forall n a b, R n a b ->
     fst (s_next_u64 sch a) = fst (s_next_u64 sch b) /\ R n (snd (s_next_u64 sch a)) (snd (s_next_u64 sch b))) ->
  forall fuel main objs n st1 st2, R n st1 st2 ->
  res_sim sch R n [] (run_exec sch ms fuel main objs st1) (run_exec sch ms fuel main objs st2).
Proof. exact run_exec_sim. Qed.
Print Assumptions C02_prefix_determinism.

Theorem C02_lockstep_scripted : forall ms fuel main objs p r1 r2 seed w1 st1 o1 w2 st2 o2,
  run_exec scripted ms fuel main objs (mkScript (p ++ r1) seed) = (w1, st1, o1) ->
  run_exec scripted ms fuel main objs (mkScript (p ++ r2) seed) = (w2, st2, o2) ->
  (w1 = w2 /\ o1 = o2 /\ ndec (w_trace w1) <= length p)
  \/ exists common ext1 ext2 pre off cur y rnd,
       w_trace w1 = ext1 ++ EvDecision pre off cur y (fst (s_next_task scripted (mkScript r1 rnd) off cur y)) :: common
       /\ w_trace w2 = ext2 ++ EvDecision pre off cur y (fst (s_next_task scripted (mkScript r2 rnd) off cur y)) :: common
       /\ ndec common = length p.
Proof. exact lockstep_scripted. Qed.
Print Assumptions C02_lockstep_scripted.

Theorem C02_script_completeness : forall ms fuel main objs s seed w st' out i pre off cur y ch t',
  run_exec scripted ms fuel main objs (mkScript s seed) = (w, st', out) ->
  i <= length s ->
  nth_error (decisions (chrono w)) i = Some (EvDecision pre off cur y ch) ->
  In t' off ->
  exists j, nth_error off j = Some t' /\
  forall rest', exists w' st'' out' prefix rest1 rest2,
    run_exec scripted ms fuel main objs (mkScript (firstn i s ++ Some j :: rest') seed) = (w', st'', out')
    /\ chrono w = prefix ++ EvDecision pre off cur y ch :: rest1
    /\ chrono w' = prefix ++ EvDecision pre off cur y (Some t') :: rest2
    /\ length (decisions prefix) = i.
Proof. exact script_completeness. Qed.
Print Assumptions C02_script_completeness.

Theorem C02_script_padding : forall ms fuel main objs s seed k,
  fst (fst (run_exec scripted ms fuel main objs (mkScript (s ++ repeat (Some 0) k) seed)))
  = fst (fst (run_exec scripted ms fuel main objs (mkScript s seed)))
  /\ snd (run_exec scripted ms fuel main objs (mkScript (s ++ repeat (Some 0) k) seed))
     = snd (run_exec scripted ms fuel main objs (mkScript s seed)).
Proof. exact script_padding. Qed.
Print Assumptions C02_script_padding.

Theorem C02_script_completeness_any : forall ms fuel main objs s seed w st' out i pre off cur y ch t',
  run_exec scripted ms fuel main objs (mkScript s seed) = (w, st', out) ->
  nth_error (decisions (chrono w)) i = Some (EvDecision pre off cur y ch) ->
  In t' off ->
  exists j, nth_error off j = Some t' /\
  forall rest', exists w' st'' out' prefix rest1 rest2,
    run_exec scripted ms fuel main objs
      (mkScript (firstn i (s ++ repeat (Some 0) (i - length s)) ++ Some j :: rest') seed) = (w', st'', out')
    /\ chrono w = prefix ++ EvDecision pre off cur y ch :: rest1
    /\ chrono w' = prefix ++ EvDecision pre off cur y (Some t') :: rest2
    /\ length (decisions prefix) = i.
Proof. exact script_completeness_any. Qed.
Print Assumptions C02_script_completeness_any.

Theorem C02_script_completeness_runs : forall ms fuel main objs s seed w st' out pre off cur y t' prefix rest,
  code_ok main ->
  run_exec scripted ms fuel main objs (mkScript s seed) = (w, st', out) ->
  chrono w = prefix ++ EvDecision pre off cur y (Some t') :: rest ->
  ops_by_chosen rest (Some t').
Proof. exact script_completeness_runs. Qed.
Print Assumptions C02_script_completeness_runs.

(* ================================================================== *)
(* B. placement of the scheduling points                                *)
(* ================================================================== *)
Theorem C02_library_switch_first :
  (forall a ty o k, starts_with_switch (atomic_code a ty o k))
  /\ (forall t k, starts_with_switch (unpark_code t k))
  /\ (forall o n k, starts_with_switch (sem_try_code o n k))
  /\ (forall o n k, starts_with_switch (sem_release_code o n k))
  /\ (forall o k, starts_with_switch (sem_close_code o k))
  /\ (forall o k, starts_with_switch (mutex_try_lock_code o k))
  /\ (forall o k, starts_with_switch (mutex_unlock_code o k))
  /\ (forall o w k, starts_with_switch (rw_try_code o w k))
  /\ (forall o w k, starts_with_switch (rw_unlock_code o w k))
  /\ (forall cv m k, starts_with_switch (cv_wait_code cv m k))
  /\ (forall cv all k, starts_with_switch (cv_notify_code cv all k))
  /\ (forall ch v cb k, starts_with_switch (chan_send_code ch v cb k))
  /\ (forall ch cb k, starts_with_switch (chan_recv_code ch cb k))
  /\ (forall jt t k, starts_with_switch (abort_code jt t k)).
Proof. exact library_switch_first. Qed.
Print Assumptions C02_library_switch_first.

(* op_switch_first: PSpawn PASpawn PIsCompleted PUnparkT PAtomic PSemTry PSemRel PSemClose PTryLock PRwTry PCvNotify *)
Theorem C02_op_switch_first : forall fu jt bodies b ctx fin outer o r,
  nth b bodies [] = o :: r -> op_switch_first o = true ->
  starts_with_switch (comp (S fu) jt bodies b ctx fin outer).
Proof. exact op_switch_first_correct. Qed.
Print Assumptions C02_op_switch_first.

(* op_quiet_until_switch: the above and PYield PPanic PSend PTrySend PRecv PTryRecv PAYield *)
Theorem C02_op_quiet_until_switch : forall fu jt bodies b ctx fin outer o r,
  nth b bodies [] = o :: r -> op_quiet_until_switch o = true ->
  reaches_switch_before_store (comp (S fu) jt bodies b ctx fin outer).
Proof. exact op_quiet_until_switch_correct. Qed.
Print Assumptions C02_op_quiet_until_switch.

Theorem C02_yield : forall k, reaches_switch_before_store (yield_code k).
Proof. exact yield_code_placement. Qed.
Print Assumptions C02_yield.
Theorem C02_await_yield : forall ctx jt oa k, reaches_switch_before_store (await_yield ctx jt oa k).
Proof. exact await_yield_placement. Qed.
Print Assumptions C02_await_yield.

(* park: a quiet block, then a Switch, or (token available) straight on to the continuation k *)
Theorem C02_park : forall k, pre_switch quiet (fun c => c = k) (park_code k).
Proof. exact park_code_placement. Qed.
Print Assumptions C02_park.
Theorem C02_park_unswitched : forall e s e' s' m,
  me e = Some m -> park_block e s = Some (e', s', false) ->
  s' = s /\ exists tk, get_task e m = Some tk /\ t_token tk = true
            /\ e' = with_tasks e (list_upd (tasks e) m (fun tk => set_park tk false (t_inpark tk))).
Proof. exact park_unswitched_consumes_token. Qed.
Print Assumptions C02_park_unswitched.

(* join *)
Theorem C02_join_shape : forall target k,
  join_code target k =
  atomic_b (join_check target) (fun fin => switch_if fin
    (atomic_b (join_register target) (fun should_block => switch_if should_block (atomic_u (join_finish target) k)))).
Proof. exact join_code_unfold. Qed.
Print Assumptions C02_join_shape.
Theorem C02_join_check : forall target, readonly (lift_b (join_check target)).
Proof. exact join_check_readonly. Qed.
Print Assumptions C02_join_check.
Theorem C02_join_register : forall target e s e' s' b m,
  me e = Some m -> m <> target -> join_register target e s = Some (e', s', b) ->
  s' = s
  /\ (forall t, t <> m -> t <> target -> get_task e' t = get_task e t)
  /\ (exists tk tk', get_task e target = Some tk /\ get_task e' target = Some tk' /\ same_but_waiter tk tk')
  /\ (b = true -> exists tkm, get_task e' m = Some tkm /\ t_state tkm = Blocked false)
  /\ (b = false -> e' = e).
Proof. exact join_register_effect. Qed.
Print Assumptions C02_join_register.

(* acquire / lock *)
Theorem C02_acquire_shape :
  (forall oid k kont,
     acquire_blocking oid k kont =
     Atomic (new_waiter_block oid k)
       (fun a => match a with [w] => poll_loop POLL_FUEL oid (N.to_nat w) true kont | _ => Panic end))
  /\ (forall f oid wid np kont, exists retry,
        poll_loop (S f) oid wid np kont =
        atomic_b (poll_check oid wid np) (fun sw => switch_if sw (Atomic (poll_block oid wid) retry)))
  /\ (forall oid wid np, readonly (lift_b (poll_check oid wid np))).
Proof. exact (conj acquire_blocking_unfold (conj poll_loop_unfold poll_check_readonly)). Qed.
Print Assumptions C02_acquire_shape.
Theorem C02_acquire_new_waiter : forall oid k e st e' st' a,
  new_waiter_block oid k e st = Some (e', st', a) ->
  e' = e /\ exists o s w, get_obj st oid = Some o /\ sem_of o = Some s
            /\ st' = set_obj st oid (with_sem o (set_wtab s (sm_wtab s ++ [w])))
            /\ wt_queued w = false /\ wt_has w = false /\ a = [N.of_nat (length (sm_wtab s))].
Proof. exact new_waiter_append_only. Qed.
Print Assumptions C02_acquire_new_waiter.
Theorem C02_acquire_unswitched_blocks : forall oid wid e st e1 st1 e2 st2 a,
  poll_check oid wid true e st = Some (e1, st1, false) ->
  poll_block oid wid e1 st1 = Some (e2, st2, a) -> a = [2%N].
Proof. exact unswitched_poll_blocks. Qed.
Print Assumptions C02_acquire_unswitched_blocks.
Theorem C02_mutex_lock_shape :
  (forall oid kont,
     let finish := atomic_b (fun e st => mutex_set_holder e st oid) (fun p => kont (if p then LkPoisoned else LkOk)) in
     mutex_lock_code oid kont =
     atomic_b (mutex_check oid)
       (fun closed => if closed then Switch finish
                      else acquire_blocking oid 1 (fun ok => if ok then finish else Panic)))
  /\ (forall oid, readonly (lift_b (mutex_check oid))).
Proof. exact (conj mutex_lock_code_unfold mutex_check_readonly). Qed.
Print Assumptions C02_mutex_lock_shape.
Theorem C02_rw_lock_shape :
  (forall oid write kont,
     let finish := atomic_b (fun e st => rw_take e st oid write) (fun p => kont (if p then LkPoisoned else LkOk)) in
     rw_lock_code oid write kont =
     atomic_b (rw_check oid)
       (fun closed => if closed then Switch finish
                      else acquire_blocking oid (rw_permits write) (fun ok => if ok then finish else Panic)))
  /\ (forall oid, readonly (lift_b (rw_check oid))).
Proof. exact (conj rw_lock_code_unfold rw_check_readonly). Qed.
Print Assumptions C02_rw_lock_shape.

(* barrier *)
Theorem C02_barrier_shape :
  (forall b kont, exists kk,
     barrier_wait_code b kont =
     atomic_b (barrier_check b) (fun wb => switch_if (negb wb) (Atomic (barrier_arrive_block b) kk)))
  /\ (forall b, readonly (lift_b (barrier_check b))).
Proof. exact (conj barrier_wait_code_unfold barrier_check_readonly). Qed.
Print Assumptions C02_barrier_shape.
Theorem C02_barrier_unswitched_blocks : forall b e st e1 st1 e2 st2 a,
  barrier_check b e st = Some (e1, st1, true) ->
  barrier_arrive_block b e1 st1 = Some (e2, st2, a) -> exists ep, a = [ep; 1%N].
Proof. exact unswitched_arrival_blocks. Qed.
Print Assumptions C02_barrier_unswitched_blocks.

(* REFUTED (known finding F5d): the unswitched, blocking arrival writes the waiter set, and the waiter set decides whether a
   later arrival blocks or completes the group (and is the leader): blocking arrivals do not commute with the completing one,
   so the omitted scheduling point loses the outcomes in which the task that arrives last is not the one that moved last
   (program 'a0,b2 sp1;a0.ld;bw1;jn0|a0.st.1;bw1': 2 of the 4 sequentially consistent outcomes; tools/p_c02.py). *)
Theorem C02_barrier_blocking_arrival_refuted :
  writes_store (barrier_arrive_block 0)
  /\ (exists e' s' ep, barrier_arrive_block 0 ex2 [OBarrier 2 0 [] [] []] = Some (e', s', [ep; 1%N]))
  /\ (exists e' s' ep, barrier_arrive_block 0 ex2 [OBarrier 2 0 [1] [] []] = Some (e', s', [ep; 0%N])).
Proof. exact (conj barrier_blocking_arrival_writes barrier_arrival_order_observable). Qed.
Print Assumptions C02_barrier_blocking_arrival_refuted.

(* ---- refuted: no scheduling point before a block that reads or writes a primitive's shared state ---- *)
Theorem C02_sem_avail_refuted : forall fu jt bodies b ctx fin outer o r,
  nth b bodies [] = PSemAvail o :: r ->
  exists k, comp (S fu) jt bodies b ctx fin outer = Atomic (sem_avail_block o) (fun a => Log TAG_SEMAVAIL a (k a)).
Proof. exact comp_PSemAvail_refuted. Qed.
Print Assumptions C02_sem_avail_refuted.
Theorem C02_sem_avail_observes : observes_store (sem_avail_block 0) /\ forall o, readonly (sem_avail_block o).
Proof. exact (conj sem_avail_observes sem_avail_readonly). Qed.
Print Assumptions C02_sem_avail_observes.

Theorem C02_drop_tx_refuted : forall fu jt bodies b ctx fin outer ch slot r,
  nth b bodies [] = PDropTx ch slot :: r ->
  exists k, comp (S fu) jt bodies b ctx fin outer
            = atomic_b (alive_check ch slot)
                (fun alive => if alive then atomic_u (fun e st => chan_drop_tx e (endpoint_kill st ch slot) ch) k else Panic).
Proof. exact comp_PDropTx_refuted. Qed.
Print Assumptions C02_drop_tx_refuted.
Theorem C02_drop_rx_refuted : forall fu jt bodies b ctx fin outer ch r,
  nth b bodies [] = PDropRx ch :: r ->
  exists k, comp (S fu) jt bodies b ctx fin outer
            = atomic_b (alive_check ch RX_SLOT)
                (fun alive => if alive then atomic_u (fun e st => chan_drop_rx e (endpoint_kill st ch RX_SLOT) ch) k else Panic).
Proof. exact comp_PDropRx_refuted. Qed.
Print Assumptions C02_drop_rx_refuted.
Theorem C02_drop_writes :
  writes_store (lift_u (fun e st => chan_drop_tx e (endpoint_kill st 0 0) 0))
  /\ writes_other_task (lift_u (fun e st => chan_drop_tx e (endpoint_kill st 0 0) 0))
  /\ writes_store (lift_u (fun e st => chan_drop_rx e (endpoint_kill st 0 RX_SLOT) 0)).
Proof. exact (conj drop_tx_writes (conj drop_tx_writes_other_task drop_rx_writes)). Qed.
Print Assumptions C02_drop_writes.

(* the same shape elsewhere: blocks that run with no scheduling point before them and touch shared state *)
Theorem C02_unswitched_others :
  (forall o mx body kont, exists kk,
     call_once_code o mx body kont = atomic_b (fun e st => once_enter e st o) kk /\ kk false = kont)
  /\ (forall o, writes_store (lift_b (fun e st => once_enter e st o)))
  /\ observes_store (lift_b (fun e st => once_enter e st 0))
  /\ (forall f ctx jt target oa kont, exists kk,
        await_join (S f) ctx jt target oa kont = Atomic (join_poll_block jt target) kk)
  /\ writes_store (join_poll_block 0 1) /\ observes_store (join_poll_block 0 1)
  /\ writes_other_task (lift_u (fun e st => detach_handle e st 1))
  /\ observes_other_task (lift_b (fun e st => is_finished_handle e st 1))
  /\ (forall fu jt bodies b ctx fin outer z j r, nth b bodies [] = PScopeSpawn z j :: r ->
        exists child k, comp (S fu) jt bodies b ctx fin outer = atomic_u (scope_incr z) (Switch (SpawnNow child k)))
  /\ writes_store (lift_u (scope_incr 0)).
Proof.
  exact (conj call_once_code_unfold (conj once_enter_writes (conj once_enter_observes (conj await_join_unfold
        (conj join_poll_writes (conj join_poll_observes (conj detach_writes_other_task
        (conj is_finished_observes_other_task (conj comp_PScopeSpawn scope_incr_writes))))))))).
Qed.
Print Assumptions C02_unswitched_others.

(* ================================================================== *)
(* Examples: the premises are satisfiable                               *)
(* ================================================================== *)
(* main spawns a child; both swap a value into the same atomic and log what they found there *)
Definition c02_objs : store := [OAtomic 0%N []].
Definition c02_prog : list (list op) := [[PSpawn 1; PAtomic 0 (ASwap 1%N); PJoin 0]; [PAtomic 0 (ASwap 2%N)]].
Definition c02_run (s : list (option nat)) := run_prog 60 MSNone c02_objs c02_prog s 0%N.
(* (task, [ok flag; value found]) of the atomic operations, oldest first *)
Definition c02_atomics (w : world) : list (nat * list N) :=
  flat_map (fun ev => match ev with EvOp t 7%N vals _ => [(t, vals)] | _ => [] end) (chrono w).
(* (offered, chosen) of the decisions, oldest first *)
Definition c02_decs (w : world) : list (list nat * option nat) :=
  flat_map (fun ev => match ev with EvDecision _ off _ _ ch => [(off, ch)] | _ => [] end) (chrono w).
Definition c02_script_a : list (option nat) := [Some 0; Some 0; Some 0].
Definition c02_script_b : list (option nat) := [Some 0; Some 0; Some 1; Some 1].

(* two scripts reach the two orders of the two swaps, with the two different outcomes *)
Example c02_two_orders :
  snd (c02_run c02_script_a) = OPass
  /\ c02_atomics (fst (fst (c02_run c02_script_a))) = [(0, [1%N; 0%N]); (1, [1%N; 1%N])]
  /\ snd (c02_run c02_script_b) = OPass
  /\ c02_atomics (fst (fst (c02_run c02_script_b))) = [(1, [1%N; 0%N]); (0, [1%N; 2%N])].
Proof. vm_compute. repeat split; reflexivity. Qed.

(* an instance of C02_script_completeness: decision 2 of run a offers [0; 1] and chooses 0; script b keeps the first two
   entries of script a and continues with the position of task 1; its run has the same first two decisions, the same
   offered list at decision 2, and chooses 1 there; both tasks were offered again at decision 3 *)
Example c02_completeness_instance :
  firstn 2 c02_script_b = firstn 2 c02_script_a
  /\ firstn 3 (c02_decs (fst (fst (c02_run c02_script_a)))) = [([0], Some 0); ([0], Some 0); ([0; 1], Some 0)]
  /\ firstn 4 (c02_decs (fst (fst (c02_run c02_script_b)))) = [([0], Some 0); ([0], Some 0); ([0; 1], Some 1); ([0; 1], Some 1)]
  /\ nth_error (decisions (chrono (fst (fst (c02_run c02_script_a))))) 2
     = option_map (fun ev => match ev with EvDecision pre off cur y _ => EvDecision pre off cur y (Some 0) | _ => ev end)
         (nth_error (decisions (chrono (fst (fst (c02_run c02_script_b))))) 2).
Proof. vm_compute. repeat split; reflexivity. Qed.

(* the refuted shape shrinks the explored set: main releases a permit and then reads available_permits(); the child
   try-acquires.  The SC interleaving release; try_acquire; available_permits (which reads 0) needs a scheduling point
   between main's release and its read.  There is none (C02_sem_avail_refuted), so the read is taken in the same segment as
   the release: under each of the scripts below, which place the child's try_acquire at every possible point, it logs 1. *)
Definition c02_sem_prog : list (list op) := [[PSpawn 1; PSemRel 0 1%N; PSemAvail 0; PJoin 0]; [PSemTry 0 1%N]].
Definition c02_sem_run (s : list (option nat)) := run_prog 60 MSNone [OSem (sem_const_new 0 false)] c02_sem_prog s 0%N.
Definition c02_avail (w : world) : list (list N) :=
  flat_map (fun ev => match ev with EvOp _ 14%N vals _ => [vals] | _ => [] end) (chrono w).
Example c02_sem_avail_never_sees_zero :
  forallb (fun s => match c02_avail (fst (fst (c02_sem_run s))) with [[1%N; _]] => true | _ => false end)
    [ []; [Some 0; Some 0; Some 1]; [Some 0; Some 0; Some 1; Some 1]; [Some 0; Some 0; Some 0; Some 1; Some 1];
      [Some 0; Some 0; Some 1; Some 0; Some 1; Some 1]; [Some 0; Some 0; Some 0; Some 0; Some 1] ] = true.
Proof. vm_compute. reflexivity. Qed.
