(* C10, the clause "the uniform random walk likewise gives every offered task positive probability" (and the offered /
   determinism facts for URW).  Model: Sched/Urw.v = shuttle-schedulers/src/urw.rs (trial run with plain random walk,
   event-count estimates per task signature with parent subsumption, weighted choice by remaining event counts), tied
   to the code by the `urw` call sequences of tools/p_c10.py.  STATEMENTS ONLY.

   What is proved, for every state, every offered list and every seed:
     - the answer of next_task is one of the offered tasks, in the trial run and afterwards (C10_urw_offered);
     - at every decision after the estimation every offered task has a weight of at least one: the registration loop
       keeps all remaining-event counts >= 1 (C10_urw_weights_positive) and a decision keeps them so
       (C10_urw_counts_stay_positive; new_execution installs the empty table), whatever the estimates were;
     - positive probability: for every offered task there is a 64-bit word of the generator on which
       Uniform<usize>::sample accepts in its first round and the binary search over the cumulative weights returns exactly
       that task (C10_urw_every_offered_task_possible; for totals up to 2^63), and that first round is what the model's
       sampling loop runs on the generator's next word (C10_urw_sampler_unfold).
   Not proved: that the walk is uniform over interleavings (that needs exact event counts, which the trial run only
   estimates), and nothing about PCG's output distribution. *)
From Coq Require Import NArith List.
From SV Require Import Sched.Random Sched.Urw Proofs.RandomProofs Proofs.UrwProofs.
Import ListNotations.
Local Open Scope N_scope.

Theorem C10_urw_offered : forall fuel u ts t u',
  urw_next_task fuel u ts = Done (t, u') -> exists x, In x ts /\ ut_id x = t.
Proof. exact urw_next_task_offered. Qed.
Print Assumptions C10_urw_offered.

Theorem C10_urw_weights_positive : forall sigs umin ts counts counts',
  urw_register sigs umin counts ts = Some counts' ->
  (forall i x, nth_error counts i = Some x -> 1 <= x) ->
  forall j, (j < length ts)%nat -> 1 <= nth j (weights_of counts' ts) 0.
Proof. exact urw_weights_positive. Qed.
Print Assumptions C10_urw_weights_positive.

Theorem C10_urw_counts_stay_positive : forall fuel u ts t u' counts,
  u_state u = UInitialized -> u_counts u = Some counts ->
  (forall i x, nth_error counts i = Some x -> 1 <= x) ->
  urw_next_task fuel u ts = Done (t, u') ->
  exists counts', u_counts u' = Some counts' /\ u_state u' = UInitialized /\ (forall i x, nth_error counts' i = Some x -> 1 <= x).
Proof. exact urw_counts_stay_positive. Qed.
Print Assumptions C10_urw_counts_stay_positive.

Theorem C10_urw_every_offered_task_possible : forall sigs umin ts counts counts1,
  urw_register sigs umin counts ts = Some counts1 ->
  (forall i x, nth_error counts i = Some x -> 1 <= x) ->
  sum_N (weights_of counts1 ts) <= 9223372036854775808 ->
  forall j, (j < length ts)%nat ->
  exists v c, v < TWO64 /\ uniform_round v (sum_N (weights_of counts1 ts)) = Some c /\
              pick_weighted (weights_of counts1 ts) c 0 0 = j.
Proof. exact urw_every_offered_task_possible. Qed.
Print Assumptions C10_urw_every_offered_task_possible.

Theorem C10_urw_sampler_unfold : forall f range st,
  uniform_below (S f) range st =
  match uniform_round (fst (pcg_next_u64 st)) range with
  | Some c => Some (c, snd (pcg_next_u64 st))
  | None => uniform_below f range (snd (pcg_next_u64 st))
  end.
Proof. exact uniform_below_unfold. Qed.
Print Assumptions C10_urw_sampler_unfold.

Theorem C10_urw_choice_in_range : forall ws chosen acc i, ws <> [] -> (pick_weighted ws chosen acc i < i + length ws)%nat.
Proof. exact pick_weighted_bound. Qed.
Print Assumptions C10_urw_choice_in_range.

(* a session on the model: trial run, estimation, then weighted walks; the same answers as the real scheduler gives
   (checked on every run by the `urw` correspondence; this instance is a fixed test vector) *)
Definition t0 := mkUT 0 None 1 0.
Definition t1 := mkUT 1 (Some 0%nat) 2 1.
Example C10_urw_hypotheses_satisfiable :
  urw_register [(1, 5); (2, 3)] 3 [] [t0] = Some [5] /\
  urw_register [(1, 5); (2, 3)] 3 [5] [t0; t1] = Some [2; 3] /\
  weights_of [2; 3] [t0; t1] = [2; 3] /\
  pick_weighted [2; 3] 0 0 0 = 0%nat /\ pick_weighted [2; 3] 1 0 0 = 0%nat /\ pick_weighted [2; 3] 2 0 0 = 1%nat /\ pick_weighted [2; 3] 4 0 0 = 1%nat.
Proof. vm_compute. repeat split. Qed.
