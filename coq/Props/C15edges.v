(* ------------------------------------------------------------------------- *)
(*  SV.Props.C15edges : property C15, block-level clock EDGES.  Statements    *)
(*  only: every theorem is proved by `exact <lemma>` from                     *)
(*  SV.Proofs.ClockEdges and followed by Print Assumptions.                   *)
(*                                                                            *)
(*  Shape: for a release-like block R run by task a and an acquire-like block *)
(*  A run by task b on the same object,                                       *)
(*    (R) the clock left in the object dominates a's clock at the stamp,      *)
(*    (A) b's clock after A dominates the stored clock it consumed,           *)
(*    (edge) hence  vle (clock of a at R) (clock of b after A) = true.        *)
(*  Vocabulary (definitions of SV.Proofs.ClockEdges / ChanBase):              *)
(*    same_clocks e e'     every task has the same clock in e' as in e        *)
(*    others_same e e' t   every task but t has the same clock                *)
(*    clocks_grow e e'     no task's clock shrinks                            *)
(*    bclocks bs           the clocks of a deque of permit batches            *)
(*    batches_pos s        all batch sizes are positive                       *)
(*    handed s e' c        c was joined into the clock of a queued waiter's   *)
(*                         task                                               *)
(*  Examples at the end run the blocks on concrete states (vm_compute): the   *)
(*  hypotheses are satisfiable and the edges / non-edges are visible.         *)
(* ------------------------------------------------------------------------- *)
From Coq Require Import List NArith Bool Arith Lia.
From SV Require Import Params Clock.VClock Prim.Objects Prim.Atomic Engine.Exec Prim.Semaphore Prim.SemInv
  Lang.Code Lang.ThreadOps Lang.SyncOps Lang.SyncOps2.
From SV Require Import Proofs.VClockProofs Proofs.SemBase Proofs.ChanBase Proofs.AtomicProofs
  Proofs.LifecycleProofs Proofs.LockProofs Proofs.ClockEdges.
Import ListNotations.
Local Open Scope N_scope.

(* ========================================================================= *)
(*  0. Local facts: the clock calls make the own clock grow, strictly on a tick, and touch nobody else *)
(* ========================================================================= *)
Theorem C15_edge_increment_clock_local : forall e t e',
  e_increment_clock e t = Some e' ->
  exists c c', e_clock e t = Some c /\ e_clock e' t = Some c' /\ increment c t = Some c'
    /\ vle c c' = true /\ vlt c c' = true /\ nth t c' 0 = nth t c 0 + 1
    /\ others_same e e' t /\ me e' = me e.
Proof. exact ClockEdges.increment_clock_local. Qed.
Print Assumptions C15_edge_increment_clock_local.
Theorem C15_edge_join_clock_local : forall e t v e',
  e_join_clock e t v = Some e' ->
  exists c, e_clock e t = Some c /\ e_clock e' t = Some (update c v)
    /\ vle c (update c v) = true /\ vle v (update c v) = true
    /\ others_same e e' t /\ me e' = me e.
Proof. exact ClockEdges.join_clock_local. Qed.
Print Assumptions C15_edge_join_clock_local.
Theorem C15_edge_update_clock_local : forall e t v e',
  e_update_clock e t v = Some e' ->
  exists c c1, e_clock e t = Some c /\ increment c t = Some c1 /\ e_clock e' t = Some (update c1 v)
    /\ vle c (update c1 v) = true /\ vlt c (update c1 v) = true /\ vle v (update c1 v) = true
    /\ nth t c 0 < nth t (update c1 v) 0
    /\ others_same e e' t /\ me e' = me e.
Proof. exact ClockEdges.update_clock_local. Qed.
Print Assumptions C15_edge_update_clock_local.
Theorem C15_edge_own_events_strictly_ordered : forall c0 c c' t,
  vle c0 c = true -> increment c t = Some c' -> vlt c0 c' = true /\ nth t c0 0 < nth t c' 0.
Proof. exact ClockEdges.own_events_strictly_ordered. Qed.
Print Assumptions C15_edge_own_events_strictly_ordered.

(* ========================================================================= *)
(*  1. spawn -> child start *)
(* ========================================================================= *)
Theorem C15_edge_spawn : forall e e' tid,
  spawn_thread_now e = Some (e', tid) ->
  exists p cp c1 cc,
    me e = Some p /\ tid = length (tasks e) /\ e_clock e tid = None
    /\ e_clock e p = Some cp /\ increment cp p = Some c1 /\ extend c1 tid = Some cc
    /\ e_clock e' p = Some cc /\ e_clock e' tid = Some cc
    /\ vle cp cc = true /\ vlt cp cc = true /\ nth p cp 0 < nth p cc 0
    /\ (forall x, x <> p -> x <> tid -> e_clock e' x = e_clock e x)
    /\ me e' = me e.
Proof. exact ClockEdges.spawn_edge. Qed.
Print Assumptions C15_edge_spawn.
Theorem C15_edge_spawn_edge_vle : forall e e' tid p cp,
  spawn_thread_now e = Some (e', tid) -> me e = Some p -> e_clock e p = Some cp ->
  exists cc, e_clock e' tid = Some cc /\ e_clock e' p = Some cc /\ vle cp cc = true.
Proof. exact ClockEdges.spawn_edge_vle. Qed.
Print Assumptions C15_edge_spawn_edge_vle.

(* ========================================================================= *)
(*  2. child end -> join *)
(* ========================================================================= *)
Theorem C15_edge_join : forall target e s e' s',
  join_final target e s = Some (e', s') ->
  exists m ct cm cm',
    me e = Some m /\ e_clock e target = Some ct /\ fin_in e target
    /\ e_clock e m = Some cm /\ e_clock e' m = Some cm'
    /\ vle ct cm' = true /\ vle cm cm' = true /\ vlt cm cm' = true
    /\ others_same e e' m.
Proof. exact ClockEdges.join_edge. Qed.
Print Assumptions C15_edge_join.
Theorem C15_edge_join_target_unchanged : forall target e s e' s' m,
  join_final target e s = Some (e', s') -> me e = Some m -> target <> m -> e_clock e' target = e_clock e target.
Proof. exact ClockEdges.join_target_unchanged. Qed.
Print Assumptions C15_edge_join_target_unchanged.

(* ========================================================================= *)
(*  3. atomics: store/RMW publish, load/RMW acquire; failed compare_exchange and load do not publish; store does not acquire *)
(* ========================================================================= *)
Theorem C15_edge_atomic_block_clocks : forall a ty o e s e' s' ans,
  atomic_block a ty o e s = Some (e', s', ans) ->
  exists m v c v' c' cm cm',
    me e = Some m /\ get_obj s a = Some (OAtomic v c) /\ get_obj s' a = Some (OAtomic v' c')
    /\ e_clock e m = Some cm /\ e_clock e' m = Some cm' /\ others_same e e' m
    /\ vle cm cm' = true                                   (* own clock grows *)
    /\ vle c c' = true                                     (* the variable's clock grows *)
    /\ (a_exhales o = true -> vle c cm' = true)            (* acquire *)
    /\ (a_inhales ty o v = true -> vle cm' c' = true)      (* publish: the clock AFTER the operation *)
    /\ (a_inhales ty o v = false -> c' = c)                (* no publication: the variable's clock is untouched *)
    /\ (a_exhales o = false -> exists c1, increment cm m = Some c1 /\ cm' = c1).
Proof. exact ClockEdges.atomic_block_clocks. Qed.
Print Assumptions C15_edge_atomic_block_clocks.
Theorem C15_edge_atomic_release : forall a ty o e s e' s' ans m v c,
  atomic_block a ty o e s = Some (e', s', ans) ->
  me e = Some m -> get_obj s a = Some (OAtomic v c) -> a_inhales ty o v = true ->
  exists v' c' cm', get_obj s' a = Some (OAtomic v' c') /\ e_clock e' m = Some cm' /\ vle cm' c' = true.
Proof. exact ClockEdges.atomic_release. Qed.
Print Assumptions C15_edge_atomic_release.
Theorem C15_edge_atomic_acquire : forall a ty o e s e' s' ans m v c,
  atomic_block a ty o e s = Some (e', s', ans) ->
  me e = Some m -> get_obj s a = Some (OAtomic v c) -> a_exhales o = true ->
  exists cm', e_clock e' m = Some cm' /\ vle c cm' = true.
Proof. exact ClockEdges.atomic_acquire. Qed.
Print Assumptions C15_edge_atomic_acquire.
Theorem C15_edge_atomic_var_clock_grows : forall a ty o e s e' s' ans v c,
  atomic_block a ty o e s = Some (e', s', ans) -> get_obj s a = Some (OAtomic v c) ->
  exists v' c', get_obj s' a = Some (OAtomic v' c') /\ vle c c' = true.
Proof. exact ClockEdges.atomic_var_clock_grows. Qed.
Print Assumptions C15_edge_atomic_var_clock_grows.
Theorem C15_edge_atomic : forall a ty1 o1 e1 s1 e1' s1' ans1 ma v1 c1 ty2 o2 e2 s2 e2' s2' ans2 mb v2 c2 v1' c1',
  atomic_block a ty1 o1 e1 s1 = Some (e1', s1', ans1) ->
  me e1 = Some ma -> get_obj s1 a = Some (OAtomic v1 c1) -> a_inhales ty1 o1 v1 = true ->
  get_obj s1' a = Some (OAtomic v1' c1') ->
  atomic_block a ty2 o2 e2 s2 = Some (e2', s2', ans2) ->
  me e2 = Some mb -> get_obj s2 a = Some (OAtomic v2 c2) -> a_exhales o2 = true ->
  vle c1' c2 = true ->
  exists ca cb, e_clock e1' ma = Some ca /\ e_clock e2' mb = Some cb /\ vle ca cb = true.
Proof. exact ClockEdges.atomic_edge. Qed.
Print Assumptions C15_edge_atomic.
Theorem C15_edge_atomic_failed_cas_no_publish : forall a ty cur new e s e' s' ans v c,
  atomic_block a ty (ACas cur new) e s = Some (e', s', ans) ->
  get_obj s a = Some (OAtomic v c) -> v <> cur ->
  get_obj s' a = Some (OAtomic v c) /\ ans = [0; v].
Proof. exact ClockEdges.atomic_failed_cas_no_publish. Qed.
Print Assumptions C15_edge_atomic_failed_cas_no_publish.
Theorem C15_edge_atomic_load_no_publish : forall a ty e s e' s' ans v c,
  atomic_block a ty ALoad e s = Some (e', s', ans) -> get_obj s a = Some (OAtomic v c) ->
  get_obj s' a = Some (OAtomic v c).
Proof. exact ClockEdges.atomic_load_no_publish. Qed.
Print Assumptions C15_edge_atomic_load_no_publish.
Theorem C15_edge_atomic_store_no_acquire : forall a ty x e s e' s' ans m cm,
  atomic_block a ty (AStore x) e s = Some (e', s', ans) -> me e = Some m -> e_clock e m = Some cm ->
  exists c1, increment cm m = Some c1 /\ e_clock e' m = Some c1.
Proof. exact ClockEdges.atomic_store_no_acquire. Qed.
Print Assumptions C15_edge_atomic_store_no_acquire.

(* ========================================================================= *)
(*  4. unpark -> park: NO clock edge in the model *)
(* ========================================================================= *)
Theorem C15_edge_unpark_no_clock : forall e t e', e_unpark e t = Some e' -> same_clocks e e'.
Proof. exact ClockEdges.unpark_no_clock_edge. Qed.
Print Assumptions C15_edge_unpark_no_clock.
Theorem C15_edge_park_no_clock : forall e t e' b, e_park e t = Some (e', b) -> same_clocks e e'.
Proof. exact ClockEdges.park_no_clock_edge. Qed.
Print Assumptions C15_edge_park_no_clock.

(* ========================================================================= *)
(*  5. BatchSemaphore: release -> the acquire it enables *)
(* ========================================================================= *)
Theorem C15_edge_take_batches_clocks : forall bs k clk bs' clk' miss,
  take_batches bs k clk = (bs', clk', miss) ->
  vle clk clk' = true /\
  exists used rest,
    bs = used ++ rest
    /\ Forall (fun b => vle (snd b) clk' = true) used
    /\ (bs' = rest \/ exists n c n', In (n, c) used /\ bs' = (n', c) :: rest /\ 0 < n')
    /\ (bs <> [] -> used <> [])
    /\ (forall d, vle clk d = true -> Forall (fun b => vle (snd b) d = true) used -> vle clk' d = true).
Proof. exact ClockEdges.take_batches_clocks. Qed.
Print Assumptions C15_edge_take_batches_clocks.
Theorem C15_edge_permits_acquire_clocks : forall s k acq s' clk,
  permits_acquire s k acq = PaOk s' clk ->
  exists used rest,
    init_batches s = used ++ rest
    /\ Forall (fun b => vle (snd b) clk = true) used
    /\ (init_batches s' = rest \/ exists n c n', In (n, c) used /\ init_batches s' = (n', c) :: rest /\ 0 < n')
    /\ (k <> 0 -> init_batches s <> [] -> used <> [])
    /\ (forall d, Forall (fun b => vle (snd b) d = true) used -> vle clk d = true)
    /\ sm_wtab s' = sm_wtab s /\ sm_queue s' = sm_queue s /\ sm_fair s' = sm_fair s
    /\ (k <> 0 -> sm_last_acquire s' = update (sm_last_acquire s) acq).
Proof. exact ClockEdges.permits_acquire_clocks. Qed.
Print Assumptions C15_edge_permits_acquire_clocks.
Theorem C15_edge_permits_release_batches : forall s k c,
  init_batches (permits_release s k c) = init_batches s ++ [(k, c)]
  /\ sm_wtab (permits_release s k c) = sm_wtab s /\ sm_queue (permits_release s k c) = sm_queue s
  /\ sm_fair (permits_release s k c) = sm_fair s /\ sm_last_acquire (permits_release s k c) = sm_last_acquire s.
Proof. exact ClockEdges.permits_release_batches. Qed.
Print Assumptions C15_edge_permits_release_batches.
Theorem C15_edge_permits_acquire_all : forall s k acq s' clk,
  permits_acquire s k acq = PaOk s' clk -> batches_pos s -> batches_ok s -> sm_avail s = k -> 0 < k ->
  init_batches s' = [] /\ Forall (fun b => vle (snd b) clk = true) (init_batches s).
Proof. exact ClockEdges.permits_acquire_all. Qed.
Print Assumptions C15_edge_permits_acquire_all.
Theorem C15_edge_acquire_permits : forall e s k e' s',
  acquire_permits e s k = Some (e', s', AOk) ->
  exists m cm cm' clk,
    me e = Some m /\ e_clock e m = Some cm /\ e_clock e' m = Some cm'
    /\ permits_acquire s k cm = PaOk s' clk /\ k <> 0
    /\ vle clk cm' = true /\ vle cm cm' = true /\ vlt cm cm' = true /\ others_same e e' m /\ me e' = me e.
Proof. exact ClockEdges.acquire_permits_edge. Qed.
Print Assumptions C15_edge_acquire_permits.
Theorem C15_edge_acquire_permits_consumed : forall e s k e' s',
  acquire_permits e s k = Some (e', s', AOk) ->
  exists m cm' used rest,
    me e = Some m /\ e_clock e' m = Some cm'
    /\ init_batches s = used ++ rest /\ Forall (fun b => vle (snd b) cm' = true) used
    /\ (init_batches s <> [] -> used <> [])
    /\ (init_batches s' = rest \/ exists n c n', In (n, c) used /\ init_batches s' = (n', c) :: rest /\ 0 < n').
Proof. exact ClockEdges.acquire_permits_consumed. Qed.
Print Assumptions C15_edge_acquire_permits_consumed.
Theorem C15_edge_acquire_permits_front : forall e s k e' s' n c r,
  acquire_permits e s k = Some (e', s', AOk) -> init_batches s = (n, c) :: r ->
  exists m cm', me e = Some m /\ e_clock e' m = Some cm' /\ vle c cm' = true.
Proof. exact ClockEdges.acquire_permits_front. Qed.
Print Assumptions C15_edge_acquire_permits_front.
Theorem C15_edge_acquire_permits_all : forall e s k e' s',
  acquire_permits e s k = Some (e', s', AOk) -> batches_pos s -> batches_ok s -> sm_avail s = k ->
  exists m cm', me e = Some m /\ e_clock e' m = Some cm'
    /\ Forall (fun c => vle c cm' = true) (bclocks (init_batches s)) /\ init_batches s' = [].
Proof. exact ClockEdges.acquire_permits_all. Qed.
Print Assumptions C15_edge_acquire_permits_all.
Theorem C15_edge_unblock_front_clocks : forall fuel e s e' s',
  unblock_front fuel e s = Some (e', s') ->
  clocks_grow e e' /\ me e' = me e /\
  exists uc rc,
    bclocks (init_batches s) = uc ++ rc
    /\ (bclocks (init_batches s') = rc \/ exists c, In c uc /\ bclocks (init_batches s') = c :: rc)
    /\ Forall (handed s e') uc.
Proof. exact ClockEdges.unblock_front_clocks. Qed.
Print Assumptions C15_edge_unblock_front_clocks.
Theorem C15_edge_sem_release : forall e s k e' s',
  sem_release e s k = Some (e', s') -> k <> 0 -> should_stop e = Some false ->
  exists m cm mc,
    me e = Some m /\ e_clock e m = Some cm /\ increment cm m = Some mc
    /\ vle cm mc = true /\ vlt cm mc = true
    /\ (exists cm', e_clock e' m = Some cm' /\ vle mc cm' = true)
    /\ clocks_grow e e'
    /\ (exists uc rc,
          bclocks (init_batches s) ++ [mc] = uc ++ rc
          /\ (bclocks (init_batches s') = rc \/ exists c, In c uc /\ bclocks (init_batches s') = c :: rc)
          /\ Forall (handed s e') uc)
    /\ (sm_fair s = false ->
          s' = permits_release s k mc /\ e_clock e' m = Some mc /\ others_same e e' m).
Proof. exact ClockEdges.sem_release_edge. Qed.
Print Assumptions C15_edge_sem_release.
Theorem C15_edge_sem_release_stopping : forall e s k e' s',
  sem_release e s k = Some (e', s') -> k <> 0 -> should_stop e = Some true -> e' = e /\ sm_closed s' = true.
Proof. exact ClockEdges.sem_release_stopping. Qed.
Print Assumptions C15_edge_sem_release_stopping.
Theorem C15_edge_sem_try_acquire_ok : forall e s k e' s',
  sem_try_acquire e s k = Some (e', s', AOk) ->
  exists e1, acquire_permits e s k = Some (e1, s', AOk) /\ same_clocks e1 e'.
Proof. exact ClockEdges.sem_try_acquire_ok_edge. Qed.
Print Assumptions C15_edge_sem_try_acquire_ok.
Theorem C15_edge_sem_try_acquire_fail : forall e s k e' s' r,
  sem_try_acquire e s k = Some (e', s', r) -> r <> AOk ->
  s' = s /\ exists m cm', me e = Some m /\ e_clock e' m = Some cm' /\ vle (sm_last_acquire s) cm' = true /\ others_same e e' m.
Proof. exact ClockEdges.sem_try_acquire_fail_edge. Qed.
Print Assumptions C15_edge_sem_try_acquire_fail.
Theorem C15_edge_sem_poll : forall e s wid wk e' s' w,
  sem_poll e s wid wk = Some (e', s', PReadyOk) -> get_waiter s wid = Some w -> wt_has w = false ->
  exists e1 s1, acquire_permits e s (wt_n w) = Some (e1, s1, AOk) /\ clocks_grow e1 e'.
Proof. exact ClockEdges.sem_poll_edge. Qed.
Print Assumptions C15_edge_sem_poll.
Theorem C15_edge_sem_poll_handed_same : forall e s wid wk e' s' r w,
  sem_poll e s wid wk = Some (e', s', r) -> get_waiter s wid = Some w -> wt_has w = true -> e' = e /\ r = PReadyOk.
Proof. exact ClockEdges.sem_poll_handed_same. Qed.
Print Assumptions C15_edge_sem_poll_handed_same.

(* ========================================================================= *)
(*  5b. Mutex / RwLock over the semaphore *)
(* ========================================================================= *)
Theorem C15_edge_mutex_unlock_release : forall oid e st e' st' h s p m cm,
  mutex_unlock_block oid e st = Some (e', st') ->
  get_obj st oid = Some (OMutex h s p) -> sm_fair s = false -> should_stop e = Some false ->
  me e = Some m -> e_clock e m = Some cm ->
  exists mc p', increment cm m = Some mc /\ vle cm mc = true /\ e_clock e' m = Some mc /\ others_same e e' m
    /\ get_obj st' oid = Some (OMutex None (permits_release s 1 mc) p')
    /\ init_batches (permits_release s 1 mc) = init_batches s ++ [(1, mc)].
Proof. exact ClockEdges.mutex_unlock_release. Qed.
Print Assumptions C15_edge_mutex_unlock_release.
Theorem C15_edge_rw_unlock_release : forall oid write e st e' st' w rs s p m cm,
  rw_unlock_block oid write e st = Some (e', st') ->
  get_obj st oid = Some (ORwLock w rs s p) -> sm_fair s = false -> should_stop e = Some false ->
  me e = Some m -> e_clock e m = Some cm ->
  exists mc w' rs' p', increment cm m = Some mc /\ vle cm mc = true /\ e_clock e' m = Some mc /\ others_same e e' m
    /\ get_obj st' oid = Some (ORwLock w' rs' (permits_release s (rw_permits write) mc) p')
    /\ init_batches (permits_release s (rw_permits write) mc) = init_batches s ++ [(rw_permits write, mc)].
Proof. exact ClockEdges.rw_unlock_release. Qed.
Print Assumptions C15_edge_rw_unlock_release.
Theorem C15_edge_poll_step_all : forall oid wid e st e' st' o s m w,
  poll_step oid wid e st = Some (e', st', PReadyOk) ->
  get_obj st oid = Some o -> sem_of o = Some s -> me e = Some m ->
  get_waiter s wid = Some w -> wt_has w = false ->
  sm_avail s = wt_n w -> batches_ok s -> batches_pos s ->
  exists cm', e_clock e' m = Some cm' /\ Forall (fun c => vle c cm' = true) (bclocks (init_batches s)).
Proof. exact ClockEdges.poll_step_all. Qed.
Print Assumptions C15_edge_poll_step_all.
Theorem C15_edge_poll_step_front : forall oid wid e st e' st' o s m w n c r,
  poll_step oid wid e st = Some (e', st', PReadyOk) ->
  get_obj st oid = Some o -> sem_of o = Some s -> me e = Some m ->
  get_waiter s wid = Some w -> wt_has w = false -> init_batches s = (n, c) :: r ->
  exists cm', e_clock e' m = Some cm' /\ vle c cm' = true.
Proof. exact ClockEdges.poll_step_front. Qed.
Print Assumptions C15_edge_poll_step_front.
Theorem C15_edge_try_step_all : forall oid k e st e' st' o s m,
  try_step oid k e st = Some (e', st', AOk) ->
  get_obj st oid = Some o -> sem_of o = Some s -> me e = Some m ->
  sm_avail s = k -> batches_ok s -> batches_pos s ->
  exists cm', e_clock e' m = Some cm' /\ Forall (fun c => vle c cm' = true) (bclocks (init_batches s)).
Proof. exact ClockEdges.try_step_all. Qed.
Print Assumptions C15_edge_try_step_all.
Theorem C15_edge_try_step_front : forall oid k e st e' st' o s m n c r,
  try_step oid k e st = Some (e', st', AOk) ->
  get_obj st oid = Some o -> sem_of o = Some s -> me e = Some m -> init_batches s = (n, c) :: r ->
  exists cm', e_clock e' m = Some cm' /\ vle c cm' = true.
Proof. exact ClockEdges.try_step_front. Qed.
Print Assumptions C15_edge_try_step_front.
Theorem C15_edge_mutex : forall oid e1 st1 e1' st1' h1 s1 p1 ma ca wid e2 st2 e2' st2' h2 s2 p2 mb w,
  mutex_unlock_block oid e1 st1 = Some (e1', st1') ->
  get_obj st1 oid = Some (OMutex h1 s1 p1) -> sm_fair s1 = false -> should_stop e1 = Some false ->
  me e1 = Some ma -> e_clock e1 ma = Some ca ->
  poll_step oid wid e2 st2 = Some (e2', st2', PReadyOk) ->
  get_obj st2 oid = Some (OMutex h2 s2 p2) -> me e2 = Some mb ->
  get_waiter s2 wid = Some w -> wt_has w = false -> wt_n w = 1 ->
  sm_avail s2 = 1 -> batches_ok s2 -> batches_pos s2 ->
  (forall mc, e_clock e1' ma = Some mc -> In mc (bclocks (init_batches s2))) ->
  exists ca' cb', e_clock e1' ma = Some ca' /\ e_clock e2' mb = Some cb'
    /\ vle ca ca' = true /\ vle ca' cb' = true.
Proof. exact ClockEdges.mutex_edge. Qed.
Print Assumptions C15_edge_mutex.
Theorem C15_edge_released_batch_present : forall s k mc, In mc (bclocks (init_batches (permits_release s k mc))).
Proof. exact ClockEdges.released_batch_present. Qed.
Print Assumptions C15_edge_released_batch_present.

(* ========================================================================= *)
(*  6. mpsc: send -> recv, recv -> the send it frees (bounded) *)
(* ========================================================================= *)
Theorem C15_edge_chan_send_deliver : forall e c v e' c',
  chan_send_deliver e c v = Some (e', c') ->
  exists m cm mc cm',
    me e = Some m /\ e_clock e m = Some cm /\ increment cm m = Some mc /\ vle cm mc = true
    /\ ch_msgs c' = ch_msgs c ++ [(v, mc)]
    /\ e_clock e' m = Some cm' /\ vle mc cm' = true
    /\ clocks_grow e e'
    /\ (is_rendezvous c = false -> forall rc rest, ch_rclock c = Some (rc :: rest) ->
          ch_rclock c' = Some rest /\ vle rc cm' = true /\ vlt mc cm' = true)
    /\ (is_rendezvous c = false -> ch_rclock c = None -> ch_rclock c' = None /\ cm' = mc)
    /\ (is_rendezvous c = true -> ch_rclock c' = ch_rclock c /\
          forall tid r, ch_wrecv c = tid :: r -> exists rcl, e_clock e tid = Some rcl /\ vle rcl cm' = true).
Proof. exact ClockEdges.chan_send_deliver_edge. Qed.
Print Assumptions C15_edge_chan_send_deliver.
Theorem C15_edge_chan_recv_take : forall e c e' c' v,
  chan_recv_take e c = Some (e', c', v) ->
  exists m vc rest cm cm',
    me e = Some m /\ ch_msgs c = (v, vc) :: rest /\ ch_msgs c' = rest
    /\ e_clock e m = Some cm /\ e_clock e' m = Some cm' /\ cm' = update cm vc
    /\ vle vc cm' = true /\ vle cm cm' = true /\ others_same e e' m
    /\ (forall rc b, ch_rclock c = Some rc -> ch_bound c = Some b -> (0 < b)%nat -> ch_rclock c' = Some (rc ++ [cm']))
    /\ (ch_rclock c = None \/ ch_bound c = Some O -> ch_rclock c' = ch_rclock c).
Proof. exact ClockEdges.chan_recv_take_edge. Qed.
Print Assumptions C15_edge_chan_recv_take.
Theorem C15_edge_chan_send_recv : forall e1 c1 v e1' c1' ma ca e2 c2 e2' c2' v2 mb,
  chan_send_deliver e1 c1 v = Some (e1', c1') -> me e1 = Some ma -> e_clock e1 ma = Some ca ->
  chan_recv_take e2 c2 = Some (e2', c2', v2) -> me e2 = Some mb ->
  (forall mc, increment ca ma = Some mc -> exists rest, ch_msgs c2 = (v2, mc) :: rest) ->   (* a's message is at the head *)
  exists mc cb', increment ca ma = Some mc /\ e_clock e2' mb = Some cb' /\ vle ca mc = true /\ vle mc cb' = true.
Proof. exact ClockEdges.chan_send_recv_edge. Qed.
Print Assumptions C15_edge_chan_send_recv.
Theorem C15_edge_chan_recv_send : forall e1 c1 e1' c1' v1 ma rc1 b e2 c2 v e2' c2' mb,
  chan_recv_take e1 c1 = Some (e1', c1', v1) -> me e1 = Some ma ->
  ch_rclock c1 = Some rc1 -> ch_bound c1 = Some b -> (0 < b)%nat ->
  chan_send_deliver e2 c2 v = Some (e2', c2') -> me e2 = Some mb -> is_rendezvous c2 = false ->
  (forall ca', e_clock e1' ma = Some ca' -> exists rest, ch_rclock c2 = Some (ca' :: rest)) ->   (* a's clock is the oldest *)
  exists ca' cb', e_clock e1' ma = Some ca' /\ ch_rclock c1' = Some (rc1 ++ [ca'])
    /\ e_clock e2' mb = Some cb' /\ vle ca' cb' = true.
Proof. exact ClockEdges.chan_recv_send_edge. Qed.
Print Assumptions C15_edge_chan_recv_send.

(* ========================================================================= *)
(*  7a. Once *)
(* ========================================================================= *)
Theorem C15_edge_once_complete_release : forall e st o e' st',
  once_complete e st o = Some (e', st') ->
  exists m cm c mx, me e = Some m /\ e_clock e m = Some cm /\ increment cm m = Some c /\ vle cm c = true
    /\ e_clock e' m = Some c /\ others_same e e' m
    /\ get_obj st' o = Some (OOnce (OnComplete c) true mx).
Proof. exact ClockEdges.once_complete_release. Qed.
Print Assumptions C15_edge_once_complete_release.
Theorem C15_edge_once_enter_acquire : forall e st o e' st' need fl mx c m,
  once_enter e st o = Some (e', st', need) -> me e = Some m -> get_obj st o = Some (OOnce (OnComplete c) fl mx) ->
  need = false /\ st' = st /\ exists cm', e_clock e' m = Some cm' /\ vle c cm' = true /\ others_same e e' m.
Proof. exact ClockEdges.once_enter_acquire. Qed.
Print Assumptions C15_edge_once_enter_acquire.
Theorem C15_edge_once_is_completed_acquire : forall e st o e' st' r fl mx c m,
  once_is_completed e st o = Some (e', st', r) -> me e = Some m -> get_obj st o = Some (OOnce (OnComplete c) fl mx) ->
  r = true /\ st' = st /\ exists cm', e_clock e' m = Some cm' /\ vle c cm' = true /\ others_same e e' m.
Proof. exact ClockEdges.once_is_completed_acquire. Qed.
Print Assumptions C15_edge_once_is_completed_acquire.
Theorem C15_edge_once_not_complete_same : forall e st o e' st' r s fl mx,
  once_is_completed e st o = Some (e', st', r) -> get_obj st o = Some (OOnce s fl mx) ->
  (forall c, s <> OnComplete c) -> e' = e /\ r = false.
Proof. exact ClockEdges.once_not_complete_same. Qed.
Print Assumptions C15_edge_once_not_complete_same.
Theorem C15_edge_once : forall e1 st1 o e1' st1' ma ca e2 st2 e2' st2' need mb,
  once_complete e1 st1 o = Some (e1', st1') -> me e1 = Some ma -> e_clock e1 ma = Some ca ->
  once_enter e2 st2 o = Some (e2', st2', need) -> me e2 = Some mb -> get_obj st2 o = get_obj st1' o ->
  exists ca' cb', e_clock e1' ma = Some ca' /\ e_clock e2' mb = Some cb' /\ vle ca ca' = true /\ vle ca' cb' = true.
Proof. exact ClockEdges.once_edge. Qed.
Print Assumptions C15_edge_once.

(* ========================================================================= *)
(*  7b. Barrier *)
(* ========================================================================= *)
Theorem C15_edge_barrier_arrive : forall e st b e' st' ep blocked,
  barrier_arrive e st b = Some (e', st', ep, blocked) ->
  exists m cm mc bound epoch ws toks clk epoch' ws' toks',
    me e = Some m /\ e_clock e m = Some cm /\ increment cm m = Some mc /\ vle cm mc = true
    /\ get_obj st b = Some (OBarrier bound epoch ws toks clk)
    /\ get_obj st' b = Some (OBarrier bound epoch' ws' toks' (update clk mc))
    /\ vle mc (update clk mc) = true /\ vle clk (update clk mc) = true
    /\ clocks_grow e e'
    /\ (blocked = true -> ws' = ws ++ [m] /\ e_clock e' m = Some mc /\ others_same e e' m)
    /\ (blocked = false -> ws' = [] /\
          forall tid, In tid (ws ++ [m]) -> exists ct, e_clock e' tid = Some ct /\ vle (update clk mc) ct = true).
Proof. exact ClockEdges.barrier_arrive_edge. Qed.
Print Assumptions C15_edge_barrier_arrive.
Theorem C15_edge_barrier_leave_same : forall e st b ep e' st' r, barrier_leave e st b ep = Some (e', st', r) -> e' = e.
Proof. exact ClockEdges.barrier_leave_same. Qed.
Print Assumptions C15_edge_barrier_leave_same.
Theorem C15_edge_barrier : forall e1 st1 b e1' st1' ep1 bl1 ma ca bound1 ep ws1 toks1 clk1
                              e2 st2 e2' st2' ep2 bound2 epo2 ws2 toks2 clk2 m2 tid,
  barrier_arrive e1 st1 b = Some (e1', st1', ep1, bl1) -> me e1 = Some ma -> e_clock e1 ma = Some ca ->
  get_obj st1' b = Some (OBarrier bound1 ep ws1 toks1 clk1) ->
  barrier_arrive e2 st2 b = Some (e2', st2', ep2, false) -> me e2 = Some m2 ->
  get_obj st2 b = Some (OBarrier bound2 epo2 ws2 toks2 clk2) -> vle clk1 clk2 = true ->
  In tid (ws2 ++ [m2]) ->
  exists mc ct, increment ca ma = Some mc /\ vle ca mc = true /\ e_clock e2' tid = Some ct /\ vle mc ct = true.
Proof. exact ClockEdges.barrier_edge. Qed.
Print Assumptions C15_edge_barrier.

(* ========================================================================= *)
(*  7c. Condvar *)
(* ========================================================================= *)
Theorem C15_edge_cv_wake_acquire : forall e st cv e' st',
  cv_wake e st cv = Some (e', st') ->
  exists m ws ne my c cm',
    me e = Some m /\ get_obj st cv = Some (OCondvar ws ne) /\ assoc_get ws m = Some my
    /\ (my = CvBroadcast c \/ exists epoch rest, my = CvSignal ((epoch, c) :: rest))
    /\ e_clock e' m = Some cm' /\ vle c cm' = true /\ clocks_grow e e'.
Proof. exact ClockEdges.cv_wake_acquire. Qed.
Print Assumptions C15_edge_cv_wake_acquire.
Theorem C15_edge_cv_notify_all_release : forall e st cv e' st',
  cv_notify_all e st cv = Some (e', st') ->
  exists m c ws ne, me e = Some m /\ e_clock e m = Some c /\ get_obj st cv = Some (OCondvar ws ne)
    /\ same_clocks e e'
    /\ get_obj st' cv = Some (OCondvar (map (fun p => (fst p, CvBroadcast c)) ws) ne).
Proof. exact ClockEdges.cv_notify_all_release. Qed.
Print Assumptions C15_edge_cv_notify_all_release.
Theorem C15_edge_cv_notify_one_release : forall e st cv e' st',
  cv_notify_one e st cv = Some (e', st') ->
  exists m c ws ne, me e = Some m /\ e_clock e m = Some c /\ get_obj st cv = Some (OCondvar ws ne)
    /\ same_clocks e e'
    /\ get_obj st' cv = Some (OCondvar (map (fun p => (fst p, cv_signal ne c (snd p))) ws) (S ne)).
Proof. exact ClockEdges.cv_notify_one_release. Qed.
Print Assumptions C15_edge_cv_notify_one_release.
Theorem C15_edge_cv : forall (all : bool) e1 st1 cv e1' st1' ma ca e2 st2 e2' st2' mb ws2 ne2 my,
  (if all then cv_notify_all e1 st1 cv else cv_notify_one e1 st1 cv) = Some (e1', st1') ->
  me e1 = Some ma -> e_clock e1 ma = Some ca ->
  cv_wake e2 st2 cv = Some (e2', st2') -> me e2 = Some mb ->
  get_obj st2 cv = Some (OCondvar ws2 ne2) -> assoc_get ws2 mb = Some my ->
  (my = CvBroadcast ca \/ exists epoch rest, my = CvSignal ((epoch, ca) :: rest)) ->   (* the signal b consumes is a's *)
  exists cb', e_clock e1' ma = Some ca /\ e_clock e2' mb = Some cb' /\ vle ca cb' = true.
Proof. exact ClockEdges.cv_edge. Qed.
Print Assumptions C15_edge_cv.

(* ========================================================================= *)
(*  Examples: two tasks 0 and 1 with clocks [1;0] and [1;1]                   *)
(* ========================================================================= *)
Definition tk (c : vclock) : task := mkTask Runnable false false false false None c.
Definition ex_e (cur : nat) : exec :=
  mkExec [tk [1;0]; tk [1;1]] (SSome cur) SNone false 0 0 [0;1]%nat [] false false.
Definition clocks2 (e : exec) := (e_clock e 0, e_clock e 1).
Definition with_cur (e : exec) (cur : nat) : exec := with_current_next e (SSome cur) SNone.

(* spawn by task 0: parent and child both end with [2;0;0]; task 1 untouched *)
Example ex_spawn :
  option_map (fun r => (e_clock (fst r) 0, e_clock (fst r) 1, e_clock (fst r) 2, snd r)) (spawn_thread_now (ex_e 0))
  = Some (Some [2; 0; 0], Some [1; 1], Some [2; 0; 0], 2%nat).
Proof. vm_compute. reflexivity. Qed.

(* join of the finished task 1 (final clock [1;3]) by task 0: [1;0] -> tick -> [2;0] -> join -> [2;3] *)
Definition ex_fin : exec :=
  mkExec [tk [1;0]; mkTask Finished false false false false None [1;3]] (SSome 0%nat) SNone false 0 0 [0]%nat [] false false.
Example ex_join : option_map (fun r => clocks2 (fst r)) (join_final 1 ex_fin []) = Some (Some [2; 3], Some [1; 3]).
Proof. vm_compute. reflexivity. Qed.

(* atomic store by 0 (publishes [2;0]), load by 1 (acquires: [1;1] -> [2;2]) *)
Definition st_at : store := [OAtomic 0 []].
Example ex_atomic :
  match atomic_block 0 u64 (AStore 7) (ex_e 0) st_at with
  | Some (e1, s1, _) =>
    match atomic_block 0 u64 ALoad (with_cur e1 1) s1 with
    | Some (e2, s2, ans) => Some (clocks2 e1, get_obj s1 0, clocks2 e2, ans)
    | None => None end
  | None => None end
  = Some (Some [2; 0], Some [1; 1], Some (OAtomic 7 [2; 0]), (Some [2; 0], Some [2; 2]), [1; 7]).
Proof. vm_compute. reflexivity. Qed.

(* a failed compare_exchange ticks and acquires, but the variable and its clock are unchanged *)
Example ex_failed_cas :
  match atomic_block 0 u64 (ACas 5 9) (ex_e 0) st_at with
  | Some (e1, s1, ans) => Some (clocks2 e1, get_obj s1 0, ans) | None => None end
  = Some (Some [2; 0], Some [1; 1], Some (OAtomic 0 []), [0; 0]).
Proof. vm_compute. reflexivity. Qed.

(* unpark of task 1 by task 0: no clock moves *)
Example ex_unpark : option_map clocks2 (e_unpark (ex_e 0) 1) = Some (Some [1; 0], Some [1; 1]).
Proof. vm_compute. reflexivity. Qed.

(* Mutex held by 0: unlock stamps the batch (1,[2;0]); try_lock by 1 and the blocking path both end with [2;2] *)
Definition st_mx : store := [OMutex (Some 0%nat) (mkSem 0 (Some []) [] [] [] false false) false].
Example ex_mutex_try :
  match mutex_unlock_block 0 (ex_e 0) st_mx with
  | Some (e1, s1) =>
    match try_step 0 1 (with_cur e1 1) s1 with
    | Some (e2, s2, r) => Some (clocks2 e1, option_map (fun o => option_map init_batches (sem_of o)) (get_obj s1 0), clocks2 e2, r)
    | None => None end
  | None => None end
  = Some (Some [2; 0], Some [1; 1], Some (Some [(1, [2; 0])]), (Some [2; 0], Some [2; 2]), AOk).
Proof. vm_compute. reflexivity. Qed.

Example ex_mutex_lock :
  match mutex_unlock_block 0 (ex_e 0) st_mx with
  | Some (e1, s1) =>
    match new_waiter_block 0 1 (with_cur e1 1) s1 with
    | Some (e2, s2, _) =>
      match poll_step 0 0 e2 s2 with
      | Some (e3, s3, r) => Some (clocks2 e1, clocks2 e3, r)
      | None => None end
    | None => None end
  | None => None end
  = Some (Some [2; 0], Some [1; 1], (Some [2; 0], Some [2; 2]), PReadyOk).
Proof. vm_compute. reflexivity. Qed.

(* sync_channel(1): send by 0 stamps the message with [2;0] and then - the channel being bounded - takes the
   oldest receiver clock with a SECOND tick: its clock after the send is [3;0], which the receiver ([2;1]
   after the take) does NOT dominate; the receiver's clock [2;1] is queued and joined by the next send *)
Definition st_ch : store := [OChan (chan_new (Some 1%nat))].
Example ex_chan :
  match on_chan st_ch 0 (fun c => chan_send_deliver (ex_e 0) c 42) with
  | Some (e1, c1) =>
    match chan_recv_take (with_cur e1 1) c1 with
    | Some (e2, c2, v) =>
       match chan_send_deliver (with_cur e2 0) c2 43 with
       | Some (e3, c3) => Some (clocks2 e1, ch_msgs c1, ch_rclock c1, clocks2 e2, ch_rclock c2, v, clocks2 e3, ch_rclock c3)
       | None => None end
    | None => None end
  | None => None end
  = Some (Some [3; 0], Some [1; 1], [(42, [2; 0])], Some [], (Some [3; 0], Some [2; 1]), Some [[2; 1]], 42,
          (Some [5; 1], Some [2; 1]), Some []).
Proof. vm_compute. reflexivity. Qed.

Example ex_chan_extra_tick : vle [3; 0] [2; 1] = false /\ vle [2; 0] [2; 1] = true.
Proof. vm_compute. split; reflexivity. Qed.

(* Once: completion by 0 stores Complete([2;0]); a later call_once by 1 joins it *)
Definition st_on : store := [OOnce OnRunning false 1%nat].
Example ex_once :
  match once_complete (ex_e 0) st_on 0 with
  | Some (e1, s1) =>
    match once_enter (with_cur e1 1) s1 0 with
    | Some (e2, s2, need) => Some (clocks2 e1, get_obj s1 0, clocks2 e2, need)
    | None => None end
  | None => None end
  = Some (Some [2; 0], Some [1; 1], Some (OOnce (OnComplete [2; 0]) true 1), (Some [2; 0], Some [2; 2]), false).
Proof. vm_compute. reflexivity. Qed.

(* Barrier of 2: 0 arrives (blocked, barrier clock [2;0]); 1 arrives last (barrier clock [2;2]) and both are
   released with a tick and the barrier clock joined *)
Definition st_ba : store := [OBarrier 2 0 [] [] []].
Example ex_barrier :
  match barrier_arrive (ex_e 0) st_ba 0 with
  | Some (e1, s1, ep1, b1) =>
    match barrier_arrive (with_cur e1 1) s1 0 with
    | Some (e2, s2, ep2, b2) => Some (clocks2 e1, get_obj s1 0, b1, clocks2 e2, get_obj s2 0, b2)
    | None => None end
  | None => None end
  = Some (Some [2; 0], Some [1; 1], Some (OBarrier 2 0 [0%nat] [] [2; 0]), true,
          (Some [3; 2], Some [2; 3]), Some (OBarrier 2 1 [] [0%nat] [2; 2]), false).
Proof. vm_compute. reflexivity. Qed.

(* Condvar: 1 waits, 0 notifies (no tick: the epoch carries [1;0]); 1's wake-up joins it *)
Definition st_cv : store := [OCondvar [(1%nat, CvWaiting)] 0].
Example ex_condvar :
  match cv_notify_one (ex_e 0) st_cv 0 with
  | Some (e1, s1) =>
    match cv_wake (with_cur e1 1) s1 0 with
    | Some (e2, s2) => Some (clocks2 e1, get_obj s1 0, clocks2 e2, get_obj s2 0)
    | None => None end
  | None => None end
  = Some (Some [1; 0], Some [1; 1], Some (OCondvar [(1%nat, CvSignal [(0%nat, [1; 0])])] 1),
          (Some [1; 0], Some [1; 2]), Some (OCondvar [] 1)).
Proof. vm_compute. reflexivity. Qed.
