(* C12 — failures surface with a schedule that reproduces them (the emission clause).
   Statement-only file. *)
From Coq Require Import List.
From SV Require Import Engine.Failure Proofs.FailureProofs.
Import ListNotations.

(* For every history of earlier runs in the process (any configurations, outcomes, threads, numbers of
   passing executions), every run emits exactly what its own configuration prescribes: one schedule on stderr
   (Print) or one file (File) if it fails, nothing if it passes or if persistence is disabled. *)
Theorem C12_emission : forall h p, fst (do_history p h) = map expected h.
Proof. exact history_emits_own. Qed.

Theorem C12_emission_one_run : forall p r, fst (do_run p r) = expected r.
Proof. exact run_emits_own. Qed.

(* non-vacuity, and the witness that the code before repair F2 violated the statement *)
Example C12_history_example :
  fst (do_history init_pstate
        [mkRun 0 PNone (Some (FkDeadlock, 1)) 2; mkRun 0 PPrint (Some (FkDeadlock, 1)) 0;
         mkRun 1 PFile (Some (FkTaskPanic, 1)) 1; mkRun 0 PPrint None 3; mkRun 0 PPrint (Some (FkStepBound, 1)) 0])
  = [[]; [EmStderr]; [EmFile]; []; [EmStderr]].
Proof. vm_compute. reflexivity. Qed.
Example C12_old_code_refuted :
  let h := [mkRun 0 PNone (Some (FkDeadlock, 1)) 0; mkRun 0 PPrint (Some (FkDeadlock, 1)) 0] in
  fst (do_history_old (mkPO None []) h) = [[]; []] /\ map expected h = [[]; [EmStderr]].
Proof. exact old_code_refuted. Qed.

Print Assumptions C12_emission.
Print Assumptions C12_emission_one_run.
