(* C12 — failures surface with a schedule that reproduces them (the emission clause).
   Statement-only file. *)
From Coq Require Import List.
From SV Require Import Engine.Failure Proofs.FailureProofs.
Import ListNotations.

(* For every history of earlier runs in the process (any configurations, outcomes, threads, numbers of
   passing executions), every run emits exactly what its own configuration prescribes: one schedule on stderr
   (Print) or one file (File) if it fails, nothing if it passes or if persistence is disabled. *)
Theorem C12_emission : forall h p, fst (do_history p h) = map expected h.
Proof. exact history_emits_own. Qed.

Theorem C12_emission_one_run : forall p r, fst (do_run p r) = expected r.
Proof. exact run_emits_own. Qed.

(* non-vacuity, and the witness that the code before repair F2 violated the statement *)
Example C12_history_example :
  fst (do_history init_pstate
        [mkRun 0 PNone (Some (FkDeadlock, 1)) 2; mkRun 0 PPrint (Some (FkDeadlock, 1)) 0;
         mkRun 1 PFile (Some (FkTaskPanic, 1)) 1; mkRun 0 PPrint None 3; mkRun 0 PPrint (Some (FkStepBound, 1)) 0])
  = [[]; [EmStderr]; [EmFile]; []; [EmStderr]].
Proof. vm_compute. reflexivity. Qed.
Example C12_old_code_refuted :
  let h := [mkRun 0 PNone (Some (FkDeadlock, 1)) 0; mkRun 0 PPrint (Some (FkDeadlock, 1)) 0] in
  fst (do_history_old (mkPO None []) h) = [[]; []] /\ map expected h = [[]; [EmStderr]].
Proof. exact old_code_refuted. Qed.

(* A portfolio run (members' outcomes listed in the order they were added; None = passed, Some e = panicked with
   payload e) passes exactly when every member passes; when it fails it re-raises the payload of one of its failing
   members, never an assertion of its own, with or without stop_on_first_failure. *)
Theorem C12_portfolio_passes_iff : forall stop rs, portfolio_run stop rs = PfOk <-> Forall (fun r => r = None) rs.
Proof. exact portfolio_passes_iff. Qed.
Theorem C12_portfolio_payload_of_member : forall stop rs e, portfolio_run stop rs = PfMember e -> In (Some e) rs.
Proof. exact portfolio_payload_of_member. Qed.
Theorem C12_portfolio_never_asserts : forall stop rs, portfolio_run stop rs <> PfAssert.
Proof. exact portfolio_never_asserts. Qed.
(* the code before repair F34 failed with its own assertion *)
Example C12_portfolio_old_refuted :
  portfolio_run_old false [None; Some 7; None] = PfAssert /\ portfolio_run false [None; Some 7; None] = PfMember 7.
Proof. exact portfolio_old_refuted. Qed.

(* The ungraceful-shutdown settings in force during a run are the run's own, whatever runs (threads, settings)
   came before; a run with the default settings therefore re-raises the panicking task's own payload. *)
Theorem C12_shutdown_settings_are_own : forall h s t cfg, fst (ug_run (ug_history s h) t cfg) = cfg.
Proof. exact ug_effective_is_own. Qed.
Theorem C12_default_run_reraises_own : forall h s t sw own,
  panic_result (fst (ug_run (ug_history s h) t ug_default)) sw own = PayOwn own.
Proof. exact default_run_reraises_own. Qed.

Print Assumptions C12_emission.
Print Assumptions C12_portfolio_passes_iff.
Print Assumptions C12_portfolio_payload_of_member.
Print Assumptions C12_portfolio_never_asserts.
Print Assumptions C12_shutdown_settings_are_own.
Print Assumptions C12_default_run_reraises_own.
Print Assumptions C12_emission_one_run.
