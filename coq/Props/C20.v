(* C20 — parking_lot / dashmap / deterministic collections / rand / lazy_static replacements.

   "The parking_lot replacements satisfy the lock_api contracts on every schedule: exclusive, shared and upgradable access
    exclude one another as specified, at most one upgradable holder exists, an upgrade waits only for current shared
    holders and cannot be overtaken by a writer, every downgrade completes without waiting and without admitting a writer,
    and try-variants leave nothing behind when they fail.  Every DashMap/DashSet operation is atomic and the map's contents
    always equal those of a plain map under the same linear order of operations; the deterministic HashMap/HashSet iterate
    in an order that is a function of their operation history alone and otherwise behave like std's.  Random values
    obtained through the rand replacement and lazily initialised statics are under Shuttle's control."

   Models: Lang/PlOps.v (the wrappers as runtime-call trees over Prim/Semaphore.v, Lang/SyncOps.v, Lang/SyncOps2.v; tied to
   the crates event by event by `bin/check C20`), Lang/PlMap.v (association-list map/set), Lang/PlSpec.v (strictly fair
   counting semaphore `asem`, the two-semaphore lock machine, lock_api's admission rule).
   Statements only; proofs in Proofs/PlLockProofs.v, Proofs/PlMapProofs.v.

   PARTIAL (what is proved and what is not):
   * Sections 1-3 are proved for ALL step sequences of the lock machine over `asem` — any number of tasks, any interleaving
     of the blocks of raw_rwlock.rs, any well-bracketed use of guards (names `_partial`: they are about the abstract
     semaphore).  Section 6 closes the gap to Prim/Semaphore.v: the concrete BatchSemaphore model in strictly fair mode
     refines `asem` block by block (Proofs/PlSemRefine.v), and the CONCRETE lock machine (two concrete semaphores driven by
     Acquire::new / poll / try_acquire / release as the methods of RawRwLock issue them, by any task in any engine state)
     is simulated by the abstract one, so exclusion, one upgradable holder, admission and no-writer-during-downgrade hold of
     the concrete pair (theorems C20_concrete_...).  Side conditions of the concrete machine, i.e. what is NOT covered: executions
     being torn down (should_stop: release then closes the semaphore), queued waiters whose task has finished and Drop of
     a queued Acquire (tokio's cancellation paths; the lock code never cancels), polls answering "closed".
     Still NOT mechanised: that run_exec of a compiled PlOps program performs only such step sequences (the Atomic blocks
     of Lang/PlOps.v call exactly sem_new_waiter / sem_poll / sem_try_acquire / sem_release on the two OSem objects, and
     the crates are tied to that model by the differential check).
     Full statement (not proved): for every specs, bodies, scheduler and fuel, in every state reached by
     run_pl, the guards handed out (Log 51-64 minus Log 57) satisfy the exclusion matrix below.
   * The clauses "an upgrade cannot be overtaken by a writer" and "every downgrade completes without waiting" are FALSE of
     the code: Section 4 gives machine-level and model-level witnesses (findings F30, F7; the crates behave as the model).
   * DashMap: the model takes the inner RwLock (Lang/SyncOps.v, exclusion proved in Props/C04.v) around one atomic table
     operation (dm_block); section 7: after any sequence of table blocks the contents are the fold of the abstract steps
     and every answer is the plain map's.  That the blocks of different tasks are ordered like their lock tenures is C04's
     exclusion, not restated here; the linearizability check of tools/p_c20.py replays the crates' logs.
   * Iteration order across instances / processes is outside Coq (no hash table model): oracle only (finding F31).
   * rand: section 7 states, per entry point, the pure function of the drawn words the model uses (that the words are the
     scheduler's is the Rand node of Engine/Exec.v, replay = C01).  lazy_static: modelled (Once + storage cell), C14 covers
     isolation between executions; no separate theorem here. *)
From Coq Require Import List NArith Bool Arith Sorting.Sorted.
From SV Require Import Clock.VClock Prim.Objects Engine.Exec Lang.PlMap Lang.PlSpec Lang.PlOps.
From SV Require Import Prim.Semaphore Prim.SemInv Proofs.SemProofs Proofs.PlMapProofs Proofs.PlLockProofs Proofs.PlSemRefine Proofs.PlMiscProofs.
From SV Require Sched.Random.
Import ListNotations.
Open Scope N_scope.

(* ================================================================== *)
(* 1. The lock machine: permit accounting is an invariant              *)
(* ================================================================== *)
Theorem C20_lock_inv_init_partial : forall MAX, 0 < MAX -> lk_inv MAX (lk_init MAX).
Proof. intros MAX P. first [exact (lk_inv_init MAX P) | exact (lk_inv_init MAX)]. Qed.
Print Assumptions C20_lock_inv_init_partial.

(* every block of every operation, run by anybody at any time *)
Theorem C20_lock_step_inv_partial : forall MAX st a st', 0 < MAX ->
  lock_step MAX st a = Some st' -> lk_inv MAX st -> lk_inv MAX st'.
Proof. intros MAX st a st' P. first [exact (lock_step_inv MAX P st a st') | exact (lock_step_inv MAX st a st')]. Qed.
Print Assumptions C20_lock_step_inv_partial.

Theorem C20_lock_run_inv_partial : forall MAX l st', 0 < MAX ->
  lock_run MAX (lk_init MAX) l = Some st' -> lk_inv MAX st'.
Proof. intros MAX l st' P H. eapply lock_run_inv; eauto using lk_inv_init. Qed.
Print Assumptions C20_lock_run_inv_partial.

(* ================================================================== *)
(* 2. Exclusion, one upgradable holder, admission as lock_api specifies *)
(* ================================================================== *)
(* an exclusive guard is alone: no other exclusive, shared or upgradable guard, nothing in transit, nothing available;
   at most one upgradable guard; readers + upgradable + MAX*writers never exceed MAX.  (RawMutex is the instance MAX = 1
   with exclusive guards only.) *)
Theorem C20_exclusion_partial : forall MAX l st, 0 < MAX ->
  lock_run MAX (lk_init MAX) l = Some st ->
  (1 <= k_ex st -> k_ex st = 1 /\ k_sh st = 0 /\ k_up st = 0 /\ k_hs st = 0 /\ tot (k_s st) = 0) /\
  k_up st <= 1 /\
  (1 <= k_up st -> k_hu st = 0 /\ tot (k_u st) = 0) /\
  k_sh st + k_up st + MAX * k_ex st <= MAX.
Proof.
  intros MAX l st P H. apply inv_exclusion; [exact P|]. eapply lock_run_inv; eauto using lk_inv_init.
Qed.
Print Assumptions C20_exclusion_partial.

(* refinement to the reader / writer / upgradable state machine: whenever an operation returns a guard, lock_api's
   admission rule holds of the guards alive at that moment *)
Theorem C20_commit_admitted_partial : forall MAX l st m st', 0 < MAX ->
  lock_run MAX (lk_init MAX) l = Some st -> lock_step MAX st (LCommit m) = Some st' ->
  spec_admits m (k_sh st) (k_ex st) (k_up st).
Proof.
  intros MAX l st m st' P H C. eapply commit_admitted; [exact P| |exact C]. eapply lock_run_inv; eauto using lk_inv_init.
Qed.
Print Assumptions C20_commit_admitted_partial.

(* downgrades do not admit a writer: while the former writer still has a permit in hand there is no exclusive guard, and
   one can be handed out only to whoever has all MAX permits in hand (the downgrading task itself, before it released) *)
Theorem C20_no_writer_during_downgrade_partial : forall MAX l st, 0 < MAX ->
  lock_run MAX (lk_init MAX) l = Some st -> 1 <= k_hs st ->
  k_ex st = 0 /\ (forall st', lock_step MAX st (LCommit MExcl) = Some st' -> k_hs st = MAX).
Proof.
  intros MAX l st P H. apply no_writer_during_downgrade; [exact P|]. eapply lock_run_inv; eauto using lk_inv_init.
Qed.
Print Assumptions C20_no_writer_during_downgrade_partial.

(* ================================================================== *)
(* 3. try-variants, fairness                                            *)
(* ================================================================== *)
Theorem C20_try_fail_unchanged_partial : forall MAX (st : lk) (upg : bool) (k : N),
  (if upg then snd (a_try (k_u st) k) else snd (a_try (k_s st) k)) = false ->
  lock_step MAX st (LTry upg k) = Some st.
Proof. exact try_fail_unchanged. Qed.
Print Assumptions C20_try_fail_unchanged_partial.

(* try_lock_upgradable: slot taken, read permit refused, slot given back: the state is the one before the call *)
Theorem C20_try_lock_upgradable_rollback_partial : forall MAX st st1 st2,
  k_u st = a_new 1 -> k_hu st = 0 ->
  lock_step MAX st (LTry true 1) = Some st1 ->
  snd (a_try (k_s st1) 1) = false ->
  lock_run MAX st1 [LTry false 1; LRel true 1] = Some st2 ->
  st2 = st.
Proof. exact try_lock_upgradable_rollback. Qed.
Print Assumptions C20_try_lock_upgradable_rollback_partial.

Theorem C20_fair_try_never_overtakes : forall s k s' ok, a_try s k = (s', ok) -> a_queue s <> [] -> ok = false /\ s' = s.
Proof. exact a_try_no_overtake. Qed.
Print Assumptions C20_fair_try_never_overtakes.

Theorem C20_fair_grants_prefix : forall fuel av q rd av' q' rd',
  a_grant fuel av q rd = (av', q', rd') -> exists pre, q = pre ++ q' /\ rd' = rd ++ pre.
Proof. exact a_grant_prefix. Qed.
Print Assumptions C20_fair_grants_prefix.

(* the hypotheses are satisfiable: a full cycle of operations is a run of the machine and returns to the initial state *)
Example C20_machine_cycle :
  lock_run PL_MAX_READERS (lk_init PL_MAX_READERS)
    (op_lock_upgradable 0 1 ++ op_upgrade PL_MAX_READERS 2 ++ op_downgrade_to_upgradable PL_MAX_READERS 3 ++ op_unlock_upgradable
     ++ op_lock_shared 4 ++ op_lock_shared 5 ++ op_unlock_shared ++ op_unlock_shared
     ++ op_lock_exclusive PL_MAX_READERS 6 ++ op_downgrade PL_MAX_READERS ++ op_unlock_shared)
  = Some (lk_init PL_MAX_READERS).
Proof. vm_compute. reflexivity. Qed.

(* ================================================================== *)
(* 4. The two clauses the code does not satisfy                         *)
(* ================================================================== *)
(* "every downgrade completes without waiting": a writer (request 0) holds the lock; another task starts lock_upgradable
   (takes the slot: request 1; queues for its read permit: request 2); the writer's downgrade_to_upgradable asks for the
   slot (request 3) and is queued behind nothing it can ever get: nobody can release anything. *)
Example C20_downgrade_to_upgradable_waits_refuted :
  exists st, lock_run PL_MAX_READERS (lk_init PL_MAX_READERS)
      (op_lock_exclusive PL_MAX_READERS 0 ++ [LReq true 1 1; LReq false 2 1; LOpen MExcl; LReq true 3 1; LPoll true 3]) = Some st /\
    a_queue (k_u st) = [(3%nat, 1)] /\ a_queue (k_s st) = [(2%nat, 1)] /\ k_hs st = PL_MAX_READERS /\ k_hu st = 1 /\ a_ready (k_u st) = [].
Proof. eexists. vm_compute. repeat split; reflexivity. Qed.

(* "an upgrade cannot be overtaken by a writer": an upgradable guard exists; a writer queues (request 2); the upgrade
   queues its request (3) behind it and gives its permit back; the writer's request is granted and it gets its guard
   while the upgrade is still waiting. *)
Example C20_upgrade_overtaken_machine_refuted :
  exists st, lock_run PL_MAX_READERS (lk_init PL_MAX_READERS)
      (op_lock_upgradable 0 1 ++ [LReq false 2 PL_MAX_READERS] ++ [LOpen MUpgr; LReq false 3 PL_MAX_READERS; LRel false 1; LPoll false 2; LCommit MExcl]) = Some st /\
    k_ex st = 1 /\ a_queue (k_s st) = [(3%nat, PL_MAX_READERS)] /\ k_hu st = 1.
Proof. eexists. vm_compute. repeat split; reflexivity. Qed.

(* the same on the model of the code (Lang/PlOps.v), as whole executions under the scripted scheduler *)
Definition sc (l : list nat) : list (option nat) := map (@Some nat) l.
Definition optags (w : world) : list (nat * N * list N) :=
  rev (flat_map (fun ev => match ev with
                           | EvOp t tag vals _ => if existsb (N.eqb tag) [52; 53; 58; 62; 65; 66] then [(t, tag, vals)] else []
                           | _ => [] end) (w_trace w)).

(* main: write; spawn { upgradable_read }; downgrade_to_upgradable *)
Example C20_downgrade_to_upgradable_deadlock_refuted :
  snd (run_pl 5000 MSNone [SRw] [[QWr 0; QSp 1; QDw 0; QUl 0; QJn 0]; [QUr 0; QUl 0]] (sc [0;0;0;1;1;1;1;0]%nat) 1) = ODeadlock [0%nat; 1%nat].
Proof. vm_compute. reflexivity. Qed.

(* main: upgradable_read; spawn { upgradable_read }; with_upgraded(..)  (the exit of with_upgraded is that downgrade) *)
Example C20_with_upgraded_deadlock_refuted :
  snd (run_pl 5000 MSNone [SRw] [[QUr 0; QSp 1; QWu 0; QUl 0; QJn 0]; [QUr 0; QUl 0]] (sc [0;0;0;0;0;1;1;1;1;1]%nat) 1) = ODeadlock [0%nat; 1%nat].
Proof. vm_compute. reflexivity. Qed.

(* the same program passes under the default schedule: the deadlock depends on the interleaving *)
Example C20_downgrade_to_upgradable_passes_otherwise :
  snd (run_pl 5000 MSNone [SRw] [[QWr 0; QSp 1; QDw 0; QUl 0; QJn 0]; [QUr 0; QUl 0]] [] 1) = OPass.
Proof. vm_compute. reflexivity. Qed.

(* main: upgradable_read (sees 0); spawn { write; +1 }; upgrade; read: the writer got in between — the upgrader reads 1 *)
Example C20_upgrade_overtaken_refuted :
  let r := run_pl 5000 MSNone [SRw] [[QUr 0; QSp 1; QUp 0; QGv 0; QIv 0; QUl 0; QJn 0]; [QWr 0; QIv 0; QUl 0]]
                  (sc [0;0;0;1;1;1;1;0;0;0;0;0;1]%nat) 1 in
  snd r = OPass /\
  optags (fst (fst r)) = [(0%nat, 53, [0]); (1%nat, 52, [0]); (1%nat, 66, [0; 1]); (0%nat, 58, [0]); (0%nat, 65, [0; 1]); (0%nat, 66, [0; 2])].
Proof. vm_compute. split; reflexivity. Qed.

(* ================================================================== *)
(* 5. Collections: the association-list model refines the map          *)
(* ================================================================== *)
(* every map operation of a history acts on the abstraction (key -> option value) as the specification's operation,
   answers what the specification answers, and keeps the keys strictly ascending *)
Theorem C20_map_step_refines : forall st o st' r f' a,
  h_step st o = (st', r) -> sorted (h_m st) -> f_step (abs (h_m st)) o = Some (f', a) ->
  sorted (h_m st') /\ feq (abs (h_m st')) f' /\ res_agrees r a.
Proof. exact h_step_refines. Qed.
Print Assumptions C20_map_step_refines.

Theorem C20_map_history_invariant : forall ops st' rs, h_run h_init ops = (st', rs) -> sorted (h_m st').
Proof. intros ops st' rs H. eapply h_run_sorted; [exact H|constructor]. Qed.
Print Assumptions C20_map_history_invariant.

(* iteration of the model: the graph of the abstraction, each key once, in key order; len counts the keys *)
Theorem C20_map_iteration : forall m, sorted m ->
  NoDup (keys m) /\ StronglySorted N.lt (keys m) /\ (forall k v, In (k, v) m <-> abs m k = Some v) /\
  am_len m = N.of_nat (length (keys m)).
Proof. exact iter_is_graph. Qed.
Print Assumptions C20_map_iteration.

Theorem C20_map_laws : forall m k v x,
  abs (am_insert m k v) x = (if x =? k then Some v else abs m x) /\
  abs (am_remove m k) x = (if x =? k then None else abs m x).
Proof. intros m k v x. split; [apply abs_insert|apply abs_remove]. Qed.
Print Assumptions C20_map_laws.

Theorem C20_set_laws : forall a b k x,
  as_mem (as_insert a k) x = (x =? k) || as_mem a x /\
  as_mem (as_remove a k) x = negb (x =? k) && as_mem a x /\
  as_mem (as_union a b) x = as_mem a x || as_mem b x /\
  as_mem (as_inter a b) x = as_mem a x && as_mem b x /\
  as_mem (as_diff a b) x = as_mem a x && negb (as_mem b x) /\
  as_mem (as_xor a b) x = xorb (as_mem a x) (as_mem b x).
Proof.
  intros a b k x. split; [apply as_mem_insert|]. split; [apply as_mem_remove|]. apply set_algebra.
Qed.
Print Assumptions C20_set_laws.

Example C20_history_example :
  hist_results [HIns 3 30; HIns 1 10; HIns 3 31; HGet 3; HRem 1; HLen; HIter; HSIns 2; HBIns 5; HOr; HSIter]
  = [ROpt None; ROpt None; ROpt (Some 30); ROpt (Some 31); ROpt (Some 10); RNum 1; RPairs [(3, 31)]; RNum 1; RNum 1; RNone; RKeys [2; 5]].
Proof. vm_compute. reflexivity. Qed.

(* ================================================================== *)
(* 6. Prim/Semaphore.v (strictly fair) refines the abstract semaphore,  *)
(*    and the concrete lock machine inherits sections 1-2               *)
(* ================================================================== *)
(* abstraction: available = sm_avail; queue = the waiters of sm_queue in order with their requests; ready = the waiters of
   the acquire calls in progress (`pend`, ghost) whose has_permits is set.  srel also carries C18's sem_wf, fairness, open. *)
Theorem C20_sem_abstraction_init : forall n, srel (sem_const_new n true) [] (a_new n).
Proof. exact srel_init. Qed.
Print Assumptions C20_sem_abstraction_init.

Theorem C20_sem_try_refines : forall e s k e' s' r pend a,
  sem_try_acquire e s k = Some (e', s', r) -> srel s pend a ->
  exists a' ok, a_try a k = (a', ok) /\ srel s' pend a' /\ (r = AOk <-> ok = true) /\ r <> AClosed.
Proof. exact sem_try_refines. Qed.
Print Assumptions C20_sem_try_refines.

Theorem C20_sem_new_waiter_stutters : forall e s k s' wid pend a,
  sem_new_waiter e s k = Some (s', wid) -> srel s pend a ->
  srel s' (wid :: pend) a /\ ~ In wid pend /\
  exists w, get_waiter s' wid = Some w /\ wt_n w = k /\ wt_has w = false /\ wt_queued w = false.
Proof. exact sem_new_waiter_stutters. Qed.
Print Assumptions C20_sem_new_waiter_stutters.

(* first poll = the abstract request: served and collected on the spot, or appended to the queue *)
Theorem C20_sem_poll_first_refines : forall e s wid wk e' s' r pend a w,
  sem_poll e s wid wk = Some (e', s', r) -> srel s pend a -> In wid pend -> get_waiter s wid = Some w ->
  wt_has w = false -> wt_queued w = false ->
  exists a' ok, a_request a wid (wt_n w) = (a', ok) /\
    ((r = PReadyOk /\ ok = true /\ srel s' (rm wid pend) a') \/ (r = PPending /\ ok = false /\ srel s' pend a')).
Proof. exact sem_poll_first_refines. Qed.
Print Assumptions C20_sem_poll_first_refines.

(* a poll after a release granted the waiter = the abstract poll collecting the grant *)
Theorem C20_sem_poll_granted_refines : forall e s wid wk e' s' r pend a w,
  sem_poll e s wid wk = Some (e', s', r) -> srel s pend a -> In wid pend -> get_waiter s wid = Some w -> wt_has w = true ->
  r = PReadyOk /\ s' = s /\ exists a', a_poll a wid = (a', Some (wt_n w)) /\ srel s (rm wid pend) a'.
Proof. exact sem_poll_granted_refines. Qed.
Print Assumptions C20_sem_poll_granted_refines.

Theorem C20_sem_poll_queued_stutters : forall e s wid wk e' s' r pend a w,
  sem_poll e s wid wk = Some (e', s', r) -> srel s pend a -> get_waiter s wid = Some w ->
  wt_has w = false -> wt_queued w = true ->
  r = PPending /\ a_poll a wid = (a, None) /\ srel s' pend a.
Proof. exact sem_poll_queued_stutters. Qed.
Print Assumptions C20_sem_poll_queued_stutters.

(* unblock_waiters_from_front is the abstract grant loop: same prefix of the queue, same permits *)
Theorem C20_unblock_front_is_grant : forall fuel e s e' s' rd,
  unblock_front fuel e s = Some (e', s') -> NoDup (sm_queue s) -> nostale e s ->
  exists pre, sm_queue s = pre ++ sm_queue s' /\
    (forall wid, In wid pre -> exists w, get_waiter s wid = Some w /\ wt_has w = false /\ get_waiter s' wid = Some (grant_upd w)) /\
    (forall wid, ~ In wid pre -> get_waiter s' wid = get_waiter s wid) /\
    a_grant fuel (sm_avail s) (absq s) rd = (sm_avail s', absq s', rd ++ map (fun wid => (wid, wn s wid)) pre).
Proof. exact ub_sim. Qed.
Print Assumptions C20_unblock_front_is_grant.

Theorem C20_sem_release_refines : forall e s k e' s' pend a,
  sem_release e s k = Some (e', s') -> srel s pend a -> 0 < k -> should_stop e = Some false -> nostale e s ->
  srel s' pend (a_release a k).
Proof. exact sem_release_refines. Qed.
Print Assumptions C20_sem_release_refines.

Theorem C20_sem_drop_completed_stutters : forall e s wid e' s' r w,
  sem_drop_acquire e s wid true = Some (e', s', r) -> get_waiter s wid = Some w -> wt_queued w = false ->
  e' = e /\ s' = s /\ r = DNothing.
Proof. exact sem_drop_completed_stutters. Qed.
Print Assumptions C20_sem_drop_completed_stutters.

(* the concrete lock machine: every step is matched by at most one step of the abstract machine of section 1 *)
Theorem C20_concrete_step_simulated : forall MAX, 0 < MAX -> forall c x c' st,
  c_step MAX c x = Some c' -> crel c st -> exists l st', lock_run MAX st l = Some st' /\ crel c' st'.
Proof. exact c_step_simulated. Qed.
Print Assumptions C20_concrete_step_simulated.

Theorem C20_concrete_run_simulated : forall MAX, 0 < MAX -> forall e l c,
  c_run MAX (c_init MAX e) l = Some c -> exists la st, lock_run MAX (lk_init MAX) la = Some st /\ crel c st.
Proof. intros MAX P e l c H. eapply c_run_simulated; eauto using crel_init. Qed.
Print Assumptions C20_concrete_run_simulated.

(* sections 1-2 for the concrete pair of BatchSemaphores, any engine state, any tasks, any interleaving *)
Theorem C20_concrete_exclusion : forall MAX, 0 < MAX -> forall e l c, c_run MAX (c_init MAX e) l = Some c ->
  (1 <= c_ex c -> c_ex c = 1 /\ c_sh c = 0 /\ c_up c = 0 /\ cs_hand (c_s c) = 0 /\ sm_avail (cs_sem (c_s c)) = 0) /\
  c_up c <= 1 /\
  (1 <= c_up c -> cs_hand (c_u c) = 0 /\ sm_avail (cs_sem (c_u c)) = 0) /\
  c_sh c + c_up c + MAX * c_ex c <= MAX.
Proof. exact concrete_exclusion. Qed.
Print Assumptions C20_concrete_exclusion.

Theorem C20_concrete_commit_admitted : forall MAX, 0 < MAX -> forall e l c m c',
  c_run MAX (c_init MAX e) l = Some c -> c_step MAX c (CCommit m) = Some c' ->
  spec_admits m (c_sh c) (c_ex c) (c_up c).
Proof. exact concrete_commit_admitted. Qed.
Print Assumptions C20_concrete_commit_admitted.

Theorem C20_concrete_no_writer_during_downgrade : forall MAX, 0 < MAX -> forall e l c,
  c_run MAX (c_init MAX e) l = Some c -> 1 <= cs_hand (c_s c) ->
  c_ex c = 0 /\ (forall c', c_step MAX c (CCommit MExcl) = Some c' -> cs_hand (c_s c) = MAX).
Proof. exact concrete_no_writer_during_downgrade. Qed.
Print Assumptions C20_concrete_no_writer_during_downgrade.

(* try-variants: a failed try_acquire leaves the concrete semaphore as it was; fairness of the concrete semaphore is C18's
   C18_fair_no_overtake_* and C18_fair_grants_in_order *)
Theorem C20_sem_try_fail_unchanged : forall e s k e' s' r,
  sem_try_acquire e s k = Some (e', s', r) -> r <> AOk -> s' = s.
Proof. exact sem_try_fail_unchanged. Qed.
Print Assumptions C20_sem_try_fail_unchanged.

(* the concrete machine runs: a reader, then a writer that queues behind it, the reader's unlock hands the lock over *)
Definition e_one : exec :=
  with_current_next (with_live (with_tasks init_exec [mkTask Runnable false false false false None [0]; mkTask Runnable false false false false None [0; 0]])
                               [0%nat; 1%nat]) (SSome 0%nat) SNone.
Example C20_concrete_machine_runs :
  exists c, c_run PL_MAX_READERS (c_init PL_MAX_READERS e_one)
      [CNew false 1; CPoll false 0 0; CCommit MShared;                      (* read(): served at once *)
       CNew false PL_MAX_READERS; CPoll false 1 0;                          (* write(): queued *)
       COpen MShared; CRel false 1;                                          (* drop of the read guard: grants the writer *)
       CPoll false 1 0; CCommit MExcl] = Some c /\
    c_ex c = 1 /\ c_sh c = 0 /\ sm_avail (cs_sem (c_s c)) = 0 /\ sm_queue (cs_sem (c_s c)) = [].
Proof. eexists. vm_compute. repeat split; reflexivity. Qed.

(* ================================================================== *)
(* 7. DashMap contents; rand adapters                                   *)
(* ================================================================== *)
(* an operation = lock; one table block (dm_block); unlock.  Whatever tasks and engine states run the blocks, the cell
   holds the fold of the abstract steps in block order and each block answers what the plain map answers *)
Theorem C20_dashmap_contents_fold : forall o fs st m c,
  get_obj st (MAPCELL o) = Some (OCell (flat_of m) c) ->
  exists st', dm_run o fs st = Some (st', snd (spec_run fs m)) /\
              get_obj st' (MAPCELL o) = Some (OCell (flat_of (fst (spec_run fs m))) c).
Proof. exact dashmap_contents_fold. Qed.
Print Assumptions C20_dashmap_contents_fold.

(* fill_bytes(n): ceil(n/8) drawn words, the first n of their little-endian bytes (8 per word, each below 256) *)
Theorem C20_rand_fill_bytes_value : forall n k vs, length vs = Nat.div (n + 7) 8 ->
  feed (fill_bytes_code n k) vs = k (firstn n (flat_map (le_bytes 8) vs)).
Proof. exact fill_bytes_value. Qed.
Print Assumptions C20_rand_fill_bytes_value.

Theorem C20_rand_le_bytes : forall n v, length (le_bytes n v) = n /\ (forall b, In b (le_bytes n v) -> b < 256).
Proof. intros n v. split; [apply le_bytes_length|intros b; apply le_bytes_byte]. Qed.
Print Assumptions C20_rand_le_bytes.

(* gen_range(0..n): words failing rand's zone test are skipped; the first accepted word gives the high half of word * n *)
Theorem C20_rand_gen_range_value : forall rej v hi fuel n k,
  Forall (fun x => Random.accept_w 64 n x = None) rej -> Random.accept_w 64 n v = Some hi -> (length rej < fuel)%nat ->
  feed (gen_range_code fuel n k) (rej ++ [v]) = k hi.
Proof. exact gen_range_value. Qed.
Print Assumptions C20_rand_gen_range_value.

(* next_u32 (StdRng / ThreadRng): the low half of the drawn word; next_u64 and random::<u64>() are the word itself and
   gen::<bool>() is v_bool (the top bit of that half) — these three are read off Lang/PlOps.v (QRn, QRr, QRq) *)
Theorem C20_rand_next_u32_value : forall v, v_next_u32 v < 4294967296 /\ exists hi, v = hi * 4294967296 + v_next_u32 v.
Proof. exact next_u32_is_low_half. Qed.
Print Assumptions C20_rand_next_u32_value.

Example C20_rand_examples :
  feed (fill_bytes_code 3 (fun b => Log 82 b Ret)) [66051] = Log 82 [3; 2; 1] Ret /\
  feed (gen_range_code 4 1 (fun v => Log 84 [v] Ret)) [18446744073709551615; 5] = Log 84 [0] Ret.
Proof. vm_compute. split; reflexivity. Qed.
