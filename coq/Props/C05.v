(* ------------------------------------------------------------------------- *)
(*  SV.Props.C05 : property C05, statements only.                             *)
(*                                                                            *)
(*   A Condvar wait returns only after a notification issued while it was     *)
(*  waiting, notify_one releases at most one such waiter (any of them) and    *)
(*  notify_all releases all of them, and the mutex is released while waiting  *)
(*  and re-held on return.  Barrier::wait returns only once the configured    *)
(*  number of tasks have arrived, releases exactly that group with exactly    *)
(*  one leader per generation; Once runs exactly one initializer to           *)
(*  completion and every call_once returns only after it has.  park consumes  *)
(*  a pending unpark token if there is one (tokens do not accumulate) and     *)
(*  otherwise blocks until an unpark or a permitted spurious wake-up; and for *)
(*  all of these a notification, arrival or unpark that should release a      *)
(*  waiter always does.                                                       *)
(*                                                                            *)
(*  Level of the statements.  Each primitive is a transition system whose     *)
(*  steps are the atomic blocks of the model (Lang/SyncOps2.v, Engine/Exec.v) *)
(*  executed by any task in any engine state, interleaved with arbitrary      *)
(*  environment steps (LEnv / LBEnv / OEnv: any other block of any task; the  *)
(*  only things the environment may not do are stated in the step relation).  *)
(*  Program order inside one operation is given by the *_code_shape theorems  *)
(*  (which block follows which, and where the scheduling points are).         *)
(*                                                                            *)
(*  Every theorem is `exact` a lemma of Proofs/CondvarProofs.v,               *)
(*  Proofs/BarrierProofs.v or Proofs/OnceParkProofs.v and is followed by      *)
(*  Print Assumptions.  No clause of C05 was found false of the model.        *)
(*  Remarks (true, but worth knowing):                                        *)
(*   (R1) the task that completes a barrier group is always its leader        *)
(*        (C05_bar_releaser_is_leader): it runs its leave in the segment of   *)
(*        its arrival, so the first task to wake up   of barrier.rs is never  *)
(*        one of the tasks that were blocked.                                 *)
(*   (R2) Barrier::new(0) behaves as Barrier::new(1): every arrival releases  *)
(*        a group of one (C05_bar_group_size with max 1 bound).               *)
(*   (R0) ported to the repaired once.rs: call_once has a scheduling point     *)
(*        between the end of the initializer and once_complete                 *)
(*        (C05_call_once_code_shape, C05_call_once_winner_tail_shape).  The    *)
(*        transition system already interleaved arbitrary steps between any    *)
(*        two blocks, so C05_once_exactly_one / C05_once_return_after_done     *)
(*        hold unchanged; C05_once_init_window states what the other tasks see *)
(*        in the new window, C05_ex_once_window exhibits it.                   *)
(*   (R3) liveness clauses (always does)     are stated as: in every state of   *)
(*        the transition system the releasing block does not panic and makes  *)
(*        the waiters runnable; the only side conditions are the ones the     *)
(*        Rust code asserts (the notifier is not itself a waiter) and that    *)
(*        vector-clock entries do not overflow u32 (inc_ok).                  *)
(* ------------------------------------------------------------------------- *)
From Coq Require Import List NArith Bool Arith Lia.
From SV Require Import Params Clock.VClock Prim.Objects Engine.Exec Prim.Semaphore
                       Lang.Code Lang.ThreadOps Lang.SyncOps Lang.SyncOps2
                       Proofs.CondvarProofs Proofs.BarrierProofs Proofs.OnceParkProofs.
Import ListNotations.
Local Open Scope nat_scope.

(* ========================================================================= *)
(*  PART A : Condvar                                                          *)
(* ========================================================================= *)

(* the invariant of the waiter list (CvInv: every entry is Waiting with its task blocked, or
   Signal with a non-empty strictly increasing list of issued, unconsumed epochs not older than its
   enqueue and its task runnable, or Broadcast with its task runnable; no task twice) holds
   initially and is preserved by every step *)
Theorem C05_cv_init_inv : forall cv s, cv_init cv s -> CvInv cv s.
Proof. exact cv_init_inv. Qed.
Print Assumptions C05_cv_init_inv.

Theorem C05_cv_step_inv : forall cv s l s', CvInv cv s -> cvstep cv s l s' -> CvInv cv s'.
Proof. exact cvstep_inv. Qed.
Print Assumptions C05_cv_step_inv.

Theorem C05_cv_run_inv : forall cv s tr s', CvInv cv s -> cvrun cv s tr s' -> CvInv cv s'.
Proof. exact cvrun_inv. Qed.
Print Assumptions C05_cv_run_inv.

(* cv_wake_justified: the consuming block returns only for a waiter holding a signal or a broadcast *)
Theorem C05_cv_wake_justified : forall e st cv e' st' m ws ne,
  cv_wake e st cv = Some (e', st') -> me e = Some m -> get_obj st cv = Some (OCondvar ws ne) ->
  (exists ep c rest, assoc_get ws m = Some (CvSignal ((ep, c) :: rest))) \/
  (exists c, assoc_get ws m = Some (CvBroadcast c)).
Proof. exact cv_wake_justified. Qed.
Print Assumptions C05_cv_wake_justified.

(* ... and for such a waiter it does return (no lost wake-up at the consuming end) *)
Theorem C05_cv_wake_succeeds : forall cv e st g m k,
  CvInv cv (mkCv e st g) -> me e = Some m -> wake_kind_of (cv_ws cv (mkCv e st g)) m = Some k ->
  inc_ok e m ->
  exists e' st', cv_wake e st cv = Some (e', st').
Proof. exact cv_wake_succeeds. Qed.
Print Assumptions C05_cv_wake_succeeds.

(* the epoch / broadcast consumed was issued after the waiter was enqueued, and was not consumed before *)
Theorem C05_cv_wake_after_enqueue : forall cv s l s',
  CvInv cv s -> cvstep cv s l s' ->
  match l with
  | LWakeSig t ep => g_enq_ep (c_g s) t <= ep /\ ep < cv_ne cv s /\ ~ In ep (g_cons (c_g s))
  | LWakeBc t => g_enq_bc (c_g s) t < g_nbc (c_g s)
  | _ => True
  end.
Proof. exact cv_wake_after_enqueue. Qed.
Print Assumptions C05_cv_wake_after_enqueue.

(* THE condvar theorem (trace form): in any execution from a fresh condvar every signal wake-up of t
   through epoch ep is preceded by  LEnq t ... LNotifyOne ep ...  with no step of t's own wait in
   between; every broadcast wake-up by  LEnq t ... LNotifyAll ... *)
Theorem C05_cv_wait_returns_after_notification : forall cv s tr s',
  cv_init cv s -> g_nbc (c_g s) = 0 -> cvrun cv s tr s' ->
  (forall pre t ep post, tr = pre ++ LWakeSig t ep :: post ->
     exists a b c, pre = a ++ LEnq t :: b ++ LNotifyOne ep :: c /\ quiet t (b ++ LNotifyOne ep :: c)) /\
  (forall pre t post, tr = pre ++ LWakeBc t :: post ->
     exists a b c, pre = a ++ LEnq t :: b ++ LNotifyAll :: c /\ quiet t (b ++ LNotifyAll :: c)).
Proof. exact cv_wait_returns_after_notification. Qed.
Print Assumptions C05_cv_wait_returns_after_notification.

(* cv_epoch_once: the consumed epoch is removed from every other waiter ... *)
Theorem C05_cv_epoch_once : forall cv s t ep s',
  CvInv cv s -> cvstep cv s (LWakeSig t ep) s' ->
  forall tid eps, In (tid, CvSignal eps) (cv_ws cv s') -> ~ In ep (eps_of eps).
Proof. exact cv_epoch_once. Qed.
Print Assumptions C05_cv_epoch_once.

(* ... hence no two signal wake-ups consume the same epoch and #signal wake-ups <= #notify_one *)
Theorem C05_cv_notify_one_at_most_one : forall cv s tr s',
  cv_init cv s -> cvrun cv s tr s' ->
  NoDup (sig_epochs tr) /\ length (sig_epochs tr) <= count_n1 tr.
Proof. exact cv_signal_wakeups_bounded. Qed.
Print Assumptions C05_cv_notify_one_at_most_one.

(* cv_blocked_means_all_consumed *)
Theorem C05_cv_blocked_means_all_consumed : forall ws e ep e' ws' t,
  cv_consume_epoch e ws ep = Some (e', ws') -> NoDup (map fst ws) ->
  st_of e' t <> st_of e t ->
  exists c, In (t, CvSignal [(ep, c)]) ws /\ In (t, CvWaiting) ws' /\ st_of e' t = Some (Blocked false).
Proof. exact cv_blocked_means_all_consumed. Qed.
Print Assumptions C05_cv_blocked_means_all_consumed.

Theorem C05_cv_blocked_waiter_is_waiting : forall cv s t stt b,
  CvInv cv s -> In (t, stt) (cv_ws cv s) -> st_of (c_e s) t = Some (Blocked b) -> stt = CvWaiting.
Proof. exact cv_blocked_waiter_is_waiting. Qed.
Print Assumptions C05_cv_blocked_waiter_is_waiting.

(* cv_pending_runnable: no lost wake-up *)
Theorem C05_cv_pending_runnable : forall cv s t stt,
  CvInv cv s -> In (t, stt) (cv_ws cv s) -> stt <> CvWaiting -> st_of (c_e s) t = Some Runnable.
Proof. exact cv_pending_runnable. Qed.
Print Assumptions C05_cv_pending_runnable.

Theorem C05_cv_waiting_blocked : forall cv s t,
  CvInv cv s -> In (t, CvWaiting) (cv_ws cv s) -> st_of (c_e s) t = Some (Blocked false).
Proof. exact cv_waiting_blocked. Qed.
Print Assumptions C05_cv_waiting_blocked.

(* cv_broadcast_all *)
Theorem C05_cv_broadcast_all : forall e st cv e' st' ws ne,
  cv_notify_all e st cv = Some (e', st') -> get_obj st cv = Some (OCondvar ws ne) ->
  exists c, get_obj st' cv = Some (OCondvar (relabel (fun _ => CvBroadcast c) ws) ne) /\
    (forall t, In t (map fst ws) -> st_of e' t = Some Runnable) /\
    (forall t, ~ In t (map fst ws) -> st_of e' t = st_of e t).
Proof. exact cv_broadcast_all. Qed.
Print Assumptions C05_cv_broadcast_all.

(* cv_notify_one_any: every enqueued waiter receives the new epoch and is runnable: any may win *)
Theorem C05_cv_notify_one_any : forall e st cv e' st' ws ne,
  cv_notify_one e st cv = Some (e', st') -> get_obj st cv = Some (OCondvar ws ne) ->
  exists c, get_obj st' cv = Some (OCondvar (relabel (n1_status ne c) ws) (S ne)) /\
    (forall t stt, In (t, stt) (relabel (n1_status ne c) ws) -> holds_epoch ne stt) /\
    (forall t, In t (map fst ws) -> st_of e' t = Some Runnable) /\
    (forall t, ~ In t (map fst ws) -> st_of e' t = st_of e t).
Proof. exact cv_notify_one_any. Qed.
Print Assumptions C05_cv_notify_one_any.

(* a notification never fails in a reachable state *)
Theorem C05_cv_notify_succeeds : forall cv e st g m (all : bool),
  CvInv cv (mkCv e st g) -> me e = Some m -> alive e m -> ~ In m (map fst (cv_ws cv (mkCv e st g))) ->
  exists e' st', (if all then cv_notify_all e st cv else cv_notify_one e st cv) = Some (e', st').
Proof. exact cv_notify_succeeds. Qed.
Print Assumptions C05_cv_notify_succeeds.

(* cv_mutex_protocol *)
Theorem C05_cv_wait_code_shape : forall cv m kont,
  cv_wait_code cv m kont =
  Switch (atomic_u (mutex_release_block m)
    (atomic_u (fun e st => cv_enqueue e st cv)
      (Switch (atomic_u (fun e st => cv_wake e st cv) (mutex_lock_code m kont))))).
Proof. exact cv_wait_code_shape. Qed.
Print Assumptions C05_cv_wait_code_shape.

Theorem C05_cv_notify_code_shape : forall cv all kont,
  cv_notify_code cv all kont =
  Switch (atomic_u (fun e st => if all then cv_notify_all e st cv else cv_notify_one e st cv) kont).
Proof. exact cv_notify_code_shape. Qed.
Print Assumptions C05_cv_notify_code_shape.

Theorem C05_cv_wait_release_enqueue_same_segment :
  forall (SS : Type) (sch : scheduler SS) ms cv m k w st e1 s1 e2 s2,
  mutex_release_block m (w_e w) (w_s w) = Some (e1, s1) ->
  cv_enqueue e1 s1 cv = Some (e2, s2) ->
  run_seg sch ms (atomic_u (mutex_release_block m) (atomic_u (fun e st => cv_enqueue e st cv) (Switch k))) w st
  = run_seg sch ms (Switch k) (mkWorld e2 s2 (w_conts w) (w_trace w)) st.
Proof. exact @cv_wait_release_enqueue_same_segment. Qed.
Print Assumptions C05_cv_wait_release_enqueue_same_segment.

Theorem C05_cv_wait_mutex_released_while_waiting : forall cv m e st e1 s1 e2 s2 t,
  cv <> m -> me e = Some t ->
  mutex_release_block m e st = Some (e1, s1) -> me e1 = Some t ->
  cv_enqueue e1 s1 cv = Some (e2, s2) ->
  (exists s p, get_obj s2 m = Some (OMutex None s p)) /\
  st_of e2 t = Some (Blocked false) /\
  (exists ws ne, get_obj s2 cv = Some (OCondvar (ws ++ [(t, CvWaiting)]) ne)).
Proof. exact cv_wait_mutex_released_while_waiting. Qed.
Print Assumptions C05_cv_wait_mutex_released_while_waiting.

Theorem C05_mutex_lock_code_shape : forall oid kont,
  mutex_lock_code oid kont =
  atomic_b (mutex_lock_check oid)
    (fun closed => if closed then Switch (mutex_finish oid kont)
                   else acquire_blocking oid 1 (fun ok => if ok then mutex_finish oid kont else Panic)).
Proof. exact mutex_lock_code_shape. Qed.
Print Assumptions C05_mutex_lock_code_shape.

Theorem C05_cv_wait_mutex_reheld : forall oid e st e' st' p,
  mutex_set_holder e st oid = Some (e', st', p) ->
  exists m s, me e = Some m /\ get_obj st oid = Some (OMutex None s p) /\ get_obj st' oid = Some (OMutex (Some m) s p).
Proof. exact cv_wait_mutex_reheld. Qed.
Print Assumptions C05_cv_wait_mutex_reheld.

(* ========================================================================= *)
(*  PART B : Barrier                                                          *)
(* ========================================================================= *)
Theorem C05_bar_init_inv : forall b bound s, bar_init b bound s -> BarInv b s.
Proof. exact bar_init_inv. Qed.
Print Assumptions C05_bar_init_inv.

Theorem C05_bar_step_inv : forall b s l s', BarInv b s -> barstep b s l s' -> BarInv b s'.
Proof. exact barstep_inv. Qed.
Print Assumptions C05_bar_step_inv.

Theorem C05_bar_release_exact : forall e st b e' st' ep blocked m bound epoch ws toks clk,
  barrier_arrive e st b = Some (e', st', ep, blocked) ->
  me e = Some m -> get_obj st b = Some (OBarrier bound epoch ws toks clk) ->
  ep = epoch /\ ~ In m ws /\ me e' = me e /\ barrier_will_block st b = Some blocked /\
  if blocked then
    length ws + 1 < bound /\
    (exists clk', get_obj st' b = Some (OBarrier bound epoch (ws ++ [m]) toks clk')) /\
    st_of e' m = Some (Blocked false) /\ (forall t, t <> m -> st_of e' t = st_of e t)
  else
    bound <= length ws + 1 /\ ~ In epoch toks /\
    (exists clk', get_obj st' b = Some (OBarrier bound (S epoch) [] (toks ++ [epoch]) clk')) /\
    (forall t, In t (ws ++ [m]) -> st_of e' t = Some Runnable) /\
    (forall t, ~ In t (ws ++ [m]) -> st_of e' t = st_of e t).
Proof. exact bar_release_exact. Qed.
Print Assumptions C05_bar_release_exact.

Theorem C05_bar_waiters_blocked : forall b s t,
  BarInv b s -> In t (bar_ws b s) -> st_of (b_e s) t = Some (Blocked false).
Proof. exact bar_waiters_blocked. Qed.
Print Assumptions C05_bar_waiters_blocked.

Theorem C05_bar_group_size : forall b s t ep s',
  BarInv b s -> barstep b s (LArr t ep false) s' ->
  length (bar_ws b s ++ [t]) = Nat.max 1 (bar_bound b s).
Proof. exact bar_group_size. Qed.
Print Assumptions C05_bar_group_size.

Theorem C05_bar_reuse : forall e st b g e' st' leader bound epoch ws toks clk,
  barrier_leave e st b g = Some (e', st', leader) ->
  get_obj st b = Some (OBarrier bound epoch ws toks clk) ->
  e' = e /\ leader = inb g toks /\
  exists toks', get_obj st' b = Some (OBarrier bound epoch ws toks' clk) /\
    ~ In g toks' /\ (forall g', g' <> g -> (In g' toks' <-> In g' toks)) /\
    (NoDup toks -> NoDup toks').
Proof. exact bar_reuse. Qed.
Print Assumptions C05_bar_reuse.

Theorem C05_bar_generations : forall b bound s tr s',
  bar_init b bound s -> barrun b s tr s' ->
  (forall g, g < bar_epoch b s' -> count_arr g tr = Nat.max 1 bound /\ count_leader g tr <= 1) /\
  count_arr (bar_epoch b s') tr = length (bar_ws b s') /\ length (bar_ws b s') < Nat.max 1 bound /\
  (forall g, bar_epoch b s' <= g -> count_leader g tr = 0).
Proof. exact bar_generations. Qed.
Print Assumptions C05_bar_generations.

Theorem C05_bar_one_leader : forall b bound s tr1 g x tr2 s' t,
  bar_init b bound s -> barrun b s (tr1 ++ LLeave g x :: tr2) s' ->
  In (LArr t g false) tr1 ->
  count_leader g (tr1 ++ LLeave g x :: tr2) = 1.
Proof. exact bar_one_leader. Qed.
Print Assumptions C05_bar_one_leader.

Theorem C05_barrier_wait_code_shape : forall b kont,
  barrier_wait_code b kont =
  atomic_b (fun e st => match barrier_will_block st b with Some wb => Some (e, st, wb) | None => None end)
    (fun wb => switch_if (negb wb)
      (Atomic (fun e st => match barrier_arrive e st b with
                           | Some (e', st', ep, blocked) => Some (e', st', [N.of_nat ep; b2n blocked]) | None => None end)
        (fun a => match a with
                  | [ep; blk] => if N.eqb blk 1 then Switch (bar_leave_code b ep kont) else bar_leave_code b ep kont
                  | _ => Panic end))).
Proof. exact barrier_wait_code_shape. Qed.
Print Assumptions C05_barrier_wait_code_shape.

Theorem C05_bar_releaser_is_leader : forall e st b e' st' ep m bound epoch ws toks clk,
  barrier_arrive e st b = Some (e', st', ep, false) ->
  me e = Some m -> get_obj st b = Some (OBarrier bound epoch ws toks clk) ->
  exists st'', barrier_leave e' st' b ep = Some (e', st'', true).
Proof. exact bar_releaser_is_leader. Qed.
Print Assumptions C05_bar_releaser_is_leader.

(* an arrival never fails in a reachable state (clock entries must not overflow u32; the arriving
   task's own entry is incremented twice when it releases the group) *)
Theorem C05_barrier_arrive_succeeds : forall b e st L m,
  BarInv b (mkB e st L) -> me e = Some m -> alive e m -> ~ In m (bar_ws b (mkB e st L)) ->
  inc_room e m 2 -> (forall t, In t (bar_ws b (mkB e st L)) -> inc_ok e t) ->
  exists e' st' ep blk, barrier_arrive e st b = Some (e', st', ep, blk).
Proof. exact barrier_arrive_succeeds. Qed.
Print Assumptions C05_barrier_arrive_succeeds.

(* ========================================================================= *)
(*  PART C : Once                                                             *)
(* ========================================================================= *)
Theorem C05_call_once_code_shape : forall o mx body kont,
  call_once_code o mx body kont =
  atomic_b (fun e st => once_enter e st o)
    (fun need => if negb need then kont else
      mutex_lock_code mx (fun res =>
        match res with
        | LkPoisoned => Panic
        | _ => atomic_b (once_test_block o)
                 (fun done => if done then mutex_unlock_code mx kont
                              else body (Switch (atomic_u (fun e st => once_complete e st o) (mutex_unlock_code mx kont))))
        end)).
Proof. exact call_once_code_shape. Qed.
Print Assumptions C05_call_once_code_shape.

(* the winner's tail after the repair of once.rs: initializer; SWITCH; once_complete; SWITCH; release; kont *)
Theorem C05_call_once_winner_tail_shape : forall o mx kont,
  Switch (atomic_u (fun e st => once_complete e st o) (mutex_unlock_code mx kont)) =
  Switch (atomic_u (fun e st => once_complete e st o) (Switch (atomic_u (mutex_release_block mx) kont))).
Proof. exact call_once_winner_tail_shape. Qed.
Print Assumptions C05_call_once_winner_tail_shape.

Theorem C05_once_init_inv : forall o mx s, once_init o mx s -> OnceInv o mx s.
Proof. exact once_init_inv. Qed.
Print Assumptions C05_once_init_inv.

Theorem C05_once_step_inv : forall o mx s l s', o <> mx -> OnceInv o mx s -> ostep o mx s l s' -> OnceInv o mx s'.
Proof. exact ostep_inv. Qed.
Print Assumptions C05_once_step_inv.

Theorem C05_once_exactly_one : forall o mx s tr s',
  o <> mx -> once_init o mx s -> orun o mx s tr s' ->
  count_if is_start tr <= 1 /\ count_if is_done tr <= count_if is_start tr /\
  (existsb is_return tr = true -> count_if is_start tr = 1 /\ count_if is_done tr = 1).
Proof. exact once_exactly_one. Qed.
Print Assumptions C05_once_exactly_one.

Theorem C05_once_return_after_done : forall o mx s l s',
  o <> mx -> OnceInv o mx s -> ostep o mx s l s' -> is_return l = true ->
  is_complete (once_st o s') = true.
Proof. exact once_return_after_done. Qed.
Print Assumptions C05_once_return_after_done.

(* while the winner is between its flag test and once_complete - running the initializer, or stopped
   at the scheduling point that now follows it - the flag is false, the state is not Complete, every
   other call_once must take the lock, and nobody can take it *)
Theorem C05_once_init_window : forall o mx s,
  OnceInv o mx s -> held mx s -> o_phase s = PhInit ->
  once_fl o s = false /\ is_complete (once_st o s) = false /\
  (forall e' st' t need, me (o_e s) = Some t -> once_enter (o_e s) (o_s s) o = Some (e', st', need) -> need = true) /\
  (forall e' st' p, mutex_set_holder (o_e s) (o_s s) mx = Some (e', st', p) -> False).
Proof. exact once_init_window. Qed.
Print Assumptions C05_once_init_window.

Theorem C05_once_complete_stable : forall o mx s l s',
  o <> mx -> OnceInv o mx s -> ostep o mx s l s' ->
  is_complete (once_st o s) = true -> is_complete (once_st o s') = true.
Proof. exact once_complete_stable. Qed.
Print Assumptions C05_once_complete_stable.

Theorem C05_once_holder_protocol : forall o mx s l s',
  o <> mx -> OnceInv o mx s -> ostep o mx s l s' ->
  match l with
  | OAcquire t => mx_holder mx (o_s s) = None /\ mx_holder mx (o_s s') = Some t
  | ORelease t => mx_holder mx (o_s s) = Some t /\ mx_holder mx (o_s s') = None
  | OTest t _ | OComplete t => mx_holder mx (o_s s) = Some t /\ mx_holder mx (o_s s') = Some t
  | _ => mx_holder mx (o_s s') = mx_holder mx (o_s s)
  end.
Proof. exact once_holder_protocol. Qed.
Print Assumptions C05_once_holder_protocol.

Theorem C05_once_release_block_is_release : forall o mx e st e' st',
  o <> mx -> mutex_release_block mx e st = Some (e', st') ->
  get_obj st' o = get_obj st o /\ exists s' p', get_obj st' mx = Some (OMutex None s' p').
Proof. exact once_release_block_is_release. Qed.
Print Assumptions C05_once_release_block_is_release.

Theorem C05_once_is_completed_spec : forall e st o e' st' r,
  once_is_completed e st o = Some (e', st', r) ->
  st' = st /\ exists s flag mx, get_obj st o = Some (OOnce s flag mx) /\ r = is_complete s.
Proof. exact once_is_completed_spec. Qed.
Print Assumptions C05_once_is_completed_spec.

(* ========================================================================= *)
(*  PART D : park / unpark                                                    *)
(* ========================================================================= *)
Theorem C05_e_park_spec : forall e t e' sw,
  e_park e t = Some (e', sw) ->
  exists tk tk', get_task e t = Some tk /\ get_task e' t = Some tk' /\
    (forall t', t' <> t -> get_task e' t' = get_task e t') /\ me e' = me e /\
    t_inpark tk = false /\ is_blocked tk = false /\
    if t_token tk then sw = false /\ tk' = set_park tk false false
    else sw = true /\ is_finished tk = false /\ tk' = set_state (set_park tk false true) (Blocked true).
Proof. exact e_park_spec. Qed.
Print Assumptions C05_e_park_spec.

Theorem C05_e_unpark_spec : forall e t e',
  e_unpark e t = Some e' ->
  exists tk tk', get_task e t = Some tk /\ get_task e' t = Some tk' /\
    (forall t', t' <> t -> get_task e' t' = get_task e t') /\ me e' = me e /\
    if t_inpark tk then can_spur tk = true /\ t_token tk = false /\ tk' = unblock_task tk
    else tk' = set_park tk true false.
Proof. exact e_unpark_spec. Qed.
Print Assumptions C05_e_unpark_spec.

Theorem C05_park_consumes_token : forall e t tk,
  get_task e t = Some tk -> t_inpark tk = false -> is_blocked tk = false -> t_token tk = true ->
  exists e' tk', e_park e t = Some (e', false) /\ get_task e' t = Some tk' /\
    t_token tk' = false /\ t_inpark tk' = false /\ t_state tk' = t_state tk.
Proof. exact park_consumes_token. Qed.
Print Assumptions C05_park_consumes_token.

Theorem C05_park_blocks_without_token : forall e t tk,
  get_task e t = Some tk -> t_inpark tk = false -> is_blocked tk = false -> is_finished tk = false ->
  t_token tk = false ->
  exists e' tk', e_park e t = Some (e', true) /\ get_task e' t = Some tk' /\
    t_state tk' = Blocked true /\ t_inpark tk' = true /\ t_token tk' = false /\ can_spur tk' = true.
Proof. exact park_blocks_without_token. Qed.
Print Assumptions C05_park_blocks_without_token.

Theorem C05_unpark_parked : forall e t tk,
  get_task e t = Some tk -> t_inpark tk = true -> t_state tk = Blocked true -> t_token tk = false ->
  exists e' tk', e_unpark e t = Some e' /\ get_task e' t = Some tk' /\
    t_state tk' = Runnable /\ t_inpark tk' = false /\ t_token tk' = false.
Proof. exact unpark_parked. Qed.
Print Assumptions C05_unpark_parked.

Theorem C05_unpark_not_parked : forall e t tk,
  get_task e t = Some tk -> t_inpark tk = false ->
  exists e' tk', e_unpark e t = Some e' /\ get_task e' t = Some tk' /\
    t_token tk' = true /\ t_inpark tk' = false /\ t_state tk' = t_state tk.
Proof. exact unpark_not_parked. Qed.
Print Assumptions C05_unpark_not_parked.

Theorem C05_unpark_idempotent : forall e t e1 e2,
  e_unpark e t = Some e1 -> e_unpark e1 t = Some e2 ->
  (exists tk, get_task e t = Some tk /\ t_inpark tk = false) ->
  forall t', get_task e2 t' = get_task e1 t'.
Proof. exact unpark_idempotent. Qed.
Print Assumptions C05_unpark_idempotent.

Theorem C05_tokens_do_not_accumulate : forall e t tk e1 e2 e3 sw3 e4 sw4,
  get_task e t = Some tk -> t_inpark tk = false ->
  e_unpark e t = Some e1 -> e_unpark e1 t = Some e2 ->
  e_park e2 t = Some (e3, sw3) -> e_park e3 t = Some (e4, sw4) ->
  sw3 = false /\ sw4 = true.
Proof. exact tokens_do_not_accumulate. Qed.
Print Assumptions C05_tokens_do_not_accumulate.

Theorem C05_park_inv_park : forall e t e' sw, park_inv e -> e_park e t = Some (e', sw) -> park_inv e'.
Proof. exact park_inv_park. Qed.
Print Assumptions C05_park_inv_park.

Theorem C05_park_inv_unpark : forall e t e', park_inv e -> e_unpark e t = Some e' -> park_inv e'.
Proof. exact park_inv_unpark. Qed.
Print Assumptions C05_park_inv_unpark.

Theorem C05_park_inv_unblock : forall e t e', park_inv e -> e_unblock e t = Some e' -> park_inv e'.
Proof. exact park_inv_unblock. Qed.
Print Assumptions C05_park_inv_unblock.

Theorem C05_park_inv_block : forall e t b e',
  park_inv e -> e_block e t b = Some e' ->
  (forall tk, get_task e t = Some tk -> t_inpark tk = false) -> park_inv e'.
Proof. exact park_inv_block. Qed.
Print Assumptions C05_park_inv_block.

Theorem C05_park_token_excl_block : forall e t b e' t' tk',
  (forall tk, get_task e t' = Some tk -> t_token tk = true -> t_inpark tk = true -> False) ->
  e_block e t b = Some e' -> get_task e' t' = Some tk' -> t_token tk' = true -> t_inpark tk' = true -> False.
Proof. exact park_token_excl_block. Qed.
Print Assumptions C05_park_token_excl_block.

Theorem C05_unpark_never_lost : forall e t e',
  e_unpark e t = Some e' ->
  exists tk tk', get_task e t = Some tk /\ get_task e' t = Some tk' /\ t_inpark tk' = false /\
    ((t_inpark tk = true /\ t_state tk' = Runnable) \/
     (t_inpark tk = false /\ t_token tk' = true /\ t_state tk' = t_state tk)).
Proof. exact unpark_never_lost. Qed.
Print Assumptions C05_unpark_never_lost.

Theorem C05_unpark_then_park_returns : forall e t e' tk,
  get_task e t = Some tk -> t_inpark tk = false -> is_blocked tk = false ->
  e_unpark e t = Some e' ->
  exists e'', e_park e' t = Some (e'', false).
Proof. exact unpark_then_park_returns. Qed.
Print Assumptions C05_unpark_then_park_returns.

Theorem C05_park_spurious_permitted : forall e t tk e',
  get_task e t = Some tk -> t_state tk = Blocked true -> t_inpark tk = true -> t_token tk = false ->
  (is_runnable tk || can_spur tk = true) /\
  (e_unblock e t = Some e' ->
   exists tk', get_task e' t = Some tk' /\ t_state tk' = Runnable /\ t_inpark tk' = false /\ t_token tk' = false).
Proof. exact park_spurious_permitted. Qed.
Print Assumptions C05_park_spurious_permitted.

Theorem C05_parked_stays_blocked : forall e t tk,
  get_task e t = Some tk -> t_state tk = Blocked true ->
  (forall e', e_waker_wake e t = Some e' -> st_of e' t = Some (Blocked true)) /\
  (forall e', e_abort e t = Some e' -> st_of e' t = Some (Blocked true)) /\
  (forall e' c, e_update_clock e t c = Some e' -> st_of e' t = Some (Blocked true)).
Proof. exact parked_stays_blocked. Qed.
Print Assumptions C05_parked_stays_blocked.

Theorem C05_park_code_shape : forall k,
  park_code k =
  atomic_b (fun e s => match me e with
                       | Some m => match e_park e m with
                                   | Some (e', true) => Some (e_request_yield e', s, true)
                                   | Some (e', false) => Some (e', s, false)
                                   | None => None end
                       | None => None end)
    (fun sw => if sw then Switch k else k).
Proof. exact park_code_shape. Qed.
Print Assumptions C05_park_code_shape.

Theorem C05_unpark_code_shape : forall t k,
  unpark_code t k = Switch (atomic_u (fun e s => match e_unpark e t with Some e' => Some (e', s) | None => None end) k).
Proof. exact unpark_code_shape. Qed.
Print Assumptions C05_unpark_code_shape.

(* ========================================================================= *)
(*  PART E : non-vacuity - concrete executions of the model                   *)
(* ========================================================================= *)
(* n runnable tasks with zero clocks; `as_task e t` makes t the running task *)
Definition mk_task (n : nat) : task := mkTask Runnable false false false false None (repeat 0%N n).
Definition mk_exec (n : nat) : exec :=
  mkExec (repeat (mk_task n) n) (SSome 0) SNone false 0 0 (seq 0 n) [] false false.
Definition as_task (e : exec) (t : nat) : exec := with_current_next e (SSome t) SNone.
Definition by_task (f : exec -> store -> option (exec * store)) (t : nat) (x : option (exec * store)) :=
  match x with Some (e, st) => f (as_task e t) st | None => None end.

(* ---- E1 : the five-thread scenario of the comment in condvar.rs ---- *)
Inductive sview := VW | VS (l : list nat) | VB.
Definition view_status (s : cv_status) : sview :=
  match s with CvWaiting => VW | CvSignal eps => VS (map fst eps) | CvBroadcast _ => VB end.
(* (waiters with their pending epochs, next_epoch, scheduling state of tasks 0..4) *)
Definition cv_view (x : option (exec * store)) :=
  match x with
  | Some (e, st) => match get_obj st 0 with
                    | Some (OCondvar ws ne) =>
                      Some (map (fun p => (fst p, view_status (snd p))) ws, ne, map t_state (tasks e))
                    | _ => None end
  | None => None end.
Definition enq := by_task (fun e st => cv_enqueue e st 0).
Definition wake := by_task (fun e st => cv_wake e st 0).
Definition n1 := by_task (fun e st => cv_notify_one e st 0).
Definition nall := by_task (fun e st => cv_notify_all e st 0).
Definition cv0 : option (exec * store) := Some (mk_exec 5, [OCondvar [] 0]).

(* Threads 1..5 of the comment are tasks 0..4; Thread 3 (task 2) notifies.
   (1) T1 wait (2) T2 wait (3) notify_one (4) T4 wait (5) T5 wait (6) notify_one *)
Definition after6 := n1 2 (enq 4 (enq 3 (n1 2 (enq 1 (enq 0 cv0))))).

(* "after (6), all 4 waiter threads are runnable"; Threads 1 and 2 have epoch list [0, 1], Threads 4 and 5 [1] *)
Example C05_ex_cv_after_6 :
  cv_view after6 =
  Some ([(0, VS [0; 1]); (1, VS [0; 1]); (3, VS [1]); (4, VS [1])], 2,
        [Runnable; Runnable; Runnable; Runnable; Runnable]).
Proof. vm_compute. reflexivity. Qed.

(* (7) Thread 4 wakes: it consumes epoch 1; Thread 5 is made unrunnable, Threads 1 and 2 keep epoch 0 *)
Example C05_ex_cv_after_7 :
  cv_view (wake 3 after6) =
  Some ([(0, VS [0]); (1, VS [0]); (4, VW)], 2,
        [Runnable; Runnable; Runnable; Runnable; Blocked false]).
Proof. vm_compute. reflexivity. Qed.

(* "whichever of Threads 1 and 2 wins the subsequent race ... make[s] that thread unrunnable again" *)
Example C05_ex_cv_then_thread1 :
  cv_view (wake 0 (wake 3 after6)) =
  Some ([(1, VW); (4, VW)], 2, [Runnable; Blocked false; Runnable; Runnable; Blocked false]).
Proof. vm_compute. reflexivity. Qed.
Example C05_ex_cv_then_thread2 :
  cv_view (wake 1 (wake 3 after6)) =
  Some ([(0, VW); (4, VW)], 2, [Blocked false; Runnable; Runnable; Runnable; Blocked false]).
Proof. vm_compute. reflexivity. Qed.

(* two notify_one, two wake-ups: a third consuming block (by a waiter that could only run through a
   scheduler bug) is refused: "should not have been woken while in Waiting status" *)
Example C05_ex_cv_no_third_wakeup : wake 1 (wake 0 (wake 3 after6)) = None.
Proof. vm_compute. reflexivity. Qed.

(* the second scenario of the comment: notify_all releases Threads 1 and 2, not Thread 4 that waits later *)
Example C05_ex_cv_notify_all :
  cv_view (n1 2 (enq 3 (nall 2 (enq 1 (enq 0 cv0))))) =
  Some ([(0, VB); (1, VB); (3, VS [0])], 1, [Runnable; Runnable; Runnable; Runnable; Runnable]).
Proof. vm_compute. reflexivity. Qed.

(* a notifier that is itself in the waiter list: assert_ne!(tid, me) *)
Example C05_ex_cv_notifier_waiting : n1 0 (enq 0 cv0) = None.
Proof. vm_compute. reflexivity. Qed.

(* the same scenario is an execution of the transition system (from an initial state), so the
   theorems of Part A apply to it *)
Definition g0 : cvg := mkG [] (fun _ => 0) (fun _ => 0) 0.
Definition s0 : cvstate := mkCv (mk_exec 5) [OCondvar [] 0] g0.

Example C05_ex_cv_init : cv_init 0 s0 /\ g_nbc (c_g s0) = 0.
Proof. repeat split. Qed.

Ltac env_to k :=
  eapply Run_cons;
  [ match goal with |- cvstep _ (mkCv ?e ?st ?g) LEnv _ =>
      apply (St_env 0 e st g (as_task e k) st); [reflexivity | intros; reflexivity] end | ].
Ltac do_enq := eapply Run_cons; [ eapply St_enq; [lazy; reflexivity | lazy; reflexivity | lazy; reflexivity] | ].
Ltac do_n1 := eapply Run_cons; [ eapply St_notify_one; lazy; reflexivity | ].
Ltac do_wake_sig := eapply Run_cons; [ eapply St_wake_sig; [lazy; reflexivity | lazy; reflexivity | lazy; reflexivity] | ].

Example C05_ex_cv_run : exists s',
  cvrun 0 s0 [LEnv; LEnq 0; LEnv; LEnq 1; LEnv; LNotifyOne 0; LEnv; LEnq 3; LEnv; LEnq 4; LEnv; LNotifyOne 1;
              LEnv; LWakeSig 3 1; LEnv; LWakeSig 0 0] s'.
Proof.
  eexists. unfold s0.
  env_to 0. do_enq. env_to 1. do_enq. env_to 2. do_n1.
  env_to 3. do_enq. env_to 4. do_enq. env_to 2. do_n1.
  env_to 3. do_wake_sig. env_to 0. do_wake_sig.
  apply Run_nil.
Qed.

(* ---- E2 : a reused barrier, bound 2, three tasks ---- *)
Inductive bans := AArr (t ep : nat) (blocked : bool) | ALeave (t ep : nat) (leader : bool).
Definition b_arr (t : nat) (x : option (exec * store * list bans)) :=
  match x with
  | Some (e, st, l) => match barrier_arrive (as_task e t) st 0 with
                       | Some (e', st', ep, blk) => Some (e', st', l ++ [AArr t ep blk]) | None => None end
  | None => None end.
Definition b_leave (t ep : nat) (x : option (exec * store * list bans)) :=
  match x with
  | Some (e, st, l) => match barrier_leave (as_task e t) st 0 ep with
                       | Some (e', st', ld) => Some (e', st', l ++ [ALeave t ep ld]) | None => None end
  | None => None end.
(* (answers so far, (epoch, waiters, leader tokens), scheduling states) *)
Definition bar_view (x : option (exec * store * list bans)) :=
  match x with
  | Some (e, st, l) => match get_obj st 0 with
                       | Some (OBarrier bound epoch ws toks _) => Some (l, (epoch, ws, toks), map t_state (tasks e))
                       | _ => None end
  | None => None end.
Definition bar0 (bound : nat) : option (exec * store * list bans) := Some (mk_exec 3, [OBarrier bound 0 [] [] []], []).

(* task 0 arrives and blocks *)
Example C05_ex_bar_first_blocks :
  bar_view (b_arr 0 (bar0 2)) = Some ([AArr 0 0 true], (0, [0], []), [Blocked false; Runnable; Runnable]).
Proof. vm_compute. reflexivity. Qed.

(* task 1 completes generation 0: both runnable, epoch 1, one token for generation 0 *)
Example C05_ex_bar_second_releases :
  bar_view (b_arr 1 (b_arr 0 (bar0 2))) =
  Some ([AArr 0 0 true; AArr 1 0 false], (1, [], [0]), [Runnable; Runnable; Runnable]).
Proof. vm_compute. reflexivity. Qed.

(* generation 0 = {0, 1} with leader 1; the barrier is reused by generation 1 = {2, 0} with leader 0 *)
Example C05_ex_bar_reuse :
  bar_view (b_leave 2 1 (b_leave 0 1 (b_arr 0 (b_arr 2 (b_leave 0 0 (b_leave 1 0 (b_arr 1 (b_arr 0 (bar0 2))))))))) =
  Some ([AArr 0 0 true; AArr 1 0 false; ALeave 1 0 true; ALeave 0 0 false;
         AArr 2 1 true; AArr 0 1 false; ALeave 0 1 true; ALeave 2 1 false],
        (2, [], []), [Runnable; Runnable; Runnable]).
Proof. vm_compute. reflexivity. Qed.

(* generations do not mix: a slow member of generation 0 that leaves after generation 1 was released
   does not take generation 1's token *)
Example C05_ex_bar_generations_do_not_mix :
  bar_view (b_leave 0 0 (b_arr 1 (b_arr 2 (b_leave 1 0 (b_arr 1 (b_arr 0 (bar0 2))))))) =
  Some ([AArr 0 0 true; AArr 1 0 false; ALeave 1 0 true; AArr 2 1 true; AArr 1 1 false; ALeave 0 0 false],
        (2, [], [1]), [Runnable; Runnable; Runnable]).
Proof. vm_compute. reflexivity. Qed.

(* a task cannot be twice in the waiter set: assert!(waiters.insert(me)) *)
Example C05_ex_bar_no_double_arrival : b_arr 0 (b_arr 0 (bar0 2)) = None.
Proof. vm_compute. reflexivity. Qed.

(* bound 0 and bound 1: every arrival releases itself and is its own leader *)
Example C05_ex_bar_bound_0 :
  bar_view (b_leave 0 0 (b_arr 0 (bar0 0))) =
  Some ([AArr 0 0 false; ALeave 0 0 true], (1, [], []), [Runnable; Runnable; Runnable]).
Proof. vm_compute. reflexivity. Qed.
Example C05_ex_bar_bound_1 :
  bar_view (b_leave 0 0 (b_arr 0 (bar0 1))) =
  Some ([AArr 0 0 false; ALeave 0 0 true], (1, [], []), [Runnable; Runnable; Runnable]).
Proof. vm_compute. reflexivity. Qed.

(* ---- whole executions under a scripted scheduler ---- *)
(* follow the script while the scripted task is offered, else run the first offered task *)
Definition script_sched : scheduler (list nat) :=
  mkSched (fun (st : list nat) (offered : list nat) (_ : option nat) (_ : bool) =>
             match st with
             | c :: r => if existsb (Nat.eqb c) offered then (Some c, r) else (hd_error offered, r)
             | [] => (hd_error offered, [])
             end)
          (fun st => (Some 0%N, st)).
Definition logged (w : world) : list (nat * N * list N) :=
  rev (flat_map (fun ev => match ev with EvOp t tag v _ => [(t, tag, v)] | _ => [] end) (w_trace w)).
Definition outcome_of (r : world * list nat * outcome) := let '(w, _, o) := r in (logged w, o).

(* three tasks wait twice on a barrier of bound 2: three generations, three leaders
   (Log 5 [which wait; leader?]) *)
Definition bar_prog : code :=
  barrier_wait_code 0 (fun ld => Log 5 [0%N; b2n ld] (barrier_wait_code 0 (fun ld => Log 5 [1%N; b2n ld] Ret))).
Definition bar_main : code := Switch (SpawnNow bar_prog (fun _ => Switch (SpawnNow bar_prog (fun _ => bar_prog)))).

Example C05_ex_bar_exec :
  outcome_of (run_exec script_sched MSNone 200 bar_main [OBarrier 2 0 [] [] []] [0;0;1;2;0;1;2;2;1;0]) =
  ([(0, 5%N, [0%N; 1%N]); (1, 5%N, [0%N; 0%N]); (2, 5%N, [0%N; 1%N]);
    (1, 5%N, [1%N; 1%N]); (0, 5%N, [1%N; 0%N]); (2, 5%N, [1%N; 0%N])], OPass).
Proof. vm_compute. reflexivity. Qed.

(* ---- E3 : racing call_once ---- *)
(* Log 7 = initializer starts, a scheduling point inside the initializer, Log 9 = initializer ends,
   Log 8 = call_once returned.  Object 0 is the Once, object 1 its inner mutex. *)
Definition once_prog (who : N) : code :=
  call_once_code 0 1 (fun k => Log 7 [who] (Switch (Log 9 [who] k))) (Log 8 [who] Ret).
Definition once_main : code := Switch (SpawnNow (once_prog 1) (fun _ => once_prog 0)).
Definition once_store : store := [OOnce OnNone false 1; mutex_new].

(* task 1 wins the race, is preempted inside its initializer; task 0 waits for the lock, finds the flag
   set and returns without running its initializer, after task 1's has completed *)
Example C05_ex_once_race_1 :
  outcome_of (run_exec script_sched MSNone 200 once_main once_store [0;0;1;1;0;1;0;1;0;1;1;0]) =
  ([(1, 7%N, [1%N]); (1, 9%N, [1%N]); (1, 8%N, [1%N]); (0, 8%N, [0%N])], OPass).
Proof. vm_compute. reflexivity. Qed.

(* task 0 wins *)
Example C05_ex_once_race_0 :
  outcome_of (run_exec script_sched MSNone 200 once_main once_store []) =
  ([(0, 7%N, [0%N]); (0, 9%N, [0%N]); (0, 8%N, [0%N]); (1, 8%N, [1%N])], OPass).
Proof. vm_compute. reflexivity. Qed.

(* the window opened by the repair: task 1 has finished its initializer (Log 9) and stands at the new
   scheduling point; task 0 runs there: is_completed answers false (Log 6 [0]) and its call_once waits
   for the lock; task 1 completes and returns, then task 0 returns without running its initializer *)
Definition once_prog2 (who : N) : code :=
  call_once_code 0 1 (fun k => Log 7 [who] (Log 9 [who] k)) (Log 8 [who] Ret).
Definition once_probe : code :=
  Switch (atomic_b (fun e st => once_is_completed e st 0) (fun b => Log 6 [b2n b] (once_prog2 0))).
Definition once_main2 : code := Switch (SpawnNow (once_prog2 1) (fun _ => once_probe)).

Example C05_ex_once_window :
  outcome_of (run_exec script_sched MSNone 200 once_main2 once_store [1;1;1;1;0;0;0;1;1;1;0;0]) =
  ([(1, 7%N, [1%N]); (1, 9%N, [1%N]); (0, 6%N, [0%N]); (1, 8%N, [1%N]); (0, 8%N, [0%N])], OPass).
Proof. vm_compute. reflexivity. Qed.

(* ... whereas once task 1 has returned is_completed answers true *)
Example C05_ex_once_after :
  outcome_of (run_exec script_sched MSNone 200 once_main2 once_store [1;1;1;1;1;1;1;1;1;1;0;0]) =
  ([(1, 7%N, [1%N]); (1, 9%N, [1%N]); (1, 8%N, [1%N]); (0, 6%N, [1%N]); (0, 8%N, [0%N])], OPass).
Proof. vm_compute. reflexivity. Qed.

(* a third call after completion returns through once_enter, without touching the mutex *)
Example C05_ex_once_enter_complete :
  option_map (fun r => snd r)
    (once_enter (mk_exec 2) [OOnce (OnComplete [1%N; 0%N]) true 1; mutex_new] 0) = Some false.
Proof. vm_compute. reflexivity. Qed.

(* ---- E4 : park / unpark ---- *)
Definition park_view (x : option exec) :=
  match x with Some e => option_map (fun tk => (t_state tk, t_token tk, t_inpark tk)) (get_task e 1) | None => None end.
Definition do_park (x : option exec) := match x with Some e => option_map fst (e_park e 1) | None => None end.
Definition do_unpark (x : option exec) := match x with Some e => e_unpark e 1 | None => None end.

(* two unparks leave one token; the first park consumes it, the second blocks (spurious wake-ups allowed) *)
Example C05_ex_park_tokens :
  park_view (do_unpark (do_unpark (Some (mk_exec 2)))) = Some (Runnable, true, false) /\
  park_view (do_park (do_unpark (do_unpark (Some (mk_exec 2))))) = Some (Runnable, false, false) /\
  park_view (do_park (do_park (do_unpark (do_unpark (Some (mk_exec 2)))))) = Some (Blocked true, false, true).
Proof. vm_compute. auto. Qed.

(* unpark of a parked task unblocks it and leaves no token; a parked task cannot park again *)
Example C05_ex_unpark_parked :
  park_view (do_unpark (do_park (Some (mk_exec 2)))) = Some (Runnable, false, false) /\
  do_park (do_park (Some (mk_exec 2))) = None.
Proof. vm_compute. auto. Qed.
