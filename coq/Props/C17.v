(* C17 - Async executor: no lost wake-up, each task result delivered exactly once.

   "A spawned future is polled until it completes and is polled again after any wake of its waker that
    happens during or after its latest poll, whichever task issues the wake; a pending future whose waker
    is never invoked is not treated as able to progress, and block_on suspends the calling task while its
    future is pending and then returns its output.  Awaiting a JoinHandle yields the task's output exactly
    once, or Cancelled if and only if an abort took effect before completion, in which case the future is
    dropped (its destructors run) and performs no further steps; dropping a JoinHandle detaches the task
    without cancelling it, and abort is idempotent."

   Statements only.  Vocabulary: Lang/AsyncSpec.v; proofs: Proofs/AsyncBase.v, Proofs/AsyncProofs.v;
   the concrete states and programs of the examples: Lang/AsyncExamples.v.

   ONE CLAUSE IS FALSE AS WRITTEN ("polled again after any wake ... during its latest poll"): a nested
   block_on inside the poll shares the task's single `woken` flag and may consume the wake.  See
   `C17_no_lost_wake_REFUTED_*` at the end (confirmed on the Rust code) and `C17_no_lost_wake_fixed`. *)
From Coq Require Import List NArith Bool Arith.
From SV Require Import Clock.VClock Prim.Objects Engine.Exec Prim.Semaphore Lang.Code Lang.SyncOps
  Lang.SyncOps2 Lang.AsyncOps Lang.AsyncSpec Lang.AsyncExamples Proofs.AsyncBase Proofs.AsyncProofs.
Import ListNotations.
Local Open Scope nat_scope.

(* ================================================================== *)
(* 1. no lost wake-up                                                   *)
(* ================================================================== *)

(* (a) "a sleeping task has no remembered wake" is preserved by every engine call, by spawn and by finish,
       and holds initially *)
Theorem C17_wake_inv_preserved : forall o e e', apply_op o e = Some e' -> wake_inv e -> wake_inv e'.
Proof. exact wake_inv_apply_op. Qed.
Theorem C17_wake_inv_init : forall main objs, wake_inv (w_e (init_world main objs)).
Proof. exact wake_inv_init. Qed.
Theorem C17_wake_inv_spawn : forall e e' tid, spawn_thread_now e = Some (e', tid) -> wake_inv e -> wake_inv e'.
Proof. exact wake_inv_spawn. Qed.
Theorem C17_wake_inv_finish : forall e e', finish_current e = Some e' -> wake_inv e -> wake_inv e'.
Proof. exact wake_inv_finish_current. Qed.

(* (b) a wake of t (by whichever task: `e_waker_wake` does not look at the current task) during the poll phase,
       followed by any engine calls of any tasks except t's own sleep_unless_woken, then t's
       sleep_unless_woken: t keeps its state, is not asleep, and the flag is consumed - it polls again *)
Theorem C17_no_lost_wake_fixed : forall t e1 tk1 ops,
  exec_is_finished e1 = false -> get_task e1 t = Some tk1 -> is_finished tk1 = false ->
  ~ In (OpSUW t) ops ->
  forall e2 e3, e_waker_wake e1 t = Some e2 -> apply_ops ops e2 = Some e3 ->
  exists tk3 e4 tk4, get_task e3 t = Some tk3 /\ e_sleep_unless_woken e3 t = Some e4 /\ get_task e4 t = Some tk4 /\
    t_state tk4 = t_state tk3 /\ is_sleeping tk4 = false /\ t_woken tk4 = false.
Proof. exact wake_in_poll_phase_repolls. Qed.

(* the same for Task::abort (it is a wake of the aborted task) *)
Theorem C17_abort_wake_not_lost : forall t e1 tk1 ops,
  get_task e1 t = Some tk1 -> is_finished tk1 = false -> ~ In (OpSUW t) ops ->
  forall e2 e3, e_abort e1 t = Some e2 -> apply_ops ops e2 = Some e3 ->
  exists tk3 e4 tk4, get_task e3 t = Some tk3 /\ e_sleep_unless_woken e3 t = Some e4 /\ get_task e4 t = Some tk4 /\
    t_state tk4 = t_state tk3 /\ is_sleeping tk4 = false /\ t_woken tk4 = false.
Proof. exact abort_in_poll_phase_repolls. Qed.

(* the wake does not depend on which task is current *)
Theorem C17_wake_whichever_task : forall e t c n,
  exec_is_finished e = false -> exec_is_finished (with_current_next e c n) = false ->
  e_waker_wake (with_current_next e c n) t = option_map (fun e' => with_current_next e' c n) (e_waker_wake e t).
Proof. exact waker_wake_ignores_current. Qed.

(* (c) a wake of a sleeping task makes it Runnable and is remembered *)
Theorem C17_wake_sleeping : forall e t tk,
  exec_is_finished e = false -> get_task e t = Some tk -> is_sleeping tk = true ->
  exists e' tk', e_waker_wake e t = Some e' /\ get_task e' t = Some tk' /\ t_state tk' = Runnable /\ t_woken tk' = true.
Proof. exact wake_sleeping_runnable. Qed.

(* a wake of a task that is not asleep - Runnable, or Blocked inside a synchronous primitive - changes only the
   flag: it is neither lost nor acted upon; the next sleep_unless_woken of that task consumes it *)
Theorem C17_wake_awake_remembered : forall e t tk,
  exec_is_finished e = false -> get_task e t = Some tk -> is_finished tk = false -> is_sleeping tk = false ->
  exists e' tk', e_waker_wake e t = Some e' /\ get_task e' t = Some tk' /\ t_state tk' = t_state tk /\ t_woken tk' = true.
Proof. exact wake_awake_remembered. Qed.

(* (d) sleep_unless_woken always clears the flag, and puts the task to sleep exactly when the flag was clear *)
Theorem C17_sleep_unless_woken : forall e t tk,
  get_task e t = Some tk -> is_finished tk = false -> is_sleeping tk = false ->
  exists e' tk', e_sleep_unless_woken e t = Some e' /\ get_task e' t = Some tk' /\
    t_woken tk' = false /\ (is_sleeping tk' = true <-> t_woken tk = false).
Proof. exact sleep_unless_woken_iff. Qed.

(* the whole polling loop of one task, any interleaving: if a waker of t was invoked (or t aborted) since t's
   latest poll started, t is not asleep; the loop is `poll; sleep_unless_woken; switch`, with NO nested
   sleep_unless_woken of t inside a poll (gs_suw ends the poll) *)
Theorem C17_no_lost_wake_run : forall t e g,
  alive e t -> gsteps t (mkG e Polling false) g -> g_pending g = true -> task_sleeping (g_e g) t = false.
Proof. exact no_lost_wake_run. Qed.
Theorem C17_polling_loop_invariant : forall t g g', gsteps t g g' -> ginv t g -> ginv t g'.
Proof. exact gsteps_ginv. Qed.

(* ================================================================== *)
(* 2. a pending future whose waker is never invoked cannot progress     *)
(* ================================================================== *)
Theorem C17_sleeping_not_offered : forall e t tk,
  get_task e t = Some tk -> is_sleeping tk = true -> ~ In t (offered_of e).
Proof. exact sleeping_not_offered. Qed.

Theorem C17_sleeping_not_counted : forall e,
  (forall t tk, In t (live e) -> get_task e t = Some tk -> is_sleeping tk = true \/ is_blocked tk = true) ->
  any_runnable e = false.
Proof. exact sleeping_not_counted. Qed.

Theorem C17_spurious_offered_not_counted : forall e t tk,
  In t (live e) -> get_task e t = Some tk -> t_state tk = Blocked true ->
  In t (offered_of e) /\ is_runnable tk = false.
Proof. exact spurious_offered_not_counted. Qed.

(* link to deadlock detection *)
Theorem C17_nobody_runnable_ends_execution : forall (SS : Type) (sch : scheduler SS) e st,
  next e = SNone -> any_runnable e = false ->
  schedule sch MSNone e st = (None, with_current_next (with_ctx e (S (ctx_switches e))) (current e) SFinished, st, []).
Proof. exact schedule_nobody_runnable. Qed.

(* ================================================================== *)
(* 3. block_on / the task poll loop on Pending                          *)
(* ================================================================== *)
Theorem C17_suspend_shape : forall ctx jt oa retry,
  suspend ctx jt oa retry = Atomic suw_blk (fun _ => Switch (resume ctx jt oa retry)).
Proof. exact suspend_shape. Qed.

Theorem C17_suspend_runs : forall (SS : Type) (sch : scheduler SS) (ms : max_steps) ctx jt oa retry w st m e',
  me (w_e w) = Some m -> e_sleep_unless_woken (w_e w) m = Some e' ->
  run_seg sch ms (suspend ctx jt oa retry) w st =
  match do_switch sch ms (mkWorld e' (w_s w) (w_conts w) (w_trace w)) st with
  | SwContinue w' st' => run_seg sch ms (resume ctx jt oa retry) w' st'
  | SwYield w' st' => (w', st', SegYield (resume ctx jt oa retry))
  | SwPanic w' st' => (w', st', SegPanic)
  end.
Proof. exact @run_seg_suspend. Qed.

(* a task put to sleep is not continued by its scheduling point *)
Theorem C17_block_on_suspends_caller : forall (SS : Type) (sch : scheduler SS) (ms : max_steps) w st m tk,
  current (w_e w) = SSome m -> next (w_e w) = SNone -> get_task (w_e w) m = Some tk -> is_sleeping tk = true ->
  forall w' st', do_switch sch ms w st <> SwContinue w' st'.
Proof. exact @sleeping_task_not_resumed. Qed.

(* ... and the output goes to the continuation *)
Theorem C17_await_join_runs : forall (SS : Type) (sch : scheduler SS) (ms : max_steps) f ctx jt c oa kont w st e' s' out,
  join_poll (w_e w) (w_s w) jt c = Some (e', s', out) ->
  run_seg sch ms (await_join (S f) ctx jt c oa kont) w st =
  run_seg sch ms (match out with
                  | Some r => kont r
                  | None => suspend ctx jt oa (await_join f ctx jt c oa kont)
                  end) (mkWorld e' s' (w_conts w) (w_trace w)) st.
Proof. exact @run_seg_await_join. Qed.

(* future::yield_now(): first poll wakes itself and is Pending; the task is not put to sleep *)
Theorem C17_yield_now_stays_awake : forall e m tk,
  exec_is_finished e = false -> get_task e m = Some tk -> is_finished tk = false -> is_sleeping tk = false ->
  exists e1 e2 tk2,
    e_waker_wake e m = Some e1 /\ e_sleep_unless_woken (e_request_yield e1) m = Some e2 /\
    get_task e2 m = Some tk2 /\ t_state tk2 = t_state tk /\ t_woken tk2 = false /\ has_yielded e2 = true.
Proof. exact yield_now_stays_awake. Qed.

(* the blocking semaphore acquire is the same loop *)
Theorem C17_poll_loop_shape : forall f oid wid np kont,
  poll_loop (S f) oid wid np kont =
  atomic_b (fun e st => match on_sem oid st (fun s => poll_needs_switch s wid np) with
                        | Some (_, b) => Some (e, st, b) | None => None end)
    (fun sw => switch_if sw
       (Atomic (sem_poll_blk oid wid)
          (fun a => match a with
                    | [0%N] => kont true
                    | [1%N] => kont false
                    | _ => suspend CtxBlockOn 0 Ret (poll_loop f oid wid false kont)
                    end))).
Proof. exact poll_loop_shape. Qed.

(* ================================================================== *)
(* 4. the JoinHandle protocol                                           *)
(* ================================================================== *)
Theorem C17_join_exactly_once : forall e st jt c w j r,
  me e = Some w -> joins_get st jt c = Some j -> ji_result j = Some r ->
  exists st1 j1,
    join_poll e st jt c = Some (e, st1, Some r) /\
    joins_get st1 jt c = Some j1 /\ ji_result j1 = None /\ ji_aborted j1 = ji_aborted j /\
    forall e2 w2, me e2 = Some w2 -> exists st2, join_poll e2 st1 jt c = Some (e2, st2, None).
Proof. exact join_exactly_once. Qed.

(* over any interleaving of polls by any tasks, aborts and detaches around the one finish *)
Theorem C17_join_exactly_once_run : forall pre r l1 w l2 j,
  ji_result j = None -> count_finish pre = 0 -> Forall quiet l1 -> count_finish l2 = 0 ->
  run_outs (pre ++ JFinish r :: l1 ++ JPoll w :: l2) j = [r].
Proof. exact join_exactly_once_run. Qed.

Theorem C17_delivered_at_most_published : forall l j,
  length (run_outs l j) + undelivered (run_final l j) <= count_finish l + undelivered j.
Proof. exact delivered_at_most_published. Qed.

Theorem C17_delivered_was_published : forall l j v,
  In v (run_outs l j) -> In (JFinish v) l \/ ji_result j = Some v.
Proof. exact delivered_was_published. Qed.

(* the store-level calls are the transitions of that system *)
Theorem C17_protocol_simulation : forall jt c x ev x' j,
  jstep jt c x ev x' -> joins_get (snd x) jt c = Some j -> joins_get (snd x') jt c = Some (run_final [ev] j).
Proof. exact jstep_sim. Qed.

Theorem C17_finish_publishes : forall e st jt c j r,
  me e = Some c -> exec_is_finished e = false -> joins_get st jt c = Some j ->
  forall e' st', wrapper_finish e st jt r = Some (e', st') ->
  wake_opt e (ji_waker j) = Some e' /\ joins_get st' jt c = Some (mkJoin (Some r) None (ji_aborted j)).
Proof. exact finish_publishes. Qed.

Theorem C17_join_wakes_waiter : forall e0 st0 jt c w j0 e st r tkw,
  me e0 = Some w -> joins_get st0 jt c = Some j0 -> ji_result j0 = None ->
  exists st1 j1, join_poll e0 st0 jt c = Some (e0, st1, None) /\ joins_get st1 jt c = Some j1 /\ ji_waker j1 = Some w /\
  (joins_get st jt c = Some j1 -> me e = Some c -> exec_is_finished e = false ->
   get_task e w = Some tkw -> is_finished tkw = false ->
   exists e' st', wrapper_finish e st jt r = Some (e', st') /\ e_waker_wake e w = Some e' /\
     get_task e' w = Some (wake_task tkw) /\ t_woken (wake_task tkw) = true /\
     (is_sleeping tkw = true -> t_state (wake_task tkw) = Runnable) /\
     joins_get st' jt c = Some (mkJoin (Some r) None (ji_aborted j0))).
Proof. exact join_wakes_waiter. Qed.

(* Cancelled iff an abort check observed the flag; afterwards only destructors and finish(Err(Cancelled)) *)
Theorem C17_cancel_iff_abort_first : forall jt oa0 b p fin,
  cpath (spawned jt oa0 b) p fin ->
  exists lp, slpath oa0 b lp fin /\ map (erase jt) lp = p /\ cancel_shape lp fin.
Proof. exact cancel_iff_abort_first. Qed.

Theorem C17_labelled_paths_are_paths : forall jt oa0 b lp fin,
  slpath oa0 b lp fin -> cpath (spawned jt oa0 b) (map (erase jt) lp) fin.
Proof. exact slpath_cpath. Qed.

(* at run time: an observed flag discards the rest of the body *)
Theorem C17_observed_abort_discards_body : forall (SS : Type) (sch : scheduler SS) (ms : max_steps) jt oa retry w st m j,
  me (w_e w) = Some m -> joins_get (w_s w) jt m = Some j -> ji_aborted j = true ->
  run_seg sch ms (check_code jt oa retry) w st = run_seg sch ms oa w st.
Proof. exact @run_seg_check_aborted. Qed.
Theorem C17_no_abort_continues_body : forall (SS : Type) (sch : scheduler SS) (ms : max_steps) jt oa retry w st m j,
  me (w_e w) = Some m -> joins_get (w_s w) jt m = Some j -> ji_aborted j = false ->
  run_seg sch ms (check_code jt oa retry) w st = run_seg sch ms retry w st.
Proof. exact @run_seg_check_not_aborted. Qed.

Theorem C17_aborted_flag_monotone : forall l j, ji_aborted j = true -> ji_aborted (run_final l j) = true.
Proof. exact aborted_monotone. Qed.

Theorem C17_abort_code_shape : forall jt c k, abort_code jt c k = Switch (atomic_u (abort_blk jt c) k).
Proof. exact abort_code_shape. Qed.

Theorem C17_abort_first : forall jt c e st j tk,
  joins_get st jt c = Some j -> ji_aborted j = false -> exec_is_finished e = false ->
  get_task e c = Some tk -> is_finished tk = false ->
  exists e', abort_blk jt c e st = Some (e', joins_set st jt c (ji_abort j)) /\
             get_task e' c = Some (wake_task tk) /\
             joins_get (joins_set st jt c (ji_abort j)) jt c = Some (mkJoin (ji_result j) (ji_waker j) true).
Proof. exact abort_first. Qed.

Theorem C17_abort_idempotent : forall jt c e st e1 st1,
  abort_blk jt c e st = Some (e1, st1) -> forall e2, abort_blk jt c e2 st1 = Some (e2, st1).
Proof. exact abort_idempotent. Qed.

Theorem C17_abort_finished_noop : forall jt c e st j tk,
  joins_get st jt c = Some j -> get_task e c = Some tk -> is_finished tk = true ->
  exists st', abort_blk jt c e st = Some (e, st') /\
    exists j', joins_get st' jt c = Some j' /\ ji_result j' = ji_result j /\ ji_waker j' = ji_waker j /\ ji_aborted j' = true /\
    forall t', t' <> c -> joins_get st' jt t' = joins_get st jt t'.
Proof. exact abort_finished_noop. Qed.

Theorem C17_detach_not_cancel : forall e st c e' st',
  detach_handle e st c = Some (e', st') ->
  st' = st /\
  (exec_is_finished e = true -> e' = e) /\
  (exec_is_finished e = false ->
     (forall tk, get_task e c = Some tk -> get_task e' c = Some (set_detached tk true)) /\
     (forall t', c <> t' -> get_task e' t' = get_task e t')) /\
  (forall t tk tk', get_task e t = Some tk -> get_task e' t = Some tk' ->
     t_state tk' = t_state tk /\ t_woken tk' = t_woken tk).
Proof. exact detach_not_cancel. Qed.

(* ================================================================== *)
(* 5. the stored waker is the current poller                            *)
(* ================================================================== *)
Theorem C17_join_poll_stores_poller : forall e st jt c m j,
  me e = Some m -> joins_get st jt c = Some j -> ji_result j = None ->
  exists st', join_poll e st jt c = Some (e, st', None) /\
    joins_get st' jt c = Some (mkJoin None (Some m) (ji_aborted j)).
Proof. exact join_poll_stores_poller. Qed.

(* a handle polled by several tasks in turn is woken through its latest poller, and only it *)
Theorem C17_finish_wakes_latest_poller : forall pre w l1 r j,
  ji_result j = None -> count_finish pre = 0 -> Forall quiet l1 ->
  run_wakes (pre ++ JPoll w :: l1 ++ [JFinish r]) j = [w] /\
  ji_waker (run_final (pre ++ JPoll w :: l1 ++ [JFinish r]) j) = None /\
  ji_result (run_final (pre ++ JPoll w :: l1 ++ [JFinish r]) j) = Some r.
Proof. exact finish_wakes_latest_poller. Qed.

Theorem C17_sem_poll_stores_waker : forall e s wid wk e' s',
  sem_poll e s wid wk = Some (e', s', PPending) ->
  exists m w', me e = Some m /\ get_waiter s' wid = Some w' /\ wt_waker w' = Some wk /\ wt_task w' = m.
Proof. exact sem_poll_stores_waker. Qed.

Theorem C17_blocking_acquire_stores_current : forall oid wid e st e' st' m,
  me e = Some m -> sem_poll_blk oid wid e st = Some (e', st', [2%N]) ->
  exists o s' w', get_obj st' oid = Some o /\ sem_of o = Some s' /\
    get_waiter s' wid = Some w' /\ wt_waker w' = Some m /\ wt_task w' = m.
Proof. exact sem_poll_blk_stores_current. Qed.

(* ================================================================== *)
(* non-vacuity                                                          *)
(* ================================================================== *)
(* engine level: task 1 of a two-task state *)
Example C17_ex_wake_during_poll :            (* woken while runnable, even blocked/unblocked in between: stays awake *)
  view (apply_ops [OpWake 1; OpBlock 1 false; OpUnblock 1; OpSUW 1] ex_exec) 1 = Some (Runnable, false).
Proof. vm_compute. reflexivity. Qed.
Example C17_ex_no_wake_sleeps :
  view (apply_ops [OpSUW 1] ex_exec) 1 = Some (Sleeping, false)
  /\ option_map offered_of (apply_ops [OpSUW 1] ex_exec) = Some [0]
  /\ option_map any_runnable (apply_ops [OpSUW 0; OpSUW 1] ex_exec) = Some false.
Proof. vm_compute. auto. Qed.
Example C17_ex_wake_after_sleeping :
  view (apply_ops [OpSUW 1; OpWake 1] ex_exec) 1 = Some (Runnable, true).
Proof. vm_compute. reflexivity. Qed.
Example C17_ex_wake_while_blocked :          (* the wake is remembered while Blocked and consumed by the next sleep_unless_woken *)
  view (apply_ops [OpBlock 1 false; OpWake 1] ex_exec) 1 = Some (Blocked false, true)
  /\ view (apply_ops [OpBlock 1 false; OpWake 1; OpUnblock 1; OpSUW 1] ex_exec) 1 = Some (Runnable, false).
Proof. vm_compute. auto. Qed.

(* program level (run_exec with a scripted scheduler; logs are (task, tag, values)) *)
Example C17_ex_join_after_sleep :            (* main sleeps in block_on(handle), the child's finish wakes it: Ok(42) *)
  run_prog prog_join [] =
  (OPass, [(1, 7%N, []); (0, 50%N, [0%N; 42%N])], Some (mkJoin None None false)).
Proof. vm_compute. reflexivity. Qed.
Example C17_ex_abort_before_first_poll :     (* Cancelled, and the body (log 7) never runs *)
  run_prog prog_abort [] = (OPass, [(0, 50%N, [1%N])], Some (mkJoin None None true)).
Proof. vm_compute. reflexivity. Qed.
Example C17_ex_abort_after_completion :      (* the child completes first: Ok(42) although abort was called *)
  run_prog prog_abort [0; 0; 1] =
  (OPass, [(1, 7%N, []); (0, 50%N, [0%N; 42%N])], Some (mkJoin None None true)).
Proof. vm_compute. reflexivity. Qed.
Example C17_ex_double_abort :
  run_prog prog_abort_twice [] = run_prog prog_abort [].
Proof. vm_compute. reflexivity. Qed.
Example C17_ex_detach :                      (* the detached task still runs to completion and publishes Ok(42) *)
  run_prog prog_detach [0; 0; 1] =
  (OPass, [(1, 7%N, []); (0, 51%N, [])], Some (mkJoin (Some (Some 42%N)) None false)).
Proof. vm_compute. reflexivity. Qed.
Example C17_ex_abort_during_poll :           (* abort lands during the child's poll; its Pending poll is followed by a re-poll: Cancelled *)
  run_prog prog_plain [0; 0; 1; 0] = (OPass, [(1, 8%N, []); (0, 50%N, [1%N])], Some (mkJoin None None true)).
Proof. vm_compute. reflexivity. Qed.

(* ================================================================== *)
(* the refuted clause                                                   *)
(* ================================================================== *)
(* Task.woken is one flag per task, shared by every poll loop running on that task.  A block_on nested inside
   the poll of a spawned future (or of an outer block_on) calls sleep_unless_woken on the same task; if the
   nested future is Pending once and becomes Ready without a further wake from outside (yield_now: it wakes
   itself), the nested loop consumes a wake that was meant for the outer future.  The outer loop then puts
   the task to sleep although its waker was invoked during its latest poll.

   engine level: W = a wake from outside during the poll; then yield_now's self-wake; the nested loop's
   sleep_unless_woken (stays awake, flag cleared); the outer loop's sleep_unless_woken: asleep. *)
Example C17_no_lost_wake_REFUTED_engine :
  view (apply_ops [OpWake 1; OpWake 1; OpSUW 1; OpSUW 1] ex_exec) 1 = Some (Sleeping, false).
Proof. vm_compute. reflexivity. Qed.

(* program level: main = spawn(F); abort(F); block_on(handle).
   F = async { yield; block_on(yield_now()); log 8; <Pending once, no wake arranged>; log 9; 42 }.
   Schedule: F runs up to its yield, main aborts (flag set, Task::abort wakes F) and sleeps in block_on, F
   goes on: the nested block_on consumes the abort's wake, F's own Pending puts it to sleep for ever: the abort
   never takes effect, the JoinHandle never resolves, Shuttle reports a deadlock.  Without the nested block_on
   (C17_ex_abort_during_poll above) the same schedule ends with Cancelled.
   Confirmed on the Rust code (DFS over all schedules): the nested variant panics with
   "deadlock! blocked tasks: [main-thread (pending future), task 1 (pending future)]". *)
Example C17_no_lost_wake_REFUTED_program :
  run_prog prog_nested [0; 0; 1; 0] = (ODeadlock [0; 1], [(1, 8%N, [])], Some (mkJoin None (Some 0) true)).
Proof. vm_compute. reflexivity. Qed.

Print Assumptions C17_wake_inv_preserved.
Print Assumptions C17_wake_inv_init.
Print Assumptions C17_wake_inv_spawn.
Print Assumptions C17_wake_inv_finish.
Print Assumptions C17_no_lost_wake_fixed.
Print Assumptions C17_abort_wake_not_lost.
Print Assumptions C17_wake_whichever_task.
Print Assumptions C17_wake_sleeping.
Print Assumptions C17_wake_awake_remembered.
Print Assumptions C17_sleep_unless_woken.
Print Assumptions C17_no_lost_wake_run.
Print Assumptions C17_polling_loop_invariant.
Print Assumptions C17_sleeping_not_offered.
Print Assumptions C17_sleeping_not_counted.
Print Assumptions C17_spurious_offered_not_counted.
Print Assumptions C17_nobody_runnable_ends_execution.
Print Assumptions C17_suspend_shape.
Print Assumptions C17_suspend_runs.
Print Assumptions C17_block_on_suspends_caller.
Print Assumptions C17_await_join_runs.
Print Assumptions C17_poll_loop_shape.
Print Assumptions C17_yield_now_stays_awake.
Print Assumptions C17_join_exactly_once.
Print Assumptions C17_join_exactly_once_run.
Print Assumptions C17_delivered_at_most_published.
Print Assumptions C17_delivered_was_published.
Print Assumptions C17_protocol_simulation.
Print Assumptions C17_finish_publishes.
Print Assumptions C17_join_wakes_waiter.
Print Assumptions C17_cancel_iff_abort_first.
Print Assumptions C17_labelled_paths_are_paths.
Print Assumptions C17_observed_abort_discards_body.
Print Assumptions C17_no_abort_continues_body.
Print Assumptions C17_aborted_flag_monotone.
Print Assumptions C17_abort_code_shape.
Print Assumptions C17_abort_first.
Print Assumptions C17_abort_idempotent.
Print Assumptions C17_abort_finished_noop.
Print Assumptions C17_detach_not_cancel.
Print Assumptions C17_join_poll_stores_poller.
Print Assumptions C17_finish_wakes_latest_poller.
Print Assumptions C17_sem_poll_stores_waker.
Print Assumptions C17_blocking_acquire_stores_current.
Print Assumptions C17_ex_wake_during_poll.
Print Assumptions C17_ex_abort_before_first_poll.
Print Assumptions C17_no_lost_wake_REFUTED_engine.
Print Assumptions C17_no_lost_wake_REFUTED_program.
