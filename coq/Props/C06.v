(* C06 - mpsc channel (shuttle-std/src/sync/mpsc.rs): statements only.  Proofs are in
   Proofs/ChanBase.v ChanFun.v ChanOps.v ChanProofs.v ChanCrash.v ChanThms.v ChanRun.v.

   The channel is a transition system (Proofs/ChanProofs.v): a state is (execution state, channel, ghost
   list of values whose send succeeded, ghost list of values returned by recv); a step is a segment of a
   channel operation run by the current task between two scheduling points (chan_send_pre[+deliver],
   chan_send_woken[+deliver], chan_recv_pre[+take], chan_recv_woken[+take], clone, drops), or an
   environment step LEnv that may change anything in the execution state except the t_state of the tasks
   waiting in ch_wsend / ch_wrecv.  `guard` holds the assumptions: the actor is the current task and
   Runnable; a waiting task only runs its woken segment; an operation needs a live handle; the last
   Sender / the Receiver is not dropped while a send / recv that borrows it is blocked; single consumer
   (no recv starts while another task waits in recv). *)
From Coq Require Import List NArith Bool Arith Lia.
From SV Require Import Clock.VClock Prim.Objects Engine.Exec Prim.Semaphore Lang.SyncOps2.
From SV Require Import Proofs.ChanBase Proofs.ChanFun Proofs.ChanOps Proofs.ChanProofs Proofs.ChanCrash Proofs.ChanThms Proofs.ChanRun.
Import ListNotations.
Open Scope nat_scope.

(* ================================================================== *)
(* 1. FIFO, exactly once, nothing invented                             *)
(* ================================================================== *)
Theorem C06_chan_fifo_exactly_once : forall b s, reachable b s ->
  cs_sent s = cs_rcvd s ++ map fst (ch_msgs (cs_c s)) /\
  (exists rest, cs_sent s = cs_rcvd s ++ rest).
Proof. exact chan_fifo_exactly_once. Qed.
Print Assumptions C06_chan_fifo_exactly_once.

(* per-sender order: for every class p of values (e.g. those of one sender) *)
Theorem C06_chan_fifo_per_class : forall b s (p : N -> bool), reachable b s ->
  exists rest, filter p (cs_sent s) = filter p (cs_rcvd s) ++ rest.
Proof. exact chan_fifo_per_class. Qed.
Print Assumptions C06_chan_fifo_per_class.

Theorem C06_chan_received_was_sent : forall b s v, reachable b s -> In v (cs_rcvd s) -> In v (cs_sent s).
Proof. exact chan_received_was_sent. Qed.
Print Assumptions C06_chan_received_was_sent.

Theorem C06_chan_received_at_most_once : forall b s v, reachable b s ->
  count_occ N.eq_dec (cs_rcvd s) v <= count_occ N.eq_dec (cs_sent s) v.
Proof. exact chan_received_at_most_once. Qed.
Print Assumptions C06_chan_received_at_most_once.

Theorem C06_chan_histories_grow : forall s l s', step s l s' ->
  (cs_sent s' = cs_sent s \/ exists v, cs_sent s' = cs_sent s ++ [v]) /\
  (cs_rcvd s' = cs_rcvd s \/ exists v vc rest, cs_rcvd s' = cs_rcvd s ++ [v] /\ ch_msgs (cs_c s) = (v, vc) :: rest).
Proof. exact chan_histories_grow. Qed.
Print Assumptions C06_chan_histories_grow.

(* ================================================================== *)
(* 2. capacity                                                         *)
(* ================================================================== *)
Theorem C06_chan_capacity : forall b s, reachable (Some b) s -> length (ch_msgs (cs_c s)) <= Nat.max b 1.
Proof. exact chan_capacity. Qed.
Print Assumptions C06_chan_capacity.

(* room c := unbounded | b > 0 and fewer than b messages | rendezvous, empty buffer and a waiting receiver *)
Theorem C06_deliver_needs_room : forall b s l s', reachable b s -> step s l s' ->
  length (ch_msgs (cs_c s)) < length (ch_msgs (cs_c s')) ->
  room (cs_c s) /\ ch_receivers (cs_c s) <> 0 /\
  ((exists t v cb, l = LSend t v cb /\ ch_wsend (cs_c s) = []) \/
   (exists t v rest, l = LSendWoken t v /\ ch_wsend (cs_c s) = t :: rest /\ sts (cs_e s) t = Some Runnable)).
Proof. exact deliver_needs_room. Qed.
Print Assumptions C06_deliver_needs_room.

Theorem C06_rdv_message_only_in_handoff : forall s, reachable (Some 0) s -> ch_msgs (cs_c s) <> [] ->
  exists r mv, ch_wrecv (cs_c s) = [r] /\ sts (cs_e s) r = Some Runnable /\ ch_msgs (cs_c s) = [mv].
Proof. exact rdv_message_only_in_handoff. Qed.
Print Assumptions C06_rdv_message_only_in_handoff.

Theorem C06_rdv_handoff : forall s l s', reachable (Some 0) s -> step s l s' ->
  length (ch_msgs (cs_c s)) < length (ch_msgs (cs_c s')) ->
  ch_msgs (cs_c s) = [] /\ exists r, ch_wrecv (cs_c s) = [r] /\ sts (cs_e s) r = Some (Blocked false).
Proof. exact rdv_handoff. Qed.
Print Assumptions C06_rdv_handoff.

(* ================================================================== *)
(* 3. blocking / Full / Empty / Disconnected, exactly                  *)
(* ================================================================== *)
Theorem C06_sender_must_block_iff : forall c,
  sender_must_block c = true <->
  (exists b, ch_bound c = Some b /\ Nat.max b 1 <= length (ch_msgs c)) \/ ch_wsend c <> [] \/ (ch_bound c = Some 0 /\ ch_wrecv c = []).
Proof. exact sender_must_block_iff. Qed.
Print Assumptions C06_sender_must_block_iff.

Theorem C06_send_blocks_iff : forall e c e' c' r m,
  chan_send_pre e c true = Some (e', c', r) -> me e = Some m ->
  (r = SdBlock <-> ch_receivers c <> 0 /\ sender_must_block c = true) /\
  (r = SdDisconnected <-> ch_receivers c = 0) /\
  (r = SdOk <-> ch_receivers c <> 0 /\ sender_must_block c = false) /\
  r <> SdFull.
Proof. exact send_blocks_iff. Qed.
Print Assumptions C06_send_blocks_iff.

Theorem C06_try_full_iff : forall e c e' c' r m,
  chan_send_pre e c false = Some (e', c', r) -> me e = Some m ->
  (r = SdFull <-> ch_receivers c <> 0 /\ sender_must_block c = true) /\
  (r = SdDisconnected <-> ch_receivers c = 0) /\
  (r = SdOk <-> ch_receivers c <> 0 /\ sender_must_block c = false) /\
  r <> SdBlock.
Proof. exact try_full_iff. Qed.
Print Assumptions C06_try_full_iff.

Theorem C06_receiver_must_block_iff : forall c,
  receiver_must_block c = true <-> ch_msgs c = [] \/ ch_wrecv c <> [].
Proof. exact receiver_must_block_iff. Qed.
Print Assumptions C06_receiver_must_block_iff.

(* rv_disc c := ch_msgs c = [] /\ ch_senders c = 0 *)
Theorem C06_recv_blocks_iff : forall e c e' c' r m,
  chan_recv_pre e c true = Some (e', c', r) -> me e = Some m ->
  (r = RvDisconnected <-> rv_disc c) /\
  (r = RvBlock <-> ~ rv_disc c /\ receiver_must_block c = true) /\
  ((exists v, r = RvOk v) <-> ~ rv_disc c /\ receiver_must_block c = false) /\
  r <> RvEmpty.
Proof. exact recv_blocks_iff. Qed.
Print Assumptions C06_recv_blocks_iff.

(* rv_empty_cond c := (rendezvous /\ no message /\ no waiting sender) \/ (not rendezvous /\ #messages <= #waiting receivers).
   Last clause: try_recv can answer RvBlock - see C06_try_recv_blocks_only_rdv. *)
Theorem C06_try_empty_iff : forall e c e' c' r m,
  chan_recv_pre e c false = Some (e', c', r) -> me e = Some m ->
  (r = RvDisconnected <-> rv_disc c) /\
  (r = RvEmpty <-> ~ rv_disc c /\ rv_empty_cond c) /\
  ((exists v, r = RvOk v) <-> ~ rv_disc c /\ ~ rv_empty_cond c /\ receiver_must_block c = false) /\
  (r = RvBlock <-> ~ rv_disc c /\ ~ rv_empty_cond c /\ receiver_must_block c = true).
Proof. exact try_empty_iff. Qed.
Print Assumptions C06_try_empty_iff.

Theorem C06_try_recv_blocks_only_rdv : forall c,
  ~ rv_empty_cond c -> receiver_must_block c = true -> ch_wrecv c = [] ->
  is_rendezvous c = true /\ ch_msgs c = [] /\ ch_wsend c <> [].
Proof. exact try_recv_blocks_only_rdv. Qed.
Print Assumptions C06_try_recv_blocks_only_rdv.

(* ================================================================== *)
(* 4. disconnection                                                    *)
(* ================================================================== *)
Theorem C06_disconnected_stable : forall s l s', step s l s' ->
  (ch_receivers (cs_c s) = 0 -> ch_receivers (cs_c s') = 0) /\ (ch_senders (cs_c s) = 0 -> ch_senders (cs_c s') = 0).
Proof. exact disconnected_stable. Qed.
Print Assumptions C06_disconnected_stable.

Theorem C06_drop_rx_wakes_senders : forall b s t s', reachable b s -> step s (LDropRx t) s' ->
  ch_receivers (cs_c s') = 0 -> forall x, In x (ch_wsend (cs_c s')) -> sts (cs_e s') x = Some Runnable.
Proof. exact drop_rx_wakes_senders. Qed.
Print Assumptions C06_drop_rx_wakes_senders.

Theorem C06_disconnect_rx : forall b s, reachable b s -> ch_receivers (cs_c s) = 0 ->
  (forall t, In t (ch_wsend (cs_c s)) -> sts (cs_e s) t = Some Runnable) /\
  ch_wrecv (cs_c s) = [] /\
  (forall t v cb s', step s (LSend t v cb) s' -> s' = s /\
      exists r, chan_send_pre (cs_e s) (cs_c s) cb = Some (cs_e s, cs_c s, r) /\ r = SdDisconnected) /\
  (forall t v s', step s (LSendWoken t v) s' ->
      chan_send_woken (cs_e s) (cs_c s) = Some (cs_e s, set_wsend (cs_c s) (remove_t t (ch_wsend (cs_c s))), SdDisconnected) /\
      s' = mkCst (cs_e s) (set_wsend (cs_c s) (remove_t t (ch_wsend (cs_c s)))) (cs_sent s) (cs_rcvd s)).
Proof. exact disconnect_rx. Qed.
Print Assumptions C06_disconnect_rx.

Theorem C06_drop_tx_wakes_receiver : forall b s t s', reachable b s -> step s (LDropTx t) s' ->
  ch_senders (cs_c s') = 0 -> forall r, In r (ch_wrecv (cs_c s')) -> sts (cs_e s') r = Some Runnable.
Proof. exact drop_tx_wakes_receiver. Qed.
Print Assumptions C06_drop_tx_wakes_receiver.

Theorem C06_disconnect_tx : forall b s, reachable b s -> ch_senders (cs_c s) = 0 ->
  (forall r, In r (ch_wrecv (cs_c s)) -> sts (cs_e s) r = Some Runnable) /\
  ch_wsend (cs_c s) = [] /\
  (forall t cb s', step s (LRecv t cb) s' ->
      match ch_msgs (cs_c s) with
      | [] => s' = s /\ chan_recv_pre (cs_e s) (cs_c s) cb = Some (cs_e s, cs_c s, RvDisconnected)
      | (v, _) :: rest => cs_rcvd s' = cs_rcvd s ++ [v] /\ ch_msgs (cs_c s') = rest
      end) /\
  (forall t s', step s (LRecvWoken t) s' ->
      match ch_msgs (cs_c s) with
      | [] => s' = mkCst (cs_e s) (set_wrecv (cs_c s) []) (cs_sent s) (cs_rcvd s) /\
              exists c1, chan_recv_woken (cs_e s) (cs_c s) = Some (cs_e s, c1, RvDisconnected)
      | (v, _) :: rest => cs_rcvd s' = cs_rcvd s ++ [v] /\ ch_msgs (cs_c s') = rest
      end).
Proof. exact disconnect_tx. Qed.
Print Assumptions C06_disconnect_tx.

(* function level, any state *)
Theorem C06_send_pre_disconnected : forall e c cb e' c' r m,
  me e = Some m -> ch_receivers c = 0 -> chan_send_pre e c cb = Some (e', c', r) -> r = SdDisconnected /\ e' = e /\ c' = c.
Proof. exact send_pre_disconnected. Qed.
Print Assumptions C06_send_pre_disconnected.

Theorem C06_send_woken_disconnected : forall e c e' c' r m,
  me e = Some m -> ch_receivers c = 0 -> chan_send_woken e c = Some (e', c', r) ->
  r = SdDisconnected /\ e' = e /\ c' = set_wsend c (remove_t m (ch_wsend c)).
Proof. exact send_woken_disconnected. Qed.
Print Assumptions C06_send_woken_disconnected.

Theorem C06_recv_pre_senders_gone : forall e c cb e' c' r m,
  me e = Some m -> ch_senders c = 0 -> chan_recv_pre e c cb = Some (e', c', r) -> (r = RvDisconnected <-> ch_msgs c = []).
Proof. exact recv_pre_senders_gone. Qed.
Print Assumptions C06_recv_pre_senders_gone.

Theorem C06_recv_woken_senders_gone : forall e c e' c' r m,
  me e = Some m -> ch_senders c = 0 -> chan_recv_woken e c = Some (e', c', r) ->
  (r = RvDisconnected <-> ch_msgs c = []) /\ (r <> RvDisconnected -> r = RvOk 0).
Proof. exact recv_woken_senders_gone. Qed.
Print Assumptions C06_recv_woken_senders_gone.

(* ================================================================== *)
(* 5. no lost wake-up (the coupling invariant)                         *)
(* ================================================================== *)
Theorem C06_chan_blocked_exact : forall b s, reachable b s ->
  let e := cs_e s in let c := cs_c s in
  (forall t, In t (ch_wsend c ++ ch_wrecv c) -> sts e t = Some Runnable \/ sts e t = Some (Blocked false)) /\
  (ch_receivers c <> 0 -> forall h rest, ch_wsend c = h :: rest ->
     (sts e h = Some Runnable <-> room c) /\ (forall t, In t rest -> sts e t = Some (Blocked false))) /\
  (ch_receivers c = 0 -> forall t, In t (ch_wsend c) -> sts e t = Some Runnable) /\
  (forall r, In r (ch_wrecv c) -> ch_wrecv c = [r] /\ (sts e r = Some Runnable <-> ch_msgs c <> [] \/ ch_senders c = 0)).
Proof. exact chan_blocked_exact. Qed.
Print Assumptions C06_chan_blocked_exact.

Theorem C06_no_lost_wakeup_sender : forall b s h rest, reachable b s ->
  ch_wsend (cs_c s) = h :: rest -> (room (cs_c s) \/ ch_receivers (cs_c s) = 0) -> sts (cs_e s) h = Some Runnable.
Proof. exact no_lost_wakeup_sender. Qed.
Print Assumptions C06_no_lost_wakeup_sender.

Theorem C06_no_lost_wakeup_receiver : forall b s r, reachable b s ->
  In r (ch_wrecv (cs_c s)) -> (ch_msgs (cs_c s) <> [] \/ ch_senders (cs_c s) = 0) -> sts (cs_e s) r = Some Runnable.
Proof. exact no_lost_wakeup_receiver. Qed.
Print Assumptions C06_no_lost_wakeup_receiver.

(* the invariant behind 1, 2, 5, 6 is inductive *)
Theorem C06_inv_step : forall s l s', Inv s -> step s l s' -> Inv s'.
Proof. exact inv_step. Qed.
Print Assumptions C06_inv_step.

(* ================================================================== *)
(* 6. no channel-specific panic                                        *)
(* ================================================================== *)
(* clk_room e t: task t has a clock with an entry for itself that can still be incremented twice (the only
   non-channel reason for a None: VectorClock::increment out of range / u32 overflow) *)
Theorem C06_chan_no_crash : forall b s l,
  reachable b s -> guard s l -> (forall t, actor_of l = Some t -> clk_room (cs_e s) t) -> exec_lbl s l <> None.
Proof. exact chan_no_crash. Qed.
Print Assumptions C06_chan_no_crash.

Theorem C06_woken_sender_is_head : forall b s t,
  reachable b s -> In t (ch_wsend (cs_c s)) -> sts (cs_e s) t = Some Runnable -> ch_receivers (cs_c s) <> 0 ->
  exists rest, ch_wsend (cs_c s) = t :: rest.
Proof. exact woken_sender_is_head. Qed.
Print Assumptions C06_woken_sender_is_head.

Theorem C06_woken_receiver_is_head_and_has_message : forall b s t,
  reachable b s -> In t (ch_wrecv (cs_c s)) -> sts (cs_e s) t = Some Runnable ->
  ch_wrecv (cs_c s) = [t] /\ (~ rv_disc (cs_c s) -> ch_msgs (cs_c s) <> []).
Proof. exact woken_receiver_is_head_and_has_message. Qed.
Print Assumptions C06_woken_receiver_is_head_and_has_message.

Theorem C06_receiver_clock_shape : forall b s, reachable b s ->
  match ch_bound (cs_c s) with
  | None => ch_rclock (cs_c s) = None
  | Some 0 => True
  | Some k => exists rc, ch_rclock (cs_c s) = Some rc /\ length rc + length (ch_msgs (cs_c s)) = k
  end.
Proof. exact receiver_clock_shape. Qed.
Print Assumptions C06_receiver_clock_shape.

Theorem C06_waiting_senders_bounded : forall b s,
  reachable b s -> ch_wsend (cs_c s) <> [] -> ch_bound (cs_c s) <> None.
Proof. exact waiting_senders_bounded. Qed.
Print Assumptions C06_waiting_senders_bounded.

(* the function-level totality lemmas used by C06_chan_no_crash *)
Theorem C06_chan_send_woken_ok : forall e c m,
  me e = Some m -> (ch_receivers c <> 0 -> exists rest, ch_wsend c = m :: rest) -> chan_send_woken e c <> None.
Proof. exact chan_send_woken_ok. Qed.
Theorem C06_chan_recv_woken_ok : forall e c m,
  me e = Some m -> (~ rv_disc c -> exists rest, ch_wrecv c = m :: rest) -> chan_recv_woken e c <> None.
Proof. exact chan_recv_woken_ok. Qed.
Theorem C06_chan_send_deliver_ok : forall e c v m,
  me e = Some m -> clk_room e m ->
  (forall t, In t (ch_wsend c ++ ch_wrecv c) -> alive e t) ->
  (ch_wsend c <> [] -> ch_bound c <> None) ->
  (is_rendezvous c = false -> ch_rclock c <> Some []) ->
  chan_send_deliver e c v <> None.
Proof. exact chan_send_deliver_ok. Qed.
Theorem C06_chan_recv_take_ok : forall e c m,
  me e = Some m -> alive e m -> ch_msgs c <> [] ->
  (forall t, In t (ch_wsend c ++ ch_wrecv c) -> alive e t) ->
  (ch_wsend c <> [] -> ch_bound c <> None) ->
  match ch_rclock c, ch_bound c with
  | Some rc, Some (S b) => length rc < S b
  | Some _, None => False
  | _, _ => True end ->
  chan_recv_take e c <> None.
Proof. exact chan_recv_take_ok. Qed.
Print Assumptions C06_chan_send_deliver_ok.
Print Assumptions C06_chan_recv_take_ok.

(* ================================================================== *)
(* non-vacuity: scripts run by the guard-checking runner               *)
(* ================================================================== *)
(* a script accepted by run_checked is a path of the transition system *)
Theorem C06_run_checked_reachable : forall b ks s s', reachable b s -> run_checked ks s = Some s' -> reachable b s'.
Proof. exact run_checked_reachable. Qed.

(* Task 0 is the receiver, tasks 1 and 2 are senders (1 clones the Sender for 2).
   obs = (sent, received, buffered values, ch_wsend, ch_wrecv, (senders, receivers), states of tasks 0,1,2). *)
Definition S0 (b : option nat) : cst := init b e0.
Definition R := Some Runnable.
Definition B := Some (Blocked false).

(* --- unbounded: receiver blocks first and is woken by the first send; FIFO across two senders;
       try_recv Empty; drain after the senders are gone, then Disconnected *)
Definition scA1 := [Do (LRecv 0 true); Sw 1; Do (LClone 1); Do (LSend 1 1%N true); Sw 2; Do (LSend 2 10%N true); Sw 1; Do (LSend 1 2%N true)].
Example exA1 : option_map obs (run_checked scA1 (S0 None))
  = Some ([1;10;2]%N, [], [1;10;2]%N, [], [0], (2, 1), [R; R; R]).
Proof. vm_compute. reflexivity. Qed.
Definition scA2 := scA1 ++ [Sw 0; Do (LRecvWoken 0); Do (LRecv 0 true); Do (LRecv 0 false)].
Example exA2 : option_map obs (run_checked scA2 (S0 None))
  = Some ([1;10;2]%N, [1;10;2]%N, [], [], [], (2, 1), [R; R; R]).
Proof. vm_compute. reflexivity. Qed.
Example exA2_try_empty : option_map (fun s => recv_answer s false) (run_checked scA2 (S0 None)) = Some (Some RvEmpty).
Proof. vm_compute. reflexivity. Qed.
Definition scA3 := scA2 ++ [Sw 1; Do (LSend 1 3%N true); Do (LDropTx 1); Sw 2; Do (LDropTx 2); Sw 0].
Example exA3_senders_gone : option_map obs (run_checked scA3 (S0 None))
  = Some ([1;10;2;3]%N, [1;10;2]%N, [3]%N, [], [], (0, 1), [R; R; R]).
Proof. vm_compute. reflexivity. Qed.
Example exA3_drain : option_map obs (run_checked (scA3 ++ [Do (LRecv 0 true)]) (S0 None))
  = Some ([1;10;2;3]%N, [1;10;2;3]%N, [], [], [], (0, 1), [R; R; R]).
Proof. vm_compute. reflexivity. Qed.
Example exA3_then_disconnected :
  option_map (fun s => recv_answer s true) (run_checked (scA3 ++ [Do (LRecv 0 true)]) (S0 None)) = Some (Some RvDisconnected).
Proof. vm_compute. reflexivity. Qed.

(* --- bound 2: try_send Full, a sender blocks when full, a receive releases it, it delivers;
       the Receiver is dropped while a sender is blocked: the sender is woken and gets Disconnected *)
Definition scB1 := [Sw 1; Do (LClone 1); Do (LSend 1 1%N true); Do (LSend 1 2%N true); Sw 2].
Example exB1_try_full : option_map (fun s => send_answer s false) (run_checked scB1 (S0 (Some 2))) = Some (Some SdFull).
Proof. vm_compute. reflexivity. Qed.
Definition scB2 := scB1 ++ [Do (LSend 2 10%N false); Do (LSend 2 10%N true)].
Example exB2_blocked : option_map obs (run_checked scB2 (S0 (Some 2)))
  = Some ([1;2]%N, [], [1;2]%N, [2], [], (2, 1), [R; R; B]).
Proof. vm_compute. reflexivity. Qed.
Definition scB3 := scB2 ++ [Sw 0; Do (LRecv 0 true)].
Example exB3_released_by_recv : option_map obs (run_checked scB3 (S0 (Some 2)))
  = Some ([1;2]%N, [1]%N, [2]%N, [2], [], (2, 1), [R; R; R]).
Proof. vm_compute. reflexivity. Qed.
Definition scB4 := scB3 ++ [Sw 2; Do (LSendWoken 2 10%N)].
Example exB4_delivers : option_map obs (run_checked scB4 (S0 (Some 2)))
  = Some ([1;2;10]%N, [1]%N, [2;10]%N, [], [], (2, 1), [R; R; R]).
Proof. vm_compute. reflexivity. Qed.
Definition scB5 := scB4 ++ [Sw 1; Do (LSend 1 3%N true)].
Example exB5_blocked_again : option_map obs (run_checked scB5 (S0 (Some 2)))
  = Some ([1;2;10]%N, [1]%N, [2;10]%N, [1], [], (2, 1), [R; B; R]).
Proof. vm_compute. reflexivity. Qed.
Definition scB6 := scB5 ++ [Sw 0; Do (LDropRx 0); Sw 1].
Example exB6_receiver_dropped : option_map obs (run_checked scB6 (S0 (Some 2)))
  = Some ([1;2;10]%N, [1]%N, [2;10]%N, [1], [], (2, 0), [R; R; R]).
Proof. vm_compute. reflexivity. Qed.
Example exB6_woken_disconnected : option_map send_woken_answer (run_checked scB6 (S0 (Some 2))) = Some (Some SdDisconnected).
Proof. vm_compute. reflexivity. Qed.
Definition scB7 := scB6 ++ [Do (LSendWoken 1 3%N); Sw 2].
Example exB7 : option_map obs (run_checked scB7 (S0 (Some 2)))
  = Some ([1;2;10]%N, [1]%N, [2;10]%N, [], [], (2, 0), [R; R; R]).
Proof. vm_compute. reflexivity. Qed.
Example exB7_send_disconnected : option_map (fun s => send_answer s true) (run_checked scB7 (S0 (Some 2))) = Some (Some SdDisconnected).
Proof. vm_compute. reflexivity. Qed.

(* --- bound 1: two senders queue up in FIFO order; each receive releases exactly the head; the woken head
       delivers without waking the next (buffer full again); drain after the senders are gone *)
Definition scC1 := [Sw 1; Do (LClone 1); Do (LSend 1 1%N true); Sw 2; Do (LSend 2 10%N true); Sw 1; Do (LSend 1 2%N true)].
Example exC1 : option_map obs (run_checked scC1 (S0 (Some 1)))
  = Some ([1]%N, [], [1]%N, [2; 1], [], (2, 1), [R; B; B]).
Proof. vm_compute. reflexivity. Qed.
Definition scC2 := scC1 ++ [Sw 0; Do (LRecv 0 true)].
Example exC2_head_released : option_map obs (run_checked scC2 (S0 (Some 1)))
  = Some ([1]%N, [1]%N, [], [2; 1], [], (2, 1), [R; B; R]).
Proof. vm_compute. reflexivity. Qed.
Definition scC3 := scC2 ++ [Sw 2; Do (LSendWoken 2 10%N)].
Example exC3_next_stays_blocked : option_map obs (run_checked scC3 (S0 (Some 1)))
  = Some ([1;10]%N, [1]%N, [10]%N, [1], [], (2, 1), [R; B; R]).
Proof. vm_compute. reflexivity. Qed.
Definition scC4 := scC3 ++ [Do (LDropTx 2); Sw 0; Do (LRecv 0 true); Sw 1; Do (LSendWoken 1 2%N); Do (LDropTx 1); Sw 0].
Example exC4_senders_gone : option_map obs (run_checked scC4 (S0 (Some 1)))
  = Some ([1;10;2]%N, [1;10]%N, [2]%N, [], [], (0, 1), [R; R; R]).
Proof. vm_compute. reflexivity. Qed.
Example exC5_drain : option_map obs (run_checked (scC4 ++ [Do (LRecv 0 true)]) (S0 (Some 1)))
  = Some ([1;10;2]%N, [1;10;2]%N, [], [], [], (0, 1), [R; R; R]).
Proof. vm_compute. reflexivity. Qed.
Example exC5_then_disconnected :
  option_map (fun s => recv_answer s true) (run_checked (scC4 ++ [Do (LRecv 0 true)]) (S0 (Some 1))) = Some (Some RvDisconnected).
Proof. vm_compute. reflexivity. Qed.

(* --- rendezvous: senders block without a receiver; the arriving receiver wakes the head sender and blocks;
       the sender hands the message over; the second sender stays blocked until the next recv;
       try_recv with a waiting sender BLOCKS (RvBlock) instead of answering Empty *)
Example exD0_try_send_full : option_map (fun s => send_answer s false) (run_checked [Sw 1] (S0 (Some 0))) = Some (Some SdFull).
Proof. vm_compute. reflexivity. Qed.
Definition scD1 := [Sw 1; Do (LClone 1); Do (LSend 1 1%N true); Sw 2; Do (LSend 2 10%N true)].
Example exD1 : option_map obs (run_checked scD1 (S0 (Some 0)))
  = Some ([], [], [], [1; 2], [], (2, 1), [R; B; B]).
Proof. vm_compute. reflexivity. Qed.
Definition scD2 := scD1 ++ [Sw 0; Do (LRecv 0 true)].
Example exD2_receiver_wakes_head : option_map obs (run_checked scD2 (S0 (Some 0)))
  = Some ([], [], [], [1; 2], [0], (2, 1), [B; R; B]).
Proof. vm_compute. reflexivity. Qed.
Definition scD3 := scD2 ++ [Sw 1; Do (LSendWoken 1 1%N)].
Example exD3_handoff : option_map obs (run_checked scD3 (S0 (Some 0)))
  = Some ([1]%N, [], [1]%N, [2], [0], (2, 1), [R; R; B]).
Proof. vm_compute. reflexivity. Qed.
Definition scD4 := scD3 ++ [Sw 0; Do (LRecvWoken 0)].
Example exD4_taken : option_map obs (run_checked scD4 (S0 (Some 0)))
  = Some ([1]%N, [1]%N, [], [2], [], (2, 1), [R; R; B]).
Proof. vm_compute. reflexivity. Qed.
Example exD4_try_recv_blocks : option_map (fun s => recv_answer s false) (run_checked scD4 (S0 (Some 0))) = Some (Some RvBlock).
Proof. vm_compute. reflexivity. Qed.
Definition scD5 := scD4 ++ [Do (LRecv 0 false)].
Example exD5 : option_map obs (run_checked scD5 (S0 (Some 0)))
  = Some ([1]%N, [1]%N, [], [2], [0], (2, 1), [B; R; R]).
Proof. vm_compute. reflexivity. Qed.
Definition scD6 := scD5 ++ [Sw 2; Do (LSendWoken 2 10%N); Do (LDropTx 2); Sw 1; Do (LDropTx 1); Sw 0; Do (LRecvWoken 0)].
Example exD6 : option_map obs (run_checked scD6 (S0 (Some 0)))
  = Some ([1;10]%N, [1;10]%N, [], [], [], (0, 1), [R; R; R]).
Proof. vm_compute. reflexivity. Qed.
Example exD6_then_disconnected : option_map (fun s => recv_answer s true) (run_checked scD6 (S0 (Some 0))) = Some (Some RvDisconnected).
Proof. vm_compute. reflexivity. Qed.
(* receiver first: try_send succeeds by direct hand-off *)
Example exD7_direct_handoff : option_map obs (run_checked [Do (LRecv 0 true); Sw 1; Do (LSend 1 5%N false)] (S0 (Some 0)))
  = Some ([5]%N, [], [5]%N, [], [0], (1, 1), [R; R; R]).
Proof. vm_compute. reflexivity. Qed.

(* the examples are reachable states *)
Example exD6_reachable : exists s, run_checked scD6 (S0 (Some 0)) = Some s /\ reachable (Some 0) s.
Proof.
  destruct (run_checked scD6 (S0 (Some 0))) as [s|] eqn:H; [|vm_compute in H; discriminate].
  exists s. split; [reflexivity|]. exact (run_checked_reachable _ _ _ _ (reach_init _ e0) H).
Qed.

(* ================================================================== *)
(* out of contract: two tasks sharing the Receiver (possible with shuttle's Receiver, which is Sync;  *)
(* impossible with std's).  Items 5 and 6 are FALSE without the single-consumer guard.                 *)
(* ================================================================== *)
(* lost wake-up: task 0 waits, 1 sends and drops the last Sender (0 is woken), task 2 starts recv while 0 is
   still queued and blocks behind it; 0 takes the message; 2 stays Blocked although the channel is empty and
   disconnected (recv should answer Disconnected): nobody will ever wake it. *)
Definition ce_lost := [Do (LRecv 0 true); Sw 1; Do (LSend 1 1%N true); Do (LDropTx 1); Sw 2; Do (LRecv 2 true); Sw 0; Do (LRecvWoken 0)].
Example ce_lost_wakeup : option_map obs (run_unchecked ce_lost (S0 None))
  = Some ([1]%N, [1]%N, [], [], [2], (0, 1), [R; R; B]).
Proof. vm_compute. reflexivity. Qed.
Example ce_lost_rejected_by_guard : run_checked ce_lost (S0 None) = None.
Proof. vm_compute. reflexivity. Qed.
(* panic: 0 and 2 both wait; 1 sends (wakes 0) and drops the last Sender (wakes 0 and 2); 2 runs first:
   the buffer is not empty, so it takes the non-disconnected path and assert_eq!(head, me) fails. *)
Definition ce_panic := [Do (LRecv 0 true); Sw 2; Do (LRecv 2 true); Sw 1; Do (LSend 1 1%N true); Do (LDropTx 1); Sw 2].
Example ce_assert_fails : option_map recv_woken_answer (run_unchecked ce_panic (S0 None)) = Some None.
Proof. vm_compute. reflexivity. Qed.

Print Assumptions C06_chan_send_woken_ok.
Print Assumptions C06_chan_recv_woken_ok.
Print Assumptions C06_run_checked_reachable.
