(* C16 — Schedule strings round-trip exactly and malformed strings are rejected.
   Statement-only file: every theorem is closed by `exact` of a lemma from Proofs/. *)
From Coq Require Import List NArith.
From SV Require Import Params Codec.Varint Codec.Schedule Proofs.CodecProofs.
Import ListNotations.
Open Scope N_scope.

(* Serialising any well-formed schedule (seed, ids and length below 2^64; any mix of steps; the
   empty schedule included) and parsing the printed text yields the equal schedule. *)
Theorem C16_roundtrip : forall s, wf s -> deser (ser s) = Decoded s.
Proof. exact roundtrip. Qed.

(* ... with or without its line breaks and surrounding / interleaved Unicode white space. *)
Theorem C16_roundtrip_ws : forall s t, wf s -> strip_ws t = strip_ws (ser s) -> deser t = Decoded s.
Proof. exact roundtrip_ws. Qed.

(* The decoder never reaches a panicking construct, for any string whatsoever. *)
Theorem C16_total : forall t, deser t <> Crash.
Proof. exact deser_total. Qed.

(* A schedule is only ever produced from bytes that carry its complete encoding. *)
Theorem C16_sound : forall t s, deser t = Decoded s ->
  exists w r0 r1 r2 r3 rest,
    unhex (strip_ws t) = Some (SCHEDULE_MAGIC :: r0) /\
    dec r0 = Some (N.of_nat w, r1) /\ (1 <= w <= 64)%nat /\
    dec r1 = Some (N.of_nat (length (steps s)), r2) /\
    dec r2 = Some (seed s, r3) /\
    bytes_to_bits r3 = pack w (steps s) ++ rest /\ Forall (fits w) (steps s).
Proof. exact deser_sound. Qed.

Theorem C16_reject_empty : forall t, strip_ws t = [] -> deser t = Invalid.
Proof. exact reject_empty. Qed.
Theorem C16_reject_odd : forall t n, length (strip_ws t) = S (2 * n) -> deser t = Invalid.
Proof. exact reject_odd. Qed.
Theorem C16_reject_bad_char : forall t c, In c (strip_ws t) -> unhex_digit c = None -> deser t = Invalid.
Proof. exact reject_bad_char. Qed.
Theorem C16_reject_version : forall t v r,
  unhex (strip_ws t) = Some (v :: r) -> v <> SCHEDULE_MAGIC -> deser t = Invalid.
Proof. exact reject_version. Qed.

(* non-vacuity: a concrete non-trivial schedule meets wf, and its text really is wrapped *)
Definition ex_sched : schedule :=
  {| seed := 18446744073709551615;
     steps := [Task 0; Random; Task 18446744073709551615; Task 9223372036854775808; Random; Task 1]
              ++ repeat (Task 4096) 40 |}.
Example C16_wf_nonvacuous : wf ex_sched /\ In 10 (ser ex_sched) /\ deser (ser ex_sched) = Decoded ex_sched.
Proof.
  split; [|split].
  - unfold wf, ex_sched; cbn [seed steps]. split; [vm_compute; reflexivity|]. split.
    + apply Forall_forall. intros x Hx. apply in_app_or in Hx as [Hx|Hx].
      * cbn in Hx. repeat (destruct Hx as [<-|Hx]; [cbn; try exact I; vm_compute; reflexivity|]). destruct Hx.
      * apply repeat_spec in Hx. subst. vm_compute. reflexivity.
    + vm_compute. reflexivity.
  - vm_compute. tauto.
  - vm_compute. reflexivity.
Qed.
Example C16_reject_examples :
  deser [] = Invalid /\ deser [57; 49; 48; 49; 48; 51; 48; 48] = Invalid      (* "91010300": cut short *)
  /\ deser [57; 49; 48; 48; 48; 49; 48; 48; 48; 48] = Invalid                 (* width 0 *)
  /\ deser [57; 49; 52; 49; 48; 49; 48; 48; 48; 48] = Invalid                 (* width 65 *)
  /\ deser [57; 50; 48; 49; 48; 48; 48; 48] = Invalid                         (* unknown version *)
  /\ deser [57; 49; 48] = Invalid /\ deser [57; 49; 122; 122] = Invalid.
Proof. vm_compute. repeat split. Qed.

Print Assumptions C16_roundtrip.
Print Assumptions C16_roundtrip_ws.
Print Assumptions C16_total.
Print Assumptions C16_sound.
Print Assumptions C16_reject_empty.
Print Assumptions C16_reject_odd.
Print Assumptions C16_reject_bad_char.
Print Assumptions C16_reject_version.
