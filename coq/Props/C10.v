(* ===================================================================== *)
(*  SV.Props.C10 -- the random scheduler: uniform choice among the        *)
(*  offered tasks and reproduction of an iteration from its seed.         *)
(*  STATEMENTS ONLY: every proof is `exact <lemma of RandomProofs>`;      *)
(*  the Examples are test vectors produced by the real Rust code          *)
(*  (rand 0.8.8 / rand_pcg 0.3.1 / rand_core 0.6.4, and the repository's  *)
(*  own RandomScheduler / FixedDataSource) and are checked by vm_compute. *)
(* ===================================================================== *)

From Coq Require Import NArith List.
From SV Require Import Sched.Random Proofs.RandomProofs.
Import ListNotations.
Local Open Scope N_scope.

(* --------------------------------------------------------------------- *)
(*  Uniformity of `runnable.choose(&mut rng)`                             *)
(* --------------------------------------------------------------------- *)

(* For a list of n offered tasks (1 <= n < 2^32) and a position i, a 32-bit
   draw v is accepted with result i exactly when v lies in the interval
   [ceil(i*2^32/n), ceil(i*2^32/n) + 2^(lz n)), lz n = n.leading_zeros().
   The interval length does not depend on i.                              *)
Theorem C10_choose_uniform :
  forall n i v : N,
    1 <= n -> n < 2 ^ 32 -> v < 2 ^ 32 ->
    (accept n v = Some i
     <-> (ceil_div (i * 2 ^ 32) n <= v /\
          v < ceil_div (i * 2 ^ 32) n + 2 ^ (lz n))).
Proof. exact accept_interval. Qed.
Print Assumptions C10_choose_uniform.

(* For i < n the whole interval consists of valid 32-bit draws, so position
   i has exactly 2^(lz n) accepting draws -- the same number for every i.  *)
Theorem C10_choose_interval_in_bounds :
  forall n i : N,
    1 <= n -> n < 2 ^ 32 -> i < n ->
    ceil_div (i * 2 ^ 32) n + 2 ^ (lz n) <= 2 ^ 32.
Proof. exact accept_interval_in_bounds. Qed.
Print Assumptions C10_choose_interval_in_bounds.

(* Same fact as an explicit bijection k |-> c_i + k from [0, 2^(lz n)). *)
Theorem C10_choose_uniform_bijection :
  forall n i : N,
    1 <= n -> n < 2 ^ 32 -> i < n ->
    forall v, (v < 2 ^ 32 /\ accept n v = Some i)
              <-> exists k, k < 2 ^ (lz n) /\ v = ceil_div (i * 2 ^ 32) n + k.
Proof. exact accept_offsets. Qed.
Print Assumptions C10_choose_uniform_bijection.

Theorem C10_positive :
  forall n i : N,
    1 <= n -> n < 2 ^ 32 -> i < n ->
    exists v, v < 2 ^ 32 /\ accept n v = Some i.
Proof. exact accept_positive. Qed.
Print Assumptions C10_positive.

(* An accepted draw always yields a valid position. *)
Theorem C10_accept_in_range :
  forall n v i : N,
    1 <= n -> n < 2 ^ 32 -> v < 2 ^ 32 -> accept n v = Some i -> i < n.
Proof. exact accept_lt. Qed.
Print Assumptions C10_accept_in_range.

(* At least half of all draws are accepted: n*2^(lz n) of the 2^32. *)
Theorem C10_accept_at_least_half :
  forall n : N,
    1 <= n -> n < 2 ^ 32 ->
    n * 2 ^ (lz n) < 2 ^ 32 /\ 2 ^ 32 <= 2 * (n * 2 ^ (lz n)).
Proof. exact accept_zone_half. Qed.
Print Assumptions C10_accept_at_least_half.

(* The loop is "draw v = next_u32; return accept n v, or draw again". *)
Theorem C10_sample_single_unfold :
  forall (n : N) (fuel : nat) (st : N),
    sample_single n (S fuel) st =
    match accept n (fst (pcg_next_u32 st)) with
    | Some hi => Some (hi, snd (pcg_next_u32 st))
    | None => sample_single n fuel (snd (pcg_next_u32 st))
    end.
Proof. exact sample_single_S. Qed.
Print Assumptions C10_sample_single_unfold.

(* The fuel parameter never influences a result. *)
Theorem C10_fuel_irrelevant :
  forall (n : N) (f f' : nat) (st : N) (r : N * N),
    (f <= f')%nat -> sample_single n f st = Some r -> sample_single n f' st = Some r.
Proof. exact sample_single_fuel_mono. Qed.
Print Assumptions C10_fuel_irrelevant.

(* next_task returns one of the offered task ids. *)
Theorem C10_next_task_offered :
  forall (fuel : nat) (r : rs) (l : list N) (t : N) (r' : rs),
    rs_next_task fuel r l = Done (t, r') -> In t l.
Proof. exact rs_next_task_In. Qed.
Print Assumptions C10_next_task_offered.

(* --------------------------------------------------------------------- *)
(*  Reproduction of an iteration from its seed                            *)
(* --------------------------------------------------------------------- *)

(* Whatever happened before, if new_execution hands out schedule seed s_i,
   then both RNG states right after it are those right after the first
   new_execution of a fresh scheduler built from s_i.                     *)
Theorem C10_iteration_seed_reproduces :
  forall (s k : N) (r : rs) (si : N) (r' : rs),
    rs_reachable s k r ->
    rs_new_execution r = Some (si, r') ->
    exists r1,
      rs_new_execution (rs_new_from_seed si 1) = Some (si, r1) /\
      (rs_rng r', ds_rng (rs_data_source r')) =
      (rs_rng r1, ds_rng (rs_data_source r1)).
Proof. exact rs_iteration_seed_reproduces. Qed.
Print Assumptions C10_iteration_seed_reproduces.

(* The reachability premise is not even needed. *)
Theorem C10_iteration_seed_reproduces_any_state :
  forall (r : rs) (s : N) (r' : rs),
    rs_new_execution r = Some (s, r') ->
    exists r1,
      rs_new_execution (rs_new_from_seed s 1) = Some (s, r1) /\
      rs_rng r' = rs_rng r1 /\
      ds_rng (rs_data_source r') = ds_rng (rs_data_source r1) /\
      rs_data_source r' = rs_data_source r1.
Proof. exact rs_seed_reproduces_any. Qed.
Print Assumptions C10_iteration_seed_reproduces_any_state.

(* Corollary: the same decisions and the same data draws on any common
   sequence of next_task / next_u64 calls made in that iteration.         *)
Theorem C10_iteration_replay :
  forall (s k : N) (r : rs) (si : N) (r' : rs),
    rs_reachable s k r ->
    rs_new_execution r = Some (si, r') ->
    exists r1,
      rs_new_execution (rs_new_from_seed si 1) = Some (si, r1) /\
      forall fuel cs, fst (rs_run fuel r' cs) = fst (rs_run fuel r1 cs).
Proof. exact rs_iteration_replay. Qed.
Print Assumptions C10_iteration_replay.

(* The seed handed out is a u64, so it is a legal new_from_seed argument. *)
Theorem C10_schedule_seed_is_u64 :
  forall (s k : N) (r : rs) (si : N) (r' : rs),
    rs_reachable s k r -> s < 2 ^ 64 ->
    rs_new_execution r = Some (si, r') -> si < 2 ^ 64.
Proof. exact rs_schedule_seed_u64. Qed.
Print Assumptions C10_schedule_seed_is_u64.

(* Determinism. *)
Theorem C10_same_seed_same_run :
  forall (fuel : nat) (s k : N) (rounds : list (list call)) (a b : rs),
    a = rs_new_from_seed s k -> b = rs_new_from_seed s k ->
    rs_session fuel a rounds = rs_session fuel b rounds.
Proof. exact rs_same_seed_same_run. Qed.
Print Assumptions C10_same_seed_same_run.

(* ... and max_iterations only matters through exhaustion. *)
Theorem C10_same_seed_same_run_any_max_iterations :
  forall (fuel : nat) (s k1 k2 : N) (rounds : list (list call)),
    N.of_nat (length rounds) <= k1 -> N.of_nat (length rounds) <= k2 ->
    rs_session fuel (rs_new_from_seed s k1) rounds =
    rs_session fuel (rs_new_from_seed s k2) rounds.
Proof. exact rs_session_max_iterations_irrelevant. Qed.
Print Assumptions C10_same_seed_same_run_any_max_iterations.

(* --------------------------------------------------------------------- *)
(*  FixedDataSource (used by DFS): every execution sees the same data     *)
(* --------------------------------------------------------------------- *)

Theorem C10_fixed_data :
  forall (s : N) (f1 f2 : fd) (k : nat),
    fd_reachable s f1 -> fd_reachable s f2 ->
    fst (fd_reinitialize f1) = s /\ fst (fd_reinitialize f2) = s /\
    fd_stream k (snd (fd_reinitialize f1)) = fd_stream k (snd (fd_reinitialize f2)).
Proof. exact fd_fixed_stream. Qed.
Print Assumptions C10_fixed_data.

(* Stronger: reinitialize returns the seed and one fixed state. *)
Theorem C10_fixed_data_state :
  forall (s : N) (f : fd),
    fd_reachable s f -> fd_reinitialize f = (s, fd_fresh s).
Proof. exact fd_fixed. Qed.
Print Assumptions C10_fixed_data_state.

(* --------------------------------------------------------------------- *)
(*  Test vectors from the real Rust code                                  *)
(*  (/tmp/ag-c10/rs: rand + rand_pcg only; /tmp/ag-c10/rs2: the           *)
(*  repository's RandomScheduler and FixedDataSource)                     *)
(* --------------------------------------------------------------------- *)

(* tv_u64_K: first four next_u64 of Pcg64Mcg::seed_from_u64(seed).
   tv_choose_K_N: five consecutive `(0..N).collect::<Vec<_>>().choose(&mut rng)`
   from a fresh Pcg64Mcg::seed_from_u64(seed), then one rng.next_u64().   *)

Example tv_u64_0 :
  pcg_stream 4 (pcg_from_seed_u64 0) =
  [6198063878555692194; 15457584781082106573; 6494991894978360344; 12530309796461501907].
Proof. vm_compute. reflexivity. Qed.

Example tv_choose_0_1 :
  choose_then_u64 5 1 (pcg_from_seed_u64 0) =
  Some ([0; 0; 0; 0; 0], 5053945133697295964).
Proof. vm_compute. reflexivity. Qed.

Example tv_choose_0_2 :
  choose_then_u64 5 2 (pcg_from_seed_u64 0) =
  Some ([0; 0; 0; 1; 1], 7461738017555709148).
Proof. vm_compute. reflexivity. Qed.

Example tv_choose_0_3 :
  choose_then_u64 5 3 (pcg_from_seed_u64 0) =
  Some ([2; 1; 0; 2; 0], 595630858784266618).
Proof. vm_compute. reflexivity. Qed.

Example tv_choose_0_5 :
  choose_then_u64 5 5 (pcg_from_seed_u64 0) =
  Some ([1; 4; 2; 0; 4], 7289598312327249747).
Proof. vm_compute. reflexivity. Qed.

Example tv_choose_0_7 :
  choose_then_u64 5 7 (pcg_from_seed_u64 0) =
  Some ([1; 6; 3; 0; 0], 595630858784266618).
Proof. vm_compute. reflexivity. Qed.

Example tv_choose_0_1000 :
  choose_then_u64 5 1000 (pcg_from_seed_u64 0) =
  Some ([251; 913; 434; 92; 840], 7289598312327249747).
Proof. vm_compute. reflexivity. Qed.

Example tv_u64_1 :
  pcg_stream 4 (pcg_from_seed_u64 1) =
  [15803641690485367939; 2537432388316380799; 8678483373067562792; 13396942736186438980].
Proof. vm_compute. reflexivity. Qed.

Example tv_choose_1_1 :
  choose_then_u64 5 1 (pcg_from_seed_u64 1) =
  Some ([0; 0; 0; 0; 0], 1341980789042831343).
Proof. vm_compute. reflexivity. Qed.

Example tv_choose_1_2 :
  choose_then_u64 5 2 (pcg_from_seed_u64 1) =
  Some ([0; 1; 1; 0; 1], 2888283087007572080).
Proof. vm_compute. reflexivity. Qed.

Example tv_choose_1_3 :
  choose_then_u64 5 3 (pcg_from_seed_u64 1) =
  Some ([2; 0; 2; 2; 0], 7228268180155082411).
Proof. vm_compute. reflexivity. Qed.

Example tv_choose_1_5 :
  choose_then_u64 5 5 (pcg_from_seed_u64 1) =
  Some ([4; 3; 1; 3; 1], 7228268180155082411).
Proof. vm_compute. reflexivity. Qed.

Example tv_choose_1_7 :
  choose_then_u64 5 7 (pcg_from_seed_u64 1) =
  Some ([6; 1; 4; 1; 1], 7228268180155082411).
Proof. vm_compute. reflexivity. Qed.

Example tv_choose_1_1000 :
  choose_then_u64 5 1000 (pcg_from_seed_u64 1) =
  Some ([870; 199; 690; 260; 704], 10277665017230984823).
Proof. vm_compute. reflexivity. Qed.

Example tv_u64_2 :
  pcg_stream 4 (pcg_from_seed_u64 42) =
  [10580897095847554459; 2459073333136617071; 6565857352388044582; 4158018624955442615].
Proof. vm_compute. reflexivity. Qed.

Example tv_choose_2_1 :
  choose_then_u64 5 1 (pcg_from_seed_u64 42) =
  Some ([0; 0; 0; 0; 0], 7790803602043533514).
Proof. vm_compute. reflexivity. Qed.

Example tv_choose_2_2 :
  choose_then_u64 5 2 (pcg_from_seed_u64 42) =
  Some ([0; 1; 1; 1; 1], 1160291281936236080).
Proof. vm_compute. reflexivity. Qed.

Example tv_choose_2_3 :
  choose_then_u64 5 3 (pcg_from_seed_u64 42) =
  Some ([1; 2; 0; 2; 2], 14402017490770936894).
Proof. vm_compute. reflexivity. Qed.

Example tv_choose_2_5 :
  choose_then_u64 5 5 (pcg_from_seed_u64 42) =
  Some ([1; 2; 3; 3; 3], 1160291281936236080).
Proof. vm_compute. reflexivity. Qed.

Example tv_choose_2_7 :
  choose_then_u64 5 7 (pcg_from_seed_u64 42) =
  Some ([1; 6; 3; 5; 4], 3428478456072830911).
Proof. vm_compute. reflexivity. Qed.

Example tv_choose_2_1000 :
  choose_then_u64 5 1000 (pcg_from_seed_u64 42) =
  Some ([261; 946; 496; 773; 126], 6551488161959751673).
Proof. vm_compute. reflexivity. Qed.

Example tv_u64_3 :
  pcg_stream 4 (pcg_from_seed_u64 18446744073709551615) =
  [6206096000548683403; 14211345679586757052; 16873869928293931964; 12922840704744694719].
Proof. vm_compute. reflexivity. Qed.

Example tv_choose_3_1 :
  choose_then_u64 5 1 (pcg_from_seed_u64 18446744073709551615) =
  Some ([0; 0; 0; 0; 0], 10109057702349261663).
Proof. vm_compute. reflexivity. Qed.

Example tv_choose_3_2 :
  choose_then_u64 5 2 (pcg_from_seed_u64 18446744073709551615) =
  Some ([0; 0; 1; 1; 1], 1647124189952615952).
Proof. vm_compute. reflexivity. Qed.

Example tv_choose_3_3 :
  choose_then_u64 5 3 (pcg_from_seed_u64 18446744073709551615) =
  Some ([1; 2; 1; 0; 1], 18190814218455713770).
Proof. vm_compute. reflexivity. Qed.

Example tv_choose_3_5 :
  choose_then_u64 5 5 (pcg_from_seed_u64 18446744073709551615) =
  Some ([0; 0; 2; 3; 1], 1502878576417366418).
Proof. vm_compute. reflexivity. Qed.

Example tv_choose_3_7 :
  choose_then_u64 5 7 (pcg_from_seed_u64 18446744073709551615) =
  Some ([2; 5; 2; 0; 2], 18190814218455713770).
Proof. vm_compute. reflexivity. Qed.

Example tv_choose_3_1000 :
  choose_then_u64 5 1000 (pcg_from_seed_u64 18446744073709551615) =
  Some ([385; 765; 336; 122; 361], 18190814218455713770).
Proof. vm_compute. reflexivity. Qed.

(* RandomScheduler::new_from_seed(seed, 3), then four rounds of
   new_execution followed by 2, 1, 0, 0 next_u64 calls (real shuttle code). *)

Example tv_session_0 :
  rs_session 64 (rs_new_from_seed 0 3)
    [[CNextU64; CNextU64]; [CNextU64]; []; []] =
  [(Some 0, [OU64 6198063878555692194; OU64 15457584781082106573]);
   (Some 6494991894978360344, [OU64 1571525426286001904]);
   (Some 14059557630554110429, []);
   (None, [])].
Proof. vm_compute. reflexivity. Qed.

Example tv_session_42 :
  rs_session 64 (rs_new_from_seed 42 3)
    [[CNextU64; CNextU64]; [CNextU64]; []; []] =
  [(Some 42, [OU64 10580897095847554459; OU64 2459073333136617071]);
   (Some 6565857352388044582, [OU64 995660741551091707]);
   (Some 8858634778589261708, []);
   (None, [])].
Proof. vm_compute. reflexivity. Qed.

Example tv_session_18446744073709551615 :
  rs_session 64 (rs_new_from_seed 18446744073709551615 3)
    [[CNextU64; CNextU64]; [CNextU64]; []; []] =
  [(Some 18446744073709551615, [OU64 6206096000548683403; OU64 14211345679586757052]);
   (Some 16873869928293931964, [OU64 7390220685003741226]);
   (Some 9898196525395687676, []);
   (None, [])].
Proof. vm_compute. reflexivity. Qed.

(* FixedDataSource::initialize(7): reinitialize + 3 x next_u64, twice
   (real shuttle code printed (7, [12726360963827698830; 8784933628230385458;
   4994307442345819819]) both times).                                     *)
Example tv_fixed_7 :
  let '(s1, f1) := fd_reinitialize (fd_initialize 7) in
  let '(_, f1') := fd_next_u64 f1 in
  let '(s2, f2) := fd_reinitialize f1' in
  (s1, fd_stream 3 f1, s2, fd_stream 3 f2) =
  (7, [12726360963827698830; 8784933628230385458; 4994307442345819819],
   7, [12726360963827698830; 8784933628230385458; 4994307442345819819]).
Proof. vm_compute. reflexivity. Qed.
