(* C03: deadlock detection and completion are sound, and the scheduler is consulted exactly while
   the execution can and must go on.  Statements: Engine/Stmt.v.  Proofs: Proofs/EngineProofs.v. *)
From Coq Require Import List NArith Bool Arith.
From SV Require Import Clock.VClock Prim.Objects Prim.Atomic Engine.Exec Engine.Inv Sched.Replay Engine.Stmt
  Lang.Prog Proofs.EngineProofs.
Import ListNotations.

Theorem C03_deadlock_sound : stmt_deadlock_sound. Proof. exact deadlock_sound_proof. Qed.
Print Assumptions C03_deadlock_sound.

Theorem C03_pass_sound : stmt_pass_sound. Proof. exact pass_sound_proof. Qed.
Print Assumptions C03_pass_sound.

Theorem C03_decision_live : stmt_decision_live. Proof. exact decision_live_proof. Qed.
Print Assumptions C03_decision_live.

Theorem C03_schedule_ends : stmt_schedule_ends. Proof. exact schedule_ends_proof. Qed.
Print Assumptions C03_schedule_ends.

Theorem C03_no_internal_error : stmt_no_internal_error. Proof. exact no_internal_error_proof. Qed.
Print Assumptions C03_no_internal_error.

(* non-vacuity: main spawns a child and joins it; the child parks and nobody unparks it.  Main is
   blocked in join, the child is blocked in park: the run ends in ODeadlock with both tasks listed.
   With an unpark from main before the join the same program passes. *)
Example c03_deadlock :
  snd (run_prog 30 MSNone [] [[PSpawn 1; PJoin 0]; [PPark]] [] 0) = ODeadlock [0; 1]%nat.
Proof. vm_compute. reflexivity. Qed.

Example c03_pass :
  snd (run_prog 30 MSNone [] [[PSpawn 1; PUnparkH 0; PJoin 0]; [PPark]] [] 0) = OPass.
Proof. vm_compute. reflexivity. Qed.
