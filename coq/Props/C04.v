(* ------------------------------------------------------------------------- *)
(*  SV.Props.C04 : property C04, statements only.                             *)
(*                                                                            *)
(*  In every execution at most one task holds a given Mutex or a given       *)
(*  RwLock for writing, and no task holds it for reading while it is held for *)
(*  writing; lock and read/write return only when that is true,               *)
(*  try_lock/try_read/try_write succeed exactly when the lock is available    *)
(*  (re-entrant attempts fail or are diagnosed) and leave it unchanged when   *)
(*  they fail, and a lock released by a panicking holder is seen as poisoned. *)
(*  Every atomic operation takes effect indivisibly and all atomic operations *)
(*  of an execution form one total order consistent with program order, each  *)
(*  returning what std's atomic of the same type would return at that point.  *)
(*                                                                            *)
(*  Every theorem is `exact` a lemma of Proofs/LockProofs.v or                *)
(*  Proofs/AtomicProofs.v and is followed by Print Assumptions.               *)
(*                                                                            *)
(*  Status of the statement against the CURRENT model:                       *)
(*   (F1, REPAIRED) try_* leave the lock unchanged when they fail: was false   *)
(*        before the fix commit for a try_read by a task that already holds a  *)
(*        read guard (the permit was kept: C04_try_read_reentrant_leaks and    *)
(*        C04_ex_leak_blocks_writers_forever, about rw_try_code_prefix, the    *)
(*        code before the repair).  The current code gives the permit back     *)
(*        after a scheduling point: C04_rw_try_fail_restores (holder, readers, *)
(*        sm_avail unchanged, rw_ok again; only clocks, sm_batches and         *)
(*        sm_last_acquire may differ), and C04_rw_mutual_exclusion covers the  *)
(*        window in which the permit is in transit.                            *)
(*   (F2, OPEN) a lock released by a panicking holder is seen as poisoned:     *)
(*        true for lock/read/write, but try_lock/try_read/try_write answer     *)
(*        WouldBlock on such a lock (C04_try_after_panic_poison_would_block).  *)
(*   (F3, OPEN) lock returns only when no one holds it: on a lock poisoned by  *)
(*        a panicking drop, lock() of a held mutex does not wait, it panics    *)
(*        (C04_ex_mutex_second_lock_on_poisoned_panics); exclusion itself      *)
(*        still holds (C04_mutex_mutual_exclusion covers the closed path).     *)
(* ------------------------------------------------------------------------- *)
From Coq Require Import List NArith ZArith Bool Arith Lia.
From SV Require Import Params Clock.VClock Prim.Objects Prim.Atomic Engine.Exec Prim.Semaphore
                       Lang.Code Lang.ThreadOps Lang.SyncOps Proofs.LockProofs Proofs.AtomicProofs.
Import ListNotations.

(* ========================================================================= *)
(*  PART A : atomics                                                          *)
(* ========================================================================= *)
Local Open Scope Z_scope.

(* bit patterns <-> values is a bijection onto the range of the type *)
Theorem C04_decode_in_range :
  forall ty b, valid_ty ty -> bits_ok ty b -> in_range ty (decode ty b).
Proof. exact (@decode_in_range). Qed.
Print Assumptions C04_decode_in_range.

Theorem C04_encode_decode :
  forall ty b, bits_ok ty b -> encode ty (decode ty b) = b.
Proof. exact (@encode_decode). Qed.
Print Assumptions C04_encode_decode.

Theorem C04_decode_encode :
  forall ty z, valid_ty ty -> in_range ty z -> decode ty (encode ty z) = z.
Proof. exact (@decode_encode). Qed.
Print Assumptions C04_decode_encode.

Theorem C04_to_Z_decode :
  forall ty b, valid_ty ty -> to_Z ty b = decode ty b.
Proof. exact (@to_Z_decode). Qed.
Print Assumptions C04_to_Z_decode.

(* THE theorem: the model of every operation is std's, for every width > 0, both signednesses, all operands *)
Theorem C04_atomic_op_std :
  forall ty op old,
  valid_ty ty -> bits_ok ty old -> args_in_range ty op ->
  a_apply ty op old = std_sem ty op old.
Proof. exact (@atomic_op_std). Qed.
Print Assumptions C04_atomic_op_std.

(* in particular for the std widths 8, 16, 32, 64, 128 *)
Theorem C04_std_ty_valid :
  forall ty, std_ty ty -> valid_ty ty.
Proof. exact (@std_ty_valid). Qed.
Print Assumptions C04_std_ty_valid.

Theorem C04_a_apply_in_range :
  forall ty op old new ok ret,
  valid_ty ty -> bits_ok ty old -> args_in_range ty op ->
  a_apply ty op old = (Some new, ok, ret) -> bits_ok ty new.
Proof. exact (@a_apply_in_range). Qed.
Print Assumptions C04_a_apply_in_range.

Theorem C04_fetch_add_value :
  forall ty old v,
  valid_ty ty -> bits_ok ty old -> bits_ok ty v ->
  exists new, a_apply ty (AAdd v) old = (Some new, true, old)
    /\ in_range ty (decode ty new)
    /\ (decode ty new - (decode ty old + decode ty v)) mod modulus ty = 0.
Proof. exact (@fetch_add_value). Qed.
Print Assumptions C04_fetch_add_value.

Theorem C04_fetch_max_value :
  forall ty old v,
  valid_ty ty -> bits_ok ty old -> bits_ok ty v ->
  exists new, a_apply ty (AMax v) old = (Some new, true, old)
    /\ decode ty new = Z.max (decode ty old) (decode ty v).
Proof. exact (@fetch_max_value). Qed.
Print Assumptions C04_fetch_max_value.

Local Close Scope Z_scope.
Local Open Scope N_scope.

Theorem C04_a_apply_returns_old :
  forall ty op old,
  snd (a_apply ty op old) = match op with AStore _ => 0%N | _ => old end.
Proof. exact (@a_apply_returns_old). Qed.
Print Assumptions C04_a_apply_returns_old.

(* the code of an atomic operation: a scheduling point, then ONE block *)
Theorem C04_atomic_code_shape :
  forall a ty o k,
  atomic_code a ty o k = Switch (Atomic (atomic_block a ty o) (atomic_kont k)).
Proof. exact (@atomic_code_shape). Qed.
Print Assumptions C04_atomic_code_shape.

Theorem C04_atomic_code_run :
  forall {SS : Type} (sch : scheduler SS) (ms : max_steps) a ty o k w st,
  exists body, atomic_code a ty o k = Switch body /\
  run_seg sch ms body w st
  = match atomic_block a ty o (w_e w) (w_s w) with
    | None => (w, st, SegPanic)
    | Some (e', s', ans) => run_seg sch ms (atomic_kont k ans) (mkWorld e' s' (w_conts w) (w_trace w)) st
    end.
Proof. exact (@atomic_code_run). Qed.
Print Assumptions C04_atomic_code_run.

(* indivisibility: one block reads, computes (a function of the value read only) and writes *)
Theorem C04_atomic_rmw_atomic :
  forall a ty o e s e' s' ans,
  atomic_block a ty o e s = Some (e', s', ans) ->
  exists v c c',
    get_obj s a = Some (OAtomic v c)
    /\ get_obj s' a = Some (OAtomic (match fst (fst (a_apply ty o v)) with Some x => x | None => v end) c')
    /\ ans = [b2n (snd (fst (a_apply ty o v))); snd (a_apply ty o v)].
Proof. exact (@atomic_rmw_atomic). Qed.
Print Assumptions C04_atomic_rmw_atomic.

Theorem C04_atomic_block_std :
  forall a ty o e s e' s' ans,
  atomic_block a ty o e s = Some (e', s', ans) ->
  valid_ty ty -> args_in_range ty o ->
  (forall v c, get_obj s a = Some (OAtomic v c) -> bits_ok ty v) ->
  exists v c c',
    get_obj s a = Some (OAtomic v c)
    /\ get_obj s' a = Some (OAtomic (match fst (fst (std_sem ty o v)) with Some x => x | None => v end) c')
    /\ ans = [b2n (snd (fst (std_sem ty o v))); snd (std_sem ty o v)]
    /\ bits_ok ty (match fst (fst (std_sem ty o v)) with Some x => x | None => v end).
Proof. exact (@atomic_block_std). Qed.
Print Assumptions C04_atomic_block_std.

(* one total order: the history of a variable is a sequential std history *)
Theorem C04_atomic_trace_linearizable :
  forall a ty s tr s',
  atomic_trace a ty s tr s' ->
  valid_ty ty -> Forall (fun x => args_in_range ty (fst x)) tr ->
  forall v c, get_obj s a = Some (OAtomic v c) -> bits_ok ty v ->
  exists v' c', get_obj s' a = Some (OAtomic v' c') /\ bits_ok ty v' /\ seq_spec ty v tr = Some v'.
Proof. exact (@atomic_trace_linearizable). Qed.
Print Assumptions C04_atomic_trace_linearizable.

(* non-vacuity: boundary operands *)
Example C04_ex_i8_add_wrap : a_apply i8 (AAdd 1) 127 = (Some 128, true, 127) /\ decode i8 128 = (-128)%Z.
Proof. split; vm_compute; reflexivity. Qed.
Example C04_ex_i8_sub_wrap : a_apply i8 (ASub 1) 128 = (Some 127, true, 128).
Proof. vm_compute. reflexivity. Qed.
Example C04_ex_u8_sub_wrap : a_apply u8 (ASub 1) 0 = (Some 255, true, 0).
Proof. vm_compute. reflexivity. Qed.
Example C04_ex_i8_max_signed : a_apply i8 (AMax 1) 255 = (Some 1, true, 255) /\ a_apply u8 (AMax 1) 255 = (Some 255, true, 255).
Proof. split; vm_compute; reflexivity. Qed.
Example C04_ex_i8_min_boundary : a_apply i8 (AMin 127) 128 = (Some 128, true, 128).
Proof. vm_compute. reflexivity. Qed.
Example C04_ex_nand : a_apply i8 (ANand 255) 15 = (Some 240, true, 15) /\ a_apply u8 (ANand 0) 0 = (Some 255, true, 0).
Proof. split; vm_compute; reflexivity. Qed.
Example C04_ex_i128_add_wrap : a_apply i128 (AAdd 1) (2 ^ 127 - 1) = (Some (2 ^ 127), true, 2 ^ 127 - 1).
Proof. vm_compute. reflexivity. Qed.
Example C04_ex_cas : a_apply u64 (ACas 5 7) 6 = (None, false, 6) /\ a_apply u64 (ACas 6 7) 6 = (Some 7, true, 6).
Proof. split; vm_compute; reflexivity. Qed.
(* the range hypotheses are needed *)
Example C04_ex_out_of_range_and : a_apply u8 (AAnd 511) 511 <> std_sem u8 (AAnd 511) 511.
Proof. vm_compute. discriminate. Qed.

(* ========================================================================= *)
(*  PART B : Mutex and RwLock                                                 *)
(* ========================================================================= *)

(* ---- B.1 the code trees are made of the named blocks (all by reflexivity) ---- *)
Theorem C04_mutex_lock_code_shape :
  forall oid kont,
  mutex_lock_code oid kont
  = atomic_b (mutex_check_block oid)
      (fun closed => if closed then Switch (mutex_finish oid kont)
                     else acquire_blocking oid 1 (lock_kont (mutex_finish oid kont))).
Proof. exact (@mutex_lock_code_shape). Qed.
Print Assumptions C04_mutex_lock_code_shape.

Theorem C04_mutex_try_lock_code_shape :
  forall oid kont,
  mutex_try_lock_code oid kont = sem_try_code oid 1 (mutex_try_kont oid kont).
Proof. exact (@mutex_try_lock_code_shape). Qed.
Print Assumptions C04_mutex_try_lock_code_shape.

Theorem C04_mutex_unlock_code_shape :
  forall oid kont,
  mutex_unlock_code oid kont = Switch (atomic_u (mutex_unlock_block oid) kont).
Proof. exact (@mutex_unlock_code_shape). Qed.
Print Assumptions C04_mutex_unlock_code_shape.

Theorem C04_rw_lock_code_shape :
  forall oid write kont,
  rw_lock_code oid write kont
  = atomic_b (rw_check_block oid)
      (fun closed => if closed then Switch (rw_finish oid write kont)
                     else acquire_blocking oid (rw_permits write) (lock_kont (rw_finish oid write kont))).
Proof. exact (@rw_lock_code_shape). Qed.
Print Assumptions C04_rw_lock_code_shape.

Theorem C04_rw_try_code_shape :
  forall oid write kont,
  rw_try_code oid write kont = sem_try_code oid (rw_permits write) (rw_try_kont oid write kont).
Proof. exact (@rw_try_code_shape). Qed.
Print Assumptions C04_rw_try_code_shape.

Theorem C04_sem_release_code_shape :
  forall oid k kont,
  sem_release_code oid k kont = Switch (atomic_u (release_block oid k) kont).
Proof. exact (@sem_release_code_shape). Qed.
Print Assumptions C04_sem_release_code_shape.

Theorem C04_rw_unlock_code_shape :
  forall oid write kont,
  rw_unlock_code oid write kont = Switch (atomic_u (rw_unlock_block oid write) kont).
Proof. exact (@rw_unlock_code_shape). Qed.
Print Assumptions C04_rw_unlock_code_shape.

Theorem C04_acquire_blocking_shape :
  forall oid k kont,
  acquire_blocking oid k kont
  = Atomic (new_waiter_block oid k)
      (fun a => match a with [w] => poll_loop POLL_FUEL oid (N.to_nat w) true kont | _ => Panic end).
Proof. exact (@acquire_blocking_shape). Qed.
Print Assumptions C04_acquire_blocking_shape.

Theorem C04_poll_loop_shape :
  forall f oid wid np kont,
  poll_loop (S f) oid wid np kont
  = atomic_b (needs_switch_block oid wid np) (fun sw => switch_if sw (poll_body f oid wid kont)).
Proof. exact (@poll_loop_shape). Qed.
Print Assumptions C04_poll_loop_shape.

Theorem C04_sem_try_code_shape :
  forall oid k kont,
  sem_try_code oid k kont
  = Switch (Atomic (try_block oid k)
              (fun a => match a with [0%N] => kont AOk | [1%N] => kont ANoPermits | _ => kont AClosed end)).
Proof. exact (@sem_try_code_shape). Qed.
Print Assumptions C04_sem_try_code_shape.

(* ---- B.2 run_seg on the code trees executes exactly the segments ---- *)
Theorem C04_lock_segment_run :
  forall (SS : Type) (sch : scheduler SS) (ms : max_steps),
  forall f oid wid fin kont w st,
  let body := poll_body f oid wid (lock_kont (atomic_b fin kont)) in
  match lock_segment fin oid wid (w_e w) (w_s w) with
  | Some (e', st', LoAcquired p) => run_seg sch ms body w st = run_seg sch ms (kont p) (wset w e' st') st
  | Some (e', st', LoClosed) => run_seg sch ms body w st = (wset w e' st', st, SegPanic)
  | Some (e', st', LoPending) =>
      run_seg sch ms body w st
      = run_seg sch ms (Switch (poll_loop f oid wid false (lock_kont (atomic_b fin kont)))) (wset w e' st') st
  | None => snd (run_seg sch ms body w st) = SegPanic
  end.
Proof. exact (@lock_segment_run). Qed.
Print Assumptions C04_lock_segment_run.

Theorem C04_mutex_lock_segment_run :
  forall (SS : Type) (sch : scheduler SS) (ms : max_steps),
  forall f oid wid kont w st e' st' p,
  mutex_lock_segment oid wid (w_e w) (w_s w) = Some (e', st', LoAcquired p) ->
  run_seg sch ms (poll_body f oid wid (lock_kont (mutex_finish oid kont))) w st
  = run_seg sch ms (kont (res_of_p p)) (wset w e' st') st.
Proof. exact (@mutex_lock_segment_run). Qed.
Print Assumptions C04_mutex_lock_segment_run.

Theorem C04_rw_lock_segment_run :
  forall (SS : Type) (sch : scheduler SS) (ms : max_steps),
  forall f oid write wid kont w st e' st' p,
  rw_lock_segment oid write wid (w_e w) (w_s w) = Some (e', st', LoAcquired p) ->
  run_seg sch ms (poll_body f oid wid (lock_kont (rw_finish oid write kont))) w st
  = run_seg sch ms (kont (res_of_p p)) (wset w e' st') st.
Proof. exact (@rw_lock_segment_run). Qed.
Print Assumptions C04_rw_lock_segment_run.

Theorem C04_mutex_try_segment_run :
  forall (SS : Type) (sch : scheduler SS) (ms : max_steps),
  forall oid kont w st,
  exists body, mutex_try_lock_code oid kont = Switch body /\
  run_seg sch ms body w st
  = match mutex_try_segment oid (w_e w) (w_s w) with
    | Some (e', st', r) => run_seg sch ms (kont r) (wset w e' st') st
    | None => (match try_step oid 1 (w_e w) (w_s w) with
               | Some (e1, st1, AOk) => wset w e1 st1 | _ => w end, st, SegPanic)
    end.
Proof. exact (@mutex_try_segment_run). Qed.
Print Assumptions C04_mutex_try_segment_run.

Theorem C04_rw_try_segment_run :
  forall (SS : Type) (sch : scheduler SS) (ms : max_steps),
  forall oid write kont w st,
  exists body, rw_try_code oid write kont = Switch body /\
  run_seg sch ms body w st
  = match rw_try_segment oid write (w_e w) (w_s w) with
    | Some (e', st', r) =>
      if rw_try_needs_release oid write (w_e w) (w_s w)
      then run_seg sch ms (sem_release_code oid (rw_permits write) (kont LkWouldBlock)) (wset w e' st') st
      else run_seg sch ms (kont r) (wset w e' st') st
    | None => (match try_step oid (rw_permits write) (w_e w) (w_s w) with
               | Some (e1, st1, AOk) => wset w e1 st1 | _ => w end, st, SegPanic)
    end.
Proof. exact (@rw_try_segment_run). Qed.
Print Assumptions C04_rw_try_segment_run.

Theorem C04_release_segment_run :
  forall (SS : Type) (sch : scheduler SS) (ms : max_steps),
  forall oid k kont w st,
  exists body, sem_release_code oid k kont = Switch body /\
  run_seg sch ms body w st
  = match release_segment oid k (w_e w) (w_s w) with
    | Some (e', st') => run_seg sch ms kont (wset w e' st') st
    | None => (w, st, SegPanic)
    end.
Proof. exact (@release_segment_run). Qed.
Print Assumptions C04_release_segment_run.

Theorem C04_rw_try_prefix_segment_run :
  forall (SS : Type) (sch : scheduler SS) (ms : max_steps),
  forall oid write kont w st,
  exists body, rw_try_code_prefix oid write kont = Switch body /\
  run_seg sch ms body w st
  = match rw_try_segment oid write (w_e w) (w_s w) with
    | Some (e', st', r) => run_seg sch ms (kont r) (wset w e' st') st
    | None => (match try_step oid (rw_permits write) (w_e w) (w_s w) with
               | Some (e1, st1, AOk) => wset w e1 st1 | _ => w end, st, SegPanic)
    end.
Proof. exact (@rw_try_prefix_segment_run). Qed.
Print Assumptions C04_rw_try_prefix_segment_run.

Theorem C04_mutex_unlock_segment_run :
  forall (SS : Type) (sch : scheduler SS) (ms : max_steps),
  forall oid kont w st,
  exists body, mutex_unlock_code oid kont = Switch body /\
  run_seg sch ms body w st
  = match mutex_unlock_segment oid (w_e w) (w_s w) with
    | Some (e', st') => run_seg sch ms kont (wset w e' st') st
    | None => (w, st, SegPanic)
    end.
Proof. exact (@mutex_unlock_segment_run). Qed.
Print Assumptions C04_mutex_unlock_segment_run.

Theorem C04_rw_unlock_segment_run :
  forall (SS : Type) (sch : scheduler SS) (ms : max_steps),
  forall oid write kont w st,
  exists body, rw_unlock_code oid write kont = Switch body /\
  run_seg sch ms body w st
  = match rw_unlock_segment oid write (w_e w) (w_s w) with
    | Some (e', st') => run_seg sch ms kont (wset w e' st') st
    | None => (w, st, SegPanic)
    end.
Proof. exact (@rw_unlock_segment_run). Qed.
Print Assumptions C04_rw_unlock_segment_run.

Theorem C04_mutex_closed_path_run :
  forall (SS : Type) (sch : scheduler SS) (ms : max_steps),
  forall oid kont w st,
  run_seg sch ms (mutex_finish oid kont) w st
  = match mutex_set_holder (w_e w) (w_s w) oid with
    | Some (e', st', p) => run_seg sch ms (kont (res_of_p p)) (wset w e' st') st
    | None => (w, st, SegPanic)
    end.
Proof. exact (@mutex_closed_path_run). Qed.
Print Assumptions C04_mutex_closed_path_run.

Theorem C04_rw_closed_path_run :
  forall (SS : Type) (sch : scheduler SS) (ms : max_steps),
  forall oid write kont w st,
  run_seg sch ms (rw_finish oid write kont) w st
  = match rw_take (w_e w) (w_s w) oid write with
    | Some (e', st', p) => run_seg sch ms (kont (res_of_p p)) (wset w e' st') st
    | None => (w, st, SegPanic)
    end.
Proof. exact (@rw_closed_path_run). Qed.
Print Assumptions C04_rw_closed_path_run.

(* ---- B.3 invariants: initially, and preserved by every block / segment ---- *)
Theorem C04_mutex_new_ok :
  mutex_ok mutex_new.
Proof. exact (@mutex_new_ok). Qed.
Print Assumptions C04_mutex_new_ok.

Theorem C04_rwlock_new_ok :
  rw_ok rwlock_new.
Proof. exact (@rwlock_new_ok). Qed.
Print Assumptions C04_rwlock_new_ok.

Theorem C04_mutex_ok_iff_form :
  forall h s p,
  mutex_ok (OMutex h s p) <->
  (sm_fair s = false /\ (sm_closed s = false -> sm_avail s <= 1 /\ (h = None <-> sm_avail s = 1))).
Proof. exact (@mutex_ok_iff_form). Qed.
Print Assumptions C04_mutex_ok_iff_form.

Theorem C04_rw_ok_form :
  forall w rs s p,
  rw_ok (ORwLock w rs s p) <->
  (sm_fair s = false /\
   (sm_closed s = false ->
      (w = None /\ sm_avail s + N.of_nat (length rs) = MAX_READS /\ NoDup rs)
      \/ (exists t, w = Some t /\ rs = [] /\ sm_avail s = 0))).
Proof. exact (@rw_ok_form). Qed.
Print Assumptions C04_rw_ok_form.

Theorem C04_mutex_check_block_unchanged :
  forall oid e st e' st' b,
  mutex_check_block oid e st = Some (e', st', b) -> e' = e /\ st' = st.
Proof. exact (@mutex_check_block_unchanged). Qed.
Print Assumptions C04_mutex_check_block_unchanged.

Theorem C04_needs_switch_block_unchanged :
  forall oid wid np e st e' st' b,
  needs_switch_block oid wid np e st = Some (e', st', b) -> e' = e /\ st' = st.
Proof. exact (@needs_switch_block_unchanged). Qed.
Print Assumptions C04_needs_switch_block_unchanged.

Theorem C04_new_waiter_block_mutex :
  forall oid k e st e' st' a h s p,
  new_waiter_block oid k e st = Some (e', st', a) ->
  get_obj st oid = Some (OMutex h s p) -> mutex_ok (OMutex h s p) ->
  exists s' wid, e' = e /\ a = [N.of_nat wid] /\ get_obj st' oid = Some (OMutex h s' p)
    /\ mutex_ok (OMutex h s' p) /\ waiter_fresh s' wid k
    /\ sm_avail s' = sm_avail s /\ sm_closed s' = sm_closed s
    /\ wtk All (sm_wtab s) (sm_wtab s').
Proof. exact (@new_waiter_block_mutex). Qed.
Print Assumptions C04_new_waiter_block_mutex.

Theorem C04_mutex_lock_segment_inv :
  forall oid wid e st e' st' out h s p,
  mutex_lock_segment oid wid e st = Some (e', st', out) ->
  get_obj st oid = Some (OMutex h s p) -> mutex_ok (OMutex h s p) -> waiter_fresh s wid 1 ->
  exists h' s', get_obj st' oid = Some (OMutex h' s' p) /\ mutex_ok (OMutex h' s' p)
    /\ same_regs e e'
    /\ match out with
       | LoAcquired p' => p' = p /\ sm_closed s = false /\ h = None /\ sm_avail s = 1
                          /\ h' = me e /\ me e <> None /\ sm_avail s' = 0 /\ sm_closed s' = false
                          /\ wtk (fun j => j <> wid) (sm_wtab s) (sm_wtab s')
       | LoClosed => sm_closed s = true /\ st' = st
       | LoPending => sm_closed s = false /\ h' = h /\ h <> None /\ sm_avail s' = sm_avail s
                      /\ sm_closed s' = false
                      /\ wtk All (sm_wtab s) (sm_wtab s')
       end.
Proof. exact (@mutex_lock_segment_inv). Qed.
Print Assumptions C04_mutex_lock_segment_inv.

Theorem C04_mutex_try_segment_inv :
  forall oid e st e' st' r h s p,
  mutex_try_segment oid e st = Some (e', st', r) ->
  get_obj st oid = Some (OMutex h s p) -> mutex_ok (OMutex h s p) ->
  exists h' s', get_obj st' oid = Some (OMutex h' s' p) /\ mutex_ok (OMutex h' s' p)
    /\ same_regs e e' /\ sm_wtab s' = sm_wtab s
    /\ (r <> LkWouldBlock ->
          r = res_of_p p /\ sm_closed s = false /\ h = None /\ sm_avail s = 1
          /\ h' = me e /\ me e <> None /\ sm_avail s' = 0)
    /\ (r = LkWouldBlock ->
          st' = st /\ (sm_closed s = true \/ (h <> None /\ sm_avail s = 0))
          /\ exists m, me e = Some m /\ e_update_clock e m (sm_last_acquire s) = Some e').
Proof. exact (@mutex_try_segment_inv). Qed.
Print Assumptions C04_mutex_try_segment_inv.

Theorem C04_mutex_unlock_segment_inv :
  forall oid e st e' st' h s p,
  mutex_unlock_segment oid e st = Some (e', st') ->
  get_obj st oid = Some (OMutex h s p) -> mutex_ok (OMutex h s p) -> h <> None ->
  exists s' stop, get_obj st' oid = Some (OMutex None s' (p || panicking e))
    /\ mutex_ok (OMutex None s' (p || panicking e))
    /\ should_stop e = Some stop
    /\ sm_avail s' = sm_avail s + 1 /\ sm_closed s' = (sm_closed s || stop)
    /\ wtk All (sm_wtab s) (sm_wtab s').
Proof. exact (@mutex_unlock_segment_inv). Qed.
Print Assumptions C04_mutex_unlock_segment_inv.

Theorem C04_mutex_closed_path_inv :
  forall oid e st e' st' b h s p,
  mutex_set_holder e st oid = Some (e', st', b) ->
  get_obj st oid = Some (OMutex h s p) -> mutex_ok (OMutex h s p) -> sm_closed s = true ->
  e' = e /\ b = p /\ h = None /\ get_obj st' oid = Some (OMutex (me e) s p) /\ me e <> None
  /\ mutex_ok (OMutex (me e) s p).
Proof. exact (@mutex_closed_path_inv). Qed.
Print Assumptions C04_mutex_closed_path_inv.

Theorem C04_rw_check_block_unchanged :
  forall oid e st e' st' b,
  rw_check_block oid e st = Some (e', st', b) -> e' = e /\ st' = st.
Proof. exact (@rw_check_block_unchanged). Qed.
Print Assumptions C04_rw_check_block_unchanged.

Theorem C04_rw_check_block_not_holder :
  forall oid e st e' st' w rs s p m,
  rw_check_block oid e st = Some (e', st', false) ->
  get_obj st oid = Some (ORwLock w rs s p) -> me e = Some m ->
  sm_closed s = false /\ w <> Some m /\ ~ In m rs.
Proof. exact (@rw_check_block_not_holder). Qed.
Print Assumptions C04_rw_check_block_not_holder.

Theorem C04_new_waiter_block_rw :
  forall d oid k e st e' st' a w rs s p,
  new_waiter_block oid k e st = Some (e', st', a) ->
  get_obj st oid = Some (ORwLock w rs s p) -> rw_okd d (ORwLock w rs s p) ->
  exists s' wid, e' = e /\ a = [N.of_nat wid] /\ get_obj st' oid = Some (ORwLock w rs s' p)
    /\ rw_okd d (ORwLock w rs s' p) /\ waiter_fresh s' wid k
    /\ sm_avail s' = sm_avail s /\ sm_closed s' = sm_closed s
    /\ wtk All (sm_wtab s) (sm_wtab s').
Proof. exact (@new_waiter_block_rw). Qed.
Print Assumptions C04_new_waiter_block_rw.

Theorem C04_rw_lock_segment_inv :
  forall oid write wid e st e' st' out w rs s p,
  rw_lock_segment oid write wid e st = Some (e', st', out) ->
  get_obj st oid = Some (ORwLock w rs s p) -> rw_ok (ORwLock w rs s p) ->
  waiter_fresh s wid (rw_permits write) ->
  exists w' rs' s', get_obj st' oid = Some (ORwLock w' rs' s' p) /\ rw_ok (ORwLock w' rs' s' p)
    /\ same_regs e e'
    /\ match out with
       | LoAcquired p' =>
           p' = p /\ sm_closed s = false /\ sm_closed s' = false /\ w = None
           /\ wtk (fun j => j <> wid) (sm_wtab s) (sm_wtab s')
           /\ exists m, me e = Some m /\ ~ In m rs
              /\ if write then rs = [] /\ w' = Some m /\ rs' = [] /\ sm_avail s = MAX_READS /\ sm_avail s' = 0
                 else w' = None /\ rs' = rs ++ [m] /\ sm_avail s' = sm_avail s - 1 /\ 1 <= sm_avail s
       | LoClosed => sm_closed s = true /\ st' = st
       | LoPending => sm_closed s = false /\ w' = w /\ rs' = rs /\ sm_avail s' = sm_avail s
                      /\ sm_closed s' = false
                      /\ (if write then ~ rw_free w rs else w <> None \/ N.of_nat (length rs) = MAX_READS)
                      /\ wtk All (sm_wtab s) (sm_wtab s')
       end.
Proof. exact (@rw_lock_segment_inv). Qed.
Print Assumptions C04_rw_lock_segment_inv.

Theorem C04_rw_try_segment_inv :
  forall oid write e st e' st' r w rs s p,
  rw_try_segment oid write e st = Some (e', st', r) ->
  get_obj st oid = Some (ORwLock w rs s p) -> rw_ok (ORwLock w rs s p) ->
  (forall m, me e = Some m -> write = false -> ~ In m rs) ->
  exists w' rs' s', get_obj st' oid = Some (ORwLock w' rs' s' p) /\ rw_ok (ORwLock w' rs' s' p)
    /\ same_regs e e' /\ sm_wtab s' = sm_wtab s
    /\ (r <> LkWouldBlock ->
          r = res_of_p p /\ sm_closed s = false /\ w = None
          /\ exists m, me e = Some m
             /\ if write then rs = [] /\ w' = Some m /\ rs' = [] /\ sm_avail s = MAX_READS /\ sm_avail s' = 0
                else w' = None /\ rs' = rs ++ [m] /\ sm_avail s' = sm_avail s - 1 /\ 1 <= sm_avail s)
    /\ (r = LkWouldBlock ->
          st' = st
          /\ (sm_closed s = true
              \/ (if write then ~ rw_free w rs else w <> None \/ N.of_nat (length rs) = MAX_READS))
          /\ exists m, me e = Some m /\ e_update_clock e m (sm_last_acquire s) = Some e').
Proof. exact (@rw_try_segment_inv). Qed.
Print Assumptions C04_rw_try_segment_inv.

Theorem C04_rw_unlock_segment_inv :
  forall oid write e st e' st' w rs s p,
  rw_unlock_segment oid write e st = Some (e', st') ->
  get_obj st oid = Some (ORwLock w rs s p) -> rw_ok (ORwLock w rs s p) ->
  exists m stop s' w' rs' p',
    me e = Some m /\ should_stop e = Some stop
    /\ get_obj st' oid = Some (ORwLock w' rs' s' p') /\ rw_ok (ORwLock w' rs' s' p')
    /\ sm_avail s' = sm_avail s + rw_permits write /\ sm_closed s' = (sm_closed s || stop)
    /\ wtk All (sm_wtab s) (sm_wtab s')
    /\ if write then w = Some m /\ w' = None /\ rs' = rs /\ p' = (p || panicking e)
       else In m rs /\ w' = w /\ rs' = filter (fun x => negb (Nat.eqb x m)) rs /\ p' = p.
Proof. exact (@rw_unlock_segment_inv). Qed.
Print Assumptions C04_rw_unlock_segment_inv.

Theorem C04_rw_closed_path_inv :
  forall oid write e st e' st' b w rs s p,
  rw_take e st oid write = Some (e', st', b) ->
  get_obj st oid = Some (ORwLock w rs s p) -> rw_ok (ORwLock w rs s p) -> sm_closed s = true ->
  e' = e /\ b = p /\ w = None
  /\ exists m w' rs', me e = Some m /\ get_obj st' oid = Some (ORwLock w' rs' s p)
       /\ rw_ok (ORwLock w' rs' s p)
       /\ if write then rs = [] /\ w' = Some m /\ rs' = [] else ~ In m rs /\ w' = None /\ rs' = rs ++ [m].
Proof. exact (@rw_closed_path_inv). Qed.
Print Assumptions C04_rw_closed_path_inv.

Theorem C04_rw_lock_segment_invd :
  forall d oid write wid e st e' st' out w rs s p,
  rw_lock_segment oid write wid e st = Some (e', st', out) ->
  get_obj st oid = Some (ORwLock w rs s p) -> rw_okd d (ORwLock w rs s p) ->
  waiter_fresh s wid (rw_permits write) ->
  exists w' rs' s', get_obj st' oid = Some (ORwLock w' rs' s' p) /\ rw_okd d (ORwLock w' rs' s' p)
    /\ same_regs e e'
    /\ match out with
       | LoAcquired p' =>
           p' = p /\ sm_closed s = false /\ sm_closed s' = false /\ w = None
           /\ wtk (fun j => j <> wid) (sm_wtab s) (sm_wtab s')
           /\ exists m, me e = Some m /\ ~ In m rs
              /\ if write then rs = [] /\ w' = Some m /\ rs' = [] /\ sm_avail s = MAX_READS /\ sm_avail s' = 0 /\ d = 0
                 else w' = None /\ rs' = rs ++ [m] /\ sm_avail s' = sm_avail s - 1 /\ 1 <= sm_avail s
       | LoClosed => sm_closed s = true /\ st' = st
       | LoPending => sm_closed s = false /\ w' = w /\ rs' = rs /\ sm_avail s' = sm_avail s
                      /\ sm_closed s' = false
                      /\ (if write then ~ (rw_free w rs /\ d = 0)
                          else w <> None \/ N.of_nat (length rs) + d = MAX_READS)
                      /\ wtk All (sm_wtab s) (sm_wtab s')
       end.
Proof. exact (@rw_lock_segment_invd). Qed.
Print Assumptions C04_rw_lock_segment_invd.

Theorem C04_rw_try_segment_invd :
  forall d oid write e st e' st' r w rs s p,
  rw_try_segment oid write e st = Some (e', st', r) ->
  get_obj st oid = Some (ORwLock w rs s p) -> rw_okd d (ORwLock w rs s p) ->
  exists w' rs' s', get_obj st' oid = Some (ORwLock w' rs' s' p)
    /\ same_regs e e' /\ sem_rest s s'
    /\ if rw_try_needs_release oid write e st
       then r = LkWouldBlock /\ write = false /\ w = None /\ w' = w /\ rs' = rs
            /\ (exists m, me e = Some m /\ In m rs)
            /\ sm_closed s = false /\ 1 <= sm_avail s /\ sm_avail s' = sm_avail s - 1
            /\ rw_okd (d + 1) (ORwLock w' rs' s' p)
       else rw_okd d (ORwLock w' rs' s' p)
            /\ (r <> LkWouldBlock ->
                  r = res_of_p p /\ sm_closed s = false /\ w = None
                  /\ exists m, me e = Some m /\ ~ In m rs
                     /\ if write then rs = [] /\ w' = Some m /\ rs' = [] /\ sm_avail s = MAX_READS /\ sm_avail s' = 0 /\ d = 0
                        else w' = None /\ rs' = rs ++ [m] /\ sm_avail s' = sm_avail s - 1 /\ 1 <= sm_avail s)
            /\ (r = LkWouldBlock ->
                  st' = st
                  /\ (sm_closed s = true
                      \/ (if write then ~ (rw_free w rs /\ d = 0)
                          else w <> None \/ N.of_nat (length rs) + d = MAX_READS))
                  /\ exists m, me e = Some m /\ e_update_clock e m (sm_last_acquire s) = Some e').
Proof. exact (@rw_try_segment_invd). Qed.
Print Assumptions C04_rw_try_segment_invd.

Theorem C04_release_segment_invd :
  forall d oid e st e' st' w rs s p,
  release_segment oid 1 e st = Some (e', st') ->
  get_obj st oid = Some (ORwLock w rs s p) -> rw_okd (d + 1) (ORwLock w rs s p) ->
  exists s' stop, get_obj st' oid = Some (ORwLock w rs s' p) /\ rw_okd d (ORwLock w rs s' p)
    /\ should_stop e = Some stop
    /\ sm_avail s' = sm_avail s + 1 /\ sm_closed s' = (sm_closed s || stop)
    /\ wtk All (sm_wtab s) (sm_wtab s')
    /\ (stop = false -> sem_rest s s').
Proof. exact (@release_segment_invd). Qed.
Print Assumptions C04_release_segment_invd.

Theorem C04_rw_unlock_segment_invd :
  forall d oid write e st e' st' w rs s p,
  rw_unlock_segment oid write e st = Some (e', st') ->
  get_obj st oid = Some (ORwLock w rs s p) -> rw_okd d (ORwLock w rs s p) ->
  exists m stop s' w' rs' p',
    me e = Some m /\ should_stop e = Some stop
    /\ get_obj st' oid = Some (ORwLock w' rs' s' p') /\ rw_okd d (ORwLock w' rs' s' p')
    /\ sm_avail s' = sm_avail s + rw_permits write /\ sm_closed s' = (sm_closed s || stop)
    /\ wtk All (sm_wtab s) (sm_wtab s')
    /\ if write then w = Some m /\ w' = None /\ rs' = rs /\ p' = (p || panicking e)
       else In m rs /\ w' = w /\ rs' = filter (fun x => negb (Nat.eqb x m)) rs /\ p' = p.
Proof. exact (@rw_unlock_segment_invd). Qed.
Print Assumptions C04_rw_unlock_segment_invd.

Theorem C04_rw_closed_path_invd :
  forall d oid write e st e' st' b w rs s p,
  rw_take e st oid write = Some (e', st', b) ->
  get_obj st oid = Some (ORwLock w rs s p) -> rw_okd d (ORwLock w rs s p) -> sm_closed s = true ->
  e' = e /\ b = p /\ w = None
  /\ exists m w' rs', me e = Some m /\ get_obj st' oid = Some (ORwLock w' rs' s p)
       /\ rw_okd d (ORwLock w' rs' s p)
       /\ if write then rs = [] /\ w' = Some m /\ rs' = [] else ~ In m rs /\ w' = None /\ rs' = rs ++ [m].
Proof. exact (@rw_closed_path_invd). Qed.
Print Assumptions C04_rw_closed_path_invd.

Theorem C04_waiter_fresh_kept :
  forall (P : nat -> Prop) s s' wid k,
  wtk P (sm_wtab s) (sm_wtab s') -> P wid -> waiter_fresh s wid k -> waiter_fresh s' wid k.
Proof. exact (@waiter_fresh_kept). Qed.
Print Assumptions C04_waiter_fresh_kept.

(* ---- B.4 consequences ---- *)
Theorem C04_mutex_excl :
  forall t s p,
  mutex_ok (OMutex (Some t) s p) -> sm_closed s = false ->
  sm_avail s = 0
  /\ (forall e e' s' r, acquire_permits e s 1 = Some (e', s', r) -> r <> AOk)
  /\ (forall e e' s' r, sem_try_acquire e s 1 = Some (e', s', r) -> r <> AOk)
  /\ (forall e wid wk e' s' r, waiter_fresh s wid 1 -> sem_poll e s wid wk = Some (e', s', r) -> r <> PReadyOk).
Proof. exact (@mutex_excl). Qed.
Print Assumptions C04_mutex_excl.

Theorem C04_mutex_excl_segments :
  forall oid st t s p,
  get_obj st oid = Some (OMutex (Some t) s p) -> mutex_ok (OMutex (Some t) s p) -> sm_closed s = false ->
  (forall wid e e' st' out, waiter_fresh s wid 1 ->
     mutex_lock_segment oid wid e st = Some (e', st', out) -> out = LoPending)
  /\ (forall e e' st' r, mutex_try_segment oid e st = Some (e', st', r) -> r = LkWouldBlock).
Proof. exact (@mutex_excl_segments). Qed.
Print Assumptions C04_mutex_excl_segments.

Theorem C04_no_out_of_sync :
  forall oid wid e st e1 st1 h s p,
  poll_step oid wid e st = Some (e1, st1, PReadyOk) ->
  get_obj st oid = Some (OMutex h s p) -> mutex_ok (OMutex h s p) -> waiter_fresh s wid 1 ->
  mutex_set_holder e1 st1 oid <> None.
Proof. exact (@no_out_of_sync). Qed.
Print Assumptions C04_no_out_of_sync.

Theorem C04_rw_excl :
  forall w rs s p,
  rw_ok (ORwLock w rs s p) -> sm_closed s = false ->
  (forall t, w = Some t -> rs = [] /\ sm_avail s = 0)
  /\ (rs <> [] -> w = None /\ sm_avail s < MAX_READS)
  /\ (w <> None \/ rs <> [] ->
        forall e e' s' r, acquire_permits e s MAX_READS = Some (e', s', r) -> r <> AOk)
  /\ (w <> None ->
        forall e e' s' r k, acquire_permits e s k = Some (e', s', r) -> r <> AOk).
Proof. exact (@rw_excl). Qed.
Print Assumptions C04_rw_excl.

Theorem C04_rw_excl_segments :
  forall oid st w rs s p,
  get_obj st oid = Some (ORwLock w rs s p) -> rw_ok (ORwLock w rs s p) -> sm_closed s = false ->
  (* a writer excludes everybody *)
  (w <> None -> forall write wid e e' st' out, waiter_fresh s wid (rw_permits write) ->
     rw_lock_segment oid write wid e st = Some (e', st', out) -> out = LoPending)
  /\ (w <> None -> forall write e e' st' r,
        (forall m, me e = Some m -> write = false -> ~ In m rs) ->
        rw_try_segment oid write e st = Some (e', st', r) -> r = LkWouldBlock)
  (* readers exclude writers *)
  /\ (rs <> [] -> forall wid e e' st' out, waiter_fresh s wid MAX_READS ->
        rw_lock_segment oid true wid e st = Some (e', st', out) -> out = LoPending)
  /\ (rs <> [] -> forall e e' st' r, rw_try_segment oid true e st = Some (e', st', r) -> r = LkWouldBlock).
Proof. exact (@rw_excl_segments). Qed.
Print Assumptions C04_rw_excl_segments.

Theorem C04_rw_no_out_of_sync :
  forall oid write wid e st e1 st1 w rs s p,
  poll_step oid wid e st = Some (e1, st1, PReadyOk) ->
  get_obj st oid = Some (ORwLock w rs s p) -> rw_ok (ORwLock w rs s p) ->
  waiter_fresh s wid (rw_permits write) ->
  (forall m, me e = Some m -> write = false -> ~ In m rs) ->
  rw_take e1 st1 oid write <> None.
Proof. exact (@rw_no_out_of_sync). Qed.
Print Assumptions C04_rw_no_out_of_sync.

Theorem C04_mutex_try_ok_iff_available :
  forall oid e st e' st' r h s p,
  mutex_try_segment oid e st = Some (e', st', r) ->
  get_obj st oid = Some (OMutex h s p) -> mutex_ok (OMutex h s p) ->
  (r <> LkWouldBlock <-> (sm_closed s = false /\ h = None))
  /\ (sm_closed s = false -> (h = None <-> sm_avail s = 1)).
Proof. exact (@mutex_try_ok_iff_available). Qed.
Print Assumptions C04_mutex_try_ok_iff_available.

Theorem C04_rw_try_write_ok_iff_available :
  forall oid e st e' st' r w rs s p,
  rw_try_segment oid true e st = Some (e', st', r) ->
  get_obj st oid = Some (ORwLock w rs s p) -> rw_ok (ORwLock w rs s p) ->
  (r <> LkWouldBlock <-> (sm_closed s = false /\ w = None /\ rs = [])).
Proof. exact (@rw_try_write_ok_iff_available). Qed.
Print Assumptions C04_rw_try_write_ok_iff_available.

Theorem C04_rw_try_read_ok_iff_available :
  forall oid e st e' st' r w rs s p,
  rw_try_segment oid false e st = Some (e', st', r) ->
  get_obj st oid = Some (ORwLock w rs s p) -> rw_ok (ORwLock w rs s p) ->
  (forall m, me e = Some m -> ~ In m rs) ->
  (r <> LkWouldBlock <-> (sm_closed s = false /\ w = None /\ N.of_nat (length rs) < MAX_READS)).
Proof. exact (@rw_try_read_ok_iff_available). Qed.
Print Assumptions C04_rw_try_read_ok_iff_available.

Theorem C04_mutex_try_fail_unchanged :
  forall oid e st e' st' h s p,
  mutex_try_segment oid e st = Some (e', st', LkWouldBlock) ->
  get_obj st oid = Some (OMutex h s p) -> mutex_ok (OMutex h s p) ->
  st' = st /\ only_clock_moved e e' (sm_last_acquire s).
Proof. exact (@mutex_try_fail_unchanged). Qed.
Print Assumptions C04_mutex_try_fail_unchanged.

Theorem C04_rw_try_fail_unchanged :
  forall oid write e st e' st' w rs s p,
  rw_try_segment oid write e st = Some (e', st', LkWouldBlock) ->
  get_obj st oid = Some (ORwLock w rs s p) -> rw_ok (ORwLock w rs s p) ->
  (forall m, me e = Some m -> write = false -> ~ In m rs) ->
  st' = st /\ only_clock_moved e e' (sm_last_acquire s).
Proof. exact (@rw_try_fail_unchanged). Qed.
Print Assumptions C04_rw_try_fail_unchanged.

Theorem C04_mutex_try_fail_restores :
  forall oid e st e' st' h s p,
  mutex_try_segment oid e st = Some (e', st', LkWouldBlock) ->
  get_obj st oid = Some (OMutex h s p) -> mutex_ok (OMutex h s p) ->
  st' = st /\ only_clock_moved e e' (sm_last_acquire s).
Proof. exact (@mutex_try_fail_restores). Qed.
Print Assumptions C04_mutex_try_fail_restores.

Theorem C04_rw_try_fail_restores :
  forall oid write e st e1 st1 w rs s p,
  rw_try_segment oid write e st = Some (e1, st1, LkWouldBlock) ->
  get_obj st oid = Some (ORwLock w rs s p) -> rw_ok (ORwLock w rs s p) ->
  if rw_try_needs_release oid write e st
  then write = false
       /\ forall e2 e3 st3, release_segment oid (rw_permits write) e2 st1 = Some (e3, st3) ->
          exists s3 stop, get_obj st3 oid = Some (ORwLock w rs s3 p) /\ rw_ok (ORwLock w rs s3 p)
            /\ sm_avail s3 = sm_avail s
            /\ should_stop e2 = Some stop /\ sm_closed s3 = stop
            /\ wtk All (sm_wtab s) (sm_wtab s3)
            /\ (stop = false -> sem_rest s s3)
  else st1 = st /\ only_clock_moved e e1 (sm_last_acquire s).
Proof. exact (@rw_try_fail_restores). Qed.
Print Assumptions C04_rw_try_fail_restores.

(* (F1) HISTORICAL: before the repair try_fail_unchanged was false for a re-entrant try_read; rw_try_segment is the whole operation of rw_try_code_prefix (C04_rw_try_prefix_segment_run) and the first segment of the current one *)
Theorem C04_try_read_reentrant_leaks :
  exists e st e' st' w rs s p s',
    get_obj st 0 = Some (ORwLock w rs s p) /\ rw_ok (ORwLock w rs s p)
    /\ rw_try_segment 0 false e st = Some (e', st', LkWouldBlock)
    /\ get_obj st' 0 = Some (ORwLock w rs s' p)
    /\ sm_avail s' <> sm_avail s
    /\ ~ rw_ok (ORwLock w rs s' p).
Proof. exact (@try_read_reentrant_leaks). Qed.
Print Assumptions C04_try_read_reentrant_leaks.

Theorem C04_rw_try_read_reentrant_leak :
  forall oid e st e' st' r w rs s p m,
  rw_try_segment oid false e st = Some (e', st', r) ->
  get_obj st oid = Some (ORwLock w rs s p) -> rw_ok (ORwLock w rs s p) ->
  me e = Some m -> In m rs -> sm_closed s = false -> 1 <= sm_avail s ->
  r = LkWouldBlock /\ w = None
  /\ exists s', get_obj st' oid = Some (ORwLock None rs s' p)
       /\ sm_avail s' = sm_avail s - 1 /\ sm_closed s' = false
       /\ ~ rw_ok (ORwLock None rs s' p).
Proof. exact (@rw_try_read_reentrant_leak). Qed.
Print Assumptions C04_rw_try_read_reentrant_leak.

(* poisoning *)
Theorem C04_mutex_poison_on_panic :
  forall oid e st e' st' h s p,
  mutex_unlock_segment oid e st = Some (e', st') ->
  get_obj st oid = Some (OMutex h s p) -> mutex_ok (OMutex h s p) -> h <> None ->
  panicking e = true ->
  exists s', get_obj st' oid = Some (OMutex None s' true) /\ sm_closed s' = true.
Proof. exact (@mutex_poison_on_panic). Qed.
Print Assumptions C04_mutex_poison_on_panic.

Theorem C04_rw_poison_on_panic :
  forall oid e st e' st' w rs s p,
  rw_unlock_segment oid true e st = Some (e', st') ->
  get_obj st oid = Some (ORwLock w rs s p) -> rw_ok (ORwLock w rs s p) ->
  panicking e = true ->
  exists s', get_obj st' oid = Some (ORwLock None rs s' true) /\ sm_closed s' = true.
Proof. exact (@rw_poison_on_panic). Qed.
Print Assumptions C04_rw_poison_on_panic.

Theorem C04_mutex_poison_seen_by_lock :
  forall oid e st e' st' b h s,
  get_obj st oid = Some (OMutex h s true) -> sm_closed s = true ->
  (forall e0 e1 st1 c, mutex_check_block oid e0 st = Some (e1, st1, c) -> c = true)
  /\ (mutex_set_holder e st oid = Some (e', st', b) -> res_of_p b = LkPoisoned).
Proof. exact (@mutex_poison_seen_by_lock). Qed.
Print Assumptions C04_mutex_poison_seen_by_lock.

Theorem C04_rw_poison_seen_by_lock :
  forall oid write e st e' st' b w rs s,
  get_obj st oid = Some (ORwLock w rs s true) -> sm_closed s = true ->
  (forall e0 e1 st1 c, rw_check_block oid e0 st = Some (e1, st1, c) -> c = true)
  /\ (rw_take e st oid write = Some (e', st', b) -> res_of_p b = LkPoisoned).
Proof. exact (@rw_poison_seen_by_lock). Qed.
Print Assumptions C04_rw_poison_seen_by_lock.

Theorem C04_try_reports_flag :
  forall oid e st e' st' r,
  (forall h s p, mutex_try_segment oid e st = Some (e', st', r) ->
     get_obj st oid = Some (OMutex h s p) -> mutex_ok (OMutex h s p) -> r <> LkWouldBlock -> r = res_of_p p)
  /\ (forall write w rs s p, rw_try_segment oid write e st = Some (e', st', r) ->
     get_obj st oid = Some (ORwLock w rs s p) -> rw_ok (ORwLock w rs s p) ->
     (forall m, me e = Some m -> write = false -> ~ In m rs) -> r <> LkWouldBlock -> r = res_of_p p).
Proof. exact (@try_reports_flag). Qed.
Print Assumptions C04_try_reports_flag.

(* (F2) *)
Theorem C04_try_after_panic_poison_would_block :
  forall oid e st e' st' r,
  (forall h s p, mutex_try_segment oid e st = Some (e', st', r) ->
     get_obj st oid = Some (OMutex h s p) -> sm_closed s = true -> r = LkWouldBlock)
  /\ (forall write w rs s p, rw_try_segment oid write e st = Some (e', st', r) ->
     get_obj st oid = Some (ORwLock w rs s p) -> sm_closed s = true -> r = LkWouldBlock).
Proof. exact (@try_after_panic_poison_would_block). Qed.
Print Assumptions C04_try_after_panic_poison_would_block.

(* ---- B.5 in every execution: the segments as a transition system with ghost guards ---- *)
Theorem C04_mutex_step_inv :
  forall oid x y, minv oid x -> mutex_step oid x y -> minv oid y.
Proof. exact (@mutex_step_inv). Qed.
Print Assumptions C04_mutex_step_inv.

Theorem C04_mutex_mutual_exclusion :
  forall oid st0 x,
  get_obj st0 oid = Some mutex_new ->
  star (mutex_step oid) (mkMS st0 [] []) x ->
  (length (ms_guards x) <= 1)%nat
  /\ exists h s p, get_obj (ms_st x) oid = Some (OMutex h s p) /\ mutex_ok (OMutex h s p)
       /\ ms_guards x = holder_list h
       /\ (forall t, In t (ms_guards x) -> h = Some t).
Proof. exact (@mutex_mutual_exclusion). Qed.
Print Assumptions C04_mutex_mutual_exclusion.

Theorem C04_rw_step_inv :
  forall oid x y, rinv oid x -> rw_step oid x y -> rinv oid y.
Proof. exact (@rw_step_inv). Qed.
Print Assumptions C04_rw_step_inv.

Theorem C04_rw_mutual_exclusion :
  forall oid st0 x,
  get_obj st0 oid = Some rwlock_new ->
  star (rw_step oid) (mkRS st0 [] [] [] []) x ->
  (length (rs_wg x) <= 1)%nat
  /\ (rs_wg x <> [] -> rs_rg x = [])
  /\ exists w rs s p, get_obj (rs_st x) oid = Some (ORwLock w rs s p)
       /\ rw_okd (N.of_nat (length (rs_debt x))) (ORwLock w rs s p)
       /\ (rs_debt x = [] -> rw_ok (ORwLock w rs s p))
       /\ rs_wg x = holder_list w /\ rs_rg x = rs
       /\ (sm_closed s = false -> NoDup (rs_rg x)).
Proof. exact (@rw_mutual_exclusion). Qed.
Print Assumptions C04_rw_mutual_exclusion.

Theorem C04_rw_reentrant_try_read_broke_rinv_before_repair :
  exists e st e' st' m wg rg pend,
    rinv 0 (mkRS st wg rg [] pend) /\ me e = Some m /\ In m rg
    /\ rw_try_segment 0 false e st = Some (e', st', LkWouldBlock)
    /\ ~ rinv 0 (mkRS st' wg rg [] pend).
Proof. exact (@rw_reentrant_try_read_broke_rinv_before_repair). Qed.
Print Assumptions C04_rw_reentrant_try_read_broke_rinv_before_repair.

(* ---- B.6 concrete scenarios (vm_compute) ---- *)
Example C04_ex_mutex_lock_acquires :
  option_map (fun '(_, st, out) => (mx_view st 0, out)) sc_mutex_1
  = Some (Some (Some 0%nat, 0, false, false), LoAcquired false).
Proof. vm_compute. reflexivity. Qed.

Example C04_ex_mutex_try_fails_while_held :
  bind sc_mutex_1 (fun '(e, st, _) =>
    option_map (fun '(_, st', r) => (r, mx_view st' 0)) (mutex_try_segment 0 (switch_to e 1 false) st))
  = Some (LkWouldBlock, Some (Some 0%nat, 0, false, false)).
Proof. vm_compute. reflexivity. Qed.

Example C04_ex_mutex_lock_pends_while_held :
  bind sc_mutex_1 (fun '(e, st, _) =>
    option_map (fun '(_, st', out) => (out, mx_view st' 0)) (do_mutex_lock 0 (switch_to e 1 false) st))
  = Some (LoPending, Some (Some 0%nat, 0, false, false)).
Proof. vm_compute. reflexivity. Qed.

Example C04_ex_mutex_unlock_then_try_succeeds :
  bind sc_mutex_1 (fun '(e, st, _) =>
    bind (mutex_unlock_segment 0 e st) (fun '(e1, st1) =>
      option_map (fun '(_, st', r) => (mx_view st1 0, r, mx_view st' 0))
                 (mutex_try_segment 0 (switch_to e1 1 false) st1)))
  = Some (Some (None, 1, false, false), LkOk, Some (Some 1%nat, 0, false, false)).
Proof. vm_compute. reflexivity. Qed.

Example C04_ex_mutex_poisoned :
  option_map (fun '(_, st) => mx_view st 0) sc_poison = Some (Some (None, 1, true, true)).
Proof. vm_compute. reflexivity. Qed.

Example C04_ex_mutex_lock_sees_poison :
  bind sc_poison (fun '(e, st) =>
    bind (mutex_check_block 0 (switch_to e 1 false) st) (fun '(e1, st1, closed) =>
      option_map (fun '(_, st2, p) => (closed, res_of_p p, mx_view st2 0)) (mutex_set_holder e1 st1 0)))
  = Some (true, LkPoisoned, Some (Some 1%nat, 1, true, true)).
Proof. vm_compute. reflexivity. Qed.

Example C04_ex_mutex_try_on_poisoned_would_block :
  bind sc_poison (fun '(e, st) =>
    option_map (fun '(_, _, r) => r) (mutex_try_segment 0 (switch_to e 1 false) st))
  = Some LkWouldBlock.
Proof. vm_compute. reflexivity. Qed.

Example C04_ex_mutex_second_lock_on_poisoned_panics :
  bind sc_poison_held (fun '(e, st) =>
    option_map (fun '(_, _, closed) => (closed, mutex_set_holder (switch_to e 0 false) st 0))
               (mutex_check_block 0 (switch_to e 0 false) st))
  = Some (true, None).
Proof. vm_compute. reflexivity. Qed.

Example C04_mutex_avail_exceeds_one_after_poison :
  bind sc_poison_held (fun '(e, st) =>
    option_map (fun '(_, st1) => mx_view st1 0) (mutex_unlock_segment 0 e st))
  = Some (Some (None, 2, true, true)).
Proof. vm_compute. reflexivity. Qed.

Example C04_ex_rw_read_acquires :
  option_map (fun '(_, st, out) => (rw_view st 0, out)) sc_rw_r0
  = Some (Some (None, [0%nat], MAX_READS - 1, false, false), LoAcquired false).
Proof. vm_compute. reflexivity. Qed.

Example C04_ex_rw_second_reader_and_writer :
  bind sc_rw_r0 (fun '(e, st, _) =>
    bind (rw_try_segment 0 false (switch_to e 1 false) st) (fun '(e1, st1, r1) =>
      option_map (fun '(_, st2, r2) => (r1, rw_view st1 0, r2, rw_view st2 0))
                 (rw_try_segment 0 true e1 st1)))
  = Some (LkOk, Some (None, [0%nat; 1%nat], MAX_READS - 2, false, false),
          LkWouldBlock, Some (None, [0%nat; 1%nat], MAX_READS - 2, false, false)).
Proof. vm_compute. reflexivity. Qed.

Example C04_ex_rw_writer_excludes :
  bind (do_rw_lock 0 true (ex_exec 0 false) [rwlock_new]) (fun '(e, st, out) =>
    bind (rw_try_segment 0 false (switch_to e 1 false) st) (fun '(e1, st1, r1) =>
      option_map (fun '(_, st2, out2) => (out, rw_view st 0, r1, out2, rw_view st2 0))
                 (do_rw_lock 0 true e1 st1)))
  = Some (LoAcquired false, Some (Some 0%nat, [], 0, false, false),
          LkWouldBlock, LoPending, Some (Some 0%nat, [], 0, false, false)).
Proof. vm_compute. reflexivity. Qed.

Example C04_ex_rw_write_guard_panic_poisons :
  bind (do_rw_lock 0 true (ex_exec 0 false) [rwlock_new]) (fun '(e, st, _) =>
    bind (rw_unlock_segment 0 true (switch_to e 0 true) st) (fun '(e1, st1) =>
      option_map (fun '(_, st2, p) => (rw_view st1 0, res_of_p p, rw_view st2 0))
                 (rw_take (switch_to e1 1 false) st1 0 false)))
  = Some (Some (None, [], MAX_READS, true, true), LkPoisoned, Some (None, [1%nat], MAX_READS, true, true)).
Proof. vm_compute. reflexivity. Qed.

Example C04_ex_try_read_reentrant :
  bind sc_rw_r0 (fun '(_, st, _) =>
    option_map (fun '(_, st', r) => (rw_view st 0, r, rw_view st' 0)) sc_leak)
  = Some (Some (None, [0%nat], MAX_READS - 1, false, false),
          LkWouldBlock,
          Some (None, [0%nat], MAX_READS - 2, false, false)).
Proof. vm_compute. reflexivity. Qed.

Example C04_ex_leak_blocks_writers_forever :
  bind sc_leak (fun '(e, st, _) =>
    bind (rw_unlock_segment 0 false e st) (fun '(e1, st1) =>
      bind (rw_try_segment 0 true (switch_to e1 1 false) st1) (fun '(e2, st2, r) =>
        option_map (fun '(_, _, out) => (rw_view st1 0, r, out)) (do_rw_lock 0 true e2 st2))))
  = Some (Some (None, [], MAX_READS - 1, false, false), LkWouldBlock, LoPending).
Proof. vm_compute. reflexivity. Qed.

Example C04_ex_try_read_reentrant_current :
  bind sc_rw_r0 (fun '(e0, st0, _) =>
    bind sc_leak (fun '(e, st, r) =>
      option_map (fun '(_, st') => (rw_try_needs_release 0 false e0 st0, r, rw_view st 0, rw_view st' 0))
                 (release_segment 0 1 e st)))
  = Some (true, LkWouldBlock,
          Some (None, [0%nat], MAX_READS - 2, false, false)      (* at the scheduling point *),
          Some (None, [0%nat], MAX_READS - 1, false, false)      (* after the release: as before the call *)).
Proof. vm_compute. reflexivity. Qed.

Example C04_ex_current_no_leak :
  bind sc_leak (fun '(e, st, _) =>
    bind (release_segment 0 1 e st) (fun '(e1, st1) =>
      bind (rw_unlock_segment 0 false e1 st1) (fun '(e2, st2) =>
        option_map (fun '(_, st3, r) => (rw_view st2 0, r, rw_view st3 0))
                   (rw_try_segment 0 true (switch_to e2 1 false) st2))))
  = Some (Some (None, [], MAX_READS, false, false), LkOk, Some (Some 1%nat, [], 0, false, false)).
Proof. vm_compute. reflexivity. Qed.

Theorem C04_ex_mutex_steps_reach_guard :
  exists x, star (mutex_step 0) (mkMS [mutex_new] [] []) x /\ ms_guards x = [0%nat].
Proof. exact (@ex_mutex_steps_reach_guard). Qed.
Print Assumptions C04_ex_mutex_steps_reach_guard.

Theorem C04_ex_rw_steps_reach_two_readers :
  exists x, star (rw_step 0) (mkRS [rwlock_new] [] [] [] []) x /\ rs_rg x = [0%nat; 1%nat] /\ rs_wg x = [].
Proof. exact (@ex_rw_steps_reach_two_readers). Qed.
Print Assumptions C04_ex_rw_steps_reach_two_readers.

Theorem C04_ex_rw_steps_reentrant_try_read :
  exists x y, star (rw_step 0) (mkRS [rwlock_new] [] [] [] []) x /\ rs_debt x = [0%nat] /\ rs_rg x = [0%nat]
              /\ rw_step 0 x y /\ rs_debt y = [] /\ rs_rg y = [0%nat]
              /\ option_map (fun v => snd (fst (fst v))) (rw_view (rs_st y) 0) = Some (MAX_READS - 1).
Proof. exact (@ex_rw_steps_reentrant_try_read). Qed.
Print Assumptions C04_ex_rw_steps_reentrant_try_read.
