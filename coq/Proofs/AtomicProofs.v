(* ------------------------------------------------------------------------- *)
(*  SV.Proofs.AtomicProofs : atomic part of property C04.                     *)
(*                                                                            *)
(*  `std_sem` is an independent specification of std::sync::atomic's integer  *)
(*  operations, written from the std documentation over mathematical          *)
(*  integers: a bit pattern denotes a (signed or unsigned) value `decode`;    *)
(*  arithmetic wraps around on overflow, i.e. the result is the value of the  *)
(*  type congruent to the exact result modulo 2^w (`encode`); the logical     *)
(*  operations are those of two's complement (Coq's Z.land/Z.lor/Z.lxor/      *)
(*  Z.lnot are exactly that); max/min compare values.  The theorem            *)
(*  `atomic_op_std` says the model `a_apply` of Prim/Atomic.v computes the    *)
(*  same result for every width w > 0, both signednesses, all operands.       *)
(*  No Admitted / admit / Axiom / Parameter.                                  *)
(* ------------------------------------------------------------------------- *)
From Coq Require Import NArith ZArith Bool Lia List.
From SV Require Import Clock.VClock Prim.Objects Prim.Atomic Engine.Exec Lang.Code Lang.ThreadOps.
Import ListNotations.

(* ========================================================================= *)
(*  1. Values and bit patterns                                                *)
(* ========================================================================= *)

Definition valid_ty (ty : aty) : Prop := (0 < a_w ty)%N.
(* the widths that exist in std *)
Definition std_ty (ty : aty) : Prop := In (a_w ty) [8; 16; 32; 64; 128]%N.

Lemma std_ty_valid : forall ty, std_ty ty -> valid_ty ty.
Proof.
  intros ty H. unfold std_ty in H. unfold valid_ty. cbn [In] in H.
  destruct H as [H|[H|[H|[H|[H|[]]]]]]; rewrite <- H; reflexivity.
Qed.

Local Open Scope Z_scope.

Definition wz (ty : aty) : Z := Z.of_N (a_w ty).
Definition modulus (ty : aty) : Z := 2 ^ wz ty.
Definition half (ty : aty) : Z := 2 ^ (wz ty - 1).

(* the value denoted by a bit pattern: unsigned reading, or two's complement *)
Definition decode (ty : aty) (bits : N) : Z :=
  let u := Z.of_N bits in
  if a_signed ty then (if u <? half ty then u else u - modulus ty) else u.

(* the bit pattern of the value of the type congruent to z modulo 2^w ("wrapping around") *)
Definition encode (ty : aty) (z : Z) : N := Z.to_N (z mod modulus ty).

Definition in_range (ty : aty) (z : Z) : Prop :=
  if a_signed ty then - half ty <= z < half ty else 0 <= z < modulus ty.

Definition bits_ok (ty : aty) (b : N) : Prop := (b < 2 ^ a_w ty)%N.

Lemma wz_pos : forall ty, valid_ty ty -> 0 < wz ty.
Proof. intros ty H. unfold wz, valid_ty in *. lia. Qed.

Lemma modulus_pos : forall ty, 0 < modulus ty.
Proof. intros ty. unfold modulus. apply Z.pow_pos_nonneg; [lia|unfold wz; lia]. Qed.

Lemma modulus_half : forall ty, valid_ty ty -> modulus ty = 2 * half ty.
Proof.
  intros ty H. unfold modulus, half. pose proof (wz_pos ty H) as Hw.
  replace (wz ty) with (Z.succ (wz ty - 1)) at 1 by lia.
  rewrite Z.pow_succ_r by lia. reflexivity.
Qed.

Lemma half_pos : forall ty, valid_ty ty -> 0 < half ty.
Proof. intros ty H. unfold half. apply Z.pow_pos_nonneg; [lia|]. pose proof (wz_pos ty H). lia. Qed.

Lemma modulus_of_N : forall ty, Z.of_N (2 ^ a_w ty) = modulus ty.
Proof. intros ty. rewrite N2Z.inj_pow. reflexivity. Qed.

Lemma bits_ok_Z : forall ty b, bits_ok ty b <-> 0 <= Z.of_N b < modulus ty.
Proof.
  intros ty b. unfold bits_ok. rewrite <- modulus_of_N. split; intro H; [split; lia|lia].
Qed.

(* decode / encode are inverse bijections between bit patterns and the values of the type *)
Lemma decode_in_range : forall ty b, valid_ty ty -> bits_ok ty b -> in_range ty (decode ty b).
Proof.
  intros ty b Hv Hb. apply bits_ok_Z in Hb. pose proof (modulus_half ty Hv) as Hm.
  pose proof (half_pos ty Hv) as Hh. unfold in_range, decode. destruct (a_signed ty); [|assumption].
  destruct (Z.of_N b <? half ty) eqn:Hlt; [apply Z.ltb_lt in Hlt|apply Z.ltb_ge in Hlt]; lia.
Qed.

Lemma decode_mod : forall ty b, decode ty b mod modulus ty = Z.of_N b mod modulus ty.
Proof.
  intros ty b. unfold decode. destruct (a_signed ty); [|reflexivity].
  destruct (Z.of_N b <? half ty); [reflexivity|].
  replace (Z.of_N b - modulus ty) with (Z.of_N b + (-1) * modulus ty) by lia.
  apply Z.mod_add. pose proof (modulus_pos ty). lia.
Qed.

Lemma encode_of_N : forall ty n, encode ty (Z.of_N n) = (n mod 2 ^ a_w ty)%N.
Proof.
  intros ty n. unfold encode. rewrite <- modulus_of_N, <- N2Z.inj_mod. apply N2Z.id.
Qed.

Lemma encode_congr : forall ty a b, a mod modulus ty = b mod modulus ty -> encode ty a = encode ty b.
Proof. intros ty a b H. unfold encode. rewrite H. reflexivity. Qed.

Lemma encode_decode : forall ty b, bits_ok ty b -> encode ty (decode ty b) = b.
Proof.
  intros ty b Hb. rewrite (encode_congr ty _ (Z.of_N b)) by apply decode_mod.
  rewrite encode_of_N. apply N.mod_small. exact Hb.
Qed.

Lemma encode_lt : forall ty z, bits_ok ty (encode ty z).
Proof.
  intros ty z. apply bits_ok_Z. unfold encode. pose proof (modulus_pos ty) as Hm.
  pose proof (Z.mod_pos_bound z (modulus ty) Hm) as Hb. rewrite Z2N.id by lia. exact Hb.
Qed.

Lemma decode_encode : forall ty z, valid_ty ty -> in_range ty z -> decode ty (encode ty z) = z.
Proof.
  intros ty z Hv Hr. pose proof (modulus_half ty Hv) as Hm. pose proof (half_pos ty Hv) as Hh.
  pose proof (modulus_pos ty) as Hmp.
  unfold decode, encode, in_range in *. rewrite Z2N.id by (apply Z.mod_pos_bound; assumption).
  destruct (a_signed ty).
  - destruct (Z_lt_le_dec z 0) as [Hneg|Hnn].
    + assert (Hmod : z mod modulus ty = z + modulus ty).
      { symmetry. apply (Z.mod_unique_pos _ _ (-1)); lia. }
      rewrite Hmod. destruct (z + modulus ty <? half ty) eqn:Hlt;
        [apply Z.ltb_lt in Hlt|apply Z.ltb_ge in Hlt]; lia.
    + rewrite Z.mod_small by lia. destruct (z <? half ty) eqn:Hlt;
        [reflexivity|apply Z.ltb_ge in Hlt; lia].
  - apply Z.mod_small. assumption.
Qed.

Lemma decode_inj : forall ty a b, bits_ok ty a -> bits_ok ty b -> decode ty a = decode ty b -> a = b.
Proof.
  intros ty a b Ha Hb H. rewrite <- (encode_decode ty a Ha), <- (encode_decode ty b Hb), H. reflexivity.
Qed.

(* the model's own two's-complement reading agrees with decode *)
Lemma to_Z_decode : forall ty b, valid_ty ty -> to_Z ty b = decode ty b.
Proof.
  intros ty b Hv. unfold to_Z, decode. destruct (a_signed ty); cbn [andb]; [|reflexivity].
  assert (Hh : Z.of_N (2 ^ (a_w ty - 1)) = half ty).
  { rewrite N2Z.inj_pow. unfold half, wz. f_equal. unfold valid_ty in Hv. lia. }
  rewrite modulus_of_N.
  destruct (N.leb (2 ^ (a_w ty - 1)) b) eqn:Hle.
  - apply N.leb_le in Hle. destruct (Z.of_N b <? half ty) eqn:Hlt; [apply Z.ltb_lt in Hlt; lia|reflexivity].
  - apply N.leb_gt in Hle. destruct (Z.of_N b <? half ty) eqn:Hlt; [reflexivity|apply Z.ltb_ge in Hlt; lia].
Qed.

(* ========================================================================= *)
(*  2. Bitwise operations: N vs Z, and reduction modulo 2^w                   *)
(* ========================================================================= *)

Lemma of_N_land : forall a b, Z.of_N (N.land a b) = Z.land (Z.of_N a) (Z.of_N b).
Proof.
  intros a b. apply Z.bits_inj'. intros n Hn.
  rewrite Z.land_spec, !Z.testbit_of_N' by assumption. apply N.land_spec.
Qed.

Lemma of_N_lor : forall a b, Z.of_N (N.lor a b) = Z.lor (Z.of_N a) (Z.of_N b).
Proof.
  intros a b. apply Z.bits_inj'. intros n Hn.
  rewrite Z.lor_spec, !Z.testbit_of_N' by assumption. apply N.lor_spec.
Qed.

Lemma of_N_lxor : forall a b, Z.of_N (N.lxor a b) = Z.lxor (Z.of_N a) (Z.of_N b).
Proof.
  intros a b. apply Z.bits_inj'. intros n Hn.
  rewrite Z.lxor_spec, !Z.testbit_of_N' by assumption. apply N.lxor_spec.
Qed.

Lemma of_N_ones : forall w, Z.of_N (N.ones w) = Z.ones (Z.of_N w).
Proof.
  intros w. rewrite N.ones_equiv, Z.ones_equiv, N2Z.inj_pred, N2Z.inj_pow; [reflexivity|].
  apply N.neq_0_lt_0. apply N.pow_nonzero. discriminate.
Qed.

Lemma mod_as_land : forall ty a, a mod modulus ty = Z.land a (Z.ones (wz ty)).
Proof. intros ty a. unfold modulus. symmetry. apply Z.land_ones. unfold wz. lia. Qed.

Lemma land_mod : forall ty a b,
  Z.land a b mod modulus ty = Z.land (a mod modulus ty) (b mod modulus ty).
Proof.
  intros ty a b. rewrite !mod_as_land. apply Z.bits_inj'. intros n Hn.
  rewrite !Z.land_spec. destruct (Z.testbit a n), (Z.testbit b n), (Z.testbit (Z.ones (wz ty)) n); reflexivity.
Qed.

Lemma lor_mod : forall ty a b,
  Z.lor a b mod modulus ty = Z.lor (a mod modulus ty) (b mod modulus ty).
Proof.
  intros ty a b. rewrite !mod_as_land. apply Z.bits_inj'. intros n Hn.
  rewrite !Z.land_spec, !Z.lor_spec, !Z.land_spec.
  destruct (Z.testbit a n), (Z.testbit b n), (Z.testbit (Z.ones (wz ty)) n); reflexivity.
Qed.

Lemma lxor_mod : forall ty a b,
  Z.lxor a b mod modulus ty = Z.lxor (a mod modulus ty) (b mod modulus ty).
Proof.
  intros ty a b. rewrite !mod_as_land. apply Z.bits_inj'. intros n Hn.
  rewrite !Z.land_spec, !Z.lxor_spec, !Z.land_spec.
  destruct (Z.testbit a n), (Z.testbit b n), (Z.testbit (Z.ones (wz ty)) n); reflexivity.
Qed.

Lemma lnot_mod : forall ty a,
  Z.lnot a mod modulus ty = Z.lxor (a mod modulus ty) (Z.ones (wz ty)).
Proof.
  intros ty a. rewrite !mod_as_land. apply Z.bits_inj'. intros n Hn.
  rewrite !Z.land_spec, !Z.lxor_spec, !Z.land_spec, Z.lnot_spec by assumption.
  destruct (Z.testbit a n), (Z.testbit (Z.ones (wz ty)) n); reflexivity.
Qed.

Lemma decode_mod_small : forall ty b, bits_ok ty b -> decode ty b mod modulus ty = Z.of_N b.
Proof.
  intros ty b Hb. rewrite decode_mod. apply Z.mod_small. apply bits_ok_Z. exact Hb.
Qed.

(* ========================================================================= *)
(*  3. The specification                                                      *)
(* ========================================================================= *)

(* (value stored if any, success flag, value returned); the unit result of `store` is 0 *)
Definition std_sem (ty : aty) (op : aop) (old : N) : option N * bool * N :=
  let x := decode ty old in
  let wrap := encode ty in
  match op with
  | ALoad => (None, true, old)
  | AStore v => (Some (wrap (decode ty v)), true, 0%N)
  | ASwap v => (Some (wrap (decode ty v)), true, old)
  | ACas cur new =>
      (* compare_exchange: Ok(previous) and the new value is written iff the current value equals
         `current`; Err(actual) otherwise *)
      if x =? decode ty cur then (Some (wrap (decode ty new)), true, old) else (None, false, old)
  | AAdd v => (Some (wrap (x + decode ty v)), true, old)          (* wraps around on overflow *)
  | ASub v => (Some (wrap (x - decode ty v)), true, old)
  | AAnd v => (Some (wrap (Z.land x (decode ty v))), true, old)
  | ANand v => (Some (wrap (Z.lnot (Z.land x (decode ty v)))), true, old)
  | AOr v => (Some (wrap (Z.lor x (decode ty v))), true, old)
  | AXor v => (Some (wrap (Z.lxor x (decode ty v))), true, old)
  | AMax v => (Some (wrap (Z.max x (decode ty v))), true, old)
  | AMin v => (Some (wrap (Z.min x (decode ty v))), true, old)
  end.

Definition args_in_range (ty : aty) (op : aop) : Prop :=
  match op with
  | ALoad => True
  | AStore v | ASwap v | AAdd v | ASub v | AAnd v | ANand v | AOr v | AXor v | AMax v | AMin v => bits_ok ty v
  | ACas cur new => bits_ok ty cur /\ bits_ok ty new
  end.

(* ========================================================================= *)
(*  4. The model computes the specification                                   *)
(* ========================================================================= *)

Lemma to_N_of_N_eq : forall z n, z = Z.of_N n -> Z.to_N z = n.
Proof. intros z n H. subst z. apply N2Z.id. Qed.

Theorem atomic_op_std : forall ty op old,
  valid_ty ty -> bits_ok ty old -> args_in_range ty op ->
  a_apply ty op old = std_sem ty op old.
Proof.
  intros ty op old Hv Hold Hargs.
  pose proof (modulus_pos ty) as Hmp.
  pose proof (proj1 (bits_ok_Z ty old) Hold) as HoldZ.
  destruct op as [|v|v|cur new|v|v|v|v|v|v|v|v]; cbn [args_in_range] in Hargs;
    unfold a_apply, std_sem; cbn [rmw_fun].
  - reflexivity.
  - rewrite encode_decode by assumption. reflexivity.
  - rewrite encode_decode by assumption. reflexivity.
  - destruct Hargs as [Hcur Hnew]. rewrite (encode_decode ty new Hnew).
    destruct (N.eqb old cur) eqn:He.
    + apply N.eqb_eq in He. subst cur. rewrite Z.eqb_refl. reflexivity.
    + apply N.eqb_neq in He. destruct (decode ty old =? decode ty cur) eqn:Hz; [|reflexivity].
      apply Z.eqb_eq in Hz. apply decode_inj in Hz; [contradiction|assumption|assumption].
  - (* add *)
    f_equal. f_equal. f_equal. unfold wrapw.
    rewrite <- encode_of_N. apply encode_congr.
    rewrite Zplus_mod. rewrite !decode_mod, <- Zplus_mod, N2Z.inj_add. reflexivity.
  - (* sub *)
    f_equal. f_equal. f_equal. unfold wrapw.
    rewrite (N.mod_small v) by exact Hargs.
    rewrite <- encode_of_N. apply encode_congr.
    pose proof (proj1 (bits_ok_Z ty v) Hargs) as HvZ.
    rewrite N2Z.inj_sub by (unfold bits_ok in Hargs; lia).
    rewrite N2Z.inj_add, modulus_of_N.
    rewrite (Zminus_mod (decode ty old) (decode ty v)), !decode_mod, <- Zminus_mod.
    replace (Z.of_N old + modulus ty - Z.of_N v) with (Z.of_N old - Z.of_N v + 1 * modulus ty) by lia.
    rewrite Z.mod_add by lia. reflexivity.
  - (* and *)
    f_equal. f_equal. f_equal. symmetry. unfold encode. apply to_N_of_N_eq.
    rewrite land_mod, !decode_mod_small by assumption. symmetry. apply of_N_land.
  - (* nand *)
    f_equal. f_equal. f_equal. symmetry. unfold encode. apply to_N_of_N_eq.
    rewrite lnot_mod, land_mod, !decode_mod_small by assumption.
    rewrite of_N_lxor, of_N_land, of_N_ones. reflexivity.
  - (* or *)
    f_equal. f_equal. f_equal. symmetry. unfold encode. apply to_N_of_N_eq.
    rewrite lor_mod, !decode_mod_small by assumption. symmetry. apply of_N_lor.
  - (* xor *)
    f_equal. f_equal. f_equal. symmetry. unfold encode. apply to_N_of_N_eq.
    rewrite lxor_mod, !decode_mod_small by assumption. symmetry. apply of_N_lxor.
  - (* max *)
    f_equal. f_equal. f_equal. rewrite !to_Z_decode by assumption.
    destruct (decode ty old <=? decode ty v) eqn:Hle.
    + apply Z.leb_le in Hle. rewrite Z.max_r by assumption. symmetry. apply encode_decode. assumption.
    + apply Z.leb_gt in Hle. rewrite Z.max_l by lia. symmetry. apply encode_decode. assumption.
  - (* min *)
    f_equal. f_equal. f_equal. rewrite !to_Z_decode by assumption.
    destruct (decode ty old <=? decode ty v) eqn:Hle.
    + apply Z.leb_le in Hle. rewrite Z.min_l by assumption. symmetry. apply encode_decode. assumption.
    + apply Z.leb_gt in Hle. rewrite Z.min_r by lia. symmetry. apply encode_decode. assumption.
Qed.

(* the stored value is again a bit pattern of the type *)
Theorem a_apply_in_range : forall ty op old new ok ret,
  valid_ty ty -> bits_ok ty old -> args_in_range ty op ->
  a_apply ty op old = (Some new, ok, ret) -> bits_ok ty new.
Proof.
  intros ty op old new ok ret Hv Hold Hargs Ha.
  rewrite atomic_op_std in Ha by assumption. unfold std_sem in Ha.
  destruct op; try (injection Ha as <- _ _; apply encode_lt); try discriminate.
  destruct (decode ty old =? decode ty cur); [injection Ha as <- _ _; apply encode_lt|discriminate].
Qed.

(* the value returned is the previous value (for store: the unit, 0) *)
Lemma a_apply_returns_old : forall ty op old,
  snd (a_apply ty op old) = match op with AStore _ => 0%N | _ => old end.
Proof.
  intros ty op old. unfold a_apply. destruct op; try reflexivity; cbn [rmw_fun];
    try reflexivity. destruct (N.eqb old cur); reflexivity.
Qed.

(* the results, read back as values, are the std ones: e.g. fetch_add returns the previous value
   and stores the wrapped sum; the value stored by fetch_max is the maximum of the two values *)
Corollary fetch_add_value : forall ty old v,
  valid_ty ty -> bits_ok ty old -> bits_ok ty v ->
  exists new, a_apply ty (AAdd v) old = (Some new, true, old)
    /\ in_range ty (decode ty new)
    /\ (decode ty new - (decode ty old + decode ty v)) mod modulus ty = 0.
Proof.
  intros ty old v Hv Hold Hvv. rewrite atomic_op_std by assumption. cbn [std_sem].
  eexists. split; [reflexivity|]. split; [apply decode_in_range; [assumption|apply encode_lt]|].
  pose proof (modulus_pos ty) as Hmp.
  rewrite Zminus_mod, decode_mod. unfold encode at 1.
  rewrite Z2N.id by (apply Z.mod_pos_bound; assumption).
  rewrite Z.mod_mod by lia. rewrite Z.sub_diag. apply Z.mod_0_l. lia.
Qed.

Corollary fetch_max_value : forall ty old v,
  valid_ty ty -> bits_ok ty old -> bits_ok ty v ->
  exists new, a_apply ty (AMax v) old = (Some new, true, old)
    /\ decode ty new = Z.max (decode ty old) (decode ty v).
Proof.
  intros ty old v Hv Hold Hvv. rewrite atomic_op_std by assumption. cbn [std_sem].
  eexists. split; [reflexivity|]. apply decode_encode; [assumption|].
  destruct (Z.max_spec (decode ty old) (decode ty v)) as [[_ ->]|[_ ->]];
    apply decode_in_range; assumption.
Qed.

Local Close Scope Z_scope.
Local Open Scope N_scope.

(* ========================================================================= *)
(*  5. Boundary checks by computation (non-vacuity; the operands on which a   *)
(*     careless model goes wrong)                                             *)
(* ========================================================================= *)
Definition i8 : aty := mkAty 8 true.
Definition u8 : aty := mkAty 8 false.
Definition i128 : aty := mkAty 128 true.

(* i8: 127 + 1 = -128 ; -128 - 1 = 127 ; max(-1, 1) = 1 ; min(-128, 127) = -128 ; !(0x0f & 0xff) *)
Example ex_i8_add_wrap : a_apply i8 (AAdd 1) 127 = (Some 128, true, 127).
Proof. vm_compute. reflexivity. Qed.
Example ex_i8_sub_wrap : a_apply i8 (ASub 1) 128 = (Some 127, true, 128).
Proof. vm_compute. reflexivity. Qed.
Example ex_u8_sub_wrap : a_apply u8 (ASub 1) 0 = (Some 255, true, 0).
Proof. vm_compute. reflexivity. Qed.
Example ex_u8_sub_self : a_apply u8 (ASub 255) 255 = (Some 0, true, 255).
Proof. vm_compute. reflexivity. Qed.
Example ex_i8_max_signed : a_apply i8 (AMax 1) 255 = (Some 1, true, 255).
Proof. vm_compute. reflexivity. Qed.
Example ex_u8_max_unsigned : a_apply u8 (AMax 1) 255 = (Some 255, true, 255).
Proof. vm_compute. reflexivity. Qed.
Example ex_i8_min_boundary : a_apply i8 (AMin 127) 128 = (Some 128, true, 128).
Proof. vm_compute. reflexivity. Qed.
Example ex_i8_nand : a_apply i8 (ANand 255) 15 = (Some 240, true, 15).
Proof. vm_compute. reflexivity. Qed.
Example ex_u8_nand_zero : a_apply u8 (ANand 0) 0 = (Some 255, true, 0).
Proof. vm_compute. reflexivity. Qed.
Example ex_i128_add_wrap :
  a_apply i128 (AAdd 1) (2 ^ 127 - 1) = (Some (2 ^ 127), true, 2 ^ 127 - 1).
Proof. vm_compute. reflexivity. Qed.
Example ex_cas_fail : a_apply u64 (ACas 5 7) 6 = (None, false, 6).
Proof. vm_compute. reflexivity. Qed.
Example ex_cas_ok : a_apply u64 (ACas 6 7) 6 = (Some 7, true, 6).
Proof. vm_compute. reflexivity. Qed.
Example ex_std_sem_i8_add : std_sem i8 (AAdd 1) 127 = (Some 128, true, 127) /\ decode i8 128 = (-128)%Z.
Proof. split; vm_compute; reflexivity. Qed.

(* the range hypotheses of atomic_op_std are needed: outside them the model is not std *)
Example ex_out_of_range_and : a_apply u8 (AAnd 511) 511 <> std_sem u8 (AAnd 511) 511.
Proof. vm_compute. discriminate. Qed.

(* ========================================================================= *)
(*  6. Indivisibility: the whole operation is ONE Atomic block                *)
(* ========================================================================= *)

(* the block of `Lang.ThreadOps.atomic_code`, named (see atomic_code_shape right below: the code
   of an atomic operation is `Switch` followed by exactly this one block) *)
Definition atomic_block (a : nat) (ty : aty) (o : aop) : exec -> store -> option (exec * store * list N) :=
  fun e s =>
    match me e, get_obj s a with
    | Some m, Some (OAtomic v c) =>
      let '(newv, okflag, ret) := a_apply ty o v in
      let e1 := if a_exhales o then exhale e m c else Some e in
      match e1 with
      | None => None
      | Some e1 =>
        if a_inhales ty o v then
          match inhale e1 m c with
          | Some (e2, c') => Some (e2, set_obj s a (OAtomic (match newv with Some x => x | None => v end) c'), [b2n okflag; ret])
          | None => None
          end
        else Some (e1, set_obj s a (OAtomic (match newv with Some x => x | None => v end) c), [b2n okflag; ret])
      end
    | _, _ => None
    end.

Definition atomic_kont (k : bool -> N -> code) : list N -> code :=
  fun a => match a with [f; r] => k (N.eqb f 1) r | _ => Panic end.

Lemma atomic_code_shape : forall a ty o k,
  atomic_code a ty o k = Switch (Atomic (atomic_block a ty o) (atomic_kont k)).
Proof. reflexivity. Qed.

(* run_seg after the scheduling point: the block, then the continuation on its two answers *)
Lemma atomic_code_run : forall {SS : Type} (sch : scheduler SS) (ms : max_steps) a ty o k w st,
  exists body, atomic_code a ty o k = Switch body /\
  run_seg sch ms body w st
  = match atomic_block a ty o (w_e w) (w_s w) with
    | None => (w, st, SegPanic)
    | Some (e', s', ans) => run_seg sch ms (atomic_kont k ans) (mkWorld e' s' (w_conts w) (w_trace w)) st
    end.
Proof.
  intros SS sch ms a ty o k w st. eexists. split; [apply atomic_code_shape|].
  cbn [run_seg]. destruct (atomic_block a ty o (w_e w) (w_s w)) as [[[e' s'] ans]|]; reflexivity.
Qed.

Lemma get_set_same_atomic : forall (st : store) i o o0,
  get_obj st i = Some o0 -> get_obj (set_obj st i o) i = Some o.
Proof.
  unfold get_obj. induction st as [|x r IH]; intros i o o0 Hg.
  - destruct i; discriminate Hg.
  - destruct i as [|j]; cbn [set_obj nth_error] in *; [reflexivity|eapply IH; eassumption].
Qed.

(* read-modify-write in one block: the value left in the variable and the value returned are
   functions (a_apply, hence std_sem) of the value found in the variable by this very block;
   nothing can run in between because a block contains no scheduling point *)
Theorem atomic_rmw_atomic : forall a ty o e s e' s' ans,
  atomic_block a ty o e s = Some (e', s', ans) ->
  exists v c c',
    get_obj s a = Some (OAtomic v c)
    /\ get_obj s' a = Some (OAtomic (match fst (fst (a_apply ty o v)) with Some x => x | None => v end) c')
    /\ ans = [b2n (snd (fst (a_apply ty o v))); snd (a_apply ty o v)].
Proof.
  intros a ty o e s e' s' ans Hb. unfold atomic_block in Hb.
  destruct (me e) as [m|]; [|discriminate].
  destruct (get_obj s a) as [[v c| | | | | | | | | | | | ]|] eqn:Hg; try discriminate.
  destruct (a_apply ty o v) as [[newv okflag] ret] eqn:Ha.
  destruct (if a_exhales o then exhale e m c else Some e) as [e1|]; [|discriminate].
  destruct (a_inhales ty o v).
  - destruct (inhale e1 m c) as [[e2 c']|]; [|discriminate]. injection Hb as <- <- <-.
    exists v, c, c'. rewrite Ha. cbn [fst snd].
    split; [reflexivity|]. split; [eapply get_set_same_atomic; eassumption|reflexivity].
  - injection Hb as <- <- <-.
    exists v, c, c. rewrite Ha. cbn [fst snd].
    split; [reflexivity|]. split; [eapply get_set_same_atomic; eassumption|reflexivity].
Qed.

(* with std_sem in place of the model *)
Corollary atomic_block_std : forall a ty o e s e' s' ans,
  atomic_block a ty o e s = Some (e', s', ans) ->
  valid_ty ty -> args_in_range ty o ->
  (forall v c, get_obj s a = Some (OAtomic v c) -> bits_ok ty v) ->
  exists v c c',
    get_obj s a = Some (OAtomic v c)
    /\ get_obj s' a = Some (OAtomic (match fst (fst (std_sem ty o v)) with Some x => x | None => v end) c')
    /\ ans = [b2n (snd (fst (std_sem ty o v))); snd (std_sem ty o v)]
    /\ bits_ok ty (match fst (fst (std_sem ty o v)) with Some x => x | None => v end).
Proof.
  intros a ty o e s e' s' ans Hb Hv Hargs Hrange.
  destruct (atomic_rmw_atomic _ _ _ _ _ _ _ _ Hb) as [v [c [c' [Hg [Hg' Hans]]]]].
  pose proof (Hrange v c Hg) as Hbv.
  exists v, c, c'. rewrite <- (atomic_op_std ty o v Hv Hbv Hargs).
  split; [assumption|]. split; [assumption|]. split; [assumption|].
  destruct (a_apply ty o v) as [[newv okflag] ret] eqn:Ha. cbn [fst snd].
  destruct newv as [x|]; [|assumption].
  eapply a_apply_in_range; eassumption.
Qed.

(* ========================================================================= *)
(*  7. One total order: the atomic operations on a variable, in the order in  *)
(*     which their blocks run (interleaved with anything that leaves the      *)
(*     variable alone), return what a sequential std atomic returns           *)
(* ========================================================================= *)

(* the observed history of variable `a`: operations with their answers, oldest first *)
Inductive atomic_trace (a : nat) (ty : aty) : store -> list (aop * list N) -> store -> Prop :=
| at_done : forall s, atomic_trace a ty s [] s
| at_other : forall s s1 tr s2,
    get_obj s1 a = get_obj s a -> atomic_trace a ty s1 tr s2 -> atomic_trace a ty s tr s2
| at_op : forall s o e e' s1 ans tr s2,
    atomic_block a ty o e s = Some (e', s1, ans) ->
    atomic_trace a ty s1 tr s2 -> atomic_trace a ty s ((o, ans) :: tr) s2.

(* the sequential specification: thread the value through std_sem, checking every answer *)
Fixpoint seq_spec (ty : aty) (v : N) (tr : list (aop * list N)) : option N :=
  match tr with
  | [] => Some v
  | (o, ans) :: r =>
    let '(newv, ok, ret) := std_sem ty o v in
    match ans with
    | [f; x] => if N.eqb f (b2n ok) && N.eqb x ret
                then seq_spec ty (match newv with Some n => n | None => v end) r
                else None
    | _ => None
    end
  end.

Theorem atomic_trace_linearizable : forall a ty s tr s',
  atomic_trace a ty s tr s' ->
  valid_ty ty -> Forall (fun x => args_in_range ty (fst x)) tr ->
  forall v c, get_obj s a = Some (OAtomic v c) -> bits_ok ty v ->
  exists v' c', get_obj s' a = Some (OAtomic v' c') /\ bits_ok ty v' /\ seq_spec ty v tr = Some v'.
Proof.
  intros a ty s tr s' Htr Hv. induction Htr as [s|s s1 tr s2 Hsame Htr IH|s o e e' s1 ans tr s2 Hb Htr IH];
    intros Hargs v c Hg Hbv.
  - exists v, c. auto.
  - apply IH with (c := c); [assumption|rewrite Hsame; assumption|assumption].
  - inversion Hargs as [|x l Ho Hrest]; subst. cbn [fst] in Ho.
    assert (Hrange : forall v0 c0, get_obj s a = Some (OAtomic v0 c0) -> bits_ok ty v0).
    { intros v0 c0 Hg0. rewrite Hg in Hg0. injection Hg0 as <- <-. assumption. }
    destruct (atomic_block_std _ _ _ _ _ _ _ _ Hb Hv Ho Hrange) as [v0 [c0 [c1 [Hg0 [Hg1 [Hans Hb1]]]]]].
    rewrite Hg in Hg0. injection Hg0 as <- <-.
    destruct (IH Hrest _ _ Hg1 Hb1) as [v' [c' [Hg' [Hbv' Hspec]]]].
    exists v', c'. split; [assumption|]. split; [assumption|].
    cbn [seq_spec]. destruct (std_sem ty o v) as [[newv ok] ret]. cbn [fst snd] in *.
    subst ans. rewrite !N.eqb_refl. cbn [andb]. exact Hspec.
Qed.
