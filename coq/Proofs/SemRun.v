(* C18 over arbitrary sequences of semaphore blocks.  Every function of Prim/Semaphore.v is one
   atomic block (the code between two scheduling points), so a run of the program restricted to
   one semaphore is a sequence of such blocks, each executed by whatever task is current, with
   arbitrary changes of the engine state in between (OpEnv).  This subsumes all interleavings. *)
From Coq Require Import List NArith Bool Arith Lia.
From SV Require Import Clock.VClock Prim.Objects Engine.Exec Prim.Semaphore Prim.SemInv Proofs.SemBase Proofs.SemProofs.
Import ListNotations.
Open Scope N_scope.

(* the quantity that never changes: permits available + permits handed out + permits yet to come back *)
Definition balance (st : run_state) : N := sm_avail (rs_s st) + granted (rs_s st) + rs_taken st.

Lemma step_preserves : forall st op st',
  step st op = Some st' -> sem_wf (rs_s st) ->
  sem_wf (rs_s st') /\
  (fair_head (rs_s st) -> fair_head (rs_s st')) /\
  balance st' + rs_released st = balance st + rs_released st' /\
  sm_fair (rs_s st') = sm_fair (rs_s st).
Proof.
  intros [e s tk rl] op st' H Hwf; unfold balance; cbn [rs_e rs_s rs_taken rs_released] in *.
  destruct op; cbn [step rs_e rs_s rs_taken rs_released] in H.
  - destruct (sem_try_acquire e s k) as [[[e' s'] r]|] eqn:Hop; [|discriminate]. inversion H; subst; clear H.
    cbn [rs_s rs_taken rs_released].
    split; [eapply sem_try_acquire_wf; eauto|]. split; [eapply sem_try_acquire_fair_head; eauto|].
    pose proof (sem_try_acquire_conservation _ _ _ _ _ _ Hop) as Hc.
    split; [lia|]. apply (sem_try_acquire_frame _ _ _ _ _ _ Hop).
  - destruct (sem_release e s k) as [[e' s']|] eqn:Hop; [|discriminate]. inversion H; subst; clear H.
    cbn [rs_s rs_taken rs_released].
    split; [eapply sem_release_wf; eauto|]. split; [eapply sem_release_fair_head; eauto|].
    pose proof (sem_release_conservation _ _ _ _ _ Hop Hwf) as Hc.
    split; [lia|]. apply (sem_release_frame _ _ _ _ _ Hop Hwf).
  - destruct (sem_new_waiter e s k) as [[s' wid]|] eqn:Hop; [|discriminate]. inversion H; subst; clear H.
    cbn [rs_s rs_taken rs_released].
    split; [eapply sem_new_waiter_wf; eauto|]. split; [eapply sem_new_waiter_fair_head; eauto|].
    destruct (sem_new_waiter_spec _ _ _ _ _ Hop) as (Ha & _ & _ & _ & Hf & Hg & _).
    split; [lia|exact Hf].
  - destruct (sem_poll e s wid wk) as [[[e' s'] r]|] eqn:Hop; [|discriminate]. inversion H; subst; clear H.
    cbn [rs_s rs_taken rs_released].
    split; [eapply sem_poll_wf; eauto|]. split; [eapply sem_poll_fair_head; eauto|].
    pose proof (sem_poll_conservation _ _ _ _ _ _ _ Hop Hwf) as Hc.
    split; [lia|].
    destruct (sem_poll_inv _ _ _ _ _ _ _ Hop) as (w & m & Hg & Hme & Hcase).
    destruct r.
    + inversion Hcase as [Hh Hq He Hs| | |e1 s1 e2 s2 Hh Hcl Hwk Hor Hap Hrm Hs Hrb| ]; subst; [reflexivity|].
      destruct (poll_acquired_facts _ _ _ _ _ _ _ _ Hwf Hg Hh Hor Hap Hrm) as (_ & _ & _ & _ & Hf2 & _).
      exact Hf2.
    + destruct (sem_poll_ready_err _ _ _ _ _ _ _ Hop Hg) as (_ & -> & _). reflexivity.
    + inversion Hcase as [ | |? ? ? ? ? ? Hs| |? ? ? ? ? ? Henq]; subst; [reflexivity|].
      destruct (wt_queued w); [subst s'; reflexivity|].
      destruct (enqueue_waiter_frame _ _ _ Henq) as (_ & _ & _ & Hf & _). exact Hf.
  - destruct (sem_drop_acquire e s wid completed) as [[[e' s'] r]|] eqn:Hop; [|discriminate].
    inversion H; subst; clear H. cbn [rs_s rs_taken rs_released].
    split; [eapply sem_drop_acquire_wf; eauto|]. split; [eapply sem_drop_acquire_fair_head; eauto|].
    pose proof (sem_drop_acquire_conservation _ _ _ _ _ _ _ Hop Hwf) as Hc.
    split; [lia|].
    destruct (sem_drop_acquire_inv _ _ _ _ _ _ _ Hop)
      as (w & Hg & [(Hq & Hrm & _)|[(_ & _ & _ & _ & -> & _)|(_ & _ & _ & -> & _)]]); auto.
    apply (remove_waiter_frame _ _ _ _ _ Hrm Hwf).
  - destruct (sem_close e s) as [[e' s']|] eqn:Hop; [|discriminate]. inversion H; subst; clear H.
    cbn [rs_s rs_taken rs_released].
    destruct (sem_close_spec _ _ _ _ Hop Hwf) as (Hwf' & _ & Hq & _ & Ha & Hg & Hf & _).
    split; [exact Hwf'|]. split; [intros _ _; unfold head_blocked; rewrite Hq; exact I|].
    split; [lia|exact Hf].
  - destruct (acquire_permits e s k) as [[[e' s'] r]|] eqn:Hop; [|discriminate]. inversion H; subst; clear H.
    cbn [rs_s rs_taken rs_released].
    split; [eapply acquire_permits_wf; eauto|].
    pose proof (acquire_permits_conservation _ _ _ _ _ _ Hop) as Hc.
    pose proof (acquire_permits_spec _ _ _ _ _ _ Hop) as (_ & _ & _ & Hr).
    assert (Hsh : same_shape s s' /\ sm_avail s' <= sm_avail s).
    { destruct r.
      - destruct Hr as (_ & _ & _ & Hav & Hsh & _). split; [exact Hsh|lia].
      - destruct Hr as (_ & -> & _). split; [apply same_shape_refl|lia].
      - destruct Hr as (_ & -> & _). split; [apply same_shape_refl|lia]. }
    destruct Hsh as ((Hq & Ht & _ & Hf) & Hle).
    split.
    { intros Hfh. eapply fair_head_mono; eauto. intros x w Hg. exists w.
      rewrite (get_waiter_wtab s s' x Ht). auto. }
    split; [lia|exact Hf].
  - destruct (unblock_front (length (sm_queue s)) e s) as [[e' s']|] eqn:Hop; [|discriminate].
    inversion H; subst; clear H. cbn [rs_s rs_taken rs_released].
    split; [eapply unblock_front_wf; eauto|].
    split; [intros _ _; eapply unblock_front_head; [exact Hop|apply Nat.le_refl]|].
    pose proof (unblock_front_frame _ _ _ _ _ Hop) as (_ & Hf & Hc & _).
    split; [lia|exact Hf].
  - destruct (reblock_if_unfair e s) as [e'|] eqn:Hop; [|discriminate]. inversion H; subst; clear H.
    cbn [rs_s rs_taken rs_released]. split; [exact Hwf|]. split; [auto|]. split; [lia|reflexivity].
  - destruct (remove_waiter e s wid) as [[e' s']|] eqn:Hop; [|discriminate]. inversion H; subst; clear H.
    cbn [rs_s rs_taken rs_released].
    split; [eapply remove_waiter_wf; eauto|]. split; [eapply remove_waiter_fair_head; eauto|].
    destruct (remove_waiter_frame _ _ _ _ _ Hop Hwf) as (_ & Hf & Hc & _).
    split; [lia|exact Hf].
  - inversion H; subst; clear H. cbn [rs_s rs_taken rs_released].
    split; [exact Hwf|]. split; [auto|]. split; [lia|reflexivity].
Qed.

Lemma run_preserves : forall ops st st',
  run st ops = Some st' -> sem_wf (rs_s st) ->
  sem_wf (rs_s st') /\
  (fair_head (rs_s st) -> fair_head (rs_s st')) /\
  balance st' + rs_released st = balance st + rs_released st' /\
  sm_fair (rs_s st') = sm_fair (rs_s st).
Proof.
  intros ops; induction ops as [|op r IH]; intros st st' H Hwf; cbn [run] in H.
  - inversion H; subst. split; [exact Hwf|]. split; [auto|]. split; reflexivity.
  - destruct (step st op) as [st1|] eqn:Hstep; [|discriminate].
    destruct (step_preserves _ _ _ Hstep Hwf) as (Hwf1 & Hfh1 & Hb1 & Hf1).
    destruct (IH _ _ H Hwf1) as (Hwf' & Hfh' & Hb' & Hf').
    split; [exact Hwf'|]. split; [auto|]. split; [lia|congruence].
Qed.

(* Over any run that does not panic, from a freshly created semaphore with n permits:
   the invariant holds, a strictly fair queue never has a head that fits, and
   available + granted through the queue + taken directly = n + released. *)
Theorem run_from_new : forall e n fair c ops st',
  run (init_state e (sem_new n fair c)) ops = Some st' ->
  sem_wf (rs_s st') /\ fair_head (rs_s st') /\
  sm_avail (rs_s st') + granted (rs_s st') + rs_taken st' = n + rs_released st' /\
  sm_fair (rs_s st') = fair.
Proof.
  intros e n fair c ops st' H.
  destruct (run_preserves _ _ _ H (wf_new n fair c)) as (Hwf & Hfh & Hb & Hf).
  split; [exact Hwf|]. split; [apply Hfh, fair_head_new|].
  unfold balance, init_state, granted in Hb.
  cbn [rs_s rs_taken rs_released sm_avail sem_new sem_const_new sm_wtab sum_held] in Hb.
  split; [|exact Hf]. fold (granted (rs_s st')) in Hb. lia.
Qed.

Theorem run_from_const_new : forall e n fair ops st',
  run (init_state e (sem_const_new n fair)) ops = Some st' ->
  sem_wf (rs_s st') /\ fair_head (rs_s st') /\
  sm_avail (rs_s st') + granted (rs_s st') + rs_taken st' = n + rs_released st' /\
  sm_fair (rs_s st') = fair.
Proof.
  intros e n fair ops st' H.
  destruct (run_preserves _ _ _ H (wf_const_new n fair)) as (Hwf & Hfh & Hb & Hf).
  split; [exact Hwf|]. split; [apply Hfh, fair_head_const_new|].
  unfold balance, init_state, granted in Hb.
  cbn [rs_s rs_taken rs_released sm_avail sem_new sem_const_new sm_wtab sum_held] in Hb.
  split; [|exact Hf]. fold (granted (rs_s st')) in Hb. lia.
Qed.
