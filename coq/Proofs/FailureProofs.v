From Coq Require Import List Arith Bool Lia.
From SV Require Import Engine.Failure.
Import ListNotations.

Lemma get_set_tls l t x : get_tls (set_tls l t x) t = x.
Proof.
  induction l as [|[t' y] r IH]; cbn [set_tls get_tls].
  - now rewrite Nat.eqb_refl.
  - destruct (Nat.eqb t t') eqn:E; cbn [get_tls]; [now rewrite Nat.eqb_refl|]. now rewrite E.
Qed.

Definition expected (r : run) : list emission :=
  match r_fail r with None => [] | Some _ => emit (r_cfg r) end.

(* after init_panic_hook the thread has no marker and its own configuration active *)
Lemma init_fresh p t cfg :
  let p' := init_panic_hook p t cfg in
  hook_installed p' = true /\ get_tls (threads p') t = mkTls None (Some cfg).
Proof. cbn. split; [reflexivity|apply get_set_tls]. Qed.

(* The property: whatever happened before in the process (any runs, any configurations, any threads),
   a failing run emits exactly one schedule in the manner of its OWN configuration, a run with
   persistence disabled or a passing run emits nothing. *)
Theorem run_emits_own p r : fst (do_run p r) = expected r.
Proof.
  unfold do_run, expected. destruct (r_fail r) as [[k len]|]; [|reflexivity].
  set (p0 := passing_execs p (r_thread r) (r_cfg r) (r_passing_before r)).
  destruct (init_fresh p0 (r_thread r) (r_cfg r)) as [Hi Ht].
  set (p1 := init_panic_hook p0 (r_thread r) (r_cfg r)) in *.
  assert (Hpf : persist_failure p1 (r_thread r) (r_cfg r) len =
                (emit (r_cfg r), mkP true (set_tls (threads p1) (r_thread r) (mkTls (Some len) (Some (r_cfg r)))))).
  { unfold persist_failure. rewrite Ht. cbn [persisted_at active]. now rewrite Hi. }
  set (p2 := mkP true (set_tls (threads p1) (r_thread r) (mkTls (Some len) (Some (r_cfg r))))) in *.
  assert (Hsup : forall c, persist_failure p2 (r_thread r) c len = ([], p2)).
  { intros c. unfold persist_failure. unfold p2 at 1. cbn [threads]. rewrite get_set_tls. cbn [persisted_at]. now rewrite Nat.eqb_refl. }
  assert (Hhook1 : hook p1 (r_thread r) len = (emit (r_cfg r), p2)).
  { unfold hook. rewrite Hi, Ht. cbn [active]. exact Hpf. }
  assert (Hhook2 : hook p2 (r_thread r) len = ([], p2)).
  { unfold hook. cbn [hook_installed p2]. unfold p2 at 1. cbn [threads]. rewrite get_set_tls. cbn [active]. apply Hsup. }
  destruct k.
  - rewrite Hhook1. rewrite Hsup. cbn. now rewrite app_nil_r.
  - rewrite Hpf. rewrite Hhook2. cbn. now rewrite app_nil_r.
  - rewrite Hpf. rewrite Hhook2. cbn. now rewrite app_nil_r.
Qed.

Theorem history_emits_own : forall h p, fst (do_history p h) = map expected h.
Proof.
  induction h as [|r rest IH]; intros p; cbn [do_history map]; [reflexivity|].
  pose proof (run_emits_own p r) as Hr. destruct (do_run p r) as [e p'] eqn:E. cbn in Hr.
  specialize (IH p'). destruct (do_history p' rest) as [es p''] eqn:E2. cbn in *. now rewrite Hr, IH.
Qed.

(* the code before the repair violated it: second failing Print run after a None run of equal schedule length *)
Example old_code_refuted :
  let h := [mkRun 0 PNone (Some (FkDeadlock, 1)) 0; mkRun 0 PPrint (Some (FkDeadlock, 1)) 0] in
  fst (do_history_old (mkPO None []) h) = [[]; []] /\ map expected h = [[]; [EmStderr]].
Proof. vm_compute. split; reflexivity. Qed.
Example old_code_refuted_hook_config :
  let h := [mkRun 0 PNone None 0; mkRun 0 PFile (Some (FkTaskPanic, 2)) 0] in
  fst (do_history_old (mkPO None []) h) = [[]; []] /\ map expected h = [[]; [EmFile]].
Proof. vm_compute. split; reflexivity. Qed.
