From Coq Require Import List Arith Bool Lia.
From SV Require Import Engine.Failure.
Import ListNotations.

Lemma get_set_tls l t x : get_tls (set_tls l t x) t = x.
Proof.
  induction l as [|[t' y] r IH]; cbn [set_tls get_tls].
  - now rewrite Nat.eqb_refl.
  - destruct (Nat.eqb t t') eqn:E; cbn [get_tls]; [now rewrite Nat.eqb_refl|]. now rewrite E.
Qed.

Definition expected (r : run) : list emission :=
  match r_fail r with None => [] | Some _ => emit (r_cfg r) end.

(* after init_panic_hook the thread has no marker and its own configuration active *)
Lemma init_fresh p t cfg :
  let p' := init_panic_hook p t cfg in
  hook_installed p' = true /\ get_tls (threads p') t = mkTls None (Some cfg).
Proof. cbn. split; [reflexivity|apply get_set_tls]. Qed.

(* The property: whatever happened before in the process (any runs, any configurations, any threads),
   a failing run emits exactly one schedule in the manner of its OWN configuration, a run with
   persistence disabled or a passing run emits nothing. *)
Theorem run_emits_own p r : fst (do_run p r) = expected r.
Proof.
  unfold do_run, expected. destruct (r_fail r) as [[k len]|]; [|reflexivity].
  set (p0 := passing_execs p (r_thread r) (r_cfg r) (r_passing_before r)).
  destruct (init_fresh p0 (r_thread r) (r_cfg r)) as [Hi Ht].
  set (p1 := init_panic_hook p0 (r_thread r) (r_cfg r)) in *.
  assert (Hpf : persist_failure p1 (r_thread r) (r_cfg r) len =
                (emit (r_cfg r), mkP true (set_tls (threads p1) (r_thread r) (mkTls (Some len) (Some (r_cfg r)))))).
  { unfold persist_failure. rewrite Ht. cbn [persisted_at active]. now rewrite Hi. }
  set (p2 := mkP true (set_tls (threads p1) (r_thread r) (mkTls (Some len) (Some (r_cfg r))))) in *.
  assert (Hsup : forall c, persist_failure p2 (r_thread r) c len = ([], p2)).
  { intros c. unfold persist_failure. unfold p2 at 1. cbn [threads]. rewrite get_set_tls. cbn [persisted_at]. now rewrite Nat.eqb_refl. }
  assert (Hhook1 : hook p1 (r_thread r) len = (emit (r_cfg r), p2)).
  { unfold hook. rewrite Hi, Ht. cbn [active]. exact Hpf. }
  assert (Hhook2 : hook p2 (r_thread r) len = ([], p2)).
  { unfold hook. cbn [hook_installed p2]. unfold p2 at 1. cbn [threads]. rewrite get_set_tls. cbn [active]. apply Hsup. }
  destruct k.
  - rewrite Hhook1. rewrite Hsup. cbn. now rewrite app_nil_r.
  - rewrite Hpf. rewrite Hhook2. cbn. now rewrite app_nil_r.
  - rewrite Hpf. rewrite Hhook2. cbn. now rewrite app_nil_r.
Qed.

Theorem history_emits_own : forall h p, fst (do_history p h) = map expected h.
Proof.
  induction h as [|r rest IH]; intros p; cbn [do_history map]; [reflexivity|].
  pose proof (run_emits_own p r) as Hr. destruct (do_run p r) as [e p'] eqn:E. cbn in Hr.
  specialize (IH p'). destruct (do_history p' rest) as [es p''] eqn:E2. cbn in *. now rewrite Hr, IH.
Qed.

(* the code before the repair violated it: second failing Print run after a None run of equal schedule length *)
Example old_code_refuted :
  let h := [mkRun 0 PNone (Some (FkDeadlock, 1)) 0; mkRun 0 PPrint (Some (FkDeadlock, 1)) 0] in
  fst (do_history_old (mkPO None []) h) = [[]; []] /\ map expected h = [[]; [EmStderr]].
Proof. vm_compute. split; reflexivity. Qed.
Example old_code_refuted_hook_config :
  let h := [mkRun 0 PNone None 0; mkRun 0 PFile (Some (FkTaskPanic, 2)) 0] in
  fst (do_history_old (mkPO None []) h) = [[]; []] /\ map expected h = [[]; [EmFile]].
Proof. vm_compute. split; reflexivity. Qed.

(* ================= PortfolioRunner ================= *)
Lemma pf_join_acc rs : forall acc,
  fold_left (fun acc r => match r with Some e => Some e | None => acc end) rs acc =
  match pf_join rs with Some e => Some e | None => acc end.
Proof.
  unfold pf_join. induction rs as [|r rs IH]; intros acc; cbn [fold_left]; [reflexivity|].
  rewrite IH. rewrite (IH (match r with Some e => Some e | None => None end)).
  destruct (fold_left _ rs None); [reflexivity|]. destruct r; reflexivity.
Qed.

Lemma pf_join_cons r rs : pf_join (r :: rs) = match pf_join rs with Some e => Some e | None => r end.
Proof.
  unfold pf_join at 1. cbn [fold_left]. rewrite pf_join_acc. destruct (pf_join rs); [reflexivity|]. destruct r; reflexivity.
Qed.

Lemma pf_join_none rs : pf_join rs = None <-> Forall (fun r => r = None) rs.
Proof.
  induction rs as [|r rs IH]; [split; [constructor|reflexivity]|].
  rewrite pf_join_cons. split.
  - intros H. destruct (pf_join rs) eqn:E; [discriminate|]. constructor; [exact H|]. now apply IH.
  - intros H. inversion H as [|? ? Hr Hrs]; subst. apply IH in Hrs. now rewrite Hrs.
Qed.

Lemma pf_join_in rs e : pf_join rs = Some e -> In (Some e) rs.
Proof.
  induction rs as [|r rs IH]; [discriminate|]. rewrite pf_join_cons.
  destruct (pf_join rs) as [e'|] eqn:E.
  - intros H. injection H as <-. right. now apply IH.
  - intros ->. now left.
Qed.

Lemma existsb_is_some rs : existsb is_some rs = is_some (pf_join rs).
Proof.
  induction rs as [|r rs IH]; [reflexivity|]. rewrite pf_join_cons. cbn [existsb]. rewrite IH.
  destruct (pf_join rs); cbn [is_some]; [apply orb_true_r|]. now rewrite orb_false_r.
Qed.

Lemma portfolio_run_eq stop rs :
  portfolio_run stop rs = match pf_join rs with Some e => PfMember e | None => PfOk end.
Proof.
  unfold portfolio_run, pf_stop_signal. rewrite existsb_is_some.
  destruct stop; cbn [negb orb andb]; [|reflexivity]. now rewrite eqb_reflx.
Qed.

(* a portfolio run fails exactly when one of its members does ... *)
Theorem portfolio_passes_iff stop rs : portfolio_run stop rs = PfOk <-> Forall (fun r => r = None) rs.
Proof.
  rewrite portfolio_run_eq, <- pf_join_none. destruct (pf_join rs); split; intros H; try reflexivity; discriminate.
Qed.
(* ... by re-raising the payload of a member (the one joined last among the failing ones) ... *)
Theorem portfolio_payload_of_member stop rs e : portfolio_run stop rs = PfMember e -> In (Some e) rs.
Proof.
  rewrite portfolio_run_eq. destruct (pf_join rs) as [e'|] eqn:E; [|discriminate].
  intros H. injection H as <-. now apply pf_join_in.
Qed.
(* ... and never with its own internal assertion *)
Theorem portfolio_never_asserts stop rs : portfolio_run stop rs <> PfAssert.
Proof. rewrite portfolio_run_eq. destruct (pf_join rs); discriminate. Qed.

Example portfolio_old_refuted : portfolio_run_old false [None; Some 7; None] = PfAssert /\ portfolio_run false [None; Some 7; None] = PfMember 7.
Proof. vm_compute. split; reflexivity. Qed.

(* ================= ungraceful-shutdown configuration ================= *)
Lemma ug_get_set l t x : ug_get (ug_set l t x) t = x.
Proof.
  induction l as [|[t' y] r IH]; cbn [ug_set ug_get].
  - now rewrite Nat.eqb_refl.
  - destruct (Nat.eqb t t') eqn:E; cbn [ug_get]; [now rewrite Nat.eqb_refl|]. now rewrite E.
Qed.

(* whatever ran before in the process, on whatever threads and with whatever settings, a run reads its own settings *)
Theorem ug_effective_is_own h s t cfg : fst (ug_run (ug_history s h) t cfg) = cfg.
Proof. unfold ug_run. cbn [fst]. apply ug_get_set. Qed.

(* hence a run with the default settings always re-raises the panicking task's own payload *)
Theorem default_run_reraises_own h s t sw own :
  panic_result (fst (ug_run (ug_history s h) t ug_default)) sw own = PayOwn own.
Proof. rewrite ug_effective_is_own. reflexivity. Qed.

Example ug_history_example :
  fst (ug_run (ug_history [] [(0, mkUg true true); (1, mkUg true false); (0, mkUg false true)]) 0 ug_default) = ug_default
  /\ ug_get (ug_history [] [(0, mkUg true true); (1, mkUg true false)]) 0 = mkUg true true.
Proof. vm_compute. split; reflexivity. Qed.
